-- Root of the library: everything below is built by `lake build`.
import FractopoModel.Basic.PyPrelude
import FractopoModel.Generated.BranchIdentity
import FractopoModel.Generated.DegreeToClass
import FractopoModel.Generated.LengthFilters
import FractopoModel.Generated.SnapConstants
import FractopoModel.Generated.BoundaryWeight
import FractopoModel.Generated.ParamTable
import FractopoModel.Generated.TopologyParameters
import FractopoModel.Generated.IsSet
import FractopoModel.Generated.DetermineSet
import FractopoModel.Generated.AzimuthPost
import FractopoModel.Generated.IsAzimuthClose
import FractopoModel.Generated.DefaultAzimuthSets
