-- Root of the library: everything below is built by `lake build`.
import FractopoModel.Basic.PyPrelude
import FractopoModel.Basic.Geom
import FractopoModel.Basic.Wire
import FractopoModel.Props.C01
import FractopoModel.Props.C02
import FractopoModel.Props.C05
import FractopoModel.Props.C07
import FractopoModel.Props.C08
import FractopoModel.Props.C09
import FractopoModel.Props.C12
import FractopoModel.Props.C13
import FractopoModel.Props.C14
import FractopoModel.Props.C15
import FractopoModel.Props.C16
import FractopoModel.Props.C17
import FractopoModel.Props.C18
import FractopoModel.Props.C20
