import FractopoModel.Basic.Wire
import FractopoModel.Basic.PyPrelude
import FractopoModel.Model.Topology
import FractopoModel.Spec.Classes
import FractopoModel.Spec.SandersonNixon
import FractopoModel.Spec.Azimuth
import FractopoModel.Model.Subsampling
import FractopoModel.Model.Contacts
import FractopoModel.Model.Relationships
import FractopoModel.Spec.Validators
import FractopoModel.Spec.Defects
import FractopoModel.Model.Grid
import FractopoModel.Model.Cli
import FractopoModel.Model.Snap
import FractopoModel.Model.SnapLoop
/-!
# Model driver: runs the hand-written models and specs (never the regenerated
definitions, so that it builds whatever the state of /repo) behind a line protocol.
-/
open Wire

namespace Cmd

/-- spec instance of the degree decision (argument: number of *other* ends) -/
def specDeg2Class (n : Nat) : String := Spec.classOfDegree (n + 1)

/-- `topo t=<rat> areas=<area> branches=<a;b|a;b|…>`: node table and branch labels of the
Topology model instantiated with exact geometry. -/
def topo (a : Args) : Option String := do
  let t ← (a.get? "t") >>= parseRat?
  let areas ← (a.get? "areas") >>= parseArea?
  let bls ← (a.get? "branches") >>= parseLines?
  let bs : List (Topo.Branch Pt) ← bls.mapM fun l =>
    match l with
    | [p, q] => some ⟨p, q⟩
    | _ => none
  let t2 := t * t
  let nearB : Pt → Bool := fun p => areas.any fun row => decide (AreaRow.boundaryDist2 row p < t2) && !row.isEmpty
  let close : Pt → Pt → Bool := fun p q => decide (Pt.dist2 p q < t2)
  let nodes := Topo.collect bs
  let cls := Topo.nodeClass nearB specDeg2Class bs
  let labels := bs.map (Topo.branchLabel Spec.pairLabel close nodes cls)
  let nodeStr := ";".intercalate (nodes.map fun p => s!"{showPt p}:{cls p}:{Topo.mult bs p}")
  -- hypothesis `crisp` of theorem C05_branch_label: distinct nodes are at least the threshold apart
  let crisp := nodes.all fun p => nodes.all fun q => p == q || decide (Pt.dist2 p q ≥ t2)
  some s!"nodes={nodeStr} labels={";".intercalate (labels.map enc)} crisp={showBool crisp}"

def branchid (a : Args) : Option String := do
  let i ← (a.get? "i") >>= parseNat?
  let xy ← (a.get? "xy") >>= parseNat?
  let e ← (a.get? "e") >>= parseNat?
  some s!"label={enc (Spec.pairLabel i xy e)}"

def degclass (a : Args) : Option String := do
  let n ← (a.get? "n") >>= parseNat?
  some s!"class={Spec.classOfDegree n}"

def showVal : Val → String
  | .num q => showRat q
  | .nan => "nan"

/-- `params X= Y= I= E= tl= bl= area= circ= pi= sqrtv=`: the published definitions -/
def params (a : Args) : Option String := do
  let x ← (a.get? "X") >>= parseRat?
  let y ← (a.get? "Y") >>= parseRat?
  let i ← (a.get? "I") >>= parseRat?
  let e ← (a.get? "E") >>= parseRat?
  let tl ← (a.get? "tl") >>= parseRats?
  let bl ← (a.get? "bl") >>= parseRats?
  let area ← (a.get? "area") >>= parseRat?
  let circ ← (a.get? "circ") >>= parseBool?
  let pi ← (a.get? "pi") >>= parseRat?
  let sq ← (a.get? "sqrtv") >>= parseRat?
  let n : Spec.NetIn := ⟨x, y, i, e, tl, bl, area, circ, pi, fun _ => sq⟩
  let vals := Spec.paramNames.map fun k => s!"{enc k}:{match n.param k with | some v => showVal v | none => "missing"}"
  some s!"params={"|".intercalate vals}"

def bweight (a : Args) : Option String := do
  let c ← (a.get? "c") >>= parseInt?
  some s!"weight={match Spec.boundaryWeight c with | some w => toString w | none => "error"}"

/-- `azimuth d=<deg>`: spec azimuth -/
def azimuth (a : Args) : Option String := do
  let d ← (a.get? "d") >>= parseRat?
  some s!"az={showRat (Spec.azimuthMod d)}"

def parseRanges? (s : String) : Option (List (Rat × Rat)) :=
  if s.isEmpty then some [] else (s.splitOn ";").mapM fun t =>
    match t.splitOn "," with
    | [a, b] => do some (← parseRat? a, ← parseRat? b)
    | _ => none

/-- `detset v= ranges=lo,hi;lo,hi names=a;b loop=1` -/
def detset (a : Args) : Option String := do
  let v ← (a.get? "v") >>= parseRat?
  let ranges ← (a.get? "ranges") >>= parseRanges?
  let names := ((a.get? "names").getD "").splitOn ";"
  let loop ← (a.get? "loop") >>= parseBool?
  some (match Spec.setOf v loop names ranges with
    | some n => s!"set=ok:{n}"
    | none => "set=overlap")

/-- `bins w= az=<list>`: bin count, width, and the bin index of every azimuth -/
def bins (a : Args) : Option String := do
  let w ← (a.get? "w") >>= parseRat?
  if w ≤ 0 then none
  let az ← (a.get? "az") >>= parseRats?
  let idx := az.map fun x => match Spec.binIndex w x with | some i => toString i | none => "out"
  some s!"n={Spec.binCount w} bw={showRat (Spec.binWidth w)} idx={",".intercalate idx}"

/-- `hist edges=<list> vals=<list> w=<list>`: the prelude's `pyHistogram` (the `np.histogram` of the regenerated `determine_azimuth_bins`) -/
def hist (a : Args) : Option String := do
  let edges ← (a.get? "edges") >>= parseRats?
  let vals ← (a.get? "vals") >>= parseRats?
  let w ← (a.get? "w") >>= parseRats?
  some s!"heights={showRats (pyHistogram vals edges w)}"

/-- `group keys=a;b;a;b`: groups with the positions of their members -/
def group (a : Args) : Option String := do
  let ks := ((a.get? "keys").getD "").splitOn ";"
  let xs := ks.zip (List.range ks.length)
  let g := Subs.group xs
  some s!"groups={"|".intercalate (g.map fun (k, is) => s!"{k}:{showNats is}")}"

/-- documented aggregation: additive parameters are summed, everything else is an
area-weighted mean (hand-written table, from the statement of C20) -/
def specAggTable : List (String × String) :=
  ["Area", "Number of Branches", "Number of Branches (Real)", "Number of Traces", "Number of Traces (Real)", "Circle Count"].map (·, "SUM")

def parseCell? (s : String) : Option Subs.Cell :=
  if s.startsWith "n:" then (parseRat? (s.drop 2).toString).map .num
  else if s.startsWith "s:" then some (.str (s.drop 2).toString) else none

/-- `aggregate cols=a;b rows=<cell,cell;cell,cell>` (cells `n:<rat>` | `s:<text>`) -/
def aggregate (a : Args) : Option String := do
  let cols := (((a.get? "cols").getD "").splitOn ";").map dec
  let rows ← (((a.get? "rows").getD "").splitOn ";").mapM fun r => (r.splitOn ",").mapM parseCell?
  if rows.any (·.length != cols.length) then none
  let rowFns : List (String → Subs.Cell) := rows.map fun r => fun c =>
    match (cols.zip r).find? (·.1 == c) with | some p => p.2 | none => .str "missing"
  let out := Subs.aggregate specAggTable "MEAN" "Area" cols rowFns
  let sh : Subs.Agg → String
    | .sum q => s!"sum:{showRat q}"
    | .mean q => s!"mean:{showRat q}"
    | .fallback => "fallback"
    | .undefinedMean => "undef"
  some s!"agg={"|".intercalate (out.map fun (c, v) => s!"{enc c}={sh v}")}"

/-- `circle R= r= rmin= cx= cy= x= y=`: radius in range and sample circle inside target (exact) -/
def circle (a : Args) : Option String := do
  let R ← (a.get? "R") >>= parseRat?
  let r ← (a.get? "r") >>= parseRat?
  let rmin ← (a.get? "rmin") >>= parseRat?
  let c0 : Pt := ⟨← (a.get? "cx") >>= parseRat?, ← (a.get? "cy") >>= parseRat?⟩
  let c : Pt := ⟨← (a.get? "x") >>= parseRat?, ← (a.get? "y") >>= parseRat?⟩
  let inRange := decide (rmin ≤ r) && decide (r ≤ R)
  let inside := decide (r ≤ R) && decide (Pt.dist2 c c0 ≤ (R - r) * (R - r))
  some s!"inrange={showBool inRange} inside={showBool inside}"

/-- all polygons of an area frame (rows flattened): clipping uses their union -/
def allPolys (rows : List AreaRow) : List Polygon := rows.flatMap id

/-- `arr t= k= areas= traces=`: the exact arrangement of a valid map, or the reason it is not valid -/
def arr (a : Args) : Option String := do
  let t ← (a.get? "t") >>= parseRat?
  let k ← (a.get? "k") >>= parseRat?
  let areas ← (a.get? "areas") >>= parseArea?
  let traces ← (a.get? "traces") >>= parseLines?
  match Contacts.contacts traces (allPolys areas) t k with
  | .error e => some s!"invalid={enc e}"
  | .ok r =>
    let cs : Arr.CS Pt := r.events.map fun evs => evs.map fun e => ⟨e.p, e.role⟩
    let wf := Arr.WellFormed cs
    let nodes := Arr.nodes cs
    let brs := Arr.branches cs
    let nodeStr := ";".intercalate (nodes.map fun (p, c) => s!"{showPt p}:{c}")
    let brStr := ";".intercalate (brs.map fun b => s!"{enc (Arr.branchClass b)}:{showPt b.1.node}:{showPt b.2.node}")
    -- X/Y nodes with the pieces through them and the piece ending there (for C12)
    let evs := (r.events.zipIdx).flatMap fun (es, i) => es.map fun e => (i, e)
    let xyPts := (nodes.filter fun (_, c) => c == "X" || c == "Y").map (·.1)
    let xyStr := ";".intercalate (xyPts.map fun p =>
      let here := evs.filter fun (_, e) => e.p == p
      let thr := here.map (·.1)
      let ending := (here.find? fun (_, e) => e.role == .endAbut).map (·.1)
      let cls := if here.any (fun (_, e) => e.role == .onCross) then "X" else "Y"
      s!"{showPt p}:{cls}:{showNats thr}:{match ending with | some i => toString i | none => "-"}")
    -- hypothesis of C06_quiet_pass_identity / C01_snap_stage_identity on the clipped pieces
    let quiet := SnapL.quietMap .asc t (t * 20) r.pieces && SnapL.quietMap .desc t (t * 20) r.pieces
    some s!"valid=1 quiet={showBool quiet} wellformed={showBool wf} nodes={nodeStr} branches={brStr} pieces={showLines r.pieces} source={showNats r.source} xy={xyStr}"

/-- `clip areas= traces=`: exact clip pieces per trace -/
def clip (a : Args) : Option String := do
  let areas ← (a.get? "areas") >>= parseArea?
  let traces ← (a.get? "traces") >>= parseLines?
  let polys := allPolys areas
  let out := traces.map fun l => clipLine l polys
  -- isolated touch: a boundary contact of the trace that is not on any positive-length piece
  let touch := (traces.zip out).map fun (l, pcs) =>
    let rs := allRingSegs polys
    (segs l).any fun (a, b) => a != b && (cutParams a b rs).any fun t =>
      let p := Pt.lerp a b t
      (rs.any fun (c, d) => onSeg p c d) && !(pcs.any fun pc => (segs pc).any fun (u, v) => onSeg p u v)
  some s!"pieces={"#".intercalate (out.map showLines)} touch={",".intercalate (touch.map showBool)}"

/-- `rel names=a;b sets=<set of piece 0;…> nodes=<cls:through,…:ending|…>`: relationship table -/
def rel (a : Args) : Option String := do
  let names := ((a.get? "names").getD "").splitOn ";"
  let sets := (((a.get? "sets").getD "").splitOn ";").toArray
  let nodeToks := if ((a.get? "nodes").getD "").isEmpty then [] else ((a.get? "nodes").getD "").splitOn "|"
  let nodes : List Rel.Node ← nodeToks.mapM fun tok =>
    match tok.splitOn ":" with
    | [cls, thr, ending] => do
      let ts ← parseNats? thr
      let e := ending.toNat?
      some { cls := cls
             touch := fun s => ts.any fun i => sets.getD i "" == s
             endsIn := fun s => match e with | some i => sets.getD i "" == s | none => false }
    | _ => none
  let nonEmpty : String → Bool := fun s => sets.any (· == s)
  let rows := Rel.table nodes nonEmpty names
  some s!"rows={"|".intercalate (rows.map fun r => s!"{r.sets.1}~{r.sets.2}:{r.x}:{r.y}:{r.yrev}:{r.errors}")}"

/-- `intersect cls= l1= l2= p1=`: `determine_intersect` of the model -/
def intersect (a : Args) : Option String := do
  let cls ← a.get? "cls"
  let l1 ← (a.get? "l1") >>= parseBool?
  let l2 ← (a.get? "l2") >>= parseBool?
  let p1 ← (a.get? "p1") >>= parseBool?
  some (match Rel.intersectOf cls l1 l2 p1 "A" "B" with
    | .ok (x, y) => s!"sets={x}{y}"
    | .error _ => "sets=error")

/-- `grid xmin= ymin= xmax= ymax= w=`: rows, cols and the column-major cell list (exact) -/
def grid (a : Args) : Option String := do
  let xmin ← (a.get? "xmin") >>= parseRat?
  let ymin ← (a.get? "ymin") >>= parseRat?
  let xmax ← (a.get? "xmax") >>= parseRat?
  let ymax ← (a.get? "ymax") >>= parseRat?
  let w ← (a.get? "w") >>= parseRat?
  if w ≤ 0 then none
  let rows := ((ymax - ymin) / w).ceil.toNat
  let cols := ((xmax - xmin) / w).ceil.toNat
  let cs := Grid.cells xmin ymax w rows cols
  some s!"rows={rows} cols={cols} cells={";".intercalate (cs.map fun c => s!"{showRat c.left},{showRat c.bottom},{showRat c.right},{showRat c.top}")}"

/-- `inarea areas= pts=x,y;x,y`: 2 strictly inside, 1 on a boundary, 0 outside (union of polygons) -/
def inarea (a : Args) : Option String := do
  let areas ← (a.get? "areas") >>= parseArea?
  let pts ← (a.get? "pts") >>= parseLine?
  let polys := allPolys areas
  some s!"in={",".intercalate (pts.map fun p => if polys.any (·.onBoundary p) then "1" else if polys.any (·.containsStrict p) then "2" else "0")}"

/-- `tuplerepr items=a;b` (`_` for spaces): the text `astype(str)` writes for a tuple of strings -/
def tuplerepr (a : Args) : Option String := do
  let s := (a.get? "items").getD ""
  let items := if s.isEmpty then [] else (s.splitOn ";").map dec
  some s!"text={enc (Cli.pyTupleRepr items)}"

/-- `insertpt t= line= pt=`: model of insert_point_to_linestring (exact geometry) -/
def insertpt (a : Args) : Option String := do
  let t ← (a.get? "t") >>= parseRat?
  let l ← (a.get? "line") >>= parseLine?
  let p ← (a.get? "pt") >>= parsePt?
  let ds := (segs l).map fun (x, y) => ptSegDist2 p x y
  -- crisp: the closest segment and the nearer end are unique, the threshold test is not at equality
  let dmin := minList ds 0
  let uniq := (ds.filter (· == dmin)).length == 1
  let j := Snap.argminIdx ds
  let u := l.getD j default
  let v := l.getD (j + 1) default
  let crisp := uniq && Pt.dist2 p u != Pt.dist2 p v && Pt.dist2 p u != t * t && Pt.dist2 p v != t * t
  some s!"line={showLine (Snap.insertGeo l p t)} crisp={showBool crisp}"


def showPass (r : Except String (List Polyline × Bool)) : String :=
  match r with
  | .error e => s!"err={e}"
  | .ok (tr, ch) => s!"traces={showLines tr} changed={showBool ch}"

/-- `snappass t= areas= traces= [margin=]`: one pass of the snapping model (`snap_traces`); `crisp` = the result
is the same with every threshold scaled by 1 ± 1e-6 -/
def snappass (a : Args) : Option String := do
  let t ← (a.get? "t") >>= parseRat?
  let areas ← (a.get? "areas") >>= parseArea?
  let traces ← (a.get? "traces") >>= parseLines?
  let mk : Rat := match (a.get? "margin") >>= parseRat? with | some m => m | none => 20
  let polys := allPolys areas
  let k1 : Rat := 1000001 / 1000000
  let k0 : Rat := 999999 / 1000000
  let r := showPass (SnapL.snapPass .asc t (t * mk) polys traces)
  let crisp := r == showPass (SnapL.snapPass .asc (t * k1) (t * k1 * mk) polys traces) && r == showPass (SnapL.snapPass .asc (t * k0) (t * k0 * mk) polys traces)
  let ordfree := r == showPass (SnapL.snapPass .desc t (t * mk) polys traces)
  some s!"{r} crisp={showBool crisp} ordfree={showBool ordfree}"

/-- two variants of the pass (other candidate order / thresholds scaled by 1 ± 1e-6) agree with the reference
pass at EVERY step of the reference trajectory, not just in the final result -/
def passesAgree (f g : List Polyline → Except String (List Polyline × Bool)) : Nat → List Polyline → Bool
  | 0, _ => true
  | fuel + 1, tr =>
    match f tr, g tr with
    | .ok (a, ch), .ok (b, ch') => a == b && ch == ch' && (if ch then passesAgree f g fuel a else true)
    | .error e, .error e' => e == e'
    | _, _ => false

def showLoop (r : Except String (List Polyline × Nat)) : String :=
  match r with
  | .error e => s!"err={e}"
  | .ok (tr, n) => s!"traces={showLines tr} loops={n}"

/-- `snaploop t= areas= traces= allowed=`: the whole repeat-until-stable snapping stage -/
def snaploop (a : Args) : Option String := do
  let t ← (a.get? "t") >>= parseRat?
  let areas ← (a.get? "areas") >>= parseArea?
  let traces ← (a.get? "traces") >>= parseLines?
  let allowed ← (a.get? "allowed") >>= parseNat?
  let polys := allPolys areas
  let k1 : Rat := 1000001 / 1000000
  let k0 : Rat := 999999 / 1000000
  let r := showLoop (SnapL.snapLoop .asc t (t * 20) polys allowed traces)
  let ref := SnapL.snapPass .asc t (t * 20) polys
  let crisp := passesAgree ref (SnapL.snapPass .asc (t * k1) (t * k1 * 20) polys) (allowed + 2) traces &&
    passesAgree ref (SnapL.snapPass .asc (t * k0) (t * k0 * 20) polys) (allowed + 2) traces
  let ordfree := passesAgree ref (SnapL.snapPass .desc t (t * 20) polys) (allowed + 2) traces
  let quiet := SnapL.quietMap .asc t (t * 20) traces
  some s!"{r} crisp={showBool crisp} ordfree={showBool ordfree} quiet={showBool quiet}"

/-- `feature t= m= a= end=x,y target=<line> areas=<area>`: exact squared distances of a trace end to a
target trace / to the area boundary and the documented windows (hand-written spec) -/
def feature (a : Args) : Option String := do
  let t ← (a.get? "t") >>= parseRat?
  let m ← (a.get? "m") >>= parseRat?
  let ae ← (a.get? "a") >>= parseRat?
  let e ← (a.get? "end") >>= parsePt?
  let target ← (a.get? "target") >>= parseLine?
  let areas ← (a.get? "areas") >>= parseArea?
  let d2 := (ptLineDist2 e target).getD 0
  let under := decide (t * t < d2) && decide (d2 < (t * m) * (t * m))
  let snapped := decide (d2 < t * t)
  let b2 := minList (areas.map fun row => AreaRow.boundaryDist2 row e) 0
  let areaw := decide (t * t ≤ b2) && decide (b2 < (t * m * ae) * (t * m * ae))
  -- crisp: the verdict does not change when every threshold is scaled by 1 ± 1e-6
  let k1 : Rat := 1000001 / 1000000
  let k0 : Rat := 999999 / 1000000
  let stable := fun (x lo hi : Rat) =>
    (decide (lo * lo * k1 * k1 < x) == decide (lo * lo * k0 * k0 < x)) && (decide (x < hi * hi * k1 * k1) == decide (x < hi * hi * k0 * k0))
  let crisp := stable d2 t (t * m) && stable b2 t (t * m * ae)
  some s!"under={showBool under} snapped={showBool snapped} area={showBool areaw} crisp={showBool crisp}"

/-- `cover t= areas= traces= branches=`: the geometric conservation facts of C04, decided exactly:
`ontrace` every branch vertex and segment midpoint is within t of some trace; `inarea` … is inside
the areas or within t of their boundary; `overlap` some two branches share a collinear stretch of
positive length; `uncovered` number of sample points (vertices and quarter points) of long clip
pieces farther than `2.02 t` from every branch; `clip2` squared segment lengths of all clip pieces -/
def cover (a : Args) : Option String := do
  let t ← (a.get? "t") >>= parseRat?
  let areas ← (a.get? "areas") >>= parseArea?
  let traces ← (a.get? "traces") >>= parseLines?
  let branches ← (a.get? "branches") >>= parseLines?
  let polys := allPolys areas
  let t2 := t * t
  let samplePts := fun (l : Polyline) => l ++ (segs l).flatMap fun (x, y) => [Pt.lerp x y (1/4), Pt.lerp x y (1/2), Pt.lerp x y (3/4)]
  let nearTraces := fun (p : Pt) => traces.any fun l => decide ((ptLineDist2 p l).getD 1 < t2)
  let ontrace := branches.all fun b => (samplePts b).all nearTraces
  let inarea := branches.all fun b => (samplePts b).all fun p => inAreaClosed polys p || decide (Contacts.boundaryD2 polys p < t2)
  let bsegs := (branches.zipIdx).flatMap fun (b, i) => (segs b).map fun sg => (i, sg)
  let overlap := bsegs.any fun (i, (p, q)) => bsegs.any fun (j, (u, v)) =>
    i < j && (match segInter p q u v with | .overlap _ _ => true | _ => false)
  -- distinct traces only (exact duplicates are one trace)
  let uniq := traces.eraseDups
  let pieces := uniq.flatMap fun l => clipLine l polys
  let lim := (202 / 100 * t) * (202 / 100 * t)
  let longEnough := fun (pc : Polyline) => decide ((segLens2 pc).sum > (201 / 100 * t) * (201 / 100 * t) * 4)
  let uncovered := (pieces.filter longEnough).flatMap fun pc => (samplePts pc).filter fun p =>
    !(branches.any fun b => decide ((ptLineDist2 p b).getD (lim + 1) < lim))
  some s!"ontrace={showBool ontrace} inarea={showBool inarea} overlap={showBool overlap} uncovered={uncovered.length} first={match uncovered with | p :: _ => showPt p | [] => "-"} clip={showLines pieces}"

/-- `defects traces=`: documented defect strings per trace on a crisp configuration -/
def defects (a : Args) : Option String := do
  let traces ← (a.get? "traces") >>= parseLines?
  let out := (List.range traces.length).map fun i => ";".intercalate ((Defects.defectsOf traces i).map enc)
  some s!"defects={"|".intercalate out} crisp={showBool (Defects.angleCrisp traces (3/200) && Defects.contactsApart traces (1/400))}"

/-- geometry kinds on the wire: 0 line, 1 empty line, 2 unmergeable multi-line, 3 mergeable
multi-line, 4 None, 5 other geometry type -/
def gkind (g : Nat) : Tval.GKind :=
  if g == 0 then .line else if g == 1 then .lineEmpty else if g == 2 || g == 3 then .multi else .other

/-- `validate kinds=0,3,2 allowfix=1 chosen=-|A;B allowempty=1 areaempty=0 glob=<s> fails=<idx>:<Validator>[:<dynerr>]|…`
runs the orchestration model with the documented validator table and the given verdict table
(verdicts of the minor validators on the frame as it is in the second pass) -/
def validate (a : Args) : Option String := do
  let kinds ← (a.get? "kinds") >>= parseNats?
  let allowFix ← (a.get? "allowfix") >>= parseBool?
  let allowEmpty ← (a.get? "allowempty") >>= parseBool?
  let areaEmpty ← (a.get? "areaempty") >>= parseBool?
  let glob := dec ((a.get? "glob").getD "UNDERLAPPING_SNAP")
  let chosenS := (a.get? "chosen").getD "-"
  let chosen : Option (List Tval.Validator) :=
    if chosenS == "-" then none
    else some ((chosenS.splitOn ";").filterMap fun n => Spec.allValidators.find? (·.name == n))
  let failToks := if ((a.get? "fails").getD "").isEmpty then [] else ((a.get? "fails").getD "").splitOn "|"
  let fails : List (Nat × String × String) ← failToks.mapM fun tok =>
    match tok.splitOn ":" with
    | [i, v] => do some (← i.toNat?, v, "")
    | [i, v, d] => do some (← i.toNat?, v, dec d)
    | _ => none
  let O : Tval.Oracle Nat :=
    { kind := gkind
      valid := fun v _ g idx =>
        if v.name == "GeomNullValidator" then !(g == 1 || g == 4)
        else if v.name == "GeomTypeValidator" then (g == 0 || g == 1)
        else !(fails.any fun (i, n, _) => i == idx && n == v.name)
      dynErr := fun v _ _ idx => match fails.find? (fun (i, n, _) => i == idx && n == v.name) with | some (_, _, d) => d | none => ""
      fix := fun v g => if v.name == "GeomTypeValidator" then (if g == 0 || g == 1 then some g else if g == 3 then some 0 else none) else none }
  let cfg : Tval.Cfg := ⟨allowFix, Spec.majorErrors, Spec.majorValidators, Spec.allValidators, chosen, Spec.emptyAreaError⟩
  let (out, glob') := Tval.run O cfg allowEmpty areaEmpty kinds glob
  some (match out with
    | .untouched => s!"outcome=untouched glob={enc glob'}"
    | .emptyArea rows => s!"outcome=emptyarea glob={enc glob'} rows={"|".intercalate (rows.map fun (g, es) => s!"{g}:{";".intercalate (es.map enc)}")}"
    | .validated rows => s!"outcome=validated glob={enc glob'} rows={"|".intercalate (rows.map fun (g, es) => s!"{g}:{";".intercalate (es.map enc)}")}")

end Cmd

def dispatch (line : String) : String :=
  let toks := (line.trimAscii.toString.splitOn " ").filter (· ≠ "")
  match toks with
  | [] => "error=empty"
  | cmd :: rest =>
    let a := parseArgs rest
    let r : Option String :=
      match cmd with
      | "ping" => some "pong"
      | "topo" => Cmd.topo a
      | "branchid" => Cmd.branchid a
      | "degclass" => Cmd.degclass a
      | "params" => Cmd.params a
      | "azimuth" => Cmd.azimuth a
      | "detset" => Cmd.detset a
      | "bins" => Cmd.bins a
      | "hist" => Cmd.hist a
      | "group" => Cmd.group a
      | "aggregate" => Cmd.aggregate a
      | "circle" => Cmd.circle a
      | "arr" => Cmd.arr a
      | "clip" => Cmd.clip a
      | "rel" => Cmd.rel a
      | "validate" => Cmd.validate a
      | "defects" => Cmd.defects a
      | "cover" => Cmd.cover a
      | "insertpt" => Cmd.insertpt a
      | "snappass" => Cmd.snappass a
      | "snaploop" => Cmd.snaploop a
      | "feature" => Cmd.feature a
      | "tuplerepr" => Cmd.tuplerepr a
      | "grid" => Cmd.grid a
      | "inarea" => Cmd.inarea a
      | "intersect" => Cmd.intersect a
      | "bweight" => Cmd.bweight a
      | _ => some s!"error=unknown-command:{cmd}"
    r.getD "error=bad-arguments"

partial def loop (hin : IO.FS.Stream) (hout : IO.FS.Stream) : IO Unit := do
  let line ← hin.getLine
  if line.isEmpty then return ()
  hout.putStrLn (dispatch line)
  hout.flush
  loop hin hout

def main : IO Unit := do
  loop (← IO.getStdin) (← IO.getStdout)
