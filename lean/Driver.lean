import FractopoModel.Basic.Wire
import FractopoModel.Model.Topology
import FractopoModel.Spec.Classes
import FractopoModel.Spec.SandersonNixon
/-!
# Model driver: runs the hand-written models and specs (never the regenerated
definitions, so that it builds whatever the state of /repo) behind a line protocol.
-/
open Wire

namespace Cmd

/-- spec instance of the degree decision (argument: number of *other* ends) -/
def specDeg2Class (n : Nat) : String := Spec.classOfDegree (n + 1)

/-- `topo t=<rat> areas=<area> branches=<a;b|a;b|…>`: node table and branch labels of the
Topology model instantiated with exact geometry. -/
def topo (a : Args) : Option String := do
  let t ← (a.get? "t") >>= parseRat?
  let areas ← (a.get? "areas") >>= parseArea?
  let bls ← (a.get? "branches") >>= parseLines?
  let bs : List (Topo.Branch Pt) ← bls.mapM fun l =>
    match l with
    | [p, q] => some ⟨p, q⟩
    | _ => none
  let t2 := t * t
  let nearB : Pt → Bool := fun p => areas.any fun row => decide (AreaRow.boundaryDist2 row p < t2) && !row.isEmpty
  let close : Pt → Pt → Bool := fun p q => decide (Pt.dist2 p q < t2)
  let nodes := Topo.collect bs
  let cls := Topo.nodeClass nearB specDeg2Class bs
  let labels := bs.map (Topo.branchLabel Spec.pairLabel close nodes cls)
  let nodeStr := ";".intercalate (nodes.map fun p => s!"{showPt p}:{cls p}:{Topo.mult bs p}")
  -- hypothesis `crisp` of theorem C05_branch_label: distinct nodes are at least the threshold apart
  let crisp := nodes.all fun p => nodes.all fun q => p == q || decide (Pt.dist2 p q ≥ t2)
  some s!"nodes={nodeStr} labels={";".intercalate (labels.map enc)} crisp={showBool crisp}"

def branchid (a : Args) : Option String := do
  let i ← (a.get? "i") >>= parseNat?
  let xy ← (a.get? "xy") >>= parseNat?
  let e ← (a.get? "e") >>= parseNat?
  some s!"label={enc (Spec.pairLabel i xy e)}"

def degclass (a : Args) : Option String := do
  let n ← (a.get? "n") >>= parseNat?
  some s!"class={Spec.classOfDegree n}"

def showVal : Val → String
  | .num q => showRat q
  | .nan => "nan"

/-- `params X= Y= I= E= tl= bl= area= circ= pi= sqrtv=`: the published definitions -/
def params (a : Args) : Option String := do
  let x ← (a.get? "X") >>= parseRat?
  let y ← (a.get? "Y") >>= parseRat?
  let i ← (a.get? "I") >>= parseRat?
  let e ← (a.get? "E") >>= parseRat?
  let tl ← (a.get? "tl") >>= parseRats?
  let bl ← (a.get? "bl") >>= parseRats?
  let area ← (a.get? "area") >>= parseRat?
  let circ ← (a.get? "circ") >>= parseBool?
  let pi ← (a.get? "pi") >>= parseRat?
  let sq ← (a.get? "sqrtv") >>= parseRat?
  let n : Spec.NetIn := ⟨x, y, i, e, tl, bl, area, circ, pi, fun _ => sq⟩
  let vals := Spec.paramNames.map fun k => s!"{enc k}:{match n.param k with | some v => showVal v | none => "missing"}"
  some s!"params={"|".intercalate vals}"

def bweight (a : Args) : Option String := do
  let c ← (a.get? "c") >>= parseInt?
  some s!"weight={match Spec.boundaryWeight c with | some w => toString w | none => "error"}"

end Cmd

def dispatch (line : String) : String :=
  let toks := (line.trimAscii.toString.splitOn " ").filter (· ≠ "")
  match toks with
  | [] => "error=empty"
  | cmd :: rest =>
    let a := parseArgs rest
    let r : Option String :=
      match cmd with
      | "ping" => some "pong"
      | "topo" => Cmd.topo a
      | "branchid" => Cmd.branchid a
      | "degclass" => Cmd.degclass a
      | "params" => Cmd.params a
      | "bweight" => Cmd.bweight a
      | _ => some s!"error=unknown-command:{cmd}"
    r.getD "error=bad-arguments"

partial def loop (hin : IO.FS.Stream) (hout : IO.FS.Stream) : IO Unit := do
  let line ← hin.getLine
  if line.isEmpty then return ()
  hout.putStrLn (dispatch line)
  hout.flush
  loop hin hout

def main : IO Unit := do
  loop (← IO.getStdin) (← IO.getStdout)
