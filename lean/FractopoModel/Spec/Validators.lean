import FractopoModel.Model.Validation
/-!
# The documented validators (hand-written from the documentation / property statements):
execution order, error strings, which apply to LineStrings only, which errors are major.
-/
namespace Spec
open Tval

def vNull : Validator := ⟨"GeomNullValidator", false, "NULL GEOMETRY", false⟩
def vType : Validator := ⟨"GeomTypeValidator", false, "GEOM TYPE MULTILINESTRING", false⟩
def vSimple : Validator := ⟨"SimpleGeometryValidator", true, "CUTS ITSELF", false⟩
def vMulti : Validator := ⟨"MultiJunctionValidator", true, "MULTI JUNCTION", false⟩
def vVNode : Validator := ⟨"VNodeValidator", true, "V NODE", false⟩
def vCross : Validator := ⟨"MultipleCrosscutValidator", true, "MULTIPLE CROSSCUTS", false⟩
def vUnder : Validator := ⟨"UnderlappingSnapValidator", true, "UNDERLAPPING SNAP", true⟩
def vArea : Validator := ⟨"TargetAreaSnapValidator", true, "TRACE UNDERLAPS TARGET AREA", false⟩
def vStack : Validator := ⟨"StackedTracesValidator", true, "STACKED TRACES", false⟩
def vSharp : Validator := ⟨"SharpCornerValidator", true, "SHARP TURNS", false⟩

def majorValidators : List Validator := [vNull, vType]
def allValidators : List Validator := [vNull, vType, vSimple, vMulti, vVNode, vCross, vUnder, vArea, vStack, vSharp]
def majorErrors : List String := ["GEOM TYPE MULTILINESTRING", "NULL GEOMETRY"]
/-- strings the under/overlap validator reports -/
def underlapStrings : List String := ["UNDERLAPPING SNAP", "OVERLAPPING SNAP", "STACKED TRACES"]
/-- the only exception to the normal procedure (docs_src/validation/errors.rst): an empty target area with
`allow_empty_area=False` puts this string into all traces -/
def emptyAreaError : String := "EMPTY TARGET AREA"
def documentedErrors : List String := (allValidators.map (·.staticError)) ++ ["OVERLAPPING SNAP", emptyAreaError]

end Spec
