import FractopoModel.Model.Topology
import FractopoModel.Spec.Classes
/-!
# The planar arrangement of a valid trace map, as a combinatorial *contact structure*
(specification side of C01; written from the property statement)

Per clipped trace: the ordered list of events `(node, role)` along it.  A crossing is an
interior event on two traces, an abutment an end event of one trace and an interior event of
another, a free tip / a boundary cut an end event of one trace.
-/
namespace Arr

inductive Role where
  | endFree | endBoundary | endAbut | onAbut | onCross
deriving DecidableEq, Repr, Inhabited

def Role.isEnd : Role → Bool
  | .endFree | .endBoundary | .endAbut => true
  | _ => false

/-- one X-node per crossing, one Y-node per abutment, one I-node per free tip, one E-node per
trace end created on the boundary -/
def classOfRole : Role → String
  | .endFree => "I"
  | .endBoundary => "E"
  | .endAbut => "Y"
  | .onAbut => "Y"
  | .onCross => "X"

structure Event (N : Type) where
  node : N
  role : Role
deriving DecidableEq, Repr

variable {N : Type} [DecidableEq N]

abbrev CS (N : Type) := List (List (Event N))

/-- one branch per maximal trace piece between consecutive nodes -/
def pieces : List (Event N) → List (Event N × Event N)
  | a :: b :: rest => (a, b) :: pieces (b :: rest)
  | _ => []

def branches (cs : CS N) : List (Event N × Event N) := cs.flatMap pieces

def toBranches (cs : CS N) : List (Topo.Branch N) := (branches cs).map fun (a, b) => ⟨a.node, b.node⟩

/-- each branch carries the connection class of its two end nodes -/
def branchClass (b : Event N × Event N) : String :=
  Spec.pairLabelOfKinds (Spec.kindOf (classOfRole b.1.role)) (Spec.kindOf (classOfRole b.2.role))

def allEvents (cs : CS N) : List (Event N) := cs.flatMap id

/-- the nodes of the arrangement with their classes (first occurrence order) -/
def nodes (cs : CS N) : List (N × String) :=
  (Topo.firstSeen ((allEvents cs).map (·.node))).map fun n =>
    (n, match (allEvents cs).find? (·.node == n) with | some e => classOfRole e.role | none => "?")

/-- number of interior / end occurrences of node `n` on one trace -/
def interiorOcc (n : N) : List (Event N) → Nat
  | _ :: b :: c :: rest => (if b.node = n then 1 else 0) + interiorOcc n (b :: c :: rest)
  | _ => 0

def firstIs (n : N) : List (Event N) → Nat
  | a :: _ :: _ => if a.node = n then 1 else 0
  | _ => 0

def lastIs (n : N) : List (Event N) → Nat
  | [_, b] => if b.node = n then 1 else 0
  | _ :: b :: c :: rest => lastIs n (b :: c :: rest)
  | _ => 0

def endOcc (n : N) (evs : List (Event N)) : Nat := firstIs n evs + lastIs n evs

def totalInterior (cs : CS N) (n : N) : Nat := (cs.map (interiorOcc n)).sum
def totalEnd (cs : CS N) (n : N) : Nat := (cs.map (endOcc n)).sum

/-- well-formed contact structure (decidable) -/
def WellFormed (cs : CS N) : Bool :=
  cs.all (fun evs =>
    evs.length ≥ 2 &&
    (evs.head?.map (·.role.isEnd)) == some true &&
    (evs.getLast?.map (·.role.isEnd)) == some true &&
    ((evs.drop 1).dropLast.all fun e => !e.role.isEnd) &&
    ((pieces evs).all fun (a, b) => a.node != b.node)) &&
  (allEvents cs).all (fun e =>
    match e.role with
    | .onCross => totalInterior cs e.node == 2 && totalEnd cs e.node == 0
    | .onAbut | .endAbut => totalInterior cs e.node == 1 && totalEnd cs e.node == 1
    | .endFree | .endBoundary => totalInterior cs e.node == 0 && totalEnd cs e.node == 1) &&
  -- all events of one node agree on being a boundary node or not
  (allEvents cs).all (fun e => (allEvents cs).all fun f => e.node != f.node || (decide (e.role = .endBoundary) == decide (f.role = .endBoundary)))

def isBoundaryNode (cs : CS N) (n : N) : Bool := (allEvents cs).any fun e => e.node == n && e.role == .endBoundary

end Arr
