/-!
# Hand-written specification of the under/overlap validator's decision (from the statement of C10 and the
documentation of the validator), over abstract geometry:

* an end that is *well snapped* (strictly within the threshold of some candidate) is never reported, whatever the
  other candidates are;
* otherwise the end is reported when some candidate is at a distance strictly between the threshold and the
  threshold times the error multiplier;
* the FIRST such (end, candidate) in end order / candidate order decides which string is written into the class
  attribute: UNDERLAPPING SNAP or OVERLAPPING SNAP by the side of the target the trace ends on, STACKED TRACES
  when that cannot be told because the two overlap; nothing is written when the trace is valid.
-/
namespace Spec
variable {L P : Type}

def inWindow (t m d : Rat) : Bool := decide (t < d) && decide (d < t * m)

def wellSnapped (dist : L → P → Rat) (cands : List L) (t : Rat) (ep : P) : Bool :=
  cands.any fun c => decide (dist c ep < t)

/-- the deciding (end, candidate) pair, if any -/
def underlapHit (dist : L → P → Rat) (t m : Rat) (cands : List L) (eps : List P) : Option (P × L) :=
  eps.findSome? fun ep =>
    if wellSnapped dist cands t ep then none else (cands.find? fun c => inWindow t m (dist c ep)).map fun c => (ep, c)

/-- verdict and class attribute after the call -/
def underlapVerdict (dist : L → P → Rat) (isUl : L → L → P → Option Bool) (overlaps : L → L → Bool)
    (geom : L) (cands : List L) (eps : List P) (t m : Rat) (glob : String) : Except String (Bool × String) :=
  match underlapHit dist t m cands eps with
  | none => .ok (true, glob)
  | some (ep, c) =>
    match isUl geom c ep with
    | none => if overlaps geom c then .ok (false, "STACKED TRACES") else .error "ValueError"
    | some true => .ok (false, "UNDERLAPPING SNAP")
    | some false => .ok (false, "OVERLAPPING SNAP")

end Spec
