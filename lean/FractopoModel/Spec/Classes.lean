/-!
# Hand-written specification of the node / branch classification (from the property
statements C01/C05, not from the code).
-/
namespace Spec

/-- node class from the number of branch ends meeting at the node (C05): 1 → I, 3 → Y,
4 → X; the logged error cases 2 → I and ≥ 5 → X. Degree 0 does not occur. -/
def classOfDegree : Nat → String
  | 0 => "I"
  | 1 => "I"
  | 2 => "I"
  | 3 => "Y"
  | _ => "X"

/-- kind of a node class as used in branch labels: C for X/Y -/
def kindOf (c : String) : String := if c = "X" ∨ c = "Y" then "C" else c

/-- branch label = unordered pair of the end-node kinds, in the package's fixed spelling -/
def pairLabelOfKinds (k1 k2 : String) : String :=
  if k1 = "C" ∧ k2 = "C" then "C - C"
  else if (k1 = "C" ∧ k2 = "I") ∨ (k1 = "I" ∧ k2 = "C") then "C - I"
  else if (k1 = "C" ∧ k2 = "E") ∨ (k1 = "E" ∧ k2 = "C") then "C - E"
  else if k1 = "I" ∧ k2 = "I" then "I - I"
  else if (k1 = "I" ∧ k2 = "E") ∨ (k1 = "E" ∧ k2 = "I") then "I - E"
  else if k1 = "E" ∧ k2 = "E" then "E - E"
  else "Error"

/-- label from the counts of I-, XY- and E-nodes found at the two ends -/
def pairLabel (i xy e : Nat) : String :=
  if i + xy + e ≠ 2 then "Error"
  else if i = 2 then "I - I" else if xy = 2 then "C - C" else if e = 2 then "E - E"
  else if i = 1 ∧ xy = 1 then "C - I" else if e = 1 ∧ xy = 1 then "C - E" else "I - E"

end Spec
