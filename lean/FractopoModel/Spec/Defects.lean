import FractopoModel.Model.Contacts
/-!
# Documented validation defects on CRISP configurations (hand-written from C02; exact ℚ)

Every pair of features is in exact contact or far apart, so "within the threshold" is "equal".
`defectsOf traces i` is the set of documented strings trace `i` must be reported with.
-/
namespace Defects

def ends (l : Polyline) : List Pt := (l.head?.toList ++ l.getLast?.toList)

/-- collinear overlap of positive length between two polylines -/
def overlaps (l m : Polyline) : Bool :=
  (segs l).any fun (a, b) => (segs m).any fun (c, d) =>
    match segInter a b c d with | .overlap _ _ => true | _ => false

/-- distinct points where the two polylines meet in isolated points -/
def pointContacts (l m : Polyline) : List Pt :=
  ((segs l).flatMap fun (a, b) => (segs m).filterMap fun (c, d) =>
    match segInter a b c d with | .point p _ _ => some p | _ => none).eraseDups

def sharedEnd (l m : Polyline) : Bool := (ends l).any fun p => (ends m).contains p

def onLine (p : Pt) (l : Polyline) : Bool := (segs l).any fun (a, b) => onSeg p a b

def cutsItself (l : Polyline) : Bool :=
  Contacts.selfIntersects l || (l.length > 2 && l.head? == l.getLast?)

/-- candidate junction points: the isolated (point) contacts of pairs of traces; three mutually
overlapping collinear traces are a stacking defect, not a junction -/
def junctionCandidates (traces : List Polyline) : List Pt :=
  let n := traces.length
  let ts := traces.toArray
  (List.range n).flatMap fun i => (List.range n).flatMap fun j =>
    if i < j && !overlaps ts[i]! ts[j]! then pointContacts ts[i]! ts[j]! else []

/-- Crispness of a configuration with respect to the stacking detector: wherever segments of two
different traces meet in a point, they diverge at an angle with `sin² ≥ minSin2` (segments leaving
a common point at a small angle run alongside each other within any buffer for a long stretch,
which is the STACKED window of C10, not a crisp configuration). -/
def angleCrisp (traces : List Polyline) (minSin2 : Rat) : Bool :=
  let n := traces.length
  let ts := traces.toArray
  (List.range n).all fun i => (List.range n).all fun j =>
    !(i < j) || ((segs ts[i]!).all fun (a, b) => (segs ts[j]!).all fun (c, d) =>
      match segInter a b c d with
      | .point p _ _ =>
        -- rays leaving the contact point along each segment
        let rays := fun (a b : Pt) => (if p == a then [] else [a.sub p]) ++ (if p == b then [] else [b.sub p])
        -- a TRACE passing through the contact (in the middle of a segment or at one of its interior vertices) stays inside
        -- the other's buffer on both sides of it: the detector measures the whole stretch, so twice the length, i.e. four
        -- times the bound on sin²
        let k : Rat := if !(ends ts[i]!).contains p || !(ends ts[j]!).contains p then 4 else 1
        (rays a b).all fun u => (rays c d).all fun v =>
          let cr := Pt.cross u v
          !(decide (Pt.dot u v > 0) && decide (cr * cr < k * minSin2 * (Pt.dot u u) * (Pt.dot v v)))
      | _ => true)

/-- Crispness with respect to the tolerances of the junction and small-triangle detectors: two DISTINCT points in which traces
of the configuration meet are at least `√minD2` apart (two crossings of one pair a few thresholds apart are the documented
"small triangle" flavour of STACKED TRACES; crossings of different pairs within the tolerance are a MULTI JUNCTION by proximity:
neither is a crisp configuration). Lattice END points are far from everything they do not touch, crossing points are not. -/
def contactsApart (traces : List Polyline) (minD2 : Rat) : Bool :=
  let cs := (junctionCandidates traces).eraseDups
  cs.all fun p => cs.all fun q => p == q || decide (minD2 ≤ Pt.dot (p.sub q) (p.sub q))

def defectsOf (traces : List Polyline) (i : Nat) : List String :=
  match traces[i]? with
  | none => []
  | some l =>
    let others := (traces.zipIdx.filter fun (_, j) => j != i).map (·.1)
    let stacked := others.any fun m => overlaps l m
    let vnode := others.any fun m => !overlaps l m && sharedEnd l m
    let crosscut := others.any fun m => !overlaps l m && (pointContacts l m).length > 2
    -- three or more traces through one point, counted over isolated (point) contacts: the trace has
    -- a point contact at one and the same point with at least two other traces
    let contactPts := others.flatMap fun m => if overlaps l m then [] else pointContacts l m
    let multi := contactPts.any fun p => (contactPts.filter (· == p)).length ≥ 2
    (if cutsItself l then ["CUTS ITSELF"] else []) ++
    (if multi then ["MULTI JUNCTION"] else []) ++
    (if vnode then ["V NODE"] else []) ++
    (if crosscut then ["MULTIPLE CROSSCUTS"] else []) ++
    (if stacked then ["STACKED TRACES"] else [])

end Defects
