/-!
# Specification of azimuths, set membership and rose bins (hand-written from C15)
-/
namespace Spec

/-- clockwise angle from north of a chord whose mathematical angle is `d` degrees, reduced
to `[0, 180)`: `(90 − d) mod 180` -/
def azimuthMod (d : Rat) : Rat := (90 - d) - 180 * (((90 - d) / 180).floor : Rat)

/-- closed, possibly wrap-around range -/
def inRangeB (v : Rat) (r : Rat × Rat) (loop : Bool) : Bool :=
  (decide (r.1 ≤ v) && decide (v ≤ r.2)) || (loop && decide (r.1 > r.2) && (decide (v ≥ r.1) || decide (v ≤ r.2)))

/-- the set a value belongs to: `some name` of the unique containing range, `some "-1"` when
there is none, `none` (undefined: overlapping ranges) when there are several -/
def setOf (v : Rat) (loop : Bool) (names : List String) (ranges : List (Rat × Rat)) : Option String :=
  match ((names.zip ranges).filter fun p => inRangeB v p.2 loop) with
  | [] => some "-1"
  | [p] => some p.1
  | _ => none

/-- rose bins for an ideal width `w > 0`: `n = ⌈180/w⌉` bins of width `180/n` -/
def binCount (w : Rat) : Int := (180 / w).ceil
def binWidth (w : Rat) : Rat := 180 / (binCount w : Rat)

/-- bin index of an azimuth in `[0,180]` (last bin closed on the right, as `np.histogram`) -/
def binIndex (w : Rat) (a : Rat) : Option Nat :=
  let n := (binCount w).toNat
  if a < 0 || a > 180 then none
  else if a == 180 then some (n - 1)
  else some (a / binWidth w).floor.toNat

end Spec
