/-!
# Hand-written specification of junction marking (V NODE with threshold 1 on trace ends, MULTI JUNCTION with
threshold 2 on all intersection and end points; from the documentation of the validators and the statement of C10)

`o[a]` is the trace owning flattened point `a`, `f[a]` the point.  A point is *hit* by every point of ANOTHER trace
strictly within the error distance `d` (= snap threshold × error multiplier).  A point with at least
`max threshold 1` hits marks its own trace and the traces owning the hits.
-/
namespace Spec
variable {P : Type}

/-- positions of the points of other traces strictly within `d` of point `a` -/
def junctionHits (dist : P → P → Rat) (o : List Nat) (f : List P) (d : Rat) (a : Nat) (p : P) : List Nat :=
  (f.zipIdx.filter fun x => (o.getD x.2 0 != o.getD a 0) && decide (dist x.1 p < d)).map (·.2)

/-- the marked traces (with repetitions, in the order of the points) -/
def junctionMarks (dist : P → P → Rat) (o : List Nat) (f : List P) (d : Rat) (thr : Nat) : List Nat :=
  f.zipIdx.flatMap fun x =>
    let h := junctionHits dist o f d x.2 x.1
    if h.length ≥ thr ∧ h.length ≠ 0 then o.getD x.2 0 :: h.map (fun b => o.getD b 0) else []

end Spec
