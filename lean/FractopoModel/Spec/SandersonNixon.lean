import FractopoModel.Basic.PyPrelude
/-!
# Published definitions of the network parameters (hand-written from the statement of
C08 and Sanderson & Nixon 2015 / Mauldon et al. 2001; not derived from the code)

Inputs: node counts X Y I E, trace and branch length lists, area, `circular` flag,
and the two real-number primitives `pi`, `sqrt` as parameters.
-/
namespace Spec

structure NetIn where
  X : Rat
  Y : Rat
  I : Rat
  E : Rat
  traceLens : List Rat
  branchLens : List Rat
  area : Rat
  circular : Bool
  pi : Rat
  sqrt : Rat → Rat

namespace NetIn
variable (n : NetIn)

def nTraces : Rat := (n.Y + n.I) / 2
def nBranches : Rat := (4 * n.X + 3 * n.Y + n.I) / 2
def totalLen : Rat := n.traceLens.sum
def p21 : Rat := n.totalLen / n.area
def meanTrace : Rat := if n.traceLens.length = 0 then 0 else n.totalLen / (n.traceLens.length : Rat)
def minTrace : Rat := if n.traceLens.length = 0 then 0 else listMin n.traceLens
def maxTrace : Rat := if n.traceLens.length = 0 then 0 else listMax n.traceLens
def minBranch : Rat := if n.branchLens.length = 0 then 0 else listMin n.branchLens
def maxBranch : Rat := if n.branchLens.length = 0 then 0 else listMax n.branchLens
/-- zero instead of a division error when the denominator count is zero -/
def safeDiv (a b : Rat) : Rat := if b > 0 then a / b else 0
def meanBranch : Rat := safeDiv n.totalLen n.nBranches
def connPerTrace : Rat := safeDiv (2 * (n.Y + n.X)) n.nTraces
def connPerBranch : Rat := safeDiv (3 * n.Y + 4 * n.X) n.nBranches
def radius : Rat := n.sqrt (n.area / n.pi)
def mauldonMeanLen : Rat := if n.I + n.Y > 0 then (n.pi * n.radius / 2) * (n.E / (n.I + n.Y)) else 0
def mauldonDensity : Rat := (n.I + n.Y) / (2 * n.area)
def mauldon (v : Rat) : Val := if n.circular then .num v else .nan

/-- the published definition of each reported parameter (topology defined) -/
def param : String → Option Val
  | "Area" => some (.num n.area)
  | "Number of Traces" => some (.num n.nTraces)
  | "Number of Branches" => some (.num n.nBranches)
  | "Number of Traces (Real)" => some (.num (n.traceLens.length : Rat))
  | "Number of Branches (Real)" => some (.num (n.branchLens.length : Rat))
  | "Fracture Intensity P21" => some (.num n.p21)
  | "Fracture Intensity B21" => some (.num n.p21)
  | "Trace Mean Length" => some (.num n.meanTrace)
  | "Trace Min Length" => some (.num n.minTrace)
  | "Trace Max Length" => some (.num n.maxTrace)
  | "Branch Mean Length" => some (.num n.meanBranch)
  | "Branch Min Length" => some (.num n.minBranch)
  | "Branch Max Length" => some (.num n.maxBranch)
  | "Dimensionless Intensity P22" => some (.num (n.p21 * n.meanTrace))
  | "Dimensionless Intensity B22" => some (.num (n.p21 * n.meanBranch))
  | "Areal Frequency P20" => some (.num (n.nTraces / n.area))
  | "Areal Frequency B20" => some (.num (n.nBranches / n.area))
  | "Connections per Trace" => some (.num n.connPerTrace)
  | "Connections per Branch" => some (.num n.connPerBranch)
  | "Connection Frequency" => some (.num ((n.Y + n.X) / n.area))
  | "Trace Mean Length (Mauldon)" => some (n.mauldon n.mauldonMeanLen)
  | "Fracture Density (Mauldon)" => some (n.mauldon n.mauldonDensity)
  | "Fracture Intensity (Mauldon)" => some (n.mauldon (n.mauldonMeanLen * n.mauldonDensity))
  | _ => none

end NetIn

/-- the documented parameter names -/
def paramNames : List String := [
  "Area", "Areal Frequency B20", "Areal Frequency P20", "Branch Mean Length", "Branch Min Length",
  "Branch Max Length", "Connections per Branch", "Connections per Trace", "Connection Frequency",
  "Dimensionless Intensity B22", "Dimensionless Intensity P22", "Fracture Density (Mauldon)",
  "Fracture Intensity B21", "Fracture Intensity (Mauldon)", "Fracture Intensity P21",
  "Number of Branches", "Number of Branches (Real)", "Number of Traces", "Number of Traces (Real)",
  "Trace Mean Length", "Trace Min Length", "Trace Max Length", "Trace Mean Length (Mauldon)"]

/-- parameters that do not need topology -/
def nonTopological : List String := [
  "Fracture Intensity B21", "Fracture Intensity P21", "Trace Min Length", "Trace Max Length",
  "Trace Mean Length", "Dimensionless Intensity P22", "Area", "Number of Traces (Real)"]

/-- boundary weights for lines intersecting the boundary 0, 1, 2 times -/
def boundaryWeight : Int → Option Int
  | 0 => some 1
  | 1 => some 2
  | 2 => some 0
  | _ => none

end Spec
