import FractopoModel.Model.Snap
import FractopoModel.Generated.InsertPoint
/-!
# The regenerated `insert_point_to_linestring` / `determine_insert_approach` refine the hand-written insertion model

`Gen.insert_point_to_linestring` is regenerated from fractopo/branches_and_nodes.py on every run: coincidence guard, distance
table, stable sort by distance, closest segment (first minimum), restriction of the nearest vertex to the two ends of the
closest segment, insert / replace decision (`Gen.determine_insert_approach`), `pop` / `insert` on the coordinate list.
Here: it computes `Snap.apply coords p (Snap.choose …)` -- the model all insertion theorems of C06 are about.
-/
namespace InsertPt
variable {α : Type}

/-! ### stable insertion sort by a rational key -/

def SortedBy (key : α → Rat) (l : List α) : Prop := l.Pairwise fun a b => key a ≤ key b

theorem mem_insertBy (key : α → Rat) (x y : α) (s : List α) : y ∈ pyInsertBy key x s ↔ y = x ∨ y ∈ s := by
  induction s with
  | nil => simp [pyInsertBy]
  | cons z zs ih =>
    simp only [pyInsertBy]
    split
    · simp
    · simp only [List.mem_cons, ih]
      constructor
      · rintro (h | h | h)
        · exact Or.inr (Or.inl h)
        · exact Or.inl h
        · exact Or.inr (Or.inr h)
      · rintro (h | h | h)
        · exact Or.inr (Or.inl h)
        · exact Or.inl h
        · exact Or.inr (Or.inr h)

theorem mem_sortedBy (key : α → Rat) (y : α) (l : List α) : y ∈ pySortedBy key l ↔ y ∈ l := by
  induction l with
  | nil => simp [pySortedBy]
  | cons x xs ih =>
    have : pySortedBy key (x :: xs) = pyInsertBy key x (pySortedBy key xs) := rfl
    rw [this, mem_insertBy, ih]; simp

theorem sorted_insertBy (key : α → Rat) (x : α) (s : List α) (hs : SortedBy key s) : SortedBy key (pyInsertBy key x s) := by
  induction s with
  | nil => simp [pyInsertBy, SortedBy]
  | cons z zs ih =>
    simp only [pyInsertBy]
    have hz := List.pairwise_cons.mp hs
    split
    · rename_i hle
      apply List.pairwise_cons.mpr
      refine ⟨?_, hs⟩
      intro b hb
      rcases List.mem_cons.mp hb with h | h
      · subst h; exact hle
      · exact Rat.le_trans hle (hz.1 b h)
    · rename_i hnle
      apply List.pairwise_cons.mpr
      refine ⟨?_, ih hz.2⟩
      intro b hb
      rcases (mem_insertBy key x b zs).mp hb with h | h
      · subst h; exact Rat.le_of_lt (Rat.not_le.mp hnle)
      · exact hz.1 b h

theorem sorted_sortedBy (key : α → Rat) (l : List α) : SortedBy key (pySortedBy key l) := by
  induction l with
  | nil => simp [pySortedBy, SortedBy]
  | cons x xs ih => exact sorted_insertBy key x _ ih

theorem insertBy_of_le_all (key : α → Rat) (x : α) (s : List α) (h : ∀ z ∈ s, key x ≤ key z) : pyInsertBy key x s = x :: s := by
  cases s with
  | nil => rfl
  | cons z zs => simp [pyInsertBy, h z (by simp)]

/-- filtering commutes with inserting into a sorted list -/
theorem filter_insertBy (key : α → Rat) (p : α → Bool) (x : α) (s : List α) (hs : SortedBy key s) :
    (pyInsertBy key x s).filter p = if p x then pyInsertBy key x (s.filter p) else s.filter p := by
  induction s with
  | nil => by_cases hp : p x = true <;> simp [pyInsertBy, hp]
  | cons z zs ih =>
    have hz := List.pairwise_cons.mp hs
    simp only [pyInsertBy]
    by_cases hle : key x ≤ key z
    · simp only [hle, if_true]
      have hall : ∀ w ∈ (z :: zs).filter p, key x ≤ key w := by
        intro w hw
        have hw' := (List.mem_filter.mp hw).1
        rcases List.mem_cons.mp hw' with h | h
        · subst h; exact hle
        · exact Rat.le_trans hle (hz.1 w h)
      by_cases hp : p x = true
      · simp only [hp, if_true]
        rw [insertBy_of_le_all key x _ hall]
        simp [List.filter_cons, hp]
      · simp [List.filter_cons, hp]
    · simp only [hle, if_false]
      rw [List.filter_cons, ih hz.2]
      by_cases hp : p x = true
      · by_cases hpz : p z = true
        · simp [hp, hpz, List.filter_cons, pyInsertBy, hle]
        · simp [hp, hpz, List.filter_cons]
      · by_cases hpz : p z = true
        · simp [hp, hpz, List.filter_cons]
        · simp [hp, hpz, List.filter_cons]

/-- **filtering commutes with the stable sort** -/
theorem filter_sortedBy (key : α → Rat) (p : α → Bool) (l : List α) :
    (pySortedBy key l).filter p = pySortedBy key (l.filter p) := by
  induction l with
  | nil => simp [pySortedBy]
  | cons x xs ih =>
    have h1 : pySortedBy key (x :: xs) = pyInsertBy key x (pySortedBy key xs) := rfl
    rw [h1, filter_insertBy key p x _ (sorted_sortedBy key xs), ih]
    by_cases hp : p x = true
    · simp only [hp, if_true, List.filter_cons]
      rfl
    · simp [hp, List.filter_cons]

theorem sortedBy_pair (key : α → Rat) (a b : α) :
    pySortedBy key [a, b] = if key a ≤ key b then [a, b] else [b, a] := by
  simp [pySortedBy, pyInsertBy]

/-! ### the distance table and its restriction to the ends of one segment -/

variable {P : Type}

/-- the table `[(idx, vertex, distance to the point)]` in vertex order -/
def table (pdist : P → P → Rat) (coords : List P) (p : P) : List (Nat × P × Rat) :=
  List.map (fun (x : P × Nat) => (x.2, x.1, pdist x.1 p)) (List.zipIdx coords)

theorem filter_zipIdx_none (l : List P) (k : Nat) (q : Nat → Bool) (h : ∀ i, k ≤ i → i < k + l.length → q i = false) :
    (l.zipIdx k).filter (fun x => q x.2) = [] := by
  rw [List.filter_eq_nil_iff]
  rintro ⟨a, i⟩ hmem
  have := List.mem_zipIdx hmem
  simp [h i this.1 this.2.1]

theorem table_filter (pdist : P → P → Rat) (coords : List P) (p a b : P) (j : Nat)
    (ha : coords[j]? = some a) (hb : coords[j + 1]? = some b) :
    (table pdist coords p).filter (fun vals => List.elem vals.1 [j, j + 1]) = [(j, a, pdist a p), (j + 1, b, pdist b p)] := by
  have hj : j + 1 < coords.length := by
    rcases List.getElem?_eq_some_iff.mp hb with ⟨h, _⟩; exact h
  have hsplit : coords = coords.take j ++ a :: b :: coords.drop (j + 2) := by
    have h1 : coords.drop j = a :: coords.drop (j + 1) := by
      rw [List.drop_eq_getElem_cons (by omega)]
      congr 1
      have := List.getElem?_eq_some_iff.mp ha
      exact this.2
    have h2 : coords.drop (j + 1) = b :: coords.drop (j + 2) := by
      rw [List.drop_eq_getElem_cons hj]
      congr 1
      have := List.getElem?_eq_some_iff.mp hb
      exact this.2
    calc coords = coords.take j ++ coords.drop j := (List.take_append_drop j coords).symm
      _ = _ := by rw [h1, h2]
  have hlen : (coords.take j).length = j := by simp; omega
  unfold table
  rw [List.filter_map]
  conv => lhs; rw [hsplit]
  rw [List.zipIdx_append, List.filter_append]
  simp only [List.zipIdx_cons, hlen, Nat.zero_add]
  have e1 : (List.filter ((fun (vals : Nat × P × Rat) => List.elem vals.1 [j, j + 1]) ∘ fun (x : P × Nat) => (x.2, x.1, pdist x.1 p)) ((coords.take j).zipIdx 0)) = [] := by
    have := filter_zipIdx_none (coords.take j) 0 (fun i => List.elem i [j, j + 1]) (by
      intro i _ hi
      rw [hlen] at hi
      simp; omega)
    simpa [Function.comp_def] using this
  have e3 : (List.filter ((fun (vals : Nat × P × Rat) => List.elem vals.1 [j, j + 1]) ∘ fun (x : P × Nat) => (x.2, x.1, pdist x.1 p)) ((coords.drop (j + 2)).zipIdx (j + 1 + 1))) = [] := by
    have := filter_zipIdx_none (coords.drop (j + 2)) (j + 1 + 1) (fun i => List.elem i [j, j + 1]) (by
      intro i hi _
      simp; omega)
    simpa [Function.comp_def] using this
  rw [e1]
  simp only [List.nil_append, List.filter_cons, Function.comp]
  rw [e3]
  simp

/-! ### the largest index, the first minimum, pop + insert -/

theorem foldl_max_ge (l : List Nat) (m : Nat) : m ≤ l.foldl max m ∧ ∀ x ∈ l, x ≤ l.foldl max m := by
  induction l generalizing m with
  | nil => simp
  | cons y ys ih =>
    simp only [List.foldl_cons]
    have := ih (max m y)
    refine ⟨by omega, ?_⟩
    intro x hx
    rcases List.mem_cons.mp hx with h | h
    · subst h; omega
    · exact this.2 x h

theorem foldl_max_le (l : List Nat) (m b : Nat) (hm : m ≤ b) (h : ∀ x ∈ l, x ≤ b) : l.foldl max m ≤ b := by
  induction l generalizing m with
  | nil => simpa
  | cons y ys ih =>
    simp only [List.foldl_cons]
    apply ih
    · have := h y (by simp); omega
    · intro x hx; exact h x (by simp [hx])

theorem argmin_step_le (rest : List Rat) (k : Nat) (best : Nat × Rat) (hb : best.1 ≤ k) :
    ((rest.zipIdx k).foldl (fun (best : Nat × Rat) (x : Rat × Nat) => if x.1 < best.2 then (x.2 + 1, x.1) else best) best).1 ≤ k + rest.length := by
  induction rest generalizing k best with
  | nil => simpa
  | cons r rs ih =>
    simp only [List.zipIdx_cons, List.foldl_cons, List.length_cons]
    have := ih (k + 1) (if r < best.2 then (k + 1, r) else best) (by split; (· simp); (· exact Nat.le_succ_of_le hb))
    omega

theorem argminIdx_lt (ds : List Rat) (h : ds ≠ []) : Snap.argminIdx ds < ds.length := by
  cases ds with
  | nil => exact absurd rfl h
  | cons d rest =>
    have := argmin_step_le rest 0 (0, d) (by simp)
    simp only [Snap.argminIdx, List.length_cons]
    omega

theorem pop_insert (l : List P) (k : Nat) (p : P) (hk : k < l.length) : pyInsertIdx (List.eraseIdx l k) k p = l.set k p := by
  unfold pyInsertIdx
  rw [List.eraseIdx_eq_take_drop_succ, List.set_eq_take_append_cons_drop, if_pos hk]
  have hlen : (l.take k).length = k := by simp; omega
  rw [List.take_append_of_le_length (by omega), List.drop_append_of_le_length (by omega)]
  have h1 : List.take k (List.take k l) = List.take k l := by rw [List.take_take]; simp
  have h2 : List.drop k (List.take k l) = [] := by rw [List.drop_eq_nil_iff]; omega
  rw [h1, h2]; simp

/-! ### the decision function -/

theorem dia_spec (pdist : P → P → Rat) (same : P → P → Bool) (angle : P → P → P → Rat) (k : Nat) (tpd : List (Nat × P × Rat)) (thr : Rat) (p nearest : P) :
    let r := Gen.determine_insert_approach pdist same angle k tpd thr p nearest
    let M := List.foldl max 0 (List.map (fun vals => vals.1) tpd)
    r.2 = (decide (k = 0) || decide (k = M) || !(decide (pdist nearest p < thr) || same nearest p)) ∧ (r.2 = false → r.1 = k) := by
  simp only [Gen.determine_insert_approach]
  by_cases h0 : k = 0
  · simp [h0]
  · by_cases hM : k = List.foldl max 0 (List.map (fun vals => vals.1) tpd)
    · simp [h0, ← hM]
    · by_cases hc : pdist nearest p < thr
      · simp [h0, hM, hc]
      · by_cases hs : same nearest p = true
        · simp [h0, hM, hc, hs]
        · simp [h0, hM, hc, hs]

theorem table_idx_mem (pdist : P → P → Rat) (coords : List P) (p : P) (i : Nat) :
    i ∈ (table pdist coords p).map (fun vals => vals.1) ↔ i < coords.length := by
  unfold table
  rw [List.map_map]
  have : ((fun (vals : Nat × P × Rat) => vals.1) ∘ fun (x : P × Nat) => (x.2, x.1, pdist x.1 p)) = Prod.snd := by
    funext x; rfl
  rw [this, List.zipIdx_map_snd]
  simp

theorem max_idx (pdist : P → P → Rat) (key : Nat × P × Rat → Rat) (coords : List P) (p : P) (hn : 0 < coords.length) :
    List.foldl max 0 (List.map (fun vals => vals.1) (pySortedBy key (table pdist coords p))) = coords.length - 1 := by
  have hmem : ∀ i, i ∈ List.map (fun (vals : Nat × P × Rat) => vals.1) (pySortedBy key (table pdist coords p)) ↔ i < coords.length := by
    intro i
    rw [← table_idx_mem pdist coords p i]
    simp only [List.mem_map, mem_sortedBy]
  apply Nat.le_antisymm
  · apply foldl_max_le _ _ _ (Nat.zero_le _)
    intro x hx
    have := (hmem x).mp hx
    omega
  · exact (foldl_max_ge _ 0).2 _ ((hmem _).mpr (by omega))

/-- **Refinement**: the regenerated `insert_point_to_linestring` (with the regenerated `determine_insert_approach` inside) applies
the model's decision: closest segment `j` = first minimum of the point-to-segment distances, nearer end of that segment (the lower
index on a tie), replace that end iff it is an interior vertex within the threshold, otherwise insert between `j` and `j+1` -/
theorem generated_insert (pdist : P → P → Rat) (same : P → P → Bool) (angle : P → P → P → Rat) (sdist : P → P → P → Rat)
    (coords : List P) (p : P) (thr : Rat) (h2 : 2 ≤ coords.length) (hs : ∀ c ∈ coords, same p c = false ∧ same c p = false) :
    Gen.insert_point_to_linestring pdist same angle sdist coords p thr =
      (let ds := (List.range (coords.length - 1)).map fun i => sdist (coords.getD i p) (coords.getD (i + 1) p) p
       let j := Snap.argminIdx ds
       let nearIsSecond := decide (pdist (coords.getD (j + 1) p) p < pdist (coords.getD j p) p)
       let nd := if nearIsSecond then pdist (coords.getD (j + 1) p) p else pdist (coords.getD j p) p
       Snap.apply coords p (Snap.choose coords.length j nearIsSecond (decide (nd < thr)))) := by
  have hguard : (List.any (List.map (fun xy => same p xy) coords) id) = false := by
    rw [List.any_eq_false]
    intro b hb
    obtain ⟨c, hc, rfl⟩ := List.mem_map.mp hb
    simp [(hs c hc).1]
  unfold Gen.insert_point_to_linestring
  rw [hguard]
  simp only [Bool.false_eq_true, if_false]
  -- the closest segment
  generalize hds : (List.map (fun i => sdist (coords.getD i p) (coords.getD (i + 1) p) p) (List.range (coords.length - 1))) = ds
  have hdslen : ds.length = coords.length - 1 := by rw [← hds]; simp
  have hj : Snap.argminIdx ds < coords.length - 1 := by
    rw [← hdslen]; apply argminIdx_lt; intro h; rw [h] at hdslen; simp at hdslen; omega
  have hpi : pyIndexOfMin ds = Snap.argminIdx ds := by cases ds <;> rfl
  rw [hpi]
  generalize Snap.argminIdx ds = j at hj ⊢
  obtain ⟨a, ha⟩ : ∃ a, coords[j]? = some a := ⟨coords[j]'(by omega), List.getElem?_eq_getElem (by omega)⟩
  obtain ⟨b, hb⟩ : ∃ b, coords[j + 1]? = some b := ⟨coords[j + 1]'(by omega), List.getElem?_eq_getElem (by omega)⟩
  have hga : coords.getD j p = a := by rw [List.getD_eq_getElem?_getD, ha]; rfl
  have hgb : coords.getD (j + 1) p = b := by rw [List.getD_eq_getElem?_getD, hb]; rfl
  have hsa : same a p = false := (hs a (List.mem_of_getElem? ha)).2
  have hsb : same b p = false := (hs b (List.mem_of_getElem? hb)).2
  -- the table, sorted, restricted to the two ends
  have htab : (List.map (fun (x : P × Nat) => match x with | (trace_point, idx) => (idx, trace_point, pdist trace_point p)) (List.zipIdx coords)) = table pdist coords p := by
    unfold table; apply List.map_congr_left; rintro ⟨c, i⟩ _; rfl
  rw [htab]
  simp only [List.map_id']
  rw [filter_sortedBy, table_filter pdist coords p a b j ha hb, sortedBy_pair]
  simp only [hga, hgb]
  have hM := max_idx pdist (fun vals => vals.2.2) coords p (by omega)
  by_cases hle : pdist a p ≤ pdist b p
  · -- the lower end is the nearer one (or a tie)
    have hnis : decide (pdist b p < pdist a p) = false := by
      simp only [decide_eq_false_iff_not]; exact Rat.not_lt.mpr hle
    simp only [hle, if_true, List.headD_cons, hnis, Bool.false_eq_true, if_false]
    have hspec := dia_spec pdist same angle j (pySortedBy (fun vals => vals.2.2) (table pdist coords p)) thr p a
    simp only [hM, hsa, Bool.or_false] at hspec
    generalize Gen.determine_insert_approach pdist same angle j (pySortedBy (fun vals => vals.2.2) (table pdist coords p)) thr p a = r at hspec
    obtain ⟨idx, ins⟩ := r
    simp only at hspec ⊢
    cases ins with
    | true =>
      have h := hspec.1
      have hch : Snap.choose coords.length j false (decide (pdist a p < thr)) = Snap.Action.insertAfter j := by
        unfold Snap.choose
        by_cases h0 : j = 0
        · simp [h0]
        · by_cases hl : j = coords.length - 1
          · simp [hl]
          · have hc : decide (pdist a p < thr) = false := by simpa [h0, hl] using h
            simp [h0, hl, hc]
      simp only [if_true, Bool.not_true, Bool.false_eq_true, if_false, hch, Snap.apply, pyInsertIdx]
      simp
    | false =>
      have h := hspec.1
      have hidx := hspec.2 rfl
      subst hidx
      have h0 : idx ≠ 0 := by intro h0; simp [h0] at h
      have hl : idx ≠ coords.length - 1 := by intro hl; simp [← hl] at h
      have hc : decide (pdist a p < thr) = true := by simpa [h0, hl] using h.symm
      have hch : Snap.choose coords.length idx false (decide (pdist a p < thr)) = Snap.Action.replace idx := by
        simp [Snap.choose, h0, hl, hc]
      simp only [Bool.false_eq_true, if_false, Bool.not_false, if_true, hch, Snap.apply]
      exact pop_insert coords idx p (by omega)
  · -- the upper end is strictly nearer
    have hnis : decide (pdist b p < pdist a p) = true := by
      simp only [decide_eq_true_eq]; exact Rat.not_le.mp hle
    simp only [hle, if_false, List.headD_cons, hnis, if_true]
    have hspec := dia_spec pdist same angle (j + 1) (pySortedBy (fun vals => vals.2.2) (table pdist coords p)) thr p b
    simp only [hM, hsb, Bool.or_false] at hspec
    generalize Gen.determine_insert_approach pdist same angle (j + 1) (pySortedBy (fun vals => vals.2.2) (table pdist coords p)) thr p b = r at hspec
    obtain ⟨idx, ins⟩ := r
    simp only at hspec ⊢
    cases ins with
    | true =>
      have h := hspec.1
      have hch : Snap.choose coords.length j true (decide (pdist b p < thr)) = Snap.Action.insertAfter j := by
        unfold Snap.choose
        by_cases hl : j + 1 = coords.length - 1
        · simp [hl]
        · have hc : decide (pdist b p < thr) = false := by simpa [hl] using h
          simp [hl, hc]
      simp only [if_true, Bool.not_true, Bool.false_eq_true, if_false, hch, Snap.apply, pyInsertIdx]
      simp
    | false =>
      have h := hspec.1
      have hidx := hspec.2 rfl
      subst hidx
      have hl : j + 1 ≠ coords.length - 1 := by intro hl; simp [← hl] at h
      have hc : decide (pdist b p < thr) = true := by simpa [hl] using h.symm
      have hch : Snap.choose coords.length j true (decide (pdist b p < thr)) = Snap.Action.replace (j + 1) := by
        simp [Snap.choose, hl, hc]
      simp only [Bool.false_eq_true, if_false, Bool.not_false, if_true, hch, Snap.apply]
      exact pop_insert coords (j + 1) p (by omega)

end InsertPt
