import FractopoModel.Lemmas.SimpleSnap
import FractopoModel.Generated.SnapStage
/-!
# The regenerated first snapping stage (`resolve_trace_candidates`, `snap_trace_simple`) refines the model
-/
namespace SnapStageL
open SnapL SimpleSnapL

/-- `geom_bounds` -/
def boundsE (l : Polyline) : Rat × Rat × Rat × Rat := ((bboxOf l).minx, (bboxOf l).miny, (bboxOf l).maxx, (bboxOf l).maxy)

/-- the spatial index over the ORIGINAL traces: positions of the traces whose bounding box meets the window, in the (unspecified)
order `ord` -/
def indexE (ord : Ord) (orig : List Polyline) (w : Rat × Rat × Rat × Rat) : List Nat :=
  ord.ap ((List.range orig.length).filter fun i => (bboxOf (orig.getD i [])).meets ⟨w.1, w.2.1, w.2.2.1, w.2.2.2⟩)

theorem resolve_eq (ord : Ord) (t : Rat) (orig traces : List Polyline) (idx : Nat) (trace : Polyline) :
    Gen.resolve_trace_candidates boundsE (indexE ord orig) trace idx traces t
      = match candidateIdxs ord (t * 20) orig idx trace with
        | .error e => .error e
        | .ok ci => .ok (ci.map fun i => traces.getD i trace) := by
  unfold Gen.resolve_trace_candidates candidateIdxs boundsE indexE Box.expand
  simp only [List.elem_eq_contains]
  split <;> simp_all

theorem ap_mem (ord : Ord) (l : List Nat) (i : Nat) : i ∈ ord.ap l ↔ i ∈ l := by
  cases ord <;> simp [Ord.ap]

theorem candidate_in_range (ord : Ord) (margin : Rat) (orig : List Polyline) (idx : Nat) (trace : Polyline) (ci : List Nat)
    (h : candidateIdxs ord margin orig idx trace = .ok ci) : ∀ i ∈ ci, i < orig.length := by
  unfold candidateIdxs at h
  simp only at h
  split at h
  · cases h
    intro i hi
    have := List.mem_of_mem_erase hi
    rw [ap_mem] at this
    have := (List.mem_filter.mp this).1
    simpa using this
  · cases h

/-- the regenerated callee `simple_snap` run on squared distances, as the parameter of `snap_trace_simple` -/
def simpleSnapG (trace : Polyline) (cands : List Polyline) (thr : Rat) : Except String (Polyline × Bool) :=
  Gen.simple_snap ends (ldistE thr) interior (fun a b => a == b) (fun a b => Pt.dist2 a b) interE id id trace cands (thr * thr)

theorem getD_default (l : List Polyline) (i : Nat) (a b : Polyline) (h : i < l.length) : l.getD i a = l.getD i b := by
  rw [List.getD_eq_getElem?_getD, List.getD_eq_getElem?_getD, List.getElem?_eq_getElem h]; rfl

/-- **Refinement**: the regenerated `snap_trace_simple` (candidates by the extended bounds through the index, own index removed
with `list.remove`'s ValueError, no candidates ⇒ unchanged, else the regenerated `simple_snap`) is the model's `snapTraceSimple` -/
theorem generated_snap_trace_simple (ord : Ord) (t : Rat) (orig : List Polyline) (idx : Nat) (trace : Polyline) :
    Gen.snap_trace_simple boundsE (indexE ord orig) simpleSnapG idx trace t orig = snapTraceSimple ord t (t * 20) orig idx trace := by
  unfold Gen.snap_trace_simple snapTraceSimple
  rw [resolve_eq]
  cases hci : candidateIdxs ord (t * 20) orig idx trace with
  | error e => rfl
  | ok ci =>
    have hr := candidate_in_range ord (t * 20) orig idx trace ci hci
    have hmap : (ci.map fun i => orig.getD i trace) = ci.map fun i => orig.getD i [] := by
      apply List.map_congr_left
      intro i hi
      exact getD_default orig i trace [] (hr i hi)
    simp only [hmap]
    by_cases he : (ci.map fun i => orig.getD i []) = []
    · have hci0 : ci = [] := by simpa using he
      simp [hci0]
    · have hlen : ¬ (ci.map fun i => orig.getD i []).length = 0 := fun h => he (List.eq_nil_of_length_eq_zero h)
      have hemp : (ci.map fun i => orig.getD i []).isEmpty = false := by
        cases hh : (ci.map fun i => orig.getD i []) with
        | nil => exact absurd hh he
        | cons a b => rfl
      simp only [hlen, decide_false, Bool.false_eq_true, if_false, hemp]
      unfold simpleSnapG
      rw [generated_simple_snap]
      cases simpleSnap t trace (ci.map fun i => orig.getD i []) with
      | error e => rfl
      | ok r => obtain ⟨a, b⟩ := r; rfl

/-! ### second stage for one trace -/

variable {P A L : Type}

theorem boundary_loop_eq' (bdist : P → A → Rat) (ep : P) (all l : List A) (t : Rat) :
    Gen.is_endpoint_close_to_boundary_loop1 bdist ep all t l =
      if l.any (fun a => decide (bdist ep a < t)) then .ret true else .done () := by
  induction l with
  | nil => simp [Gen.is_endpoint_close_to_boundary_loop1]
  | cons a rest ih =>
    simp only [Gen.is_endpoint_close_to_boundary_loop1, List.any_cons]
    by_cases h : bdist ep a < t
    · simp [h]
    · simp [h, ih]

theorem boundary_filter_eq (bdist : P → A → Rat) (ep : P) (areas : List A) (t : Rat) :
    Gen.is_endpoint_close_to_boundary bdist ep areas t = areas.any (fun a => decide (bdist ep a < t)) := by
  unfold Gen.is_endpoint_close_to_boundary
  rw [boundary_loop_eq']
  cases h : areas.any (fun a => decide (bdist ep a < t)) <;> simp

theorem insert_loop_eq' (dist : P → L → Rat) (on : P → L → Bool) (insert : L → P → Rat → L) (te : List P) (t : Rat)
    (all l : List P) (another : L) :
    Gen.snap_trace_to_another_loop1 dist on insert te t all l another = l.foldl (fun a ep => insert a ep t) another := by
  induction l generalizing another with
  | nil => simp [Gen.snap_trace_to_another_loop1]
  | cons ep rest ih => simp [Gen.snap_trace_to_another_loop1, ih]

theorem snap_to_another_eq (dist : Pt → Polyline → Rat) (t : Rat) (eps : List Pt) (another : Polyline)
    (hdist : ∀ ep l, decide (dist ep l < t) = near t ep l) :
    Gen.snap_trace_to_another dist (fun ep l => onLine ep l) (fun l ep thr => Snap.insertGeo l ep thr) eps another t
      = snapToAnother t eps another := by
  unfold Gen.snap_trace_to_another snapToAnother
  simp only [List.map_id', insert_loop_eq', hdist]
  cases hl : (eps.filter fun ep => near t ep another && !onLine ep another) with
  | nil => simp
  | cons a as => simp

/-- **Refinement**: the regenerated `snap_others_to_trace` is the model's second stage for one trace. Laws of the distance
parameters: comparing them with the threshold is comparing the exact squared distances with the squared threshold. -/
theorem generated_snap_others (ord : Ord) (t : Rat) (areas : List Polygon) (orig simp : List Polyline) (idx : Nat) (trace : Polyline)
    (dist : Pt → Polyline → Rat) (bdist : Pt → Polygon → Rat)
    (hdist : ∀ ep l, decide (dist ep l < t) = near t ep l)
    (hbd : ∀ ep (pg : Polygon), decide (bdist ep pg < t) = decide (pg.boundaryDist2 ep < t * t))
    (hlen : simp.length = orig.length) :
    Gen.snap_others_to_trace boundsE (indexE ord orig) ends bdist dist (fun ep l => onLine ep l) (fun l ep thr => Snap.insertGeo l ep thr) idx trace t simp (some areas)
      = snapOthersToTrace ord t (t * 20) areas orig simp idx trace := by
  unfold Gen.snap_others_to_trace snapOthersToTrace
  rw [resolve_eq]
  cases hci : candidateIdxs ord (t * 20) orig idx trace with
  | error e => rfl
  | ok ci =>
    have hr := candidate_in_range ord (t * 20) orig idx trace ci hci
    have hmap : (ci.map fun i => simp.getD i trace) = ci.map fun i => simp.getD i [] := by
      apply List.map_congr_left
      intro i hi
      exact getD_default simp i trace [] (by rw [hlen]; exact hr i hi)
    simp only [hmap, List.elem_eq_contains]
    by_cases hc : (ci.map fun i => simp.getD i []).contains trace = true
    · simp only [hc, if_true]
    · simp only [hc, Bool.false_eq_true, if_false]
      by_cases he : (ci.map fun i => simp.getD i []) = []
      · have hci0 : ci = [] := by simpa using he
        simp [hci0]
      · have hlen0 : ¬ (ci.map fun i => simp.getD i []).length = 0 := fun h => he (List.eq_nil_of_length_eq_zero h)
        have hemp : (ci.map fun i => simp.getD i []).isEmpty = false := by
          cases hh : (ci.map fun i => simp.getD i []) with
          | nil => exact absurd hh he
          | cons a b => rfl
        simp only [hlen0, decide_false, Bool.false_eq_true, if_false, hemp, Option.isNone_some, Bool.not_false, if_true, Option.getD_some,
          List.map_id', boundary_filter_eq, hbd]
        rw [snap_to_another_eq dist t _ trace hdist]
        rfl

/-! ### the whole pass -/

theorem unzip_fst {α β : Type} (l : List (α × β)) : l.unzip.1 = l.map (·.1) := by
  induction l with
  | nil => rfl
  | cons a as ih => simp [List.unzip_cons, ih]

theorem unzip_snd {α β : Type} (l : List (α × β)) : l.unzip.2 = l.map (·.2) := by
  induction l with
  | nil => rfl
  | cons a as ih => simp [List.unzip_cons, ih]

/-- **Refinement of a whole snapping pass**: the regenerated `snap_traces` -- both stages over the whole list, each trace's
candidates taken through the index built once from the ORIGINAL traces, stage two reading the simply-snapped geometries, the first
exception propagating -- is the model's `snapPass` (for either candidate order of the index) -/
theorem generated_snap_traces (ord : Ord) (t : Rat) (areas : List Polygon) (traces : List Polyline)
    (dist : Pt → Polyline → Rat) (bdist : Pt → Polygon → Rat)
    (hdist : ∀ ep l, decide (dist ep l < t) = near t ep l)
    (hbd : ∀ ep (pg : Polygon), decide (bdist ep pg < t) = decide (pg.boundaryDist2 ep < t * t)) :
    Gen.snap_traces boundsE (indexE ord) simpleSnapG ends bdist dist (fun ep l => onLine ep l) (fun l ep thr => Snap.insertGeo l ep thr) traces t (some areas)
      = snapPass ord t (t * 20) areas traces := by
  unfold Gen.snap_traces snapPass
  by_cases he : traces = []
  · simp [he]
  · have hlen0 : ¬ traces.length = 0 := fun h => he (List.eq_nil_of_length_eq_zero h)
    have hemp : traces.isEmpty = false := by cases traces with | nil => exact absurd rfl he | cons a b => rfl
    simp only [hlen0, decide_false, Bool.false_eq_true, if_false, hemp]
    have h1 : (fun (x : Polyline × Nat) => Gen.snap_trace_simple boundsE (indexE ord traces) simpleSnapG x.2 x.1 t traces)
        = fun (li : Polyline × Nat) => snapTraceSimple ord t (t * 20) traces li.2 li.1 := by
      funext x; exact generated_snap_trace_simple ord t traces x.2 x.1
    rw [h1]
    unfold stage1
    cases hs1 : List.mapM (fun (li : Polyline × Nat) => snapTraceSimple ord t (t * 20) traces li.2 li.1) traces.zipIdx with
    | error e => rfl
    | ok s1 =>
      have hl1 : s1.length = traces.length := by
        have := mapM_length _ _ _ hs1
        simpa using this
      simp only [Except.map]
      have hsl : (s1.unzip.1).length = traces.length := by rw [unzip_fst]; simpa using hl1
      have h2 : (fun (x : Polyline × Nat) => Gen.snap_others_to_trace boundsE (indexE ord traces) ends bdist dist (fun ep l => onLine ep l)
            (fun l ep thr => Snap.insertGeo l ep thr) x.2 x.1 t s1.unzip.1 (some areas))
          = fun (li : Polyline × Nat) => snapOthersToTrace ord t (t * 20) areas traces s1.unzip.1 li.2 li.1 := by
        funext x; exact generated_snap_others ord t areas traces s1.unzip.1 x.2 x.1 dist bdist hdist hbd hsl
      rw [h2]
      unfold stage2
      rw [unzip_fst]
      cases hs2 : List.mapM (fun (li : Polyline × Nat) => snapOthersToTrace ord t (t * 20) areas traces (s1.map (·.1)) li.2 li.1) (s1.map (·.1)).zipIdx with
      | error e => rfl
      | ok s2 =>
        simp only [unzip_fst, unzip_snd, List.any_append, List.any_map, Function.comp_def, id]

/-! ### the distance laws are satisfiable: threshold-clamped distances -/

/-- a distance whose comparison with `t > 0` is the exact squared comparison -/
def distC (t : Rat) (ep : Pt) (l : Polyline) : Rat := if near t ep l then 0 else t
def bdistC (t : Rat) (ep : Pt) (pg : Polygon) : Rat := if pg.boundaryDist2 ep < t * t then 0 else t

theorem distC_law (t : Rat) (ht : 0 < t) (ep : Pt) (l : Polyline) : decide (distC t ep l < t) = near t ep l := by
  unfold distC
  cases h : near t ep l
  · simp [Rat.lt_irrefl]
  · simp [ht]

theorem bdistC_law (t : Rat) (ht : 0 < t) (ep : Pt) (pg : Polygon) : decide (bdistC t ep pg < t) = decide (pg.boundaryDist2 ep < t * t) := by
  unfold bdistC
  by_cases h : pg.boundaryDist2 ep < t * t
  · simp [h, ht]
  · simp [h, Rat.lt_irrefl]

end SnapStageL
