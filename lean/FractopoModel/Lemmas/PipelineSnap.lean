import FractopoModel.Lemmas.Pipeline
import FractopoModel.Lemmas.SnapLoop
/-! The abstract snapping stage of the pipeline normal form, instantiated with the model pass, is `SnapL.snapLoop`. -/
namespace Pipeline

theorem stageFrom_eq (ord : SnapL.Ord) (t margin : Rat) (areas : List Polygon) (allowed : Nat) :
    ∀ (fuel loops : Nat) (tr : List Polyline) (ch : Bool),
      stageFrom (SnapL.snapPass ord t margin areas) allowed (fuel + 1) loops tr ch
        = SnapL.snapLoopFrom ord t margin areas allowed (fuel + 1) loops tr ch ∨ fuel + 1 + loops < allowed + 2 := by
  intro fuel
  induction fuel with
  | zero =>
    intro loops tr ch
    by_cases hlt : 0 + 1 + loops < allowed + 2
    · exact .inr hlt
    · left
      cases ch
      · simp [stageFrom, SnapL.snapLoopFrom]
      · have hgt : loops + 1 > allowed := by omega
        rw [stageFrom, SnapL.snapLoopFrom]
        simp only [Bool.not_true, Bool.false_eq_true, if_false]
        cases SnapL.snapPass ord t margin areas tr with
        | error e => rfl
        | ok r => obtain ⟨a, b⟩ := r; simp [hgt]
  | succ k ih =>
    intro loops tr ch
    by_cases hlt : k + 1 + 1 + loops < allowed + 2
    · exact .inr hlt
    · left
      cases ch
      · simp [stageFrom, SnapL.snapLoopFrom]
      · rw [stageFrom, SnapL.snapLoopFrom]
        simp only [Bool.not_true, Bool.false_eq_true, if_false]
        cases SnapL.snapPass ord t margin areas tr with
        | error e => rfl
        | ok r =>
          obtain ⟨a, b⟩ := r
          simp only []
          by_cases hgt : loops + 1 > allowed
          · simp [hgt]
          · simp only [hgt, if_false]
            rcases ih (loops + 1) a b with h | h
            · exact h
            · omega

/-- with the fuel the caller passes (`allowed + 2`) the abstract stage over the model pass is the model's snapping loop -/
theorem stage_eq_snapLoop (ord : SnapL.Ord) (t margin : Rat) (areas : List Polygon) (allowed : Nat) (traces : List Polyline) :
    stage (SnapL.snapPass ord t margin areas) allowed (allowed + 2) traces = SnapL.snapLoop ord t margin areas allowed traces := by
  unfold stage SnapL.snapLoop
  cases SnapL.snapPass ord t margin areas traces with
  | error e => rfl
  | ok r =>
    obtain ⟨tr, ch⟩ := r
    simp only []
    rcases stageFrom_eq ord t margin areas allowed (allowed + 1) 0 tr ch with h | h
    · exact h
    · omega

end Pipeline
