import FractopoModel.Lemmas.Topology
import FractopoModel.Generated.NodeIdentity
import FractopoModel.Generated.DegreeToClass
/-!
# The regenerated node-collection loop refines the node-table model

`Gen.node_identity` / `Gen.node_identities_from_branches` are regenerated from
fractopo/branches_and_nodes.py on every run (geometry and the spatial index are parameters).
Under the laws of those parameters stated as hypotheses —

* `QueryLaw`: the point query at an end returns exactly the positions of the branch ends that
  coincide with it (any order),
* `0 < t`: a point is strictly within the threshold of itself,
* the WKT key is the point itself (injective key)

— the generated loop computes exactly `Topo.nodeTable` (first-seen order, class by boundary
proximity, else by the number of other coincident ends).
-/
namespace NodeTable
open Topo
variable {E A : Type} [DecidableEq E]

/-- positions of the ends equal to `p` -/
def positions (es : List E) (p : E) : List Nat := (es.zipIdx.filter fun x => x.1 == p).map (·.2)

/-- the point query returns the positions of the ends equal to `p`, in any order -/
def QueryLaw (query : E → List Nat) (es : List E) : Prop := ∀ p, (query p).Perm (positions es p)

theorem filter_zipIdx_length (es : List E) (p : E) (n : Nat) :
    ((es.zipIdx n).filter fun x => x.1 == p).length = es.count p := by
  induction es generalizing n with
  | nil => simp
  | cons a as ih =>
    simp only [List.zipIdx_cons, List.filter_cons, List.count_cons]
    by_cases h : a = p
    · subst h; simp [ih]
    · have : (a == p) = false := by simpa using h
      simp [this, ih]

theorem positions_length (es : List E) (p : E) : (positions es p).length = es.count p := by
  simp [positions, filter_zipIdx_length]

theorem mem_positions (es : List E) (p : E) (j : Nat) : j ∈ positions es p ↔ es[j]? = some p := by
  simp only [positions, List.mem_map, List.mem_filter, beq_iff_eq]
  constructor
  · rintro ⟨⟨x, i⟩, ⟨hmem, hx⟩, rfl⟩
    have := List.mem_zipIdx_iff_getElem?.mp hmem
    simp only at hx this
    rw [← hx]; simpa using this
  · intro h
    exact ⟨(p, j), ⟨List.mem_zipIdx_iff_getElem?.mpr (by simpa using h), rfl⟩, rfl⟩

/-- the tail of the generated `node_identity` is the generated degree map -/
theorem chain_eq (n : Nat) :
    (if (decide (n = 0)) then "I" else if (decide (n = 2)) then "Y" else if (decide (n = 3)) then "X" else if (decide (n = 1)) then "I" else "X")
      = Gen.degree_to_class n := by
  unfold Gen.degree_to_class
  by_cases h0 : n = 0
  · simp [h0]
  · by_cases h2 : n = 2
    · simp [h2]
    · by_cases h3 : n = 3
      · simp [h3]
      · by_cases h1 : n = 1
        · simp [h1]
        · simp [h0, h2, h3, h1]

theorem node_identity_eq (bdist : E → A → Rat) (dist : E → E → Rat) (query : E → List Nat) (dflt : E) (es : List E) (areas : List A) (t : Rat)
    (hq : QueryLaw query es) (ht : ∀ p, dist p p < t) (p : E) (idx : Nat) (hidx : es[idx]? = some p) :
    Gen.node_identity bdist dist query p idx areas (fun i => es.getD i dflt) t
      = if areas.any (fun a => decide (bdist p a < t)) then "E" else Gen.degree_to_class (es.count p - 1) := by
  unfold Gen.node_identity
  simp only [List.any_map, Function.comp_def, id]
  by_cases hb : (areas.any fun a => decide (bdist p a < t)) = true
  · simp [hb]
  · simp only [hb, Bool.false_eq_true, if_false]
    have hperm := hq p
    have hmem : idx ∈ query p := by
      rw [hperm.mem_iff, mem_positions]; exact hidx
    -- all candidates are copies of p
    have hall : ∀ j ∈ (query p).erase idx, es.getD j dflt = p := by
      intro j hj
      have : j ∈ query p := List.mem_of_mem_erase hj
      rw [hperm.mem_iff, mem_positions] at this
      rw [List.getD_eq_getElem?_getD, this]; rfl
    have hcount : List.countP (fun candidate => decide (dist candidate p < t)) (List.map (fun i => es.getD i dflt) ((query p).erase idx))
        = ((query p).erase idx).length := by
      rw [List.countP_map, List.countP_eq_length]
      intro j hj
      have := hall j hj
      simp only [Function.comp, this, ht p, decide_true]
    have hlen : ((query p).erase idx).length = es.count p - 1 := by
      rw [List.length_erase_of_mem hmem, hperm.length_eq, positions_length]
    rw [← chain_eq]
    simp only [hcount, hlen]

/-- first-seen filtering relative to the points already collected -/
def fresh (seen : List E) : List E → List E
  | [] => []
  | p :: ps => if p ∈ seen then fresh seen ps else p :: fresh (seen ++ [p]) ps

theorem fresh_eq_filter (seen l : List E) : fresh seen l = (firstSeen l).filter (fun q => decide (q ∉ seen)) := by
  induction l generalizing seen with
  | nil => simp [fresh, firstSeen]
  | cons p ps ih =>
    simp only [fresh, firstSeen]
    by_cases hp : p ∈ seen
    · simp only [hp, if_true, List.filter_cons, not_true_eq_false, decide_false, Bool.false_eq_true, if_false]
      rw [ih, List.filter_filter]
      apply List.filter_congr
      intro q _
      by_cases hqp : q = p
      · subst hqp; simp [hp]
      · simp [hqp]
    · simp only [hp, if_false, List.filter_cons, not_false_eq_true, decide_true, if_true]
      rw [ih, List.filter_filter]
      congr 1
      apply List.filter_congr
      intro q _
      by_cases hqp : q = p
      · subst hqp; simp
      · simp [hqp]

theorem fresh_nil (l : List E) : fresh [] l = firstSeen l := by
  rw [fresh_eq_filter]; simp

/-- the generated loop appends, for every not-yet-collected point in order, the point with its identity -/
theorem loop_eq (bdist : E → A → Rat) (dist : E → E → Rat) (query : E → List Nat) (dflt : E) (es : List E) (areas : List A) (t : Rat)
    (g : E → String) (l : List (E × Nat))
    (hg : ∀ pi ∈ l, Gen.node_identity bdist dist query pi.1 pi.2 areas (fun i => es.getD i dflt) t = g pi.1)
    (acc : AList E (E × String)) (hacc : ∀ kv ∈ acc, kv.1 = kv.2.1) :
    Gen.node_identities_from_branches_loop1 bdist dist query id dflt es areas t l acc
      = acc ++ (fresh (acc.map (·.1)) (l.map (·.1))).map (fun p => (p, (p, g p))) := by
  induction l generalizing acc with
  | nil => simp [Gen.node_identities_from_branches_loop1, fresh]
  | cons pi rest ih =>
    obtain ⟨p, idx⟩ := pi
    simp only [Gen.node_identities_from_branches_loop1, List.map_cons, fresh, id]
    have hhas : alistHas acc p = decide (p ∈ acc.map (·.1)) := by
      unfold alistHas
      rw [Bool.eq_iff_iff]
      simp only [List.any_eq_true, beq_iff_eq, decide_eq_true_eq, List.mem_map]
    by_cases hin : p ∈ acc.map (·.1)
    · simp only [hhas, hin, decide_true, if_true]
      exact ih (fun pi hpi => hg pi (by simp [hpi])) acc hacc
    · simp only [hhas, hin, decide_false, Bool.false_eq_true, if_false]
      have hset : alistSet acc p (p, g p) = acc ++ [(p, (p, g p))] := by
        unfold alistSet; simp [hhas, hin]
      rw [hg (p, idx) (by simp), hset]
      rw [ih (fun pi hpi => hg pi (by simp [hpi])) (acc ++ [(p, (p, g p))])
        (by intro kv hkv; rcases List.mem_append.mp hkv with h | h
            · exact hacc kv h
            · simp at h; subst h; rfl)]
      simp only [List.map_append, List.map_cons, List.map_nil, List.append_assoc, List.cons_append, List.nil_append]

end NodeTable

namespace NodeTable
open Topo
variable {E A : Type} [DecidableEq E]

/-- **Refinement**: the regenerated `node_identities_from_branches` (with the regenerated `node_identity` inside)
computes the node table of the model, for every list of branches, any areas, any threshold. -/
theorem generated_node_table (bdist : E → A → Rat) (dist : E → E → Rat) (query : E → List Nat) (dflt : E)
    (bs : List (Branch E)) (areas : List A) (t : Rat) (hq : QueryLaw query (ends bs)) (ht : ∀ p, dist p p < t) :
    Gen.node_identities_from_branches bdist dist query id dflt (ends bs) areas t =
      (collect bs, (collect bs).map (nodeClass (fun p => areas.any fun a => decide (bdist p a < t)) Gen.degree_to_class bs)) := by
  let g : E → String := nodeClass (fun p => areas.any fun a => decide (bdist p a < t)) Gen.degree_to_class bs
  have hg : ∀ pi ∈ (ends bs).zipIdx, Gen.node_identity bdist dist query pi.1 pi.2 areas (fun i => (ends bs).getD i dflt) t = g pi.1 := by
    intro pi hpi
    obtain ⟨p, idx⟩ := pi
    have hidx : (ends bs)[idx]? = some p := by
      have := List.mem_zipIdx_iff_getElem?.mp hpi
      simpa using this
    rw [node_identity_eq bdist dist query dflt (ends bs) areas t hq ht p idx hidx]
    rfl
  unfold Gen.node_identities_from_branches
  simp only []
  rw [loop_eq bdist dist query dflt (ends bs) areas t g _ hg [] (by simp)]
  simp only [List.map_nil, List.nil_append, fresh_nil, List.zipIdx_map_fst, List.length_map]
  by_cases he : (firstSeen (ends bs)).length = 0
  · have : firstSeen (ends bs) = [] := List.eq_nil_of_length_eq_zero he
    simp [collect, this]
  · simp only [he, decide_false, Bool.false_eq_true, if_false, collect, List.map_map, Prod.mk.injEq]
    constructor
    · simp [Function.comp_def]
    · rfl

end NodeTable
