import FractopoModel.Lemmas.Topology
/-! Invariance of the node/branch tables under permuting the branches and reversing any of
them (used by C11 and C14). Core Lean only. -/
namespace Topo
variable {P : Type} [DecidableEq P]

def Branch.rev (b : Branch P) : Branch P := ⟨b.b, b.a⟩

/-- `bs'` is `bs` up to order and direction of the branches -/
def SameUpToOrderDir (bs bs' : List (Branch P)) : Prop :=
  ∃ flips : List Bool, flips.length = bs.length ∧
    bs'.Perm ((bs.zip flips).map fun (x : Branch P × Bool) => if x.2 then x.1.rev else x.1)

theorem ends_perm {bs bs' : List (Branch P)} (h : bs.Perm bs') : (ends bs).Perm (ends bs') :=
  List.Perm.flatMap_right _ h

theorem ends_flip (bs : List (Branch P)) (flips : List Bool) (hl : flips.length = bs.length) :
    (ends ((bs.zip flips).map fun (x : Branch P × Bool) => if x.2 then x.1.rev else x.1)).Perm (ends bs) := by
  induction bs generalizing flips with
  | nil => simp [ends]
  | cons b bs ih =>
    cases flips with
    | nil => simp at hl
    | cons f fs =>
      simp only [List.length_cons, Nat.add_right_cancel_iff] at hl
      simp only [List.zip_cons_cons, List.map_cons, ends, List.flatMap_cons]
      have ih' := ih fs hl
      simp only [ends] at ih'
      cases f
      · simp only [Bool.false_eq_true, if_false]
        exact List.Perm.append_left _ ih'
      · simp only [if_true, Branch.rev]
        exact List.Perm.append (List.Perm.swap _ _ _) ih'

theorem ends_same {bs bs' : List (Branch P)} (h : SameUpToOrderDir bs bs') : (ends bs').Perm (ends bs) := by
  obtain ⟨flips, hl, hp⟩ := h
  exact (ends_perm hp).trans (ends_flip bs flips hl)

theorem mult_same {bs bs' : List (Branch P)} (h : SameUpToOrderDir bs bs') (p : P) : mult bs' p = mult bs p :=
  (ends_same h).count_eq p

theorem collect_same {bs bs' : List (Branch P)} (h : SameUpToOrderDir bs bs') : (collect bs').Perm (collect bs) := by
  apply (List.perm_ext_iff_of_nodup (collect_nodup _) (collect_nodup _)).mpr
  intro a
  rw [mem_collect, mem_collect]
  exact (ends_same h).mem_iff

theorem nodeClass_same {bs bs' : List (Branch P)} (h : SameUpToOrderDir bs bs') (nearB : P → Bool)
    (d : Nat → String) (p : P) : nodeClass nearB d bs' p = nodeClass nearB d bs p := by
  unfold nodeClass; rw [mult_same h]

theorem branchLabel_nodes_perm (f : Nat → Nat → Nat → String) (close : P → P → Bool) {ns ns' : List P}
    (h : ns.Perm ns') (cls : P → String) (br : Branch P) :
    branchLabel f close ns cls br = branchLabel f close ns' cls br := by
  unfold branchLabel nodesNear
  have hf := h.filter (fun n => close n br.a || close n br.b)
  simp only [hf.countP_eq]

theorem branchLabel_rev (f : Nat → Nat → Nat → String) (close : P → P → Bool) (ns : List P) (cls : P → String) (br : Branch P) :
    branchLabel f close ns cls br.rev = branchLabel f close ns cls br := by
  unfold branchLabel nodesNear Branch.rev
  have : (fun n => close n br.b || close n br.a) = (fun n => close n br.a || close n br.b) := by
    funext n; exact Bool.or_comm _ _
  simp only [this]

end Topo
