import FractopoModel.Model.SnapLoop
/-!
# Helper lemmas about the snapping-pass model (`Model/SnapLoop.lean`)
-/
instance : LawfulBEq Pt where
  eq_of_beq {a b} h := by
    cases a; cases b
    have h' : (_ == _ && _ == _) = true := h
    simp only [Bool.and_eq_true, beq_iff_eq] at h'
    simp [h'.1, h'.2]
  rfl {a} := by
    cases a
    show (_ == _ && _ == _) = true
    simp

namespace SnapL

theorem mapM_ok_of_forall {α β : Type} (f : α → Except String β) (g : α → β) (l : List α)
    (h : ∀ x ∈ l, f x = .ok (g x)) : l.mapM f = .ok (l.map g) := by
  induction l with
  | nil => rfl
  | cons a as ih =>
    rw [List.mapM_cons, h a (by simp), ih (fun x hx => h x (by simp [hx]))]
    rfl

theorem mapM_length {α β : Type} (f : α → Except String β) (l : List α) (r : List β)
    (h : l.mapM f = .ok r) : r.length = l.length := by
  induction l generalizing r with
  | nil => simp [List.mapM_nil, pure, Except.pure] at h; subst h; rfl
  | cons a as ih =>
    rw [List.mapM_cons] at h
    cases hfa : f a with
    | error e => rw [hfa] at h; cases h
    | ok b =>
      rw [hfa] at h
      cases hrest : as.mapM f with
      | error e => rw [hrest] at h; cases h
      | ok bs =>
        rw [hrest] at h
        have : r = b :: bs := by cases h; rfl
        subst this
        simp [ih bs hrest]

/-- the replacement dictionary stays empty when no (candidate, end) pair has a target -/
theorem simpleFold_nil (t : Rat) (trace : Polyline) (cs : List Polyline)
    (h : ∀ c ∈ cs, ∀ ep ∈ ends trace, simpleTarget t trace c ep = none) :
    simpleFold t trace cs [] = .ok [] := by
  induction cs with
  | nil => rfl
  | cons c cs ih =>
    have hc := h c (by simp)
    have h1 : simpleCand t trace [] c = .ok [] := by
      simp [simpleCand, simpleStep, hc (first trace) (by simp [ends]), hc (last trace) (by simp [ends])]
    simp only [simpleFold, h1]
    exact ih (fun c' hc' => h c' (by simp [hc']))

theorem simpleDict_nil (t : Rat) (trace : Polyline) (cands : List Polyline)
    (h : ∀ c ∈ cands, ∀ ep ∈ ends trace, simpleTarget t trace c ep = none) :
    simpleDict t trace cands = .ok [] := by
  unfold simpleDict
  exact simpleFold_nil t trace _ (fun c hc => h c (List.mem_filter.mp hc).1)

theorem simpleSnap_quiet (t : Rat) (trace : Polyline) (cands : List Polyline)
    (h : ∀ c ∈ cands, ∀ ep ∈ ends trace, simpleTarget t trace c ep = none) :
    simpleSnap t trace cands = .ok (trace, false) := by
  unfold simpleSnap
  rw [simpleDict_nil t trace cands h]
  rfl

theorem snapToAnother_quiet (t : Rat) (eps : List Pt) (another : Polyline)
    (h : ∀ ep ∈ eps, (near t ep another && !onLine ep another) = false) :
    snapToAnother t eps another = (another, false) := by
  unfold snapToAnother
  have : (eps.filter fun ep => near t ep another && !onLine ep another) = [] := by
    rw [List.filter_eq_nil_iff]; intro ep hep; simp [h ep hep]
  simp [this]

end SnapL

namespace SnapL

theorem zipIdx_map_fst_false (traces : List Polyline) :
    ((traces.zipIdx.map fun (li : Polyline × Nat) => ((li.1, false) : Polyline × Bool)).map (·.1)) = traces := by
  rw [List.map_map]
  have : ((fun (x : Polyline × Bool) => x.1) ∘ fun (li : Polyline × Nat) => ((li.1, false) : Polyline × Bool)) = fun li => li.1 := rfl
  rw [this]
  exact List.zipIdx_map_fst 0 traces

theorem quietPair_simple (t : Rat) (l c : Polyline) (h : quietPair t l c = true) :
    ∀ ep ∈ ends l, simpleTarget t l c ep = none := by
  intro ep hep
  unfold quietPair at h
  have := (List.all_eq_true.mp h) ep hep
  simp only [Bool.and_eq_true] at this
  exact Option.isNone_iff_eq_none.mp this.1

theorem quietPair_insert (t : Rat) (l c : Polyline) (h : quietPair t l c = true) :
    ∀ ep ∈ ends l, (near t ep c && !onLine ep c) = false := by
  intro ep hep
  unfold quietPair at h
  have := (List.all_eq_true.mp h) ep hep
  simp only [Bool.and_eq_true] at this
  have h2 := this.2
  cases hn : near t ep c <;> cases ho : onLine ep c <;> simp_all

/-- what `quietMap` says about row `i` -/
theorem quietMap_row (ord : Ord) (t margin : Rat) (traces : List Polyline) (h : quietMap ord t margin traces = true)
    (l : Polyline) (i : Nat) (hli : (l, i) ∈ traces.zipIdx) :
    ∃ ci, candidateIdxs ord margin traces i l = .ok ci ∧
      ∀ j ∈ ci, (traces.getD j [] != l) = true ∧ quietPair t l (traces.getD j []) = true ∧ quietPair t (traces.getD j []) l = true := by
  unfold quietMap at h
  have := (List.all_eq_true.mp h) (l, i) hli
  simp only at this
  split at this
  · cases this
  · rename_i ci hci
    refine ⟨ci, hci, ?_⟩
    intro j hj
    have hj' := (List.all_eq_true.mp this) j hj
    simp only [Bool.and_eq_true] at hj'
    exact ⟨hj'.1.1, hj'.1.2, hj'.2⟩

theorem stage1_quiet (ord : Ord) (t margin : Rat) (traces : List Polyline) (h : quietMap ord t margin traces = true) :
    stage1 ord t margin traces = .ok (traces.zipIdx.map fun li => (li.1, false)) := by
  unfold stage1
  apply mapM_ok_of_forall
  intro li hli
  obtain ⟨l, i⟩ := li
  obtain ⟨ci, hci, hq⟩ := quietMap_row ord t margin traces h l i hli
  simp only [snapTraceSimple, hci]
  split
  · rfl
  · apply simpleSnap_quiet
    intro c hc ep hep
    obtain ⟨j, hj, rfl⟩ := List.mem_map.mp hc
    exact quietPair_simple t l _ (hq j hj).2.1 ep hep

theorem stage2_quiet (ord : Ord) (t margin : Rat) (areas : List Polygon) (traces : List Polyline) (h : quietMap ord t margin traces = true) :
    stage2 ord t margin areas traces traces = .ok (traces.zipIdx.map fun li => (li.1, false)) := by
  unfold stage2
  apply mapM_ok_of_forall
  intro li hli
  obtain ⟨l, i⟩ := li
  obtain ⟨ci, hci, hq⟩ := quietMap_row ord t margin traces h l i hli
  simp only [snapOthersToTrace, hci]
  have hnc : (ci.map fun i => traces.getD i []).contains l = false := by
    rw [Bool.eq_false_iff]
    intro hc
    rw [List.contains_iff_mem] at hc
    obtain ⟨j, hj, hjl⟩ := List.mem_map.mp hc
    have := (hq j hj).1
    rw [hjl] at this
    simp at this
  simp only [hnc, Bool.false_eq_true, if_false]
  split
  · rfl
  · congr 1
    apply snapToAnother_quiet
    intro ep hep
    have hep' := (List.mem_filter.mp hep).1
    obtain ⟨c, hc, hepc⟩ := List.mem_flatMap.mp hep'
    obtain ⟨j, hj, rfl⟩ := List.mem_map.mp hc
    exact quietPair_insert t _ l (hq j hj).2.2 ep hepc

/-- **a quiet map is a fixed point of the snapping pass**, and the pass reports "nothing changed" -/
theorem snapPass_quiet (ord : Ord) (t margin : Rat) (areas : List Polygon) (traces : List Polyline)
    (h : quietMap ord t margin traces = true) : snapPass ord t margin areas traces = .ok (traces, false) := by
  unfold snapPass
  split
  · rename_i he
    have : traces = [] := by simpa using he
    subst this; rfl
  · simp only [stage1_quiet ord t margin traces h, zipIdx_map_fst_false, stage2_quiet ord t margin areas traces h]
    congr 2
    simp

end SnapL

namespace SnapL

theorem snapLoop_quiet (ord : Ord) (t margin : Rat) (areas : List Polygon) (allowed : Nat) (traces : List Polyline)
    (h : quietMap ord t margin traces = true) : snapLoop ord t margin areas allowed traces = .ok (traces, 0) := by
  unfold snapLoop
  rw [snapPass_quiet ord t margin areas traces h]
  simp [snapLoopFrom]

/-- the loop never makes more than `allowed` passes inside the loop without raising -/
theorem snapLoopFrom_bound (ord : Ord) (t margin : Rat) (areas : List Polygon) (allowed : Nat) :
    ∀ (fuel loops : Nat) (traces : List Polyline) (ch : Bool) (out : List Polyline) (n : Nat),
      loops ≤ allowed → snapLoopFrom ord t margin areas allowed fuel loops traces ch = .ok (out, n) → n ≤ allowed := by
  intro fuel
  induction fuel with
  | zero => intro loops traces ch out n hl h; simp [snapLoopFrom] at h; omega
  | succ k ih =>
    intro loops traces ch out n hl h
    unfold snapLoopFrom at h
    split at h
    · simp at h; omega
    · split at h
      · cases h
      · split at h
        · cases h
        · rename_i hgt
          exact ih (loops + 1) _ _ out n (by omega) h

/-- a result of the snapping stage means: at most `allowed` repeat passes were made -/
theorem snapLoop_bound (ord : Ord) (t margin : Rat) (areas : List Polygon) (allowed : Nat) (traces out : List Polyline) (n : Nat)
    (h : snapLoop ord t margin areas allowed traces = .ok (out, n)) : n ≤ allowed := by
  unfold snapLoop at h
  split at h
  · cases h
  · exact snapLoopFrom_bound ord t margin areas allowed _ 0 _ _ out n (by omega) h

/-- the pass keeps the number of traces (trace `i` stays trace `i`) -/
theorem snapPass_length (ord : Ord) (t margin : Rat) (areas : List Polygon) (traces out : List Polyline) (ch : Bool)
    (h : snapPass ord t margin areas traces = .ok (out, ch)) : out.length = traces.length := by
  unfold snapPass at h
  split at h
  · rename_i he
    have : traces = [] := by simpa using he
    subst this
    cases h; rfl
  · split at h
    · cases h
    · rename_i s1 hs1
      split at h
      · cases h
      · rename_i s2 hs2
        have h1 := mapM_length _ _ _ hs1
        have h2 := mapM_length _ _ _ hs2
        cases h
        simp only [List.length_map, List.length_zipIdx] at h1 h2 ⊢
        omega

/-- a moved end lands on a vertex strictly closer than the threshold -/
theorem simpleTarget_close (t : Rat) (trace c : Polyline) (ep v : Pt) (h : simpleTarget t trace c ep = some v) :
    Pt.dist2 v ep < t * t := by
  unfold simpleTarget at h
  simp only [] at h
  split at h
  · cases h
  · split at h
    · cases h
    · split at h
      · cases h
      · rename_i w hw
        split at h
        · cases h
        · rename_i hclose
          split at h
          · cases h
          · cases h
            simpa using hclose

/-- an end is inserted into another trace only when it is strictly within the threshold of it and not on it -/
theorem snapToAnother_changed (t : Rat) (eps : List Pt) (another : Polyline) (h : (snapToAnother t eps another).2 = true) :
    ∃ ep ∈ eps, near t ep another = true ∧ onLine ep another = false := by
  unfold snapToAnother at h
  simp only [] at h
  split at h
  · cases h
  · rename_i hne
    have : (eps.filter fun ep => near t ep another && !onLine ep another) ≠ [] := by
      intro he; apply hne; simp [he]
    obtain ⟨ep, hep⟩ := List.exists_mem_of_ne_nil _ this
    have := List.mem_filter.mp hep
    refine ⟨ep, this.1, ?_⟩
    simpa using this.2

/-- vertex insertion adds the point and nothing else: every vertex of the result is an old vertex or the point -/
theorem insertGeo_vertices (l : Polyline) (p : Pt) (t : Rat) : ∀ v ∈ Snap.insertGeo l p t, v ∈ l ∨ v = p := by
  intro v hv
  unfold Snap.insertGeo at hv
  split at hv
  · exact Or.inl hv
  · simp only [] at hv
    generalize Snap.choose _ _ _ _ = act at hv
    cases act with
    | insertAfter j =>
      simp only [Snap.apply, List.mem_append, List.mem_cons, List.not_mem_nil, or_false] at hv
      rcases hv with (h | h) | h
      · exact Or.inl (List.mem_of_mem_take h)
      · exact Or.inr h
      · exact Or.inl (List.mem_of_mem_drop h)
    | replace k =>
      simp only [Snap.apply] at hv
      rcases List.mem_or_eq_of_mem_set hv with h | h
      · exact Or.inl h
      · exact Or.inr h

theorem foldl_insert_vertices (t : Rat) (sel : List Pt) (l : Polyline) :
    ∀ v ∈ sel.foldl (fun l ep => Snap.insertGeo l ep t) l, v ∈ l ∨ v ∈ sel := by
  induction sel generalizing l with
  | nil => intro v hv; exact Or.inl hv
  | cons e rest ih =>
    intro v hv
    simp only [List.foldl_cons] at hv
    rcases ih _ v hv with h | h
    · rcases insertGeo_vertices l e t v h with h' | h'
      · exact Or.inl h'
      · exact Or.inr (by simp [h'])
    · exact Or.inr (by simp [h])

/-- **one second-stage pass stays within the threshold of the trace as it was**: every vertex of the result is an old vertex
of the trace or an end that was strictly within the threshold of the trace before the pass -/
theorem snapToAnother_vertices (t : Rat) (eps : List Pt) (another : Polyline) :
    ∀ v ∈ (snapToAnother t eps another).1, v ∈ another ∨ (v ∈ eps ∧ near t v another = true) := by
  intro v hv
  unfold snapToAnother at hv
  simp only [] at hv
  split at hv
  · exact Or.inl hv
  · rcases foldl_insert_vertices t _ another v hv with h | h
    · exact Or.inl h
    · have := List.mem_filter.mp h
      refine Or.inr ⟨this.1, ?_⟩
      have h2 := this.2
      simp only [Bool.and_eq_true] at h2
      exact h2.1

end SnapL
