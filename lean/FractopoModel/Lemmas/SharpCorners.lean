import FractopoModel.Generated.SharpCorners
/-! The regenerated `SharpCornerValidator.validation_method` in closed form. -/
namespace SharpL
variable {L P V : Type}

/-- the test the segment starting at vertex `i` has to pass -/
def okAt (dflt : P) (unit : P → P → V) (is_nan : V → Bool) (aligned : V → V → Rat → Bool) (cs : List P) (chord : V) (avg prev : Rat) (i : Nat) : Bool :=
  let u := unit (cs.getD i dflt) (cs.getD (i + 1) dflt)
  (!is_nan u && aligned chord u avg) &&
    (i == 0 || (!is_nan (unit (cs.getD (i - 1) dflt) (cs.getD i dflt)) && aligned u (unit (cs.getD (i - 1) dflt) (cs.getD i dflt)) prev))

theorem loop_eq (coords_of : L → List P) (dflt : P) (unit : P → P → V) (is_nan : V → Bool) (aligned : V → V → Rat → Bool) (geom : L) (avg prev : Rat)
    (cs : List P) (chord : V) :
    ∀ (l : List P) (k : Nat), cs.drop k = l →
      Gen.sharp_corner_validation_loop1 coords_of dflt unit is_nan aligned geom avg prev cs chord (l.zipIdx k)
        = bif (List.range' k (cs.length - 1 - k)).all (okAt dflt unit is_nan aligned cs chord avg prev) then .done () else .ret false := by
  intro l
  induction l with
  | nil =>
    intro k hk
    have : cs.length ≤ k := List.drop_eq_nil_iff.mp hk
    have h0 : cs.length - 1 - k = 0 := by omega
    simp [Gen.sharp_corner_validation_loop1, h0]
  | cons x rest ih =>
    intro k hk
    have hklt : k < cs.length := by
      rcases Nat.lt_or_ge k cs.length with h | h
      · exact h
      · have : cs.drop k = [] := List.drop_eq_nil_iff.mpr h
        rw [this] at hk; cases hk
    have hx : cs.getD k dflt = x := by
      rw [List.getD_eq_getElem?_getD, List.getElem?_eq_getElem hklt]
      have := List.drop_eq_getElem_cons hklt
      rw [this] at hk
      simp only [List.cons.injEq] at hk
      simp [hk.1]
    have hrest : cs.drop (k + 1) = rest := by
      have := List.drop_eq_getElem_cons hklt
      rw [this] at hk
      simp only [List.cons.injEq] at hk
      exact hk.2
    simp only [List.zipIdx_cons, Gen.sharp_corner_validation_loop1]
    by_cases hlast : k = cs.length - 1
    · have h0 : cs.length - 1 - k = 0 := by omega
      simp [hlast, h0]
    · have hsucc : cs.length - 1 - k = (cs.length - 1 - (k + 1)) + 1 := by omega
      rw [hsucc, List.range'_succ, List.all_cons, ih (k + 1) hrest]
      simp only [hlast, decide_false, Bool.false_eq_true, if_false, okAt, hx]
      generalize (List.range' (k + 1) (cs.length - 1 - (k + 1))).all (okAt dflt unit is_nan aligned cs chord avg prev) = R
      by_cases hk0 : k = 0
      · subst hk0
        cases h1 : is_nan (unit x (cs.getD (0 + 1) dflt)) <;> cases h2 : aligned chord (unit x (cs.getD (0 + 1) dflt)) avg <;> cases R <;> simp [h1, h2]
      · have hb : (k == 0) = false := by simpa using hk0
        cases h1 : is_nan (unit x (cs.getD (k + 1) dflt)) <;> cases h2 : aligned chord (unit x (cs.getD (k + 1) dflt)) avg <;>
          cases h3 : is_nan (unit (cs.getD (k - 1) dflt) x) <;>
          cases h4 : aligned (unit x (cs.getD (k + 1) dflt)) (unit (cs.getD (k - 1) dflt) x) prev <;> cases R <;> simp [h1, h2, h3, h4, hk0, hb]

/-- **Closed form of the regenerated sharp-corner validation** -/
theorem generated_sharp (coords_of : L → List P) (dflt : P) (unit : P → P → V) (is_nan : V → Bool) (aligned : V → V → Rat → Bool) (geom : L) (avg prev : Rat) :
    Gen.sharp_corner_validation coords_of dflt unit is_nan aligned geom avg prev =
      (let cs := coords_of geom
       let chord := unit (cs.headD dflt) (cs.getLastD dflt)
       if cs.length = 2 then true
       else if is_nan chord then false
       else (List.range (cs.length - 1)).all (okAt dflt unit is_nan aligned cs chord avg prev)) := by
  unfold Gen.sharp_corner_validation
  simp only []
  by_cases h2 : (coords_of geom).length = 2
  · simp [h2]
  · simp only [h2, decide_false, Bool.false_eq_true, if_false]
    by_cases hn : is_nan (unit ((coords_of geom).headD dflt) ((coords_of geom).getLastD dflt)) = true
    · simp only [hn, if_true]
    · simp only [hn, Bool.false_eq_true, if_false]
      rw [loop_eq coords_of dflt unit is_nan aligned geom avg prev (coords_of geom) _ (coords_of geom) 0 (by simp)]
      simp only [Nat.sub_zero, List.range_eq_range']
      cases (List.range' 0 ((coords_of geom).length - 1)).all (okAt dflt unit is_nan aligned (coords_of geom) (unit ((coords_of geom).headD dflt) ((coords_of geom).getLastD dflt)) avg prev) <;> rfl

end SharpL
