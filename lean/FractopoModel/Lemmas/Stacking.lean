import FractopoModel.Generated.Stacking
/-! The regenerated `segment_within_buffer` in closed form. -/
namespace StackingL
variable {L M B : Type}

/-- the test one detection-length segment has to pass -/
def segOK (seg_len : Rat × Rat → Rat × Rat → Rat) (isclose : Rat → Rat → Bool) (seg_within : Rat × Rat → Rat × Rat → B → Bool)
    (bounds : Rat × Rat × Rat × Rat) (buf : B) (det : Rat) (sg : (Rat × Rat) × (Rat × Rat)) : Bool :=
  (Gen.within_bounds sg.1.1 sg.1.2 bounds.1 bounds.2.1 bounds.2.2.1 bounds.2.2.2 && Gen.within_bounds sg.2.1 sg.2.2 bounds.1 bounds.2.1 bounds.2.2.1 bounds.2.2.2) &&
    ((decide (seg_len sg.1 sg.2 > det) || isclose (seg_len sg.1 sg.2) det) && seg_within sg.1 sg.2 buf)

/-- everything after the overlap shortcut -/
def tail (buffer_ : L → Rat → B) (bounds_of : B → Rat × Rat × Rat × Rat) (intersects : B → M → Bool) (crop_ : B → M → List L) (crop_is_lines : B → M → Bool)
    (interp : L → Rat → Rat × Rat) (slen : L → Rat) (seg_len : Rat × Rat → Rat × Rat → Rat) (isclose : Rat → Rat → Bool) (seg_within : Rat × Rat → Rat × Rat → B → Bool)
    (ls : L) (mls : M) (t m o b : Rat) : Bool :=
  let buf := buffer_ ls (t * m * b)
  if !intersects buf mls then false
  else
    let cr := crop_ buf mls
    if cr.isEmpty || (decide (cr.length = 1) && decide ((cr.map slen).sum < t * o)) then false
    else if !crop_is_lines buf mls then false
    else (cr.flatMap fun l => Gen.segmentize_linestring interp slen l (t * o)).any (segOK seg_len isclose seg_within (bounds_of buf) buf (t * o))

theorem collect1 (mls_empty : M → Bool) (overlaps : L → M → Bool) (inter_is_points : L → M → Bool) (buffer_ : L → Rat → B) (bounds_of : B → Rat × Rat × Rat × Rat)
    (intersects : B → M → Bool) (crop_ : B → M → List L) (crop_is_lines : B → M → Bool) (interp : L → Rat → Rat × Rat) (slen : L → Rat)
    (seg_len : Rat × Rat → Rat × Rat → Rat) (isclose : Rat → Rat → Bool) (seg_within : Rat × Rat → Rat × Rat → B → Bool)
    (ls : L) (mls : M) (t m o b : Rat) (all l : List L) (acc : List ((Rat × Rat) × (Rat × Rat))) :
    Gen.segment_within_buffer_loop1 mls_empty overlaps inter_is_points buffer_ bounds_of intersects crop_ crop_is_lines interp slen seg_len isclose seg_within ls mls t m o b all l acc = acc ++ l.flatMap fun x => Gen.segmentize_linestring interp slen x (t * o) := by
  induction l generalizing acc with
  | nil => simp [Gen.segment_within_buffer_loop1]
  | cons x rest ih => simp [Gen.segment_within_buffer_loop1, ih]

theorem collect3 (mls_empty : M → Bool) (overlaps : L → M → Bool) (inter_is_points : L → M → Bool) (buffer_ : L → Rat → B) (bounds_of : B → Rat × Rat × Rat × Rat)
    (intersects : B → M → Bool) (crop_ : B → M → List L) (crop_is_lines : B → M → Bool) (interp : L → Rat → Rat × Rat) (slen : L → Rat)
    (seg_len : Rat × Rat → Rat × Rat → Rat) (isclose : Rat → Rat → Bool) (seg_within : Rat × Rat → Rat × Rat → B → Bool)
    (ls : L) (mls : M) (t m o b : Rat) (all l : List L) (acc : List ((Rat × Rat) × (Rat × Rat))) :
    Gen.segment_within_buffer_loop3 mls_empty overlaps inter_is_points buffer_ bounds_of intersects crop_ crop_is_lines interp slen seg_len isclose seg_within ls mls t m o b all l acc = acc ++ l.flatMap fun x => Gen.segmentize_linestring interp slen x (t * o) := by
  induction l generalizing acc with
  | nil => simp [Gen.segment_within_buffer_loop3]
  | cons x rest ih => simp [Gen.segment_within_buffer_loop3, ih]

theorem scan2 (mls_empty : M → Bool) (overlaps : L → M → Bool) (inter_is_points : L → M → Bool) (buffer_ : L → Rat → B) (bounds_of : B → Rat × Rat × Rat × Rat)
    (intersects : B → M → Bool) (crop_ : B → M → List L) (crop_is_lines : B → M → Bool) (interp : L → Rat → Rat × Rat) (slen : L → Rat)
    (seg_len : Rat × Rat → Rat × Rat → Rat) (isclose : Rat → Rat → Bool) (seg_within : Rat × Rat → Rat × Rat → B → Bool)
    (ls : L) (mls : M) (t m o b : Rat) (minx miny maxx maxy : Rat) (buf : B) (all l : List ((Rat × Rat) × (Rat × Rat))) :
    Gen.segment_within_buffer_loop2 mls_empty overlaps inter_is_points buffer_ bounds_of intersects crop_ crop_is_lines interp slen seg_len isclose seg_within ls mls t m o b minx miny maxx maxy buf all l =
      bif l.any (segOK seg_len isclose seg_within (minx, miny, maxx, maxy) buf (t * o)) then .ret true else .done () := by
  induction l with
  | nil => simp [Gen.segment_within_buffer_loop2]
  | cons x rest ih =>
    obtain ⟨s, e⟩ := x
    simp only [Gen.segment_within_buffer_loop2, List.any_cons]
    have hx : segOK seg_len isclose seg_within (minx, miny, maxx, maxy) buf (t * o) (s, e)
        = ((Gen.within_bounds s.1 s.2 minx miny maxx maxy && Gen.within_bounds e.1 e.2 minx miny maxx maxy) &&
            ((decide (seg_len s e > t * o) || isclose (seg_len s e) (t * o)) && seg_within s e buf)) := rfl
    simp only [hx, ih]
    generalize (Gen.within_bounds s.1 s.2 minx miny maxx maxy && Gen.within_bounds e.1 e.2 minx miny maxx maxy) = c1
    generalize ((decide (seg_len s e > t * o) || isclose (seg_len s e) (t * o)) && seg_within s e buf) = c2
    cases c1 <;> cases c2 <;> simp

theorem scan4 (mls_empty : M → Bool) (overlaps : L → M → Bool) (inter_is_points : L → M → Bool) (buffer_ : L → Rat → B) (bounds_of : B → Rat × Rat × Rat × Rat)
    (intersects : B → M → Bool) (crop_ : B → M → List L) (crop_is_lines : B → M → Bool) (interp : L → Rat → Rat × Rat) (slen : L → Rat)
    (seg_len : Rat × Rat → Rat × Rat → Rat) (isclose : Rat → Rat → Bool) (seg_within : Rat × Rat → Rat × Rat → B → Bool)
    (ls : L) (mls : M) (t m o b : Rat) (minx miny maxx maxy : Rat) (buf : B) (all l : List ((Rat × Rat) × (Rat × Rat))) :
    Gen.segment_within_buffer_loop4 mls_empty overlaps inter_is_points buffer_ bounds_of intersects crop_ crop_is_lines interp slen seg_len isclose seg_within ls mls t m o b minx miny maxx maxy buf all l =
      bif l.any (segOK seg_len isclose seg_within (minx, miny, maxx, maxy) buf (t * o)) then .ret true else .done () := by
  induction l with
  | nil => simp [Gen.segment_within_buffer_loop4]
  | cons x rest ih =>
    obtain ⟨s, e⟩ := x
    simp only [Gen.segment_within_buffer_loop4, List.any_cons]
    have hx : segOK seg_len isclose seg_within (minx, miny, maxx, maxy) buf (t * o) (s, e)
        = ((Gen.within_bounds s.1 s.2 minx miny maxx maxy && Gen.within_bounds e.1 e.2 minx miny maxx maxy) &&
            ((decide (seg_len s e > t * o) || isclose (seg_len s e) (t * o)) && seg_within s e buf)) := rfl
    simp only [hx, ih]
    generalize (Gen.within_bounds s.1 s.2 minx miny maxx maxy && Gen.within_bounds e.1 e.2 minx miny maxx maxy) = c1
    generalize ((decide (seg_len s e > t * o) || isclose (seg_len s e) (t * o)) && seg_within s e buf) = c2
    cases c1 <;> cases c2 <;> simp

/-- **Closed form of the regenerated `segment_within_buffer`** (the alongside flavour of STACKED TRACES) -/
theorem generated_segment_within_buffer (mls_empty : M → Bool) (overlaps : L → M → Bool) (inter_is_points : L → M → Bool) (buffer_ : L → Rat → B) (bounds_of : B → Rat × Rat × Rat × Rat)
    (intersects : B → M → Bool) (crop_ : B → M → List L) (crop_is_lines : B → M → Bool) (interp : L → Rat → Rat × Rat) (slen : L → Rat)
    (seg_len : Rat × Rat → Rat × Rat → Rat) (isclose : Rat → Rat → Bool) (seg_within : Rat × Rat → Rat × Rat → B → Bool)
    (ls : L) (mls : M) (t m o b : Rat) :
    Gen.segment_within_buffer mls_empty overlaps inter_is_points buffer_ bounds_of intersects crop_ crop_is_lines interp slen seg_len isclose seg_within ls mls t m o b =
      (if mls_empty mls then false
       else if overlaps ls mls && !inter_is_points ls mls then true
       else tail buffer_ bounds_of intersects crop_ crop_is_lines interp slen seg_len isclose seg_within ls mls t m o b) := by
  unfold Gen.segment_within_buffer tail
  simp only [collect1, collect3, List.nil_append, scan2, scan4]
  generalize hb : bounds_of (buffer_ ls (t * m * b)) = bb
  obtain ⟨minx, miny, maxx, maxy⟩ := bb
  simp only []
  generalize (List.any (List.flatMap (fun x => Gen.segmentize_linestring interp slen x (t * o)) (crop_ (buffer_ ls (t * m * b)) mls))
    (segOK seg_len isclose seg_within (minx, miny, maxx, maxy) (buffer_ ls (t * m * b)) (t * o))) = c6
  generalize ((crop_ (buffer_ ls (t * m * b)) mls).isEmpty || (decide ((crop_ (buffer_ ls (t * m * b)) mls).length = 1) &&
    decide ((List.map slen (crop_ (buffer_ ls (t * m * b)) mls)).sum < t * o))) = c4
  generalize crop_is_lines (buffer_ ls (t * m * b)) mls = c5
  generalize intersects (buffer_ ls (t * m * b)) mls = c3
  generalize mls_empty mls = c0
  generalize overlaps ls mls = c1
  generalize inter_is_points ls mls = c2
  cases c0 <;> cases c1 <;> cases c2 <;> cases c3 <;> cases c4 <;> cases c5 <;> cases c6 <;> rfl

end StackingL
