import FractopoModel.Generated.NodeJunctions
import FractopoModel.Spec.Junctions
/-!
# The regenerated `determine_node_junctions` marks exactly the documented junction traces

`Gen.determine_node_junctions` is regenerated from fractopo/general.py on every run: both loops, the removal of the
current trace's own block from the flattened point series (`.loc[mask]`), the index shift, `.iloc`, the distance mask,
the error threshold, the marking of the trace and of the owners of the close points.  The spatial-index query and the
distance are parameters.

Specification (hand-written, at the level of the flattened positions): position `a` (a point of trace `o[a]`) has the
*hits* `H(a)` = positions of points of OTHER traces strictly within `d = t·m`; when `|H(a)| ≥ max(threshold, 1)` the trace
`o[a]` and the owners of all hits are marked.  Law of the query (`QueryLaw`): duplicate-free valid positions containing every
position within `d`.
-/
namespace NodeJunctions
variable {P : Type}

/-- owner index of every flattened element, for a list of tuples whose first tuple has index `n` -/
def ownersFrom (n : Nat) (ls : List (List P)) : List Nat := (ls.zipIdx n).flatMap fun x => x.1.map fun _ => x.2

def flat (ls : List (List P)) : List P := ls.flatMap id

theorem pyFlatten_eq (ls : List (List P)) : pyFlattenTuples ls = (ownersFrom 0 ls, flat ls) := rfl

theorem ownersFrom_cons (n : Nat) (a : List P) (ls : List (List P)) :
    ownersFrom n (a :: ls) = List.replicate a.length n ++ ownersFrom (n + 1) ls := by
  simp only [ownersFrom, List.zipIdx_cons, List.flatMap_cons]
  congr 1
  induction a with
  | nil => rfl
  | cons x xs ih => simp [List.replicate_succ, ih]

theorem ownersFrom_append (n : Nat) (a b : List (List P)) :
    ownersFrom n (a ++ b) = ownersFrom n a ++ ownersFrom (n + a.length) b := by
  induction a generalizing n with
  | nil => simp [ownersFrom]
  | cons x xs ih =>
    rw [List.cons_append, ownersFrom_cons, ownersFrom_cons, ih, List.append_assoc]
    congr 2
    simp only [List.length_cons]; congr 1; omega

theorem ownersFrom_length (n : Nat) (ls : List (List P)) : (ownersFrom n ls).length = (flat ls).length := by
  induction ls generalizing n with
  | nil => rfl
  | cons a ls ih => rw [ownersFrom_cons]; simp [flat, ih] at *

theorem ownersFrom_range (n : Nat) (ls : List (List P)) : ∀ k ∈ ownersFrom n ls, n ≤ k ∧ k < n + ls.length := by
  induction ls generalizing n with
  | nil => intro k hk; simp [ownersFrom] at hk
  | cons a ls ih =>
    intro k hk
    rw [ownersFrom_cons, List.mem_append] at hk
    rcases hk with h | h
    · have := (List.mem_replicate.mp h).2; subst this; simp
    · have := ih (n + 1) k h; simp only [List.length_cons]; omega

/-! ### prelude functions on appended lists -/

theorem compress_append {α : Type} (l1 l2 : List α) (m1 m2 : List Bool) (h : l1.length = m1.length) :
    pyCompress (l1 ++ l2) (m1 ++ m2) = pyCompress l1 m1 ++ pyCompress l2 m2 := by
  simp [pyCompress, List.zip_append h]

theorem compress_true {α : Type} (l : List α) : pyCompress l (List.replicate l.length true) = l := by
  induction l with
  | nil => rfl
  | cons a as ih => simp [pyCompress, List.replicate_succ] at ih ⊢; exact ih

theorem compress_false {α : Type} (l : List α) (n : Nat) : pyCompress l (List.replicate n false) = [] := by
  induction l generalizing n with
  | nil => simp [pyCompress]
  | cons a as ih =>
    cases n with
    | zero => simp [pyCompress]
    | succ k => simp [pyCompress, List.replicate_succ] at ih ⊢; exact ih k

/-- labelled list starting at label `n` -/
def labelled {α : Type} (n : Nat) (l : List α) : List (Nat × α) := (l.zipIdx n).map fun x => (x.2, x.1)

theorem pySeries_eq {α : Type} (l : List α) : pySeries l = labelled 0 l := rfl

theorem labelled_append {α : Type} (n : Nat) (a b : List α) : labelled n (a ++ b) = labelled n a ++ labelled (n + a.length) b := by
  simp [labelled, List.zipIdx_append]

theorem labelled_length {α : Type} (n : Nat) (l : List α) : (labelled n l).length = l.length := by simp [labelled]

theorem labelled_getElem? {α : Type} (n : Nat) (l : List α) (k : Nat) : (labelled n l)[k]? = (l[k]?).map fun x => (n + k, x) := by
  simp [labelled, List.getElem?_zipIdx]
  cases l[k]? <;> simp [Nat.add_comm]

theorem labelled_fst {α : Type} (n : Nat) (l : List α) : (labelled n l).map Prod.fst = List.range' n l.length := by
  induction l generalizing n with
  | nil => rfl
  | cons a as ih => simp [labelled, List.zipIdx_cons, List.range'_succ] at ih ⊢; exact ih (n + 1)

/-! ### the current trace's block inside the flattened lists -/

theorem owners_decomp (pre post : List (List P)) (cur : List P) :
    ownersFrom 0 (pre ++ cur :: post) = ownersFrom 0 pre ++ (List.replicate cur.length pre.length ++ ownersFrom (pre.length + 1) post) := by
  rw [ownersFrom_append, ownersFrom_cons]; simp

theorem flat_decomp (pre post : List (List P)) (cur : List P) : flat (pre ++ cur :: post) = flat pre ++ (cur ++ flat post) := by
  simp [flat]

theorem mask_decomp (pre post : List (List P)) (cur : List P) :
    (ownersFrom 0 (pre ++ cur :: post)).map (fun r => r != pre.length) =
      List.replicate (flat pre).length true ++ (List.replicate cur.length false ++ List.replicate (flat post).length true) := by
  rw [owners_decomp, List.map_append, List.map_append]
  congr 1
  · rw [← ownersFrom_length 0 pre]
    apply List.ext_getElem (by simp)
    intro k h1 h2
    have hk : (ownersFrom 0 pre)[k]'(by simpa using h1) ∈ ownersFrom 0 pre := List.getElem_mem _
    have := ownersFrom_range 0 pre _ hk
    simp only [List.getElem_map, List.getElem_replicate]
    simp; omega
  · congr 1
    · simp
    · rw [← ownersFrom_length (pre.length + 1) post]
      apply List.ext_getElem (by simp)
      intro k h1 h2
      have hk : (ownersFrom (pre.length + 1) post)[k]'(by simpa using h1) ∈ ownersFrom (pre.length + 1) post := List.getElem_mem _
      have := ownersFrom_range (pre.length + 1) post _ hk
      simp only [List.getElem_map, List.getElem_replicate]
      simp; omega

/-- the flattened series without the current trace's own block: labels of the later points are shifted by the block -/
theorem other_eq (pre post : List (List P)) (cur : List P) :
    pyLocMask (pySeries (flat (pre ++ cur :: post))) ((ownersFrom 0 (pre ++ cur :: post)).map (fun r => r != pre.length)) =
      labelled 0 (flat pre) ++ labelled ((flat pre).length + cur.length) (flat post) := by
  rw [mask_decomp, flat_decomp, pySeries_eq, labelled_append, labelled_append]
  unfold pyLocMask
  rw [compress_append _ _ _ _ (by simp [labelled_length]), compress_append _ _ _ _ (by simp [labelled_length])]
  have h1 := compress_true (labelled 0 (flat pre))
  rw [labelled_length] at h1
  have h3 := compress_true (labelled (0 + (flat pre).length + cur.length) (flat post))
  rw [labelled_length] at h3
  rw [h1, compress_false, h3]
  simp

theorem idxOf_eq (pre post : List (List P)) (cur : List P) (hc : cur ≠ []) :
    List.idxOf pre.length (ownersFrom 0 (pre ++ cur :: post)) = (flat pre).length := by
  have hnot : pre.length ∉ ownersFrom 0 pre := by
    intro hmem
    have := ownersFrom_range 0 pre _ hmem
    omega
  rw [owners_decomp, List.idxOf_append, if_neg hnot, ← ownersFrom_length 0 pre]
  cases cur with
  | nil => exact absurd rfl hc
  | cons x xs => simp [List.replicate_succ]

/-! ### what one iteration of the inner loop computes -/

/-- position `val` is outside the current trace's block `[s, s+c)` and inside the flattened list -/
def inRem (s c n : Nat) (val : Nat) : Bool := decide (val < s) || (decide (s + c ≤ val) && decide (val < n))

theorem elem_remaining (pre post : List (List P)) (cur : List P) (val : Nat) :
    List.elem val ((labelled 0 (flat pre) ++ labelled ((flat pre).length + cur.length) (flat post)).map Prod.fst)
      = inRem (flat pre).length cur.length ((flat pre).length + cur.length + (flat post).length) val := by
  rw [List.map_append, labelled_fst, labelled_fst, Bool.eq_iff_iff]
  simp only [List.elem_eq_contains, List.contains_eq_mem, List.mem_append, List.mem_range', inRem, Bool.or_eq_true, Bool.and_eq_true,
    decide_eq_true_eq]
  simp only [Nat.one_mul, Nat.zero_add]
  constructor
  · rintro (⟨i, hi, rfl⟩ | ⟨i, hi, rfl⟩)
    · left; omega
    · right; omega
  · rintro (h | ⟨h1, h2⟩)
    · left; exact ⟨val, h, rfl⟩
    · right; exact ⟨val - ((flat pre).length + cur.length), by omega, by omega⟩

/-- **shift correctness inside the generated code**: a candidate position outside the block, after the shift, addresses its own
label and point in the series without the block -/
theorem other_getElem_shift (pre post : List (List P)) (cur : List P) (val : Nat)
    (h : inRem (flat pre).length cur.length ((flat pre).length + cur.length + (flat post).length) val = true) :
    (labelled 0 (flat pre) ++ labelled ((flat pre).length + cur.length) (flat post))[if val < (flat pre).length then val else val - cur.length]?
      = ((flat (pre ++ cur :: post))[val]?).map fun x => (val, x) := by
  simp only [inRem, Bool.or_eq_true, Bool.and_eq_true, decide_eq_true_eq] at h
  rw [flat_decomp]
  rcases h with h | ⟨h1, h2⟩
  · simp only [h, if_true]
    rw [List.getElem?_append_left (by simpa [labelled_length] using h), labelled_getElem?, List.getElem?_append_left h]
    simp
  · have hn : ¬ val < (flat pre).length := by omega
    simp only [hn, if_false]
    rw [List.getElem?_append_right (by simp [labelled_length]; omega), labelled_length, labelled_getElem?,
      List.getElem?_append_right (by omega), List.getElem?_append_right (by omega)]
    have e : val - cur.length - (flat pre).length = val - (flat pre).length - cur.length := by omega
    rw [e]
    cases (flat post)[val - (flat pre).length - cur.length]? with
    | none => rfl
    | some x => simp; omega

theorem compress_self_map {α : Type} (l : List α) (p : α → Bool) : pyCompress l (l.map p) = l.filter p := by
  induction l with
  | nil => rfl
  | cons a as ih =>
    simp only [pyCompress, List.map_cons, List.zip_cons_cons, List.filter_cons] at ih ⊢
    by_cases h : p a = true <;> simp [h, ih]

/-- the (label, point) pairs the inner loop keeps for point `pt` from the query result `q` -/
def selected (dist : P → P → Rat) (f : List P) (s c : Nat) (d : Rat) (q : List Nat) (pt : P) : List (Nat × P) :=
  ((q.filter (inRem s c f.length)).filterMap fun val => (f[val]?).map fun x => (val, x)).filter fun x => decide (dist x.2 pt < d)

theorem loop3_eq (query : P → Rat → List Nat) (dist : P → P → Rat) (nodes : List (List P)) (t m : Rat) (thr : Nat) (o : List Nat)
    (data : List Bool) (cands : List (Nat × P)) (l acc : List Nat) :
    Gen.determine_node_junctions_loop3 query dist nodes t m thr o data cands l acc = l.foldl (fun a b => pySetAdd a (o.getD b 0)) acc := by
  induction l generalizing acc with
  | nil => rfl
  | cons b rest ih => simp [Gen.determine_node_junctions_loop3, ih]

/-- one iteration of the inner loop -/
def step (dist : P → P → Rat) (query : P → Rat → List Nat) (f : List P) (o : List Nat) (s c idx : Nat) (t m : Rat) (thr : Nat)
    (acc : List Nat) (pt : P) : List Nat :=
  let lab := (selected dist f s c (t * m) (query pt (t * m * 10)) pt).map Prod.fst
  if lab.length = 0 then acc
  else if lab.length ≥ thr then lab.foldl (fun a b => pySetAdd a (o.getD b 0)) (pySetAdd acc idx) else acc

theorem filterMap_congr' {α β : Type} (f g : α → Option β) (l : List α) (h : ∀ x ∈ l, f x = g x) : l.filterMap f = l.filterMap g := by
  induction l with
  | nil => rfl
  | cons a as ih =>
    simp only [List.filterMap_cons, h a (by simp)]
    rw [ih (fun x hx => h x (by simp [hx]))]

theorem candidates_eq (query : P → Rat → List Nat) (pre post : List (List P)) (cur : List P) (q : List Nat) :
    pyIloc (labelled 0 (flat pre) ++ labelled ((flat pre).length + cur.length) (flat post))
        (List.map (fun val => if decide (val < (flat pre).length) = true then val else val - cur.length)
          (List.filter (fun val => List.elem val (List.map Prod.fst (labelled 0 (flat pre) ++ labelled ((flat pre).length + cur.length) (flat post)))) q))
      = (q.filter (inRem (flat pre).length cur.length (flat (pre ++ cur :: post)).length)).filterMap
          fun val => ((flat (pre ++ cur :: post))[val]?).map fun x => (val, x) := by
  have hflen : (flat (pre ++ cur :: post)).length = (flat pre).length + cur.length + (flat post).length := by
    rw [flat_decomp]; simp; omega
  unfold pyIloc
  rw [List.filterMap_map]
  have hf : (List.filter (fun val => List.elem val (List.map Prod.fst (labelled 0 (flat pre) ++ labelled ((flat pre).length + cur.length) (flat post)))) q)
      = q.filter (inRem (flat pre).length cur.length (flat (pre ++ cur :: post)).length) := by
    apply List.filter_congr; intro val _; rw [elem_remaining, hflen]
  rw [hf]
  apply filterMap_congr'
  intro val hval
  have hin := (List.mem_filter.mp hval).2
  rw [hflen] at hin
  simp only [Function.comp, decide_eq_true_eq]
  exact other_getElem_shift pre post cur val hin

theorem loop2_cons (query : P → Rat → List Nat) (dist : P → P → Rat) (pre post : List (List P)) (cur : List P) (hc : cur ≠ []) (t m : Rat) (thr : Nat)
    (points : List P) (pt : P) (j : Nat) (rest : List (P × Nat)) (acc : List Nat) :
    Gen.determine_node_junctions_loop2 query dist (pre ++ cur :: post) t m thr ()
        (labelled 0 (flat pre) ++ labelled ((flat pre).length + cur.length) (flat post)) pre.length
        (ownersFrom 0 (pre ++ cur :: post)) cur.length points ((pt, j) :: rest) acc
      = Gen.determine_node_junctions_loop2 query dist (pre ++ cur :: post) t m thr ()
        (labelled 0 (flat pre) ++ labelled ((flat pre).length + cur.length) (flat post)) pre.length
        (ownersFrom 0 (pre ++ cur :: post)) cur.length points rest
        (step dist query (flat (pre ++ cur :: post)) (ownersFrom 0 (pre ++ cur :: post)) (flat pre).length cur.length pre.length t m thr acc pt) := by
  rw [Gen.determine_node_junctions_loop2]
  simp only [idxOf_eq pre post cur hc, loop3_eq, candidates_eq query pre post cur]
  generalize hcs : (List.filterMap (fun val => Option.map (fun x => (val, x)) (flat (pre ++ cur :: post))[val]?)
      (List.filter (inRem (flat pre).length cur.length (flat (pre ++ cur :: post)).length) (query pt (t * m * 10)))) = cs
  have hmask : (List.map (fun ip => decide (dist ip pt < t * m)) (List.map Prod.snd cs)) = cs.map (fun x => decide (dist x.2 pt < t * m)) := by
    simp [List.map_map, Function.comp_def]
  rw [hmask, compress_self_map]
  have hcnt : List.countP id (cs.map fun x => decide (dist x.2 pt < t * m)) = (cs.filter fun x => decide (dist x.2 pt < t * m)).length := by
    rw [List.countP_map, List.countP_eq_length_filter]; rfl
  rw [hcnt]
  unfold step selected
  rw [hcs]
  simp only [List.length_map]
  by_cases h0 : (cs.filter fun x => decide (dist x.2 pt < t * m)).length = 0
  · simp [h0]
  · have h0' : ¬ ((((cs.filter fun x => decide (dist x.2 pt < t * m)).length : Nat) : Rat) = 0) := by
      intro h; apply h0; exact_mod_cast h
    simp only [h0', decide_false, Bool.false_eq_true, if_false, h0]
    by_cases hthr : (cs.filter fun x => decide (dist x.2 pt < t * m)).length ≥ thr
    · simp [hthr]
    · simp [hthr]

theorem loop2_eq (query : P → Rat → List Nat) (dist : P → P → Rat) (pre post : List (List P)) (cur : List P) (hc : cur ≠ []) (t m : Rat) (thr : Nat)
    (points : List P) (pts : List (P × Nat)) (acc : List Nat) :
    Gen.determine_node_junctions_loop2 query dist (pre ++ cur :: post) t m thr ()
        (labelled 0 (flat pre) ++ labelled ((flat pre).length + cur.length) (flat post)) pre.length
        (ownersFrom 0 (pre ++ cur :: post)) cur.length points pts acc
      = pts.foldl (fun a x => step dist query (flat (pre ++ cur :: post)) (ownersFrom 0 (pre ++ cur :: post)) (flat pre).length cur.length pre.length t m thr a x.1) acc := by
  induction pts generalizing acc with
  | nil => rfl
  | cons x rest ih =>
    obtain ⟨pt, j⟩ := x
    rw [loop2_cons query dist pre post cur hc, ih, List.foldl_cons]

/-! ### the outer loop and membership in the result -/

theorem mem_pySetAdd (l : List Nat) (x k : Nat) : k ∈ pySetAdd l x ↔ k ∈ l ∨ k = x := by
  unfold pySetAdd
  by_cases h : l.elem x = true
  · simp only [h, if_true]
    constructor
    · exact Or.inl
    · rintro (h1 | h1)
      · exact h1
      · subst h1; simpa using h
  · have h' : ¬ x ∈ l := by simpa using h
    simp [h, h']

theorem mem_foldl_pySetAdd (g : Nat → Nat) (bs : List Nat) (acc : List Nat) (k : Nat) :
    k ∈ bs.foldl (fun a b => pySetAdd a (g b)) acc ↔ k ∈ acc ∨ ∃ b ∈ bs, k = g b := by
  induction bs generalizing acc with
  | nil => simp
  | cons b rest ih =>
    rw [List.foldl_cons, ih, mem_pySetAdd]
    constructor
    · rintro ((h | h) | ⟨b', hb', h⟩)
      · exact .inl h
      · exact .inr ⟨b, by simp, h⟩
      · exact .inr ⟨b', by simp [hb'], h⟩
    · rintro (h | ⟨b', hb', h⟩)
      · exact .inl (.inl h)
      · rcases List.mem_cons.mp hb' with rfl | hb''
        · exact .inl (.inr h)
        · exact .inr ⟨b', hb'', h⟩

/-- the labels kept for a point -/
def labels (dist : P → P → Rat) (query : P → Rat → List Nat) (f : List P) (s c : Nat) (t m : Rat) (pt : P) : List Nat :=
  (selected dist f s c (t * m) (query pt (t * m * 10)) pt).map Prod.fst

/-- the marking condition of a point: at least `max thr 1` kept labels -/
def fires (dist : P → P → Rat) (query : P → Rat → List Nat) (f : List P) (s c : Nat) (t m : Rat) (thr : Nat) (pt : P) : Prop :=
  (labels dist query f s c t m pt).length ≠ 0 ∧ (labels dist query f s c t m pt).length ≥ thr

theorem mem_step (dist : P → P → Rat) (query : P → Rat → List Nat) (f : List P) (o : List Nat) (s c idx : Nat) (t m : Rat) (thr : Nat)
    (acc : List Nat) (pt : P) (k : Nat) :
    k ∈ step dist query f o s c idx t m thr acc pt ↔
      k ∈ acc ∨ (fires dist query f s c t m thr pt ∧ (k = idx ∨ ∃ b ∈ labels dist query f s c t m pt, k = o.getD b 0)) := by
  unfold step fires labels
  simp only []
  by_cases h0 : ((selected dist f s c (t * m) (query pt (t * m * 10)) pt).map Prod.fst).length = 0
  · simp [h0]
  · by_cases hthr : ((selected dist f s c (t * m) (query pt (t * m * 10)) pt).map Prod.fst).length ≥ thr
    · simp only [h0, hthr, if_false, if_true, mem_foldl_pySetAdd, mem_pySetAdd, ne_eq, not_false_eq_true, true_and]
      constructor
      · rintro ((h | h) | h)
        · exact .inl h
        · exact .inr (.inl h)
        · exact .inr (.inr h)
      · rintro (h | h | h)
        · exact .inl (.inl h)
        · exact .inl (.inr h)
        · exact .inr h
    · simp only [h0, hthr, if_false, ne_eq, not_false_eq_true, true_and, false_and, or_false]

theorem mem_foldl_step (dist : P → P → Rat) (query : P → Rat → List Nat) (f : List P) (o : List Nat) (s c idx : Nat) (t m : Rat) (thr : Nat)
    (pts : List (P × Nat)) (acc : List Nat) (k : Nat) :
    k ∈ pts.foldl (fun a x => step dist query f o s c idx t m thr a x.1) acc ↔
      k ∈ acc ∨ ∃ x ∈ pts, fires dist query f s c t m thr x.1 ∧ (k = idx ∨ ∃ b ∈ labels dist query f s c t m x.1, k = o.getD b 0) := by
  induction pts generalizing acc with
  | nil => simp
  | cons x rest ih =>
    rw [List.foldl_cons, ih, mem_step]
    constructor
    · rintro ((h | h) | ⟨y, hy, h⟩)
      · exact .inl h
      · exact .inr ⟨x, by simp, h⟩
      · exact .inr ⟨y, by simp [hy], h⟩
    · rintro (h | ⟨y, hy, h⟩)
      · exact .inl (.inl h)
      · rcases List.mem_cons.mp hy with rfl | hy'
        · exact .inl (.inr h)
        · exact .inr ⟨y, hy', h⟩

/-- what a point of trace `pre.length` (in the decomposition `nodes = pre ++ cur :: post`) contributes -/
def Contributes (dist : P → P → Rat) (query : P → Rat → List Nat) (nodes : List (List P)) (t m : Rat) (thr : Nat) (k : Nat)
    (pre : List (List P)) (cur : List P) (pt : P) : Prop :=
  fires dist query (flat nodes) (flat pre).length cur.length t m thr pt ∧
    (k = pre.length ∨ ∃ b ∈ labels dist query (flat nodes) (flat pre).length cur.length t m pt, k = (ownersFrom 0 nodes).getD b 0)

theorem decomp_unique (pre pre' post post' : List (List P)) (cur cur' : List P) (h : pre ++ cur :: post = pre' ++ cur' :: post')
    (hl : pre.length = pre'.length) : pre = pre' ∧ cur = cur' ∧ post = post' := by
  have := List.append_inj h hl
  obtain ⟨h1, h2⟩ := this
  simp only [List.cons.injEq] at h2
  exact ⟨h1, h2.1, h2.2⟩

theorem loop1_mem (query : P → Rat → List Nat) (dist : P → P → Rat) (nodes : List (List P)) (t m : Rat) (thr : Nat) :
    ∀ (l pre : List (List P)), nodes = pre ++ l → ∀ (acc : List Nat) (k : Nat),
      k ∈ Gen.determine_node_junctions_loop1 query dist nodes t m thr (pySeries (flat nodes)) (ownersFrom 0 nodes) () (l.zipIdx pre.length) acc ↔
        k ∈ acc ∨ ∃ pre' cur post, nodes = pre' ++ cur :: post ∧ pre.length ≤ pre'.length ∧
          ∃ x ∈ cur.zipIdx, Contributes dist query nodes t m thr k pre' cur x.1 := by
  intro l
  induction l with
  | nil =>
    intro pre hn acc k
    simp only [List.zipIdx_nil, Gen.determine_node_junctions_loop1]
    constructor
    · exact Or.inl
    · rintro (h | ⟨pre', cur, post, hd, hle, _⟩)
      · exact h
      · exfalso
        have h1 : nodes.length = pre.length := by rw [hn]; simp
        have h2 : nodes.length = pre'.length + 1 + post.length := by rw [hd]; simp; omega
        omega
  | cons cur post ih =>
    intro pre hn acc k
    have hn' : nodes = (pre ++ [cur]) ++ post := by rw [hn]; simp
    have ih' := ih (pre ++ [cur]) hn'
    simp only [List.length_append, List.length_singleton] at ih'
    rw [List.zipIdx_cons, Gen.determine_node_junctions_loop1]
    by_cases hc : cur = []
    · subst hc
      simp only [List.length_nil, decide_true, if_true]
      rw [ih']
      constructor
      · rintro (h | ⟨pre', cur', post', hd, hle, hx⟩)
        · exact .inl h
        · exact .inr ⟨pre', cur', post', hd, by omega, hx⟩
      · rintro (h | ⟨pre', cur', post', hd, hle, hx⟩)
        · exact .inl h
        · by_cases heq : pre.length = pre'.length
          · obtain ⟨_, h2, _⟩ := decomp_unique pre pre' post post' [] cur' (hn ▸ hd) heq
            subst h2
            obtain ⟨x, hx1, _⟩ := hx
            simp at hx1
          · exact .inr ⟨pre', cur', post', hd, by omega, hx⟩
    · have hlen : ¬ cur.length = 0 := by intro h; exact hc (List.eq_nil_of_length_eq_zero h)
      simp only [hlen, decide_false, Bool.false_eq_true, if_false]
      rw [ih']
      have hother := other_eq pre post cur
      rw [← hn] at hother
      rw [hother]
      have hl2 := loop2_eq query dist pre post cur hc t m thr cur cur.zipIdx acc
      rw [← hn] at hl2
      rw [hl2, mem_foldl_step]
      constructor
      · rintro ((h | ⟨x, hx, hf⟩) | ⟨pre', cur', post', hd, hle, hx⟩)
        · exact .inl h
        · exact .inr ⟨pre, cur, post, hn, Nat.le_refl _, x, hx, hf⟩
        · exact .inr ⟨pre', cur', post', hd, by omega, hx⟩
      · rintro (h | ⟨pre', cur', post', hd, hle, hx⟩)
        · exact .inl (.inl h)
        · by_cases heq : pre.length = pre'.length
          · obtain ⟨h1, h2, h3⟩ := decomp_unique pre pre' post post' cur cur' (hn ▸ hd) heq
            subst h1 h2 h3
            obtain ⟨x, hx1, hx2⟩ := hx
            exact .inl (.inr ⟨x, hx1, hx2⟩)
          · exact .inr ⟨pre', cur', post', hd, by omega, hx⟩

/-- **Refinement, query level**: trace `k` is in the result of the regenerated function exactly when some point of some trace fires
(at least `max threshold 1` points of other traces kept) and `k` is that trace or the owner of a kept point -/
theorem generated_mem (query : P → Rat → List Nat) (dist : P → P → Rat) (nodes : List (List P)) (t m : Rat) (thr : Nat) (k : Nat) :
    k ∈ Gen.determine_node_junctions query dist nodes t m thr ↔
      ∃ pre cur post, nodes = pre ++ cur :: post ∧ ∃ x ∈ cur.zipIdx, Contributes dist query nodes t m thr k pre cur x.1 := by
  unfold Gen.determine_node_junctions
  by_cases h0 : nodes.length = 0
  · have : nodes = [] := List.eq_nil_of_length_eq_zero h0
    subst this
    simp
  · simp only [h0, decide_false, Bool.false_eq_true, if_false, pyFlatten_eq]
    by_cases h1 : (flat nodes).length = 0
    · simp only [h1, decide_true, if_true, List.not_mem_nil, false_iff]
      rintro ⟨pre, cur, post, hd, x, hx, _⟩
      have : (flat nodes).length ≥ cur.length := by rw [hd, flat_decomp]; simp; omega
      have hx' := List.mem_zipIdx hx
      omega
    · simp only [h1, decide_false, Bool.false_eq_true, if_false]
      have := loop1_mem query dist nodes t m thr nodes [] (by simp) [] k
      simp only [List.length_nil, List.not_mem_nil, false_or, Nat.zero_le, true_and] at this
      exact this

/-! ### from the query to the specification -/

/-- law of the spatial-index parameter: for every point the query (window `w`) returns duplicate-free positions that include every
position whose point is strictly within `d` -/
def QueryLaw (query : P → Rat → List Nat) (dist : P → P → Rat) (f : List P) (d w : Rat) : Prop :=
  ∀ pt, (query pt w).Nodup ∧ ∀ b x, f[b]? = some x → dist x pt < d → b ∈ query pt w

theorem labels_eq_filter (dist : P → P → Rat) (f : List P) (s c : Nat) (d : Rat) (q : List Nat) (pt : P) :
    (selected dist f s c d q pt).map Prod.fst =
      q.filter fun val => inRem s c f.length val && (match f[val]? with | some x => decide (dist x pt < d) | none => false) := by
  unfold selected
  induction q with
  | nil => rfl
  | cons v rest ih =>
    simp only [List.filter_cons]
    by_cases hin : inRem s c f.length v = true
    · simp only [hin, if_true, List.filterMap_cons, Bool.true_and]
      cases hf : f[v]? with
      | none => simpa [hf] using ih
      | some x =>
        simp only [Option.map_some, List.filter_cons]
        by_cases hd : dist x pt < d
        · simp only [hd, decide_true, if_true, List.map_cons, List.cons.injEq, true_and]; exact ih
        · simp only [hd, decide_false, Bool.false_eq_true, if_false]; exact ih
    · simp only [hin, Bool.false_eq_true, if_false, Bool.false_and]; exact ih

theorem owner_at (pre post : List (List P)) (cur : List P) (b : Nat) (hb : b < (flat (pre ++ cur :: post)).length) :
    ((ownersFrom 0 (pre ++ cur :: post)).getD b 0 = pre.length) ↔ ((flat pre).length ≤ b ∧ b < (flat pre).length + cur.length) := by
  have hlen : (flat (pre ++ cur :: post)).length = (flat pre).length + cur.length + (flat post).length := by
    rw [flat_decomp]; simp; omega
  rw [owners_decomp, List.getD_eq_getElem?_getD]
  by_cases h1 : b < (flat pre).length
  · rw [List.getElem?_append_left (by rw [ownersFrom_length]; exact h1)]
    have hb' : b < (ownersFrom 0 pre).length := by rw [ownersFrom_length]; exact h1
    have hm : (ownersFrom 0 pre)[b] ∈ ownersFrom 0 pre := List.getElem_mem hb'
    have := ownersFrom_range 0 pre _ hm
    rw [List.getElem?_eq_getElem hb']
    simp; omega
  · rw [List.getElem?_append_right (by rw [ownersFrom_length]; omega), ownersFrom_length]
    by_cases h2 : b - (flat pre).length < cur.length
    · rw [List.getElem?_append_left (by simpa using h2)]
      simp [List.getElem?_replicate, h2]; omega
    · rw [List.getElem?_append_right (by simp; omega)]
      simp only [List.length_replicate]
      have hb2 : b - (flat pre).length - cur.length < (ownersFrom (pre.length + 1) post).length := by rw [ownersFrom_length]; omega
      have hm : (ownersFrom (pre.length + 1) post)[b - (flat pre).length - cur.length] ∈ ownersFrom (pre.length + 1) post := List.getElem_mem hb2
      have := ownersFrom_range (pre.length + 1) post _ hm
      rw [List.getElem?_eq_getElem hb2]
      simp; omega

theorem inRem_iff_owner (pre post : List (List P)) (cur : List P) (b : Nat) :
    inRem (flat pre).length cur.length (flat (pre ++ cur :: post)).length b = true ↔
      b < (flat (pre ++ cur :: post)).length ∧ (ownersFrom 0 (pre ++ cur :: post)).getD b 0 ≠ pre.length := by
  have hlen : (flat (pre ++ cur :: post)).length = (flat pre).length + cur.length + (flat post).length := by
    rw [flat_decomp]; simp; omega
  simp only [inRem, Bool.or_eq_true, Bool.and_eq_true, decide_eq_true_eq]
  constructor
  · intro h
    have hb : b < (flat (pre ++ cur :: post)).length := by omega
    refine ⟨hb, ?_⟩
    rw [Ne, owner_at pre post cur b hb]; omega
  · rintro ⟨hb, hne⟩
    rw [Ne, owner_at pre post cur b hb] at hne
    omega

theorem mem_hits (dist : P → P → Rat) (o : List Nat) (f : List P) (d : Rat) (a : Nat) (pt : P) (b : Nat) :
    b ∈ Spec.junctionHits dist o f d a pt ↔ ∃ x, f[b]? = some x ∧ o.getD b 0 ≠ o.getD a 0 ∧ dist x pt < d := by
  unfold Spec.junctionHits
  simp only [List.mem_map, List.mem_filter, Bool.and_eq_true, bne_iff_ne, ne_eq, decide_eq_true_eq]
  constructor
  · rintro ⟨⟨x, j⟩, ⟨hmem, h1, h2⟩, rfl⟩
    exact ⟨x, by simpa using List.mem_zipIdx_iff_getElem?.mp hmem, h1, h2⟩
  · rintro ⟨x, hx, h1, h2⟩
    exact ⟨(x, b), ⟨List.mem_zipIdx_iff_getElem?.mpr (by simpa using hx), h1, h2⟩, rfl⟩

theorem hits_nodup (dist : P → P → Rat) (o : List Nat) (f : List P) (d : Rat) (a : Nat) (pt : P) :
    (Spec.junctionHits dist o f d a pt).Nodup := by
  unfold Spec.junctionHits
  have hsub : ((f.zipIdx.filter fun x => (o.getD x.2 0 != o.getD a 0) && decide (dist x.1 pt < d)).map (·.2)).Sublist (f.zipIdx.map (·.2)) :=
    (List.filter_sublist).map _
  refine hsub.nodup ?_
  rw [List.zipIdx_map_snd]
  exact List.nodup_range'

/-- under the query law the labels kept by the generated code for a point of trace `pre.length` are, as a set and in number, the
specified hits of that point -/
theorem labels_vs_hits (dist : P → P → Rat) (query : P → Rat → List Nat) (pre post : List (List P)) (cur : List P) (t m : Rat) (pt : P) (a : Nat)
    (ha : (ownersFrom 0 (pre ++ cur :: post)).getD a 0 = pre.length)
    (hq : QueryLaw query dist (flat (pre ++ cur :: post)) (t * m) (t * m * 10)) :
    (∀ b, b ∈ labels dist query (flat (pre ++ cur :: post)) (flat pre).length cur.length t m pt ↔
        b ∈ Spec.junctionHits dist (ownersFrom 0 (pre ++ cur :: post)) (flat (pre ++ cur :: post)) (t * m) a pt) ∧
    (labels dist query (flat (pre ++ cur :: post)) (flat pre).length cur.length t m pt).length =
      (Spec.junctionHits dist (ownersFrom 0 (pre ++ cur :: post)) (flat (pre ++ cur :: post)) (t * m) a pt).length := by
  have hmem : ∀ b, b ∈ labels dist query (flat (pre ++ cur :: post)) (flat pre).length cur.length t m pt ↔
      b ∈ Spec.junctionHits dist (ownersFrom 0 (pre ++ cur :: post)) (flat (pre ++ cur :: post)) (t * m) a pt := by
    intro b
    rw [mem_hits, labels, labels_eq_filter, List.mem_filter, Bool.and_eq_true, inRem_iff_owner, ha]
    constructor
    · rintro ⟨_, ⟨hb, hne⟩, hmatch⟩
      cases hf : (flat (pre ++ cur :: post))[b]? with
      | none => simp [hf] at hmatch
      | some x => exact ⟨x, rfl, hne, by simpa [hf] using hmatch⟩
    · rintro ⟨x, hx, hne, hd⟩
      have hb : b < (flat (pre ++ cur :: post)).length := by
        rcases List.getElem?_eq_some_iff.mp hx with ⟨h, _⟩; exact h
      exact ⟨(hq pt).2 b x hx hd, ⟨hb, hne⟩, by simp [hx, hd]⟩
  refine ⟨hmem, ?_⟩
  have hn1 : (labels dist query (flat (pre ++ cur :: post)) (flat pre).length cur.length t m pt).Nodup := by
    rw [labels, labels_eq_filter]; exact (hq pt).1.filter _
  exact ((List.perm_ext_iff_of_nodup hn1 (hits_nodup _ _ _ _ _ _)).mpr hmem).length_eq

/-- every flattened position is point `j` of exactly one trace `cur` of a decomposition, at position `|flat pre| + j` -/
theorem mem_flat_zipIdx (nodes : List (List P)) (pt : P) (a : Nat) :
    (pt, a) ∈ (flat nodes).zipIdx ↔ ∃ pre cur post j, nodes = pre ++ cur :: post ∧ (pt, j) ∈ cur.zipIdx ∧ a = (flat pre).length + j := by
  rw [List.mem_zipIdx_iff_getElem?]
  simp only [Nat.zero_add]
  induction nodes generalizing a with
  | nil =>
    simp only [flat, List.flatMap_nil, List.getElem?_nil]
    constructor
    · intro h; cases h
    · rintro ⟨pre, cur, post, j, h, _⟩; cases pre <;> cases h
  | cons c rest ih =>
    have hfl : flat (c :: rest) = c ++ flat rest := by simp [flat]
    rw [hfl]
    by_cases hlt : a < c.length
    · rw [List.getElem?_append_left hlt]
      constructor
      · intro h
        exact ⟨[], c, rest, a, rfl, List.mem_zipIdx_iff_getElem?.mpr (by simpa using h), by simp [flat]⟩
      · rintro ⟨pre, cur, post, j, hd, hj, ha⟩
        have hj' := List.mem_zipIdx_iff_getElem?.mp hj
        simp only [Nat.zero_add] at hj'
        cases pre with
        | nil =>
          simp only [List.nil_append, List.cons.injEq] at hd
          obtain ⟨rfl, _⟩ := hd
          simp [flat] at ha; subst ha; exact hj'
        | cons p ps =>
          simp only [List.cons_append, List.cons.injEq] at hd
          obtain ⟨rfl, _⟩ := hd
          have : (flat (c :: ps)).length ≥ c.length := by simp [flat]
          omega
    · rw [List.getElem?_append_right (by omega), ih]
      constructor
      · rintro ⟨pre, cur, post, j, hd, hj, ha⟩
        refine ⟨c :: pre, cur, post, j, by simp [hd], hj, ?_⟩
        simp [flat] at ha ⊢; omega
      · rintro ⟨pre, cur, post, j, hd, hj, ha⟩
        have hj' := List.mem_zipIdx_iff_getElem?.mp hj
        simp only [Nat.zero_add] at hj'
        have hjlt : j < cur.length := by
          rcases List.getElem?_eq_some_iff.mp hj' with ⟨h, _⟩; exact h
        cases pre with
        | nil =>
          simp only [List.nil_append, List.cons.injEq] at hd
          obtain ⟨rfl, _⟩ := hd
          simp [flat] at ha; omega
        | cons p ps =>
          simp only [List.cons_append, List.cons.injEq] at hd
          obtain ⟨rfl, hd'⟩ := hd
          refine ⟨ps, cur, post, j, hd', hj, ?_⟩
          simp [flat] at ha ⊢; omega

theorem mem_marks (dist : P → P → Rat) (o : List Nat) (f : List P) (d : Rat) (thr : Nat) (k : Nat) :
    k ∈ Spec.junctionMarks dist o f d thr ↔
      ∃ pt a, (pt, a) ∈ f.zipIdx ∧ ((Spec.junctionHits dist o f d a pt).length ≥ thr ∧ (Spec.junctionHits dist o f d a pt).length ≠ 0) ∧
        (k = o.getD a 0 ∨ ∃ b ∈ Spec.junctionHits dist o f d a pt, k = o.getD b 0) := by
  unfold Spec.junctionMarks
  simp only [List.mem_flatMap]
  constructor
  · rintro ⟨⟨pt, a⟩, hmem, hk⟩
    simp only [] at hk
    split at hk
    · rename_i hcond
      refine ⟨pt, a, hmem, hcond, ?_⟩
      rcases List.mem_cons.mp hk with h | h
      · exact .inl h
      · obtain ⟨b, hb, rfl⟩ := List.mem_map.mp h
        exact .inr ⟨b, hb, rfl⟩
    · cases hk
  · rintro ⟨pt, a, hmem, hcond, hk⟩
    refine ⟨(pt, a), hmem, ?_⟩
    simp only [hcond, ne_eq, not_false_eq_true, and_self, if_true]
    rcases hk with h | ⟨b, hb, h⟩
    · exact List.mem_cons.mpr (.inl h)
    · exact List.mem_cons.mpr (.inr (List.mem_map.mpr ⟨b, hb, h.symm⟩))

/-- **Refinement to the specification**: under the query law, the regenerated `determine_node_junctions` marks exactly the
traces the specification marks (as sets) -/
theorem generated_eq_spec (query : P → Rat → List Nat) (dist : P → P → Rat) (nodes : List (List P)) (t m : Rat) (thr : Nat)
    (hq : QueryLaw query dist (flat nodes) (t * m) (t * m * 10)) (k : Nat) :
    k ∈ Gen.determine_node_junctions query dist nodes t m thr ↔
      k ∈ Spec.junctionMarks dist (ownersFrom 0 nodes) (flat nodes) (t * m) thr := by
  rw [generated_mem, mem_marks]
  constructor
  · rintro ⟨pre, cur, post, hd, ⟨pt, j⟩, hx, hfire, hk⟩
    subst hd
    have hjlt : j < cur.length := by
      have h := (List.mem_zipIdx hx).2
      simp only [Nat.zero_add] at h
      exact h.1
    have ha : (ownersFrom 0 (pre ++ cur :: post)).getD ((flat pre).length + j) 0 = pre.length := by
      rw [owner_at pre post cur _ (by rw [flat_decomp]; simp; omega)]; omega
    obtain ⟨hmem, hlen⟩ := labels_vs_hits dist query pre post cur t m pt _ ha hq
    refine ⟨pt, (flat pre).length + j, (mem_flat_zipIdx _ pt _).mpr ⟨pre, cur, post, j, rfl, hx, rfl⟩, ?_, ?_⟩
    · unfold fires at hfire; rw [hlen] at hfire; exact ⟨hfire.2, hfire.1⟩
    · rcases hk with h | ⟨b, hb, h⟩
      · exact .inl (by rw [ha]; exact h)
      · exact .inr ⟨b, (hmem b).mp hb, h⟩
  · rintro ⟨pt, a, hmemz, hcond, hk⟩
    obtain ⟨pre, cur, post, j, hd, hx, rfl⟩ := (mem_flat_zipIdx nodes pt a).mp hmemz
    subst hd
    have hjlt : j < cur.length := by
      have h := (List.mem_zipIdx hx).2
      simp only [Nat.zero_add] at h
      exact h.1
    have ha : (ownersFrom 0 (pre ++ cur :: post)).getD ((flat pre).length + j) 0 = pre.length := by
      rw [owner_at pre post cur _ (by rw [flat_decomp]; simp; omega)]; omega
    obtain ⟨hmem, hlen⟩ := labels_vs_hits dist query pre post cur t m pt _ ha hq
    refine ⟨pre, cur, post, rfl, (pt, j), hx, ?_, ?_⟩
    · unfold fires; rw [hlen]; exact ⟨hcond.2, hcond.1⟩
    · rcases hk with h | ⟨b, hb, h⟩
      · exact .inl (by rw [← ha]; exact h)
      · exact .inr ⟨b, (hmem b).mpr hb, h⟩

end NodeJunctions
