import FractopoModel.Lemmas.Topology
import FractopoModel.Generated.BranchIdentities
/-!
# The regenerated branch-labelling loop refines `Topo.branchLabel`

`Gen.get_branch_identities` is regenerated from fractopo/branches_and_nodes.py (the loop over the
branches, the bounding-box query for node candidates, `iloc`, the distance mask, `compress`, the
three counts, the call of `determine_branch_identity`).  Law of the query parameter (`BoxLaw`): the
candidates are the positions of a sub-selection of the nodes (any order, no repetition) that
contains every node within the threshold of the branch's ends.
-/
namespace BranchTable
open Topo
variable {B N : Type}

/-- the bounding-box query returns, in some order and without repetition, the positions of the nodes
satisfying some box predicate `inBox`, and every node within the threshold is inside the box -/
def BoxLaw (bquery : B → List Nat) (edist : N → B → Rat) (ns : List N) (t : Rat) (br : B) : Prop :=
  ∃ inBox : N → Bool, (bquery br).Perm ((ns.zipIdx.filter fun x => inBox x.1).map (·.2)) ∧ ∀ n ∈ ns, edist n br < t → inBox n = true

theorem pyCompress_map {α β : Type} (f : α → β) (p : α → Bool) (l : List α) :
    pyCompress (l.map f) (l.map p) = (l.filter p).map f := by
  induction l with
  | nil => rfl
  | cons a as ih =>
    simp only [pyCompress, List.map_cons, List.zip_cons_cons, List.filter_cons] at ih ⊢
    by_cases h : p a = true
    · simp [h, ih]
    · simp [h, ih]

theorem countP_filter_zipIdx (ns : List N) (q : N → Bool) (n0 : Nat) :
    ((ns.zipIdx n0).filter fun x => q x.1).length = ns.countP q := by
  induction ns generalizing n0 with
  | nil => simp
  | cons a as ih =>
    simp only [List.zipIdx_cons, List.filter_cons, List.countP_cons]
    by_cases h : q a = true
    · simp [h, ih]
    · simp [h, ih]

/-- what one iteration computes: the label of the counts over ALL nodes within the threshold -/
theorem step_eq (bquery : B → List Nat) (edist : N → B → Rat) (ns : List N) (dflt : N) (cls : N → String) (t : Rat) (br : B)
    (law : BoxLaw bquery edist ns t br) (pred : String → Bool) :
    List.countP pred
      (pyCompress ((bquery br).map fun i => ((ns.map cls).getD i ""))
        (((bquery br).map fun i => ns.getD i dflt).map (fun n => edist n br) |>.map fun d => decide (d < t)))
      = (ns.filter fun n => decide (edist n br < t)).countP (fun n => pred (cls n)) := by
  obtain ⟨inBox, hperm, hcovers⟩ := law
  -- rewrite both lists as maps over the candidate positions
  have hpos : ∀ i ∈ bquery br, ∃ n, ns[i]? = some n ∧ inBox n = true := by
    intro i hi
    rw [hperm.mem_iff] at hi
    simp only [List.mem_map, List.mem_filter] at hi
    obtain ⟨⟨n, j⟩, ⟨hmem, hbox⟩, rfl⟩ := hi
    exact ⟨n, by simpa using List.mem_zipIdx_iff_getElem?.mp hmem, hbox⟩
  have e1 : ((bquery br).map fun i => ((ns.map cls).getD i "")) = (bquery br).map (fun i => cls (ns.getD i dflt)) := by
    apply List.map_congr_left
    intro i hi
    obtain ⟨n, hn, _⟩ := hpos i hi
    simp [List.getD_eq_getElem?_getD, hn]
  have e2 : (((bquery br).map fun i => ns.getD i dflt).map (fun n => edist n br) |>.map fun d => decide (d < t))
      = (bquery br).map (fun i => decide (edist (ns.getD i dflt) br < t)) := by
    simp [List.map_map, Function.comp_def]
  rw [e1, e2]
  have e3 : pyCompress ((bquery br).map fun i => cls (ns.getD i dflt)) ((bquery br).map fun i => decide (edist (ns.getD i dflt) br < t))
      = ((bquery br).filter fun i => decide (edist (ns.getD i dflt) br < t)).map (fun i => cls (ns.getD i dflt)) :=
    pyCompress_map _ _ _
  rw [e3, List.countP_map]
  -- counting over a permutation of the box positions
  have hcount : ∀ (q : Nat → Bool), ((bquery br).filter q).length = (((ns.zipIdx.filter fun x => inBox x.1).map (·.2)).filter q).length :=
    fun q => (hperm.filter q).length_eq
  rw [List.countP_eq_length_filter, List.filter_filter, hcount, List.filter_map, List.length_map, List.filter_filter]
  -- positions back to nodes
  have e4 : (ns.zipIdx.filter fun x => ((((fun n => pred (cls n)) ∘ fun i => ns.getD i dflt) x.2 && decide (edist (ns.getD x.2 dflt) br < t)) && inBox x.1))
      = ns.zipIdx.filter fun x => (pred (cls x.1) && decide (edist x.1 br < t)) && inBox x.1 := by
    apply List.filter_congr
    intro x hx
    obtain ⟨n, i⟩ := x
    have : ns[i]? = some n := by simpa using List.mem_zipIdx_iff_getElem?.mp hx
    simp [List.getD_eq_getElem?_getD, this]
  simp only [Function.comp_def] at e4 ⊢
  rw [e4, countP_filter_zipIdx ns (fun n => (pred (cls n) && decide (edist n br < t)) && inBox n) 0]
  rw [List.countP_filter]
  apply List.countP_congr
  intro n hn
  by_cases hc : edist n br < t
  · simp [hc, hcovers n hn hc]
  · simp [hc]

end BranchTable

namespace BranchTable
open Topo
variable {B N : Type}

/-- the label the documented counting assigns to a branch: counts of I / X-or-Y / E nodes among ALL nodes within the threshold -/
def labelOf (edist : N → B → Rat) (ns : List N) (cls : N → String) (t : Rat) (br : B) : String :=
  let near := ns.filter fun n => decide (edist n br < t)
  Gen.determine_branch_identity (near.countP fun n => cls n == "I") (near.countP fun n => List.elem (cls n) ["X", "Y"]) (near.countP fun n => cls n == "E")

theorem loop_eq (bquery : B → List Nat) (edist : N → B → Rat) (ns : List N) (dflt : N) (cls : N → String) (t : Rat) (all l : List B)
    (law : ∀ br ∈ l, BoxLaw bquery edist ns t br) (acc : List String) :
    Gen.get_branch_identities_loop1 bquery edist all (fun i => ns.getD i dflt) (ns.map cls) t l acc = acc ++ l.map (labelOf edist ns cls t) := by
  induction l generalizing acc with
  | nil => simp [Gen.get_branch_identities_loop1]
  | cons br rest ih =>
    simp only [Gen.get_branch_identities_loop1]
    rw [ih (fun b hb => law b (by simp [hb]))]
    have hl := law br (by simp)
    rw [step_eq bquery edist ns dflt cls t br hl (fun s => s == "E"), step_eq bquery edist ns dflt cls t br hl (fun s => s == "I"),
      step_eq bquery edist ns dflt cls t br hl (fun s => List.elem s ["X", "Y"])]
    simp [labelOf]

/-- **Refinement**: the regenerated `get_branch_identities` labels every branch by the counts of node kinds among all nodes
within the threshold of its ends -/
theorem generated_branch_labels (bquery : B → List Nat) (edist : N → B → Rat) (ns : List N) (dflt : N) (cls : N → String) (t : Rat) (brs : List B)
    (law : ∀ br ∈ brs, BoxLaw bquery edist ns t br) :
    Gen.get_branch_identities bquery edist brs (fun i => ns.getD i dflt) (ns.map cls) t = brs.map (labelOf edist ns cls t) := by
  unfold Gen.get_branch_identities
  simp only []
  rw [loop_eq bquery edist ns dflt cls t brs brs law []]
  simp

end BranchTable
