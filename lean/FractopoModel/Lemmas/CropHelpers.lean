import FractopoModel.Generated.CropHelpers
/-! Closed forms of the regenerated `dissolve_multi_part_traces` (GeoDataFrame branch) and `is_empty_area`. -/
namespace CropH
variable {D G A : Type}

theorem loop2_eq (is_mls is_ls : G → Bool) (parts : G → List G) (traces : List (D × G)) (row : D × G) (all l : List G) (acc : List (D × G)) :
    Gen.dissolve_multi_part_traces_loop2 is_mls is_ls parts traces row all l acc = acc ++ l.map fun g => (row.1, g) := by
  induction l generalizing acc with
  | nil => simp [Gen.dissolve_multi_part_traces_loop2]
  | cons g rest ih => simp [Gen.dissolve_multi_part_traces_loop2, ih]

theorem loop1_eq (is_mls is_ls : G → Bool) (parts : G → List G) (traces mls : List (D × G)) (asl : List (List G)) (l : List ((D × G) × List G)) (acc : List (D × G)) :
    Gen.dissolve_multi_part_traces_loop1 is_mls is_ls parts traces mls asl l acc =
      bif l.any (fun x => x.2.isEmpty) then .ret (.error "ValueError") else .done (acc ++ l.flatMap fun x => x.2.map fun g => (x.1.1, g)) := by
  induction l generalizing acc with
  | nil => simp [Gen.dissolve_multi_part_traces_loop1]
  | cons x rest ih =>
    obtain ⟨row, ps⟩ := x
    simp only [Gen.dissolve_multi_part_traces_loop1, loop2_eq, List.any_cons, List.flatMap_cons]
    cases ps with
    | nil => simp
    | cons p ps' =>
      simp only [List.length_cons, Nat.succ_ne_zero, decide_false, Bool.false_eq_true, if_false, List.isEmpty_cons, Bool.false_or, ih]
      cases rest.any (fun x => x.2.isEmpty) <;> simp

theorem compress_pred (traces : List (D × G)) (q : D × G → Bool) :
    pyCompress traces (traces.map q) = traces.filter q := by
  induction traces with
  | nil => rfl
  | cons a as ih =>
    simp only [pyCompress, List.map_cons, List.zip_cons_cons, List.filter_cons] at ih ⊢
    cases q a <;> simp [ih]

theorem compress_not (traces : List (D × G)) (f : D × G → Bool) :
    pyCompress traces ((traces.map f).map fun v => !v) = traces.filter fun r => !f r := by
  rw [List.map_map]
  exact compress_pred traces (fun r => !f r)

/-- **`dissolve_multi_part_traces` on a frame in closed form**: nothing changes without multi-part rows; otherwise a multi-part row
without parts is a ValueError, a result containing a non-LineString a TypeError, and the result is the single-part rows (in order)
followed by every part of every multi-part row (in order), each part with the data of the row it came from. -/
theorem generated_dissolve (is_mls is_ls : G → Bool) (parts : G → List G) (traces : List (D × G)) :
    Gen.dissolve_multi_part_traces is_mls is_ls parts traces =
      (let mls := traces.filter fun r => is_mls r.2
       if mls.length = 0 then .ok traces
       else if mls.any (fun r => (parts r.2).isEmpty) then .error "ValueError"
       else
         let out := (traces.filter fun r => !is_mls r.2) ++ mls.flatMap fun r => (parts r.2).map fun g => (r.1, g)
         if out.all (fun r => is_ls r.2) then .ok out else .error "TypeError") := by
  unfold Gen.dissolve_multi_part_traces
  simp only []
  by_cases h0 : (traces.filter fun r => is_mls r.2).length = 0
  · simp [h0]
  · simp only [h0, decide_false, Bool.false_eq_true, if_false, loop1_eq, List.nil_append, compress_not]
    have hz : ((traces.filter fun r => is_mls r.2).zip ((traces.filter fun r => is_mls r.2).map fun r => parts r.2))
        = (traces.filter fun r => is_mls r.2).map fun r => (r, parts r.2) := by
      generalize (traces.filter fun r => is_mls r.2) = l
      induction l with
      | nil => rfl
      | cons a as ih => simp [ih]
    rw [hz]
    simp only [List.any_map, List.flatMap_map, Function.comp_def]
    cases (traces.filter fun r => is_mls r.2).any (fun r => (parts r.2).isEmpty) with
    | true => simp
    | false =>
      simp only [cond_false, Bool.not_true, Bool.false_eq_true, if_false]
      cases ((traces.filter fun r => !is_mls r.2) ++ (traces.filter fun r => is_mls r.2).flatMap fun r => (parts r.2).map fun g => (r.1, g)).all (fun r => is_ls r.2) <;> simp

theorem empty_loop2 (window : A → List Nat) (meets : G → A → Bool) (area : List A) (traces : List G) (a : A) (pot l : List G) :
    Gen.is_empty_area_loop2 window meets area traces a pot l = bif l.any (fun tr => meets tr a) then .ret false else .done () := by
  induction l with
  | nil => simp [Gen.is_empty_area_loop2]
  | cons x rest ih =>
    simp only [Gen.is_empty_area_loop2, List.any_cons, ih]
    cases meets x a <;> simp

theorem empty_loop1 (window : A → List Nat) (meets : G → A → Bool) (area : List A) (traces : List G) (l : List A) :
    Gen.is_empty_area_loop1 window meets area traces l =
      bif l.any (fun a => ((window a).filterMap fun i => traces[i]?).any fun tr => meets tr a) then .ret false else .done () := by
  induction l with
  | nil => simp [Gen.is_empty_area_loop1]
  | cons a rest ih =>
    simp only [Gen.is_empty_area_loop1, empty_loop2, List.any_cons, ih]
    cases ((window a).filterMap fun i => traces[i]?).any (fun tr => meets tr a) <;> simp

/-- **`is_empty_area` in closed form**: the target area is void of traces iff no area row is met by a trace its index window reports -/
theorem generated_is_empty_area (window : A → List Nat) (meets : G → A → Bool) (area : List A) (traces : List G) :
    Gen.is_empty_area window meets area traces = !(area.any fun a => ((window a).filterMap fun i => traces[i]?).any fun tr => meets tr a) := by
  unfold Gen.is_empty_area
  rw [empty_loop1]
  cases area.any (fun a => ((window a).filterMap fun i => traces[i]?).any fun tr => meets tr a) <;> rfl

end CropH
