import FractopoModel.Lemmas.SnapLoop
import FractopoModel.Generated.SnapDriver
/-! The regenerated `while any_changes_applied` driver of `branches_and_nodes` equals the model loop `SnapL.snapLoop`. -/
namespace SnapDriver

theorem driver_while_eq (ord : SnapL.Ord) (t margin : Rat) (areas : List Polygon) (allowed : Nat) (pass_ : List Polyline → List Polyline × Bool)
    (hpass : ∀ tr, SnapL.snapPass ord t margin areas tr = .ok (pass_ tr)) :
    ∀ (fuel loops : Nat) (tr : List Polyline) (ch : Bool),
      (match Gen.snap_driver_while1 pass_ allowed (fuel + 1) tr ch loops with
        | .ret r => r
        | .done (tr', _, n) => .ok (tr', n))
      = (match SnapL.snapLoopFrom ord t margin areas allowed (fuel + 1) loops tr ch with
        | .ok r => .ok r
        | .error e => .error e) ∨ fuel + 1 + loops < allowed + 2 := by
  intro fuel
  induction fuel with
  | zero =>
    intro loops tr ch
    by_cases hlt : 0 + 1 + loops < allowed + 2
    · exact .inr hlt
    · left
      cases ch
      · simp [Gen.snap_driver_while1, SnapL.snapLoopFrom]
      · have hgt : loops + 1 > allowed := by omega
        simp [Gen.snap_driver_while1, SnapL.snapLoopFrom, hpass tr, hgt]
  | succ k ih =>
    intro loops tr ch
    by_cases hlt : k + 1 + 1 + loops < allowed + 2
    · exact .inr hlt
    · left
      cases ch
      · simp [Gen.snap_driver_while1, SnapL.snapLoopFrom]
      · rw [Gen.snap_driver_while1, SnapL.snapLoopFrom]
        simp only [if_true, Bool.not_true, Bool.false_eq_true, if_false, hpass tr]
        by_cases hgt : loops + 1 > allowed
        · simp [hgt]
        · simp only [hgt, decide_false, Bool.false_eq_true, if_false]
          rcases ih (loops + 1) (pass_ tr).1 (pass_ tr).2 with h | h
          · exact h
          · omega

/-- the regenerated snapping driver is the model's loop: With enough fuel (`allowed + 2` iterations can never all be taken:
the counter check raises first) the regenerated `while any_changes_applied:` loop of `branches_and_nodes` -- pass again with
the same traces / threshold / areas, count, raise RecursionError when more than `allowed_loops` repeat passes were needed -- returns
exactly what `SnapL.snapLoop` returns, for every pass function that does not itself raise. It never runs out of fuel. -/
theorem generated_driver (ord : SnapL.Ord) (t margin : Rat) (areas : List Polygon) (allowed : Nat) (pass_ : List Polyline → List Polyline × Bool)
    (hpass : ∀ tr, SnapL.snapPass ord t margin areas tr = .ok (pass_ tr)) (traces : List Polyline) :
    Gen.snap_driver pass_ traces allowed (allowed + 2) = SnapL.snapLoop ord t margin areas allowed traces := by
  unfold Gen.snap_driver SnapL.snapLoop
  simp only [hpass traces]
  rcases driver_while_eq ord t margin areas allowed pass_ hpass (allowed + 1) 0 (pass_ traces).1 (pass_ traces).2 with h | h
  · cases hg : Gen.snap_driver_while1 pass_ allowed (allowed + 1 + 1) (pass_ traces).1 (pass_ traces).2 0 with
    | ret r =>
      rw [hg] at h
      cases hs : SnapL.snapLoopFrom ord t margin areas allowed (allowed + 1 + 1) 0 (pass_ traces).1 (pass_ traces).2 <;> simp_all
    | done st =>
      obtain ⟨tr', c, n⟩ := st
      rw [hg] at h
      cases hs : SnapL.snapLoopFrom ord t margin areas allowed (allowed + 1 + 1) 0 (pass_ traces).1 (pass_ traces).2 <;> simp_all
  · omega


end SnapDriver
