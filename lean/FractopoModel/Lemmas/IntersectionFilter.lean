import FractopoModel.Generated.IntersectionFilter
/-!
# The regenerated `determine_valid_intersection_points_no_vnode` keeps exactly the intersection points that are not on a
shared end

Specification: an intersection point `p` of the trace with its candidates is dropped iff some END `ge` of the trace is close to
an END `ce` of some candidate and `p` is close to `ge` (the contact is a V-node, which is judged from the end points).
-/
namespace IntersectionFilter
variable {L P : Type}

/-- the trace ends that coincide with an end of some candidate (with repetitions, in loop order) -/
def activeEnds (ends_of : L → List P) (close : P → P → Bool) (cands : List L) (geom : L) : List P :=
  cands.flatMap fun c => (ends_of c).flatMap fun ce => (ends_of geom).filter fun ge => close ce ge

/-- mask `M` is mask `k` with the flags of the points satisfying `S` switched off -/
def Upd (inter : List P) (k M : List Bool) (S : P → Bool) : Prop :=
  ∀ i : Nat, M[i]? = (k[i]?).map fun b => b && !(match inter[i]? with | some p => S p | none => false)

theorem Upd.refl (inter : List P) (k : List Bool) : Upd inter k k (fun _ => false) := by
  intro i; cases k[i]? <;> cases inter[i]? <;> simp

theorem Upd.trans (inter : List P) (k M M' : List Bool) (S1 S2 : P → Bool) (h1 : Upd inter k M S1) (h2 : Upd inter M M' S2) :
    Upd inter k M' (fun p => S1 p || S2 p) := by
  intro i
  rw [h2 i, h1 i]
  cases k[i]? <;> cases inter[i]? <;> simp [Bool.and_assoc]
  all_goals (cases S1 _ <;> simp)

theorem Upd.congr (inter : List P) (k M : List Bool) (S S' : P → Bool) (h : Upd inter k M S) (hs : ∀ p, S p = S' p) : Upd inter k M S' := by
  intro i; rw [h i]; cases k[i]? <;> cases inter[i]? <;> simp [hs]

/-- innermost loop over an arbitrary list of (point, index) pairs: the flag at `i` is switched off iff some processed pair has
index `i` and a point close to `ge` -/
theorem loop4_pointwise (inter0 : List P) (ends_of : L → List P) (close : P → P → Bool) (cands : List L) (geom : L) (ge : P) (all : List P)
    (l : List (P × Nat)) (k : List Bool) (i : Nat) :
    (Gen.intersection_points_no_vnode_loop4 inter0 ends_of close cands geom ge all l k)[i]? =
      (k[i]?).map fun b => b && !(l.any fun x => x.2 == i && close ge x.1) := by
  induction l generalizing k with
  | nil => simp [Gen.intersection_points_no_vnode_loop4]
  | cons x rest ih =>
    obtain ⟨p, idx⟩ := x
    rw [Gen.intersection_points_no_vnode_loop4]
    by_cases hk : (k.getD idx true) = true
    · simp only [hk, Bool.not_true, Bool.false_eq_true, if_false]
      by_cases hc : close ge p = true
      · simp only [hc, if_true]
        rw [ih, List.getElem?_set]
        by_cases hi : idx = i
        · subst hi
          by_cases hlt : idx < k.length
          · simp [hlt, hc, List.getElem?_eq_getElem hlt]
          · have : k[idx]? = none := by simp [List.getElem?_eq_none_iff]; omega
            simp [hlt, this]
        · have : (idx == i) = false := by simpa using hi
          simp [hi, this]
      · simp only [hc, Bool.false_eq_true, if_false]
        rw [ih]
        simp [hc]
    · simp only [hk, Bool.not_false, if_true]
      rw [ih]
      have hk' : k.getD idx true = false := by simpa using hk
      by_cases hi : idx = i
      · subst hi
        rw [List.getD_eq_getElem?_getD] at hk'
        cases hki : k[idx]? with
        | none => simp
        | some b =>
          rw [hki] at hk'; simp at hk'; subst hk'; simp
      · have : (idx == i) = false := by simpa using hi
        simp [this]

theorem any_zipIdx (inter : List P) (i : Nat) (q : P → Bool) :
    (inter.zipIdx.any fun x => x.2 == i && q x.1) = (match inter[i]? with | some p => q p | none => false) := by
  cases hi : inter[i]? with
  | none =>
    simp only []
    rw [List.any_eq_false]
    rintro ⟨p, j⟩ hmem
    have := List.mem_zipIdx_iff_getElem?.mp hmem
    simp only [Nat.zero_add] at this
    by_cases hji : j = i
    · subst hji; rw [hi] at this; cases this
    · simp [hji]
  | some p =>
    simp only []
    by_cases hq : q p = true
    · rw [hq, List.any_eq_true]
      exact ⟨(p, i), List.mem_zipIdx_iff_getElem?.mpr (by simpa using hi), by simp [hq]⟩
    · have hq' : q p = false := by simpa using hq
      rw [hq', List.any_eq_false]
      rintro ⟨p', j⟩ hmem
      have := List.mem_zipIdx_iff_getElem?.mp hmem
      simp only [Nat.zero_add] at this
      by_cases hji : j = i
      · subst hji; rw [hi] at this; cases this; simp [hq']
      · simp [hji]

theorem loop4_upd (inter0 : List P) (ends_of : L → List P) (close : P → P → Bool) (cands : List L) (geom : L) (ge : P) (inter : List P) (k : List Bool) :
    Upd inter k (Gen.intersection_points_no_vnode_loop4 inter0 ends_of close cands geom ge inter (List.zipIdx inter) k) (fun p => close ge p) := by
  intro i
  rw [loop4_pointwise, any_zipIdx]

theorem loop3_upd (inter0 : List P) (ends_of : L → List P) (close : P → P → Bool) (cands : List L) (geom : L) (ce : P) (inter : List P) (allges : List P)
    (ges : List P) (k : List Bool) :
    Upd inter k (Gen.intersection_points_no_vnode_loop3 inter0 ends_of close cands geom ce inter allges ges k)
      (fun p => (ges.filter fun ge => close ce ge).any fun ge => close ge p) := by
  induction ges generalizing k with
  | nil => simpa [Gen.intersection_points_no_vnode_loop3] using Upd.refl inter k
  | cons ge rest ih =>
    rw [Gen.intersection_points_no_vnode_loop3]
    by_cases hc : close ce ge = true
    · simp only [hc, Bool.not_true, Bool.false_eq_true, if_false]
      refine Upd.congr _ _ _ _ _ (Upd.trans _ _ _ _ _ _ (loop4_upd inter0 ends_of close cands geom ge inter k) (ih _)) ?_
      intro p; simp [List.filter_cons, hc]
    · simp only [hc, Bool.not_false, if_true]
      refine Upd.congr _ _ _ _ _ (ih k) ?_
      intro p; simp [List.filter_cons, hc]

theorem loop2_upd (inter0 : List P) (ends_of : L → List P) (close : P → P → Bool) (cands : List L) (geom : L) (ges : List P) (inter : List P) (allces : List P)
    (ces : List P) (k : List Bool) :
    Upd inter k (Gen.intersection_points_no_vnode_loop2 inter0 ends_of close cands geom ges inter allces ces k)
      (fun p => (ces.flatMap fun ce => ges.filter fun ge => close ce ge).any fun ge => close ge p) := by
  induction ces generalizing k with
  | nil => simpa [Gen.intersection_points_no_vnode_loop2] using Upd.refl inter k
  | cons ce rest ih =>
    rw [Gen.intersection_points_no_vnode_loop2]
    refine Upd.congr _ _ _ _ _ (Upd.trans _ _ _ _ _ _ (loop3_upd inter0 ends_of close cands geom ce inter ges ges k) (ih _)) ?_
    intro p; simp [List.flatMap_cons, List.any_append]

theorem loop1_upd (inter0 : List P) (ends_of : L → List P) (close : P → P → Bool) (all : List L) (geom : L) (ges : List P) (inter : List P)
    (cands : List L) (k : List Bool) :
    Upd inter k (Gen.intersection_points_no_vnode_loop1 inter0 ends_of close all geom ges inter cands k)
      (fun p => (cands.flatMap fun c => (ends_of c).flatMap fun ce => ges.filter fun ge => close ce ge).any fun ge => close ge p) := by
  induction cands generalizing k with
  | nil => simpa [Gen.intersection_points_no_vnode_loop1] using Upd.refl inter k
  | cons c rest ih =>
    rw [Gen.intersection_points_no_vnode_loop1]
    refine Upd.congr _ _ _ _ _ (Upd.trans _ _ _ _ _ _ (loop2_upd inter0 ends_of close all geom ges inter (ends_of c) (ends_of c) k) (ih _)) ?_
    intro p; simp [List.flatMap_cons, List.any_append]

theorem compress_self_map {α : Type} (l : List α) (p : α → Bool) : pyCompress l (l.map p) = l.filter p := by
  induction l with
  | nil => rfl
  | cons a as ih =>
    simp only [pyCompress, List.map_cons, List.zip_cons_cons, List.filter_cons] at ih ⊢
    by_cases h : p a = true <;> simp [h, ih]

/-- **Refinement**: the regenerated function keeps exactly the intersection points that are not close to an active end -/
theorem generated_eq_spec (inter : List P) (ends_of : L → List P) (close : P → P → Bool) (cands : List L) (geom : L) :
    Gen.intersection_points_no_vnode inter ends_of close cands geom =
      inter.filter fun p => !((activeEnds ends_of close cands geom).any fun ge => close ge p) := by
  unfold Gen.intersection_points_no_vnode
  by_cases h0 : inter.length = 0
  · have : inter = [] := List.eq_nil_of_length_eq_zero h0
    subst this; simp
  · simp only [h0, decide_false, Bool.false_eq_true, if_false]
    have hupd := loop1_upd inter ends_of close cands geom (ends_of geom) inter cands (List.replicate inter.length true)
    have hmask : Gen.intersection_points_no_vnode_loop1 inter ends_of close cands geom (ends_of geom) inter cands (List.replicate inter.length true)
        = inter.map fun p => !((activeEnds ends_of close cands geom).any fun ge => close ge p) := by
      apply List.ext_getElem?
      intro i
      rw [hupd i, List.getElem?_map, List.getElem?_replicate]
      by_cases hi : i < inter.length
      · simp [hi, List.getElem?_eq_getElem hi, activeEnds]
      · have : inter[i]? = none := by simp [List.getElem?_eq_none_iff]; omega
        simp [hi, this]
    rw [hmask, compress_self_map]

end IntersectionFilter
