import FractopoModel.Model.SnapLoop
import FractopoModel.Lemmas.SnapLoop
import FractopoModel.Lemmas.InsertPoint
import FractopoModel.Generated.SimpleSnap
/-!
# The regenerated `simple_snap` refines the hand-written first snapping stage `SnapL.simpleSnap`
-/
namespace SimpleSnapL
open SnapL InsertPt
variable {α β : Type}

/-! ### head of the stable sort = first minimum -/

def step (key : α → Rat) (best x : α) : α := if key x < key best then x else best

theorem head_insertBy (key : α → Rat) (x : α) (s : List α) :
    (pyInsertBy key x s).head? = match s.head? with | none => some x | some h => if key x ≤ key h then some x else some h := by
  cases s with
  | nil => rfl
  | cons y ys =>
    simp only [pyInsertBy, List.head?_cons]
    split <;> rfl

theorem foldl_step_eq (key : α → Rat) (l : List α) (b : α) :
    l.foldl (step key) b = match (pySortedBy key l).head? with | none => b | some h => if key b ≤ key h then b else h := by
  induction l generalizing b with
  | nil => rfl
  | cons x xs ih =>
    have hs : pySortedBy key (x :: xs) = pyInsertBy key x (pySortedBy key xs) := rfl
    rw [List.foldl_cons, ih, hs, head_insertBy]
    cases hh : (pySortedBy key xs).head? with
    | none =>
      simp only [step]
      by_cases h1 : key x < key b
      · have : ¬ key b ≤ key x := Rat.not_le.mpr h1
        simp [h1, this]
      · have : key b ≤ key x := Rat.not_lt.mp h1
        simp [h1, this]
    | some h =>
      simp only [step]
      by_cases h1 : key x < key b <;> by_cases h2 : key x ≤ key h <;> by_cases h3 : key b ≤ key h <;> simp [h1, h2, h3] <;> grind

/-- the first element of the stable sort is the first minimum (left fold with strict `<`) -/
theorem head_sortedBy (key : α → Rat) (v : α) (rest : List α) :
    (pySortedBy key (v :: rest)).head? = some (rest.foldl (step key) v) := by
  have hs : pySortedBy key (v :: rest) = pyInsertBy key v (pySortedBy key rest) := rfl
  rw [hs, head_insertBy, foldl_step_eq]
  cases (pySortedBy key rest).head? with
  | none => rfl
  | some h => simp only []; split <;> rfl

theorem insertBy_map (key : β → Rat) (g : α → β) (x : α) (s : List α) :
    pyInsertBy key (g x) (s.map g) = (pyInsertBy (fun a => key (g a)) x s).map g := by
  induction s with
  | nil => rfl
  | cons y ys ih =>
    simp only [List.map_cons, pyInsertBy]
    split
    · rfl
    · simp [ih]

theorem sortedBy_map (key : β → Rat) (g : α → β) (l : List α) :
    pySortedBy key (l.map g) = (pySortedBy (fun a => key (g a)) l).map g := by
  induction l with
  | nil => rfl
  | cons x xs ih =>
    have h1 : pySortedBy key ((x :: xs).map g) = pyInsertBy key (g x) (pySortedBy key (xs.map g)) := rfl
    have h2 : pySortedBy (fun a => key (g a)) (x :: xs) = pyInsertBy (fun a => key (g a)) x (pySortedBy (fun a => key (g a)) xs) := rfl
    rw [h1, h2, ih, insertBy_map]

theorem foldl_min_map (f : α → Rat) (l : List α) (b : α) :
    (l.map f).foldl min (f b) = f (l.foldl (step f) b) := by
  induction l generalizing b with
  | nil => rfl
  | cons x xs ih =>
    simp only [List.map_cons, List.foldl_cons]
    have : min (f b) (f x) = f (step f b x) := by
      unfold step
      by_cases h : f x < f b
      · simp only [h, if_true]; rw [Rat.min_def]; have : ¬ f b ≤ f x := Rat.not_le.mpr h; simp [this]
      · simp only [h, if_false]; rw [Rat.min_def]; have : f b ≤ f x := Rat.not_lt.mp h; simp [this]
    rw [this, ih]

theorem zip_map_self (f : α → β) (l : List α) : List.zip l (l.map f) = l.map fun c => (c, f c) := by
  induction l with
  | nil => rfl
  | cons x xs ih => simp [ih]

/-! ### the exact parameters -/

def ldistE (t : Rat) (ep : Pt) (c : Polyline) : Rat := (ptLineDist2 ep c).getD (t * t)
def interE (l m : Polyline) : List Pt := (interPts l m).getD []

theorem near_eq (t : Rat) (ep : Pt) (c : Polyline) : decide (ldistE t ep c < t * t) = near t ep c := by
  unfold ldistE near
  cases ptLineDist2 ep c with
  | none => simp [Rat.lt_irrefl]
  | some d => rfl

/-- the nearest interior vertex as the generated code finds it (minimum of the distances, head of the stable sort) is the model's
first minimum -/
theorem nearest_vertex (ep v0 : Pt) (rest : List Pt) :
    let cps := v0 :: rest
    let distances := cps.map fun cp => Pt.dist2 cp ep
    let v := rest.foldl (step fun x => Pt.dist2 x ep) v0
    listMin distances = Pt.dist2 v ep ∧
      (List.headD (pySortedBy (fun (vals : Pt × Rat) => vals.2) (List.zip cps distances)) (ep, 0)).1 = v := by
  intro cps distances v
  constructor
  · show (distances.foldl min (distances.headD 0)) = _
    simp only [distances, cps, List.map_cons, List.headD_cons, List.foldl_cons]
    rw [show min (Pt.dist2 v0 ep) (Pt.dist2 v0 ep) = Pt.dist2 v0 ep from by rw [Rat.min_def]; simp]
    exact foldl_min_map (fun x => Pt.dist2 x ep) rest v0
  · simp only [distances]
    rw [zip_map_self, sortedBy_map]
    have := head_sortedBy (fun x => Pt.dist2 x ep) v0 rest
    simp only [cps]
    cases hh : pySortedBy (fun a => Pt.dist2 a ep) (v0 :: rest) with
    | nil => rw [hh] at this; simp at this
    | cons h tl =>
      rw [hh] at this
      simp only [List.head?_cons, Option.some.injEq] at this
      simp [this, v]

/-! ### the loops -/

/-- the model's treatment of a list of ends against one candidate -/
def stepEnds (t : Rat) (trace c : Polyline) : List Pt → List (Pt × Pt) → Except String (List (Pt × Pt))
  | [], d => .ok d
  | ep :: rest, d =>
    match simpleStep t trace c d ep with
    | .error e => .error e
    | .ok d1 => stepEnds t trace c rest d1

theorem simpleCand_eq (t : Rat) (trace c : Polyline) (d : List (Pt × Pt)) :
    simpleCand t trace d c = stepEnds t trace c (ends trace) d := by
  unfold simpleCand ends stepEnds
  cases simpleStep t trace c d (first trace) with
  | error e => rfl
  | ok d1 =>
    simp only [stepEnds]
    cases simpleStep t trace c d1 (last trace) <;> rfl

theorem alistHas_eq (d : List (Pt × Pt)) (ep : Pt) : alistHas d ep = d.any (·.1 == ep) := rfl

/-- one end against one candidate with at least one interior vertex: the generated body = `simpleStep` -/
theorem loop2_eq (t : Rat) (trace c : Polyline) (cands : List Polyline) (eps0 : List Pt) (hc : interior c ≠ []) (eps : List Pt) (d : List (Pt × Pt)) :
    Gen.simple_snap_loop2 ends (ldistE t) interior (fun a b => a == b) (fun a b => Pt.dist2 a b) interE id id trace cands (t * t) (interior c) c eps0 eps d
      = match stepEnds t trace c eps d with | .error e => .ret (.error e) | .ok d' => .done d' := by
  induction eps generalizing d with
  | nil => rfl
  | cons ep rest ih =>
    obtain ⟨v0, vs, hcps⟩ : ∃ v0 vs, interior c = v0 :: vs := by
      cases h : interior c with
      | nil => exact absurd h hc
      | cons a b => exact ⟨a, b, rfl⟩
    have hnv := nearest_vertex ep v0 vs
    simp only at hnv
    rw [Gen.simple_snap_loop2]
    simp only [stepEnds, simpleStep, simpleTarget, hcps, List.isEmpty_cons, Bool.false_eq_true, if_false, argminPt]
    -- already snapped to a vertex?
    have hcont : (List.any (List.map (fun coord_point => ep == coord_point) (v0 :: vs)) id) = (v0 :: vs).contains ep := by
      rw [List.any_map]
      simp only [List.contains_eq_any_beq, Function.comp_def, id]
    rw [hcont]
    by_cases h1 : (v0 :: vs).contains ep = true
    · simp only [h1, if_true]
      rw [← hcps]; exact ih d
    · simp only [h1, Bool.false_eq_true, if_false]
      rw [hnv.1]
      have hstep : (fun best x => if Pt.dist2 x ep < Pt.dist2 best ep then x else best) = step (fun x => Pt.dist2 x ep) := rfl
      rw [hstep]
      by_cases h2 : Pt.dist2 (List.foldl (step fun x => Pt.dist2 x ep) v0 vs) ep < t * t
      · simp only [h2, decide_true, Bool.not_true, Bool.false_eq_true, if_false]
        have hint : (List.any (List.map (fun intersection_point => decide (Pt.dist2 intersection_point ep < t * t)) (interE trace c)) id)
            = ((interPts trace c).getD []).any (fun ip => decide (Pt.dist2 ip ep < t * t)) := by
          rw [List.any_map]; rfl
        rw [hint]
        by_cases h3 : ((interPts trace c).getD []).any (fun ip => decide (Pt.dist2 ip ep < t * t)) = true
        · simp only [h3, if_true]
          rw [← hcps]; exact ih d
        · simp only [h3, Bool.false_eq_true, if_false, alistHas_eq]
          by_cases h4 : d.any (·.1 == ep) = true
          · simp [h4]
          · simp only [h4, Bool.false_eq_true, if_false, Bool.not_false, Bool.not_true]
            have hset : alistSet d ep (List.headD (pySortedBy (fun (vals : Pt × Rat) => vals.2) (List.zip (v0 :: vs) (List.map (fun coord_point => Pt.dist2 coord_point ep) (v0 :: vs)))) (ep, 0)).1
                = d ++ [(ep, List.foldl (step fun x => Pt.dist2 x ep) v0 vs)] := by
              unfold alistSet
              rw [alistHas_eq]
              simp only [h4, Bool.false_eq_true, if_false, hnv.2]
            rw [hset, ← hcps]
            exact ih _
      · simp only [h2, decide_false, Bool.not_false, if_true]
        rw [← hcps]; exact ih d

theorem simpleCand_no_interior (t : Rat) (trace c : Polyline) (d : List (Pt × Pt)) (h : interior c = []) : simpleCand t trace d c = .ok d := by
  simp [simpleCand, simpleStep, simpleTarget, h]

theorem loop1_eq (t : Rat) (trace : Polyline) (cands tsts : List Polyline) (l : List Polyline) (d : List (Pt × Pt)) :
    Gen.simple_snap_loop1 ends (ldistE t) interior (fun a b => a == b) (fun a b => Pt.dist2 a b) interE id id trace cands (t * t) (ends trace) tsts l d
      = match simpleFold t trace l d with | .error e => .ret (.error e) | .ok d' => .done d' := by
  induction l generalizing d with
  | nil => rfl
  | cons c cs ih =>
    rw [Gen.simple_snap_loop1]
    simp only [simpleFold]
    by_cases hc : interior c = []
    · simp only [hc, List.length_nil, decide_true, if_true, simpleCand_no_interior t trace c d hc]
      exact ih d
    · have hlen : ¬ (interior c).length = 0 := fun h => hc (List.eq_nil_of_length_eq_zero h)
      simp only [hlen, decide_false, Bool.false_eq_true, if_false]
      rw [loop2_eq t trace c cands (ends trace) hc (ends trace) d, simpleCand_eq]
      cases stepEnds t trace c (ends trace) d with
      | error e => rfl
      | ok d1 => exact ih d1

theorem applyDict_eq (d : List (Pt × Pt)) (trace : Polyline) :
    List.map (fun point => if (!(alistHas d point)) then point else ((alistGet? d point).getD point)) trace = applyDict d trace := by
  unfold applyDict
  apply List.map_congr_left
  intro p _
  unfold alistHas alistGet?
  cases hf : d.find? (fun q => q.1 == p) with
  | none =>
    have : d.any (fun q => q.1 == p) = false := by
      rw [List.any_eq_false]; intro x hx; exact List.find?_eq_none.mp hf x hx
    simp [this]
  | some kv =>
    have hmem := List.mem_of_find?_eq_some hf
    have hk := List.find?_some hf
    have : d.any (fun q => q.1 == p) = true := List.any_eq_true.mpr ⟨kv, hmem, hk⟩
    simp [this]

/-- **Refinement**: the regenerated `simple_snap`, with exact squared distances for the distance parameters, IS the model's first
snapping stage for one trace -- for every trace, candidate list and threshold, including the `ValueError` -/
theorem generated_simple_snap (t : Rat) (trace : Polyline) (cands : List Polyline) :
    Gen.simple_snap ends (ldistE t) interior (fun a b => a == b) (fun a b => Pt.dist2 a b) interE id id trace cands (t * t) = simpleSnap t trace cands := by
  unfold Gen.simple_snap simpleSnap simpleDict
  simp only [List.map_id', List.any_map, Function.comp_def, id, near_eq]
  rw [loop1_eq]
  cases simpleFold t trace (List.filter (fun c => (ends trace).any fun ep => near t ep c) cands) [] with
  | error e => rfl
  | ok d =>
    simp only [applyDict_eq]
    cases d with
    | nil => simp
    | cons a b => simp

end SimpleSnapL
