import FractopoModel.Generated.Dedupe
/-! The regenerated `filter_non_unique_traces` keeps the first trace of every key, in order. -/
namespace DedupeL
variable {G K : Type} [BEq K]

/-- first occurrence per key, relative to the keys already seen -/
def kept (key : G → K) : List K → List G → List G
  | _, [] => []
  | seen, g :: gs => if List.elem (key g) seen then kept key seen gs else g :: kept key (seen ++ [key g]) gs

/-- the positions (counted from `k`) of the kept traces -/
def keptIdx (key : G → K) : List K → List G → Nat → List Nat
  | _, [], _ => []
  | seen, g :: gs, k => if List.elem (key g) seen then keptIdx key seen gs (k + 1) else k :: keptIdx key (seen ++ [key g]) gs (k + 1)

theorem loop_eq (key : G → K) (traces : List G) (l : List G) (k : Nat) (seen : List K) (idxs : List Nat) :
    (Gen.filter_non_unique_traces_loop1 key traces (l.zipIdx k) seen idxs).2 = idxs ++ keptIdx key seen l k := by
  induction l generalizing k seen idxs with
  | nil => simp [Gen.filter_non_unique_traces_loop1, keptIdx]
  | cons g gs ih =>
    simp only [List.zipIdx_cons, Gen.filter_non_unique_traces_loop1, keptIdx]
    by_cases h : List.elem (key g) seen = true
    · simp only [h, if_true]; exact ih (k + 1) seen idxs
    · simp only [h, Bool.false_eq_true, if_false]
      have hadd : pySetAdd seen (key g) = seen ++ [key g] := by
        unfold pySetAdd
        have h' : List.elem (key g) seen = false := by simpa using h
        simp [h']
      rw [hadd, ih (k + 1) (seen ++ [key g]) (idxs ++ [k])]
      simp

theorem idx_to_elems (key : G → K) (traces : List G) (l : List G) (k : Nat) (seen : List K) (h : traces.drop k = l) :
    (keptIdx key seen l k).filterMap (fun i => traces[i]?) = kept key seen l := by
  induction l generalizing k seen with
  | nil => simp [keptIdx, kept]
  | cons g gs ih =>
    have hklt : k < traces.length := by
      rcases Nat.lt_or_ge k traces.length with h' | h'
      · exact h'
      · have : traces.drop k = [] := List.drop_eq_nil_iff.mpr h'
        rw [this] at h; cases h
    have hd := List.drop_eq_getElem_cons hklt
    rw [hd] at h
    simp only [List.cons.injEq] at h
    have hg : traces[k]? = some g := by rw [List.getElem?_eq_getElem hklt, h.1]
    simp only [keptIdx, kept]
    by_cases hs : List.elem (key g) seen = true
    · simp only [hs, if_true]; exact ih (k + 1) seen h.2
    · simp only [hs, Bool.false_eq_true, if_false, List.filterMap_cons, hg]
      rw [ih (k + 1) (seen ++ [key g]) h.2]

/-- **Refinement**: the regenerated duplicate filter keeps exactly the first trace of every key, in order -/
theorem generated_dedupe (key : G → K) (traces : List G) : Gen.filter_non_unique_traces key traces = kept key [] traces := by
  unfold Gen.filter_non_unique_traces
  simp only []
  have h := loop_eq key traces traces 0 [] []
  generalize Gen.filter_non_unique_traces_loop1 key traces (traces.zipIdx 0) [] [] = r at h
  obtain ⟨a, b⟩ := r
  simp only [List.nil_append] at h
  simp only [h]
  exact idx_to_elems key traces traces 0 [] (by simp)

theorem kept_sublist (key : G → K) (seen : List K) (l : List G) : (kept key seen l).Sublist l := by
  induction l generalizing seen with
  | nil => simp [kept]
  | cons g gs ih =>
    simp only [kept]
    split
    · exact (ih seen).cons g
    · exact (ih _).cons₂ g

theorem kept_key_not_seen [LawfulBEq K] (key : G → K) (seen : List K) (l : List G) : ∀ h ∈ kept key seen l, key h ∉ seen := by
  induction l generalizing seen with
  | nil => simp [kept]
  | cons g gs ih =>
    intro h hh
    simp only [kept] at hh
    by_cases hs : List.elem (key g) seen = true
    · simp only [hs, if_true] at hh; exact ih seen h hh
    · simp only [hs, Bool.false_eq_true, if_false, List.mem_cons] at hh
      rcases hh with rfl | hh
      · simpa using hs
      · have := ih (seen ++ [key g]) h hh
        intro hin; exact this (by simp [hin])

theorem kept_keys_nodup [LawfulBEq K] (key : G → K) (seen : List K) (l : List G) : ((kept key seen l).map key).Pairwise (· ≠ ·) := by
  induction l generalizing seen with
  | nil => simp [kept]
  | cons g gs ih =>
    simp only [kept]
    by_cases hs : List.elem (key g) seen = true
    · simp only [hs, if_true]; exact ih seen
    · simp only [hs, Bool.false_eq_true, if_false, List.map_cons, List.pairwise_cons]
      refine ⟨?_, ih _⟩
      intro k hk
      obtain ⟨h, hh, rfl⟩ := List.mem_map.mp hk
      have := kept_key_not_seen key (seen ++ [key g]) gs h hh
      intro heq; exact this (by simp [heq])

theorem kept_covers [LawfulBEq K] (key : G → K) (seen : List K) (l : List G) : ∀ g ∈ l, key g ∈ seen ∨ ∃ h ∈ kept key seen l, key h = key g := by
  induction l generalizing seen with
  | nil => simp
  | cons a as ih =>
    intro g hg
    simp only [kept]
    by_cases hs : List.elem (key a) seen = true
    · simp only [hs, if_true]
      rcases List.mem_cons.mp hg with rfl | hg'
      · exact .inl (by simpa using hs)
      · exact ih seen g hg'
    · simp only [hs, Bool.false_eq_true, if_false, List.mem_cons, exists_eq_or_imp]
      rcases List.mem_cons.mp hg with rfl | hg'
      · exact .inr (.inl rfl)
      · rcases ih (seen ++ [key a]) g hg' with h | ⟨h, hh, hk⟩
        · rcases List.mem_append.mp h with h1 | h1
          · exact .inl h1
          · simp at h1; exact .inr (.inl h1.symm)
        · exact .inr (.inr ⟨h, hh, hk⟩)

end DedupeL
