import FractopoModel.Generated.BranchesAndNodes
/-!
# Normal form of the regenerated `branches_and_nodes` orchestration

Everything after the preparation of the trace list (duplicate filter, LineString filter, crop unless already clipped) is one
function of that list: snapping stage, trace length filter, noding with its type dispatch, branch length filter, node table,
branch labels.  `already_clipped` influences nothing else.
-/
namespace Pipeline
variable {G A Pg U N : Type}

/-- the repeat-until-stable loop over an abstract, possibly raising pass (mirrors `SnapL.snapLoopFrom`) -/
def stageFrom (pass : List G → Except String (List G × Bool)) (allowed : Nat) : Nat → Nat → List G → Bool → Except String (List G × Nat)
  | 0, _, _, _ => .error "FuelExhausted"
  | fuel + 1, loops, traces, changed =>
    if !changed then .ok (traces, loops)
    else
      match pass traces with
      | .error e => .error e
      | .ok (tr, ch) =>
        if loops + 1 > allowed then .error "RecursionError"
        else stageFrom pass allowed fuel (loops + 1) tr ch

/-- first pass, then the loop -/
def stage (pass : List G → Except String (List G × Bool)) (allowed fuel : Nat) (traces : List G) : Except String (List G × Nat) :=
  match pass traces with
  | .error e => .error e
  | .ok (tr, ch) => stageFrom pass allowed fuel 0 tr ch

/-- what happens to the snapped traces: length filter, noding, type dispatch, length filter, node table, labels -/
def finish (len : G → Rat) (union_all : List G → U) (u_is_multi u_is_line : U → Bool) (u_parts : U → List G)
    (node_table : List G → List A → Rat → List N × List String) (branch_labels : List G → List N → List String → Rat → List String)
    (areas : List A) (t : Rat) (snapped : List G) : Except String (List (G × String) × List (N × String)) :=
  let kept := snapped.filter fun tr => decide (len tr > t * (201 / 100))
  let u := union_all kept
  if u_is_multi u || u_is_line u then
    let branches := (u_parts u).filter fun b => decide (len b > t * (101 / 100))
    let nt := node_table branches areas t
    .ok (List.zip branches (branch_labels branches nt.1 nt.2 t), List.zip nt.1 nt.2)
  else .error "TypeError"

/-- the prepared trace list: the only place `already_clipped` is read -/
def prepared (dedupe : List G → List G) (is_ls : G → Bool) (crop : List G → List A → List G) (traces : List G) (areas : List A) (clipped : Bool) : List G :=
  if clipped then (dedupe traces).filter is_ls else (crop ((dedupe traces).filter is_ls) areas).filter is_ls

theorem while_eq (dedupe : List G → List G) (polys_of : A → List Pg) (is_ls : G → Bool) (crop : List G → List A → List G)
    (snap_ : List G → Rat → List Pg → Except String (List G × Bool)) (len : G → Rat) (union_all : List G → U) (u_is_multi u_is_line : U → Bool)
    (u_parts : U → List G) (node_table : List G → List A → Rat → List N × List String) (branch_labels : List G → List N → List String → Rat → List String)
    (tg : List G) (areas : List A) (t : Rat) (allowed : Nat) (clipped : Bool) (polys : List Pg) (fuel : Nat) (tl : List G) (ch : Bool) (loops : Nat) :
    Gen.branches_and_nodes_while1 dedupe polys_of is_ls crop snap_ len union_all u_is_multi u_is_line u_parts node_table branch_labels tg areas t allowed clipped polys fuel tl ch loops
      = match stageFrom (fun x => snap_ x t polys) allowed fuel loops tl ch with
        | .error e => .ret (.error e)
        | .ok (tr, n) => .done (tr, false, n) := by
  induction fuel generalizing tl ch loops with
  | zero => rfl
  | succ f ih =>
    rw [Gen.branches_and_nodes_while1, stageFrom]
    cases ch with
    | false => rfl
    | true =>
      simp only [if_true, Bool.not_true, Bool.false_eq_true, if_false]
      cases hp : snap_ tl t polys with
      | error e => rfl
      | ok r =>
        obtain ⟨tr, c⟩ := r
        simp only []
        by_cases hl : loops + 1 > allowed
        · simp [hl]
        · simp only [hl, decide_false, Bool.false_eq_true, if_false]
          exact ih tr c (loops + 1)

/-- **Normal form of the regenerated `branches_and_nodes`**: prepare the trace list (the only use of `already_clipped`; the crop
happens BEFORE any snapping), run the snapping stage on it with the flattened polygon list, and `finish` the snapped traces. -/
theorem generated_pipeline (dedupe : List G → List G) (polys_of : A → List Pg) (is_ls : G → Bool) (crop : List G → List A → List G)
    (snap_ : List G → Rat → List Pg → Except String (List G × Bool)) (len : G → Rat) (union_all : List G → U) (u_is_multi u_is_line : U → Bool)
    (u_parts : U → List G) (node_table : List G → List A → Rat → List N × List String) (branch_labels : List G → List N → List String → Rat → List String)
    (traces : List G) (areas : List A) (t : Rat) (allowed : Nat) (clipped : Bool) (fuel : Nat) :
    Gen.branches_and_nodes dedupe polys_of is_ls crop snap_ len union_all u_is_multi u_is_line u_parts node_table branch_labels traces areas t allowed clipped fuel
      = match stage (fun x => snap_ x t ((areas.map polys_of).flatMap id)) allowed fuel (prepared dedupe is_ls crop traces areas clipped) with
        | .error e => .error e
        | .ok (snapped, _) => finish len union_all u_is_multi u_is_line u_parts node_table branch_labels areas t snapped := by
  unfold Gen.branches_and_nodes stage prepared
  simp only []
  have hprep : (if (!clipped) = true then List.filter is_ls (crop (List.filter is_ls (dedupe traces)) areas) else List.filter is_ls (dedupe traces))
      = (if clipped = true then List.filter is_ls (dedupe traces) else List.filter is_ls (crop (List.filter is_ls (dedupe traces)) areas)) := by
    cases clipped <;> rfl
  rw [hprep]
  generalize (if clipped = true then List.filter is_ls (dedupe traces) else List.filter is_ls (crop (List.filter is_ls (dedupe traces)) areas)) = prep
  cases hp : snap_ prep t ((areas.map polys_of).flatMap id) with
  | error e => rfl
  | ok r =>
    obtain ⟨tl, ch⟩ := r
    simp only []
    rw [while_eq]
    cases stageFrom (fun x => snap_ x t ((areas.map polys_of).flatMap id)) allowed fuel 0 tl ch with
    | error e => rfl
    | ok r2 =>
      obtain ⟨snapped, n⟩ := r2
      simp only [finish]
      by_cases hm : u_is_multi (union_all (List.filter (fun tr => decide (len tr > t * (201 / 100))) snapped)) = true
      · simp [hm]
      · by_cases hl : u_is_line (union_all (List.filter (fun tr => decide (len tr > t * (201 / 100))) snapped)) = true
        · simp [hm, hl]
        · simp [hm, hl]

end Pipeline
