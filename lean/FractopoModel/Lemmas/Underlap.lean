import FractopoModel.Spec.Underlap
import FractopoModel.Generated.UnderlapValidator
/-! The regenerated `UnderlappingSnapValidator.validation_method` equals the hand-written decision `Spec.underlapVerdict`. -/
namespace Underlap
variable {L P : Type}

/-- what is returned for the deciding pair -/
def hitResult (isUl : L → L → P → Option Bool) (overlaps : L → L → Bool) (geom c : L) (ep : P) : Except String (Bool × String) :=
  match isUl geom c ep with
  | none => if overlaps geom c then .ok (false, "STACKED TRACES") else .error "ValueError"
  | some true => .ok (false, "UNDERLAPPING SNAP")
  | some false => .ok (false, "OVERLAPPING SNAP")

theorem inner_eq (endpoints_of : L → List P) (dist : L → P → Rat) (isUl : L → L → P → Option Bool) (overlaps : L → L → Bool)
    (geom : L) (all : List L) (t m : Rat) (ep : P) (l : List L) (st : String) :
    Gen.underlap_validation_loop2 endpoints_of dist isUl overlaps geom all t m ep l st =
      match l.find? (fun c => Spec.inWindow t m (dist c ep)) with
      | none => .done st
      | some c => .ret (hitResult isUl overlaps geom c ep) := by
  induction l generalizing st with
  | nil => simp [Gen.underlap_validation_loop2]
  | cons c rest ih =>
    simp only [Gen.underlap_validation_loop2, List.find?_cons, Spec.inWindow]
    by_cases hw : (decide (t < dist c ep) && decide (dist c ep < t * m)) = true
    · simp only [hw, if_true]
      unfold hitResult
      cases hu : isUl geom c ep with
      | none => simp only [Option.isNone_none, if_true]; split <;> rfl
      | some b => cases b <;> simp
    · simp only [hw, Bool.false_eq_true, if_false]
      exact ih st

theorem outer_eq (endpoints_of : L → List P) (dist : L → P → Rat) (isUl : L → L → P → Option Bool) (overlaps : L → L → Bool)
    (geom : L) (cands : List L) (t m : Rat) (alleps : List P) (eps : List P) (st : String) :
    Gen.underlap_validation_loop1 endpoints_of dist isUl overlaps geom cands t m alleps eps st =
      match Spec.underlapHit dist t m cands eps with
      | none => .done st
      | some (ep, c) => .ret (hitResult isUl overlaps geom c ep) := by
  induction eps generalizing st with
  | nil => simp [Gen.underlap_validation_loop1, Spec.underlapHit]
  | cons ep rest ih =>
    simp only [Gen.underlap_validation_loop1, Spec.underlapHit, List.findSome?_cons]
    by_cases hs : (cands.any fun tc => decide (dist tc ep < t)) = true
    · have : Spec.wellSnapped dist cands t ep = true := hs
      simp only [hs, if_true, this]
      have := ih st
      simp only [Spec.underlapHit] at this
      exact this
    · have hs' : Spec.wellSnapped dist cands t ep = false := by simpa [Spec.wellSnapped] using hs
      simp only [hs, Bool.false_eq_true, if_false, hs', inner_eq]
      cases hf : cands.find? (fun c => Spec.inWindow t m (dist c ep)) with
      | none =>
        simp only [Option.map_none]
        have := ih st
        simp only [Spec.underlapHit] at this
        exact this
      | some c => simp

/-- **Refinement**: the regenerated validation method computes the specified verdict and class attribute -/
theorem generated_eq_spec (endpoints_of : L → List P) (dist : L → P → Rat) (isUl : L → L → P → Option Bool) (overlaps : L → L → Bool)
    (geom : L) (cands : List L) (t m : Rat) (glob : String) :
    Gen.underlap_validation endpoints_of dist isUl overlaps geom cands t m glob
      = Spec.underlapVerdict dist isUl overlaps geom cands (endpoints_of geom) t m glob := by
  unfold Gen.underlap_validation Spec.underlapVerdict
  by_cases he : cands.length = 0
  · have : cands = [] := List.eq_nil_of_length_eq_zero he
    subst this
    have hnone : Spec.underlapHit dist t m ([] : List L) (endpoints_of geom) = none := by
      unfold Spec.underlapHit
      rw [List.findSome?_eq_none_iff]
      intro ep _
      simp [Spec.wellSnapped]
    simp [hnone]
  · simp only [he, decide_false, Bool.false_eq_true, if_false, outer_eq]
    cases hh : Spec.underlapHit dist t m cands (endpoints_of geom) with
    | none => rfl
    | some pc => obtain ⟨ep, c⟩ := pc; rfl

end Underlap
