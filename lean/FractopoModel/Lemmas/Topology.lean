import FractopoModel.Model.Topology
/-! Helper lemmas about `Topo.collect`, `Topo.ends`, `Topo.mult` (core Lean only). -/
namespace Topo
variable {P : Type} [DecidableEq P]

theorem mem_firstSeen (l : List P) (x : P) : x ∈ firstSeen l ↔ x ∈ l := by
  induction l with
  | nil => simp [firstSeen]
  | cons p ps ih =>
    simp only [firstSeen, List.mem_cons, List.mem_filter, ih]
    by_cases h : x = p <;> simp [h]

theorem firstSeen_nodup (l : List P) : (firstSeen l).Nodup := by
  induction l with
  | nil => simp [firstSeen]
  | cons p ps ih =>
    simp only [firstSeen, List.nodup_cons]
    exact ⟨by simp [List.mem_filter], ih.filter _⟩

theorem collect_nodup (bs : List (Branch P)) : (collect bs).Nodup := firstSeen_nodup _

theorem mem_collect (bs : List (Branch P)) (x : P) : x ∈ collect bs ↔ x ∈ ends bs := by
  simp [collect, mem_firstSeen]

theorem mem_ends (bs : List (Branch P)) (x : P) : x ∈ ends bs ↔ ∃ br ∈ bs, x = br.a ∨ x = br.b := by
  simp [ends]

theorem ends_length (bs : List (Branch P)) : (ends bs).length = 2 * bs.length := by
  induction bs with
  | nil => simp [ends]
  | cons b bs ih => simp [ends] at *; omega

theorem ind_sum (ns : List P) (x : P) :
    (ns.map (fun n => if x == n then 1 else 0)).sum = ns.count x := by
  induction ns with
  | nil => simp
  | cons a as ih => simp only [List.map_cons, List.sum_cons, ih, List.count_cons]; grind

theorem sum_map_add (ns : List P) (f g : P → Nat) :
    (ns.map (fun n => f n + g n)).sum = (ns.map f).sum + (ns.map g).sum := by
  induction ns with
  | nil => simp
  | cons a as ih => simp only [List.map_cons, List.sum_cons, ih]; omega

/-- sum over a duplicate-free list containing all elements of `l` of the counts = length -/
theorem sum_count_of_nodup (l ns : List P) (hn : ns.Nodup) (hall : ∀ x ∈ l, x ∈ ns) :
    (ns.map (fun n => l.count n)).sum = l.length := by
  induction l with
  | nil =>
    clear hn hall
    induction ns with
    | nil => simp
    | cons a as iha => simpa using iha
  | cons x xs ih =>
    have hx : x ∈ ns := hall x (by simp)
    have ih' := ih (fun y hy => hall y (by simp [hy]))
    simp only [List.count_cons, List.length_cons]
    rw [sum_map_add, ih', ind_sum, hn.count]
    simp [hx]

theorem mult_pos_of_mem (bs : List (Branch P)) (p : P) (h : p ∈ collect bs) : 0 < mult bs p := by
  rw [mem_collect] at h
  exact List.count_pos_iff.mpr h

theorem countP_single (l : List P) (a : P) (hn : l.Nodup) (ha : a ∈ l) (q : P → Bool) :
    l.countP (fun n => decide (n = a) && q n) = (if q a then 1 else 0) := by
  induction l with
  | nil => simp at ha
  | cons x xs ih =>
    rw [List.nodup_cons] at hn
    by_cases hxa : x = a
    · subst hxa
      have h0 : xs.countP (fun n => decide (n = x) && q n) = 0 := by
        apply List.countP_eq_zero.mpr
        intro n hn'; have : n ≠ x := fun h => hn.1 (h ▸ hn'); simp [this]
      simp [List.countP_cons, h0]
    · have ha' : a ∈ xs := by
        rcases List.mem_cons.mp ha with h | h
        · exact absurd h.symm hxa
        · exact h
      simp [List.countP_cons, hxa, ih hn.2 ha']

theorem countP_or_disjoint (l : List P) (p1 p2 q : P → Bool) (hd : ∀ n, ¬ (p1 n = true ∧ p2 n = true)) :
    l.countP (fun n => (p1 n || p2 n) && q n)
      = l.countP (fun n => p1 n && q n) + l.countP (fun n => p2 n && q n) := by
  induction l with
  | nil => simp
  | cons x xs ih =>
    simp only [List.countP_cons, ih]
    have := hd x
    cases h1 : p1 x <;> cases h2 : p2 x <;> cases h3 : q x <;> simp_all <;> omega

/-- In a duplicate-free list, the elements equal to `a` or `b` (both present, distinct)
are exactly `a` and `b`. -/
theorem filter_two_of_nodup (l : List P) (a b : P) (hn : l.Nodup) (ha : a ∈ l) (hb : b ∈ l) (hab : a ≠ b)
    (q : P → Bool) :
    (l.filter (fun n => decide (n = a) || decide (n = b))).countP q
      = (if q a then 1 else 0) + (if q b then 1 else 0) := by
  rw [List.countP_filter]
  have h := countP_or_disjoint l (fun n => decide (n = a)) (fun n => decide (n = b)) q
    (by intro n ⟨h1, h2⟩; simp at h1 h2; exact hab (h1 ▸ h2))
  have e : (fun n => q n && (decide (n = a) || decide (n = b))) = (fun n => (decide (n = a) || decide (n = b)) && q n) := by
    funext n; exact Bool.and_comm _ _
  rw [e, h, countP_single l a hn ha q, countP_single l b hn hb q]

/-- the same for a single point -/
theorem filter_one_of_nodup (l : List P) (a : P) (hn : l.Nodup) (ha : a ∈ l) (q : P → Bool) :
    (l.filter (fun n => decide (n = a) || decide (n = a))).countP q = (if q a then 1 else 0) := by
  rw [List.countP_filter]
  have e : (fun n => q n && (decide (n = a) || decide (n = a))) = (fun n => decide (n = a) && q n) := by
    funext n; cases q n <;> simp
  rw [e, countP_single l a hn ha q]

end Topo
