/-!
# Hand-written model of the joblib.Memory protocol as fractopo uses it
(`JOBLIB_CACHE = Memory(path or None)`, `@JOBLIB_CACHE.cache`).  Import-free.

Store: `(function, argument-key) ↦ bytes`.  A call looks its key up; if an entry is present and
`load` succeeds the loaded value is returned, otherwise the function is computed and its dump
stored.  Between calls any entry can be damaged (arbitrary function on its bytes: truncation,
byte flips) or deleted.  With the cache disabled every call computes.
-/
namespace Cache

variable {K V B : Type} [DecidableEq K]

structure Sys (K V B : Type) where
  f : K → V              -- the cached function (pure) ; K = (function id, arguments)
  dump : V → B
  load : B → Option V    -- fails (none) on bytes it cannot read

abbrev Store (K B : Type) := List (K × B)

def lookup (s : Store K B) (k : K) : Option B := (s.find? (·.1 = k)).map (·.2)
def put (s : Store K B) (k : K) (b : B) : Store K B := (k, b) :: s.filter (·.1 ≠ k)

inductive Op (K B : Type) where
  | call (k : K)
  | damage (k : K) (g : B → B)
  | delete (k : K)

def step (S : Sys K V B) (enabled : Bool) (s : Store K B) : Op K B → Store K B × Option V
  | .call k =>
    if !enabled then (s, some (S.f k))
    else match (lookup s k).bind S.load with
      | some v => (s, some v)
      | none => let v := S.f k; (put s k (S.dump v), some v)
  | .damage k g => (s.map (fun p => if p.1 = k then (p.1, g p.2) else p), none)
  | .delete k => (s.filter (·.1 ≠ k), none)

def run (S : Sys K V B) (enabled : Bool) : Store K B → List (Op K B) → Store K B × List (Option V)
  | s, [] => (s, [])
  | s, op :: ops =>
    let r := step S enabled s op
    let rest := run S enabled r.1 ops
    (rest.1, r.2 :: rest.2)

/-- what the same history returns without any cache -/
def spec (S : Sys K V B) : List (Op K B) → List (Option V)
  | [] => []
  | .call k :: ops => some (S.f k) :: spec S ops
  | _ :: ops => none :: spec S ops

/-- store invariant: whatever bytes sit under key `k` either fail to load or load to `f k` -/
def StoreOK (S : Sys K V B) (s : Store K B) : Prop :=
  ∀ k b, (k, b) ∈ s → S.load b = none ∨ S.load b = some (S.f k)

end Cache
