/-!
# Hand-written model of `Validation.run_validation` / `Validation._validate`
(fractopo/tval/trace_validation.py) over ORACLE validators.  Import-free.

What a validator answers about a geometry (`valid`), what a failing *dynamic* validator writes
into its class attribute `ERROR` (`dynErr`; `UnderlappingSnapValidator` rewrites it at run
time), and what `fix_method` returns (`fix`) are parameters.  The orchestration -- validator
order, LINESTRING_ONLY skipping, duplicate suppression, fixing, MAJOR-error short-circuit,
two passes, the process-global class attribute -- is modelled literally.
-/
namespace Tval

inductive GKind where
  | line      -- non-empty LineString
  | lineEmpty -- empty LineString (skipped by LINESTRING_ONLY validators, fails NULL GEOMETRY)
  | multi     -- MultiLineString
  | other     -- None / any other type
deriving DecidableEq, Repr, Inhabited

structure Validator where
  name : String
  lsOnly : Bool
  staticError : String
  dynamic : Bool := false
deriving DecidableEq, Repr, Inhabited

structure Oracle (G : Type) where
  kind : G → GKind
  /-- `validation_method` on row `idx` of `frame` with the current geometry `geom` -/
  valid : Validator → List G → G → Nat → Bool
  dynErr : Validator → List G → G → Nat → String
  fix : Validator → G → Option G

def GKind.isLineString : GKind → Bool
  | .line | .lineEmpty => true
  | _ => false

/-- what a LINESTRING_ONLY validator accepts: a LineString that is not empty (`_validate` skips the rest, F21) -/
def GKind.gatePass (k : GKind) : Bool := k.isLineString && !(k == .lineEmpty)

structure Cfg where
  allowFix : Bool
  majorErrors : List String
  major : List Validator
  all : List Validator
  chosen : Option (List Validator) := none
  /-- `EmptyTargetAreaValidator.ERROR`: written into every row by the empty-target-area exit -/
  emptyAreaError : String := "EMPTY TARGET AREA"

variable {G : Type}

/-- per-geometry state inside the validator loop -/
structure RowSt (G : Type) where
  geom : G
  errs : List String
  ignore : Bool
  glob : String         -- the class attribute `UnderlappingSnapValidator.ERROR` (process-global)

/-- the class attribute after the call: a failing dynamic validator rewrites it -/
def globAfter (O : Oracle G) (frame : List G) (idx : Nat) (v : Validator) (s : RowSt G) : String :=
  if !O.valid v frame s.geom idx && v.dynamic then O.dynErr v frame s.geom idx else s.glob

/-- `validator.ERROR` as read after the call -/
def errRead (O : Oracle G) (frame : List G) (idx : Nat) (v : Validator) (s : RowSt G) : String :=
  if v.dynamic then globAfter O frame idx v s else v.staticError

/-- the body of `if not valid and ERROR not in current_errors:` -/
def applyFail (O : Oracle G) (cfg : Cfg) (v : Validator) (s : RowSt G) (glob' err : String) : RowSt G :=
  match (if cfg.allowFix then O.fix v s.geom else none) with
  | some g => { geom := g, errs := (s.errs ++ [err]).erase err, ignore := false, glob := glob' }
  | none => { geom := s.geom, errs := s.errs ++ [err], ignore := cfg.majorErrors.contains err, glob := glob' }

/-- `Validation._validate` -/
def validateOne (O : Oracle G) (cfg : Cfg) (frame : List G) (idx : Nat) (v : Validator) (s : RowSt G) : RowSt G :=
  if v.lsOnly && !(O.kind s.geom).gatePass then { s with ignore := true }
  else if !O.valid v frame s.geom idx && !(s.errs.contains (errRead O frame idx v s)) then
    applyFail O cfg v s (globAfter O frame idx v s) (errRead O frame idx v s)
  else { s with ignore := false, glob := globAfter O frame idx v s }

/-- the `for validator in validators` loop with `if ignore_geom: break` -/
def validateRow (O : Oracle G) (cfg : Cfg) (frame : List G) (idx : Nat) : List Validator → RowSt G → RowSt G
  | [], s => s
  | v :: vs, s => if s.ignore then s else validateRow O cfg frame idx vs (validateOne O cfg frame idx v s)

/-- one pass over all rows; returns per row (geometry, errors) and the final class attribute -/
def passRows (O : Oracle G) (cfg : Cfg) (validators : List Validator) (frame : List G) :
    List (G × Nat) → String → List (G × List String) × String
  | [], glob => ([], glob)
  | (g, idx) :: rest, glob =>
    let s := validateRow O cfg frame idx validators ⟨g, [], false, glob⟩
    let (out, glob') := passRows O cfg validators frame rest s.glob
    ((s.geom, s.errs) :: out, glob')

def pass (O : Oracle G) (cfg : Cfg) (validators : List Validator) (frame : List G) (glob : String) :
    List (G × List String) × String :=
  passRows O cfg validators frame (frame.zipIdx) glob

inductive Outcome (G : Type) where
  /-- rows returned unchanged and WITHOUT an error column (empty frame exit: there are no rows) -/
  | untouched
  /-- empty-target-area exit (`allow_empty_area=False`, no trace meets the area): geometries unchanged, every row
  carries exactly the empty-area error -/
  | emptyArea (rows : List (G × List String))
  | validated (rows : List (G × List String))
deriving Repr, DecidableEq

/-- `run_validation(first_pass=True)`: the first pass (MAJOR validators or the chosen ones) only
contributes its geometry fixes; the error column is dropped and recomputed by the second pass -/
def run (O : Oracle G) (cfg : Cfg) (allowEmptyArea areaEmpty : Bool) (frame : List G) (glob : String) :
    Outcome G × String :=
  if frame.isEmpty then (.untouched, glob)
  else if !allowEmptyArea && areaEmpty then (.emptyArea (frame.map fun g => (g, [cfg.emptyAreaError])), glob)
  else
    let (r1, g1) := pass O cfg (cfg.chosen.getD cfg.major) frame glob
    let frame2 := r1.map (·.1)
    let (r2, g2) := pass O cfg (cfg.chosen.getD cfg.all) frame2 g1
    (.validated r2, g2)

end Tval
