/-!
# Hand-written model of `create_grid` and of the gathering of per-cell results in `sample_grid`
(fractopo/analysis/contour_grid.py).  Import-free.
-/
namespace Grid

structure Cell where
  left : Rat
  right : Rat
  bottom : Rat
  top : Rat
deriving DecidableEq, Repr

/-- cell in column `c`, row `r` (rows counted from the top) of the grid anchored at the top-left
corner `(xmin, ymax)`: what the repeated additions / subtractions of the loops reach in exact
arithmetic -/
def cell (xmin ymax w : Rat) (c r : Nat) : Cell :=
  ⟨xmin + c * w, xmin + (c + 1) * w, ymax - (r + 1) * w, ymax - r * w⟩

/-- column-major list of cells: for every column, all rows from the top -/
def cells (xmin ymax w : Rat) (rows cols : Nat) : List Cell :=
  (List.range cols).flatMap fun c => (List.range rows).map fun r => cell xmin ymax w c r

/-- joblib gathers results into slots by submission index, whatever the completion order -/
def write {β : Type} (slots : List (Option β)) (iv : Nat × β) : List (Option β) := slots.set iv.1 (some iv.2)

def gather {β : Type} (n : Nat) (done : List (Nat × β)) : List (Option β) :=
  done.foldl write (List.replicate n none)

end Grid
