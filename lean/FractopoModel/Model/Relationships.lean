/-!
# Hand-written model of `determine_crosscut_abutting_relationships`
(fractopo/analysis/relationships.py).  Import-free.

Abstract inputs: the X/Y nodes with, for every set name, whether the node is within the buffer
of a trace of that set (`touch`) and of an END of a trace of that set (`endsIn`); and which sets
contain traces at all.
-/
namespace Rel

structure Node where
  cls : String                -- "X" or "Y"
  touch : String → Bool
  endsIn : String → Bool

/-- `itertools.combinations(names, 2)` -/
def pairs : List String → List (String × String)
  | [] => []
  | a :: l => l.map (fun b => (a, b)) ++ pairs l

/-- `determine_intersect`: the sets recorded for a node, or an error -/
def intersectOf (cls : String) (l1 l2 p1 : Bool) (first second : String) : Except String (String × String) :=
  if cls == "X" then
    if l1 && l2 then .ok (first, second) else .error "ValueError"
  else if cls == "Y" then
    if l1 && l2 then .ok (if p1 then (first, second) else (second, first)) else .error "ValueError"
  else .error "ValueError"

structure Row where
  sets : String × String
  x : Nat
  y : Nat
  yrev : Nat
  errors : Nat
deriving DecidableEq, Repr

/-- one row: mentions only the two sets -/
def rowOf (nodes : List Node) (first second : String) : Row :=
  let sel := nodes.filter fun n => n.touch first && n.touch second      -- determine_nodes_intersecting_sets
  let res := sel.map fun n => (n.cls, intersectOf n.cls (n.touch first) (n.touch second) (n.endsIn first) first second)
  { sets := (first, second)
    x := res.countP fun r => r.1 == "X" && (match r.2 with | .ok _ => true | .error _ => false)
    y := res.countP fun r => r.1 == "Y" && (match r.2 with | .ok s => s == (first, second) | .error _ => false)
    yrev := res.countP fun r => r.1 == "Y" && (match r.2 with | .ok s => s == (second, first) | .error _ => false)
    errors := res.countP fun r => match r.2 with | .ok _ => false | .error _ => true }

/-- the whole table: one row per pair of sets that both contain traces, in `combinations` order
(a pair with an empty member is skipped -- `continue`) -/
def table (nodes : List Node) (nonEmpty : String → Bool) (names : List String) : List Row :=
  (pairs names).filterMap fun p => if nonEmpty p.1 && nonEmpty p.2 then some (rowOf nodes p.1 p.2) else none

end Rel
