import FractopoModel.Basic.Clip
import FractopoModel.Spec.Arrangement
/-!
# Exact contact structure of a trace map inside a target area (the oracle of C01)

`contacts traces polys t k` clips every trace to the area, finds all contacts between the
clipped pieces exactly, and decides whether the map is *valid with separation margin `k·t`*
(C01's quantifier).  For a valid map it returns, per piece, the ordered list of events
(node id, role, point).  Import-free, executable; `Spec/Arrangement.lean` consumes the result.
-/
namespace Contacts

export Arr (Role)
open Arr.Role

structure Ev where
  seg : Nat
  t : Rat
  p : Pt
  role : Role
deriving Repr, Inhabited

def evLt (a b : Ev) : Bool := a.seg < b.seg || (a.seg == b.seg && a.t < b.t)

def insertEv (e : Ev) : List Ev → List Ev
  | [] => [e]
  | x :: xs => if evLt e x then e :: x :: xs else x :: insertEv e xs

def sortEvs (l : List Ev) : List Ev := l.foldl (fun acc e => insertEv e acc) []

/-- all point contacts of polylines `l` and `m`: (segment of l, t, segment of m, u, point);
`overlap` is reported as an error by the caller -/
inductive PairResult where
  | pts (l : List (Nat × Rat × Nat × Rat × Pt))
  | overlap

def pairContacts (l m : Polyline) : PairResult := Id.run do
  let sl := (segs l).zipIdx
  let sm := (segs m).zipIdx
  let mut out : List (Nat × Rat × Nat × Rat × Pt) := []
  for ((a, b), i) in sl do
    for ((c, d), j) in sm do
      match segInter a b c d with
      | .none => pure ()
      | .overlap _ _ => return .overlap
      | .point p t u =>
        if !(out.any fun x => x.2.2.2.2 == p) then out := out ++ [(i, t, j, u, p)]
  return .pts out

def isEnd (l : Polyline) (p : Pt) : Bool := l.head? == some p || l.getLast? == some p

def endPos (l : Polyline) (p : Pt) : Nat × Rat :=
  if l.head? == some p then (0, 0) else (l.length - 2, 1)

def ptLineD2 (p : Pt) (l : Polyline) : Rat := (ptLineDist2 p l).getD 0
def lineLineD2 (l m : Polyline) : Rat := (lineLineDist2 l m).getD 0

/-- self-intersection test of one polyline (consecutive segments may share their vertex only) -/
def selfIntersects (l : Polyline) : Bool :=
  let ss := (segs l).zipIdx
  ss.any fun ((a, b), i) => ss.any fun ((c, d), j) =>
    i < j && (match segInter a b c d with
      | .none => false
      | .overlap _ _ => true
      | .point p _ _ => !(j == i + 1 && p == b && p == c))

structure Result where
  pieces : List Polyline
  /-- index of the source trace of every piece -/
  source : List Nat
  events : List (List Ev)
deriving Repr

def boundaryD2 (polys : List Polygon) (p : Pt) : Rat :=
  minList (polys.map fun pg => pg.boundaryDist2 p) 0

/-- the whole oracle; `.error reason` = not a valid map with margin `k·t` -/
def contacts (traces : List Polyline) (polys : List Polygon) (t : Rat) (k : Rat) : Except String Result := do
  let m2 := (k * t) * (k * t)
  -- clip
  let mut pieces : List Polyline := []
  let mut source : List Nat := []
  for (l, i) in traces.zipIdx do
    if l.length < 2 then throw "degenerate trace"
    if selfIntersects l then throw "self-intersecting trace"
    for pc in clipLine l polys do
      pieces := pieces ++ [pc]
      source := source ++ [i]
  let n := pieces.length
  let pa := pieces.toArray
  -- per piece checks
  for pc in pieces do
    for (a, b) in segs pc do
      if Pt.dist2 a b < m2 then throw "short segment"
  let mut evs : Array (List Ev) := Array.replicate n []
  -- pairwise contacts
  for i in [0:n] do
    for j in [i+1:n] do
      let li := pa[i]!
      let lj := pa[j]!
      match pairContacts li lj with
      | .overlap => throw "overlapping traces"
      | .pts pts =>
        if pts.isEmpty then
          if lineLineD2 li lj < m2 then throw "traces too close without contact"
        else
          -- contacts pairwise far apart
          for (_, _, _, _, p) in pts do
            for (_, _, _, _, q) in pts do
              if p != q && Pt.dist2 p q < m2 then throw "contacts too close"
          for (si, ti, sj, uj, p) in pts do
            let iEnd := isEnd li p
            let jEnd := isEnd lj p
            if iEnd && jEnd then throw "shared end point (V-node)"
            if iEnd then
              if lj.contains p then throw "abutment on a vertex"
              let (s, tt) := endPos li p
              evs := evs.set! i (⟨s, tt, p, .endAbut⟩ :: evs[i]!)
              evs := evs.set! j (⟨sj, uj, p, .onAbut⟩ :: evs[j]!)
            else if jEnd then
              if li.contains p then throw "abutment on a vertex"
              let (s, tt) := endPos lj p
              evs := evs.set! j (⟨s, tt, p, .endAbut⟩ :: evs[j]!)
              evs := evs.set! i (⟨si, ti, p, .onAbut⟩ :: evs[i]!)
            else
              if li.contains p || lj.contains p then throw "crossing at a vertex"
              evs := evs.set! i (⟨si, ti, p, .onCross⟩ :: evs[i]!)
              evs := evs.set! j (⟨sj, uj, p, .onCross⟩ :: evs[j]!)
          -- ends and vertices away from the other trace unless they are the contact
          for (l1, l2) in [(li, lj), (lj, li)] do
            for v in l1 do
              if !(pts.any fun x => x.2.2.2.2 == v) && ptLineD2 v l2 < m2 then throw "vertex or end too close to another trace"
  -- contacts far apart along each trace, and away from vertices
  for i in [0:n] do
    let ps := (evs[i]!).map (·.p)
    for p in ps do
      if (ps.filter (· == p)).length > 1 then throw "three traces through one point"
      for q in ps do
        if p != q && Pt.dist2 p q < m2 then throw "contacts close on a trace"
      for v in pa[i]! do
        if v != p && Pt.dist2 p v < m2 then throw "contact near a vertex"
  -- ends: boundary-created or free; boundary separation
  let mut out : List (List Ev) := []
  for i in [0:n] do
    let l := pa[i]!
    let mut es := evs[i]!
    -- interior vertices and contacts must be away from the boundary
    for e in es do
      if boundaryD2 polys e.p < m2 then throw "contact near the boundary"
    for v in (l.drop 1).dropLast do
      if boundaryD2 polys v < m2 then throw "vertex near the boundary"
    for (p, s, tt) in [(l.head!, 0, (0 : Rat)), (l.getLast!, l.length - 2, (1 : Rat))] do
      if !(es.any fun e => e.p == p && e.role == .endAbut) then
        let d2 := boundaryD2 polys p
        if d2 == 0 then
          es := ⟨s, tt, p, .endBoundary⟩ :: es
        else if d2 < m2 then throw "end near the boundary but not on it"
        else es := ⟨s, tt, p, .endFree⟩ :: es
    -- a piece must cross the boundary transversally away from ring vertices
    for e in es do
      if e.role == .endBoundary then
        for pg in polys do
          for r in pg.rings do
            for v in r do
              if Pt.dist2 v e.p < m2 then throw "boundary crossing near a ring vertex"
    let sorted := sortEvs es
    if sorted.length < 2 then throw "piece without two ends"
    out := out ++ [sorted]
  -- different pieces' boundary ends must be far apart
  let bnds := (out.flatMap id).filter (·.role == .endBoundary) |>.map (·.p)
  for (p, i) in bnds.zipIdx do
    for (q, j) in bnds.zipIdx do
      if i < j && Pt.dist2 p q < m2 then throw "boundary ends too close"
  return ⟨pieces, source, out⟩

end Contacts
