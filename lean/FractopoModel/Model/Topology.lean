/-!
# Node / branch tables (hand-written model of `node_identities_from_branches`,
`node_identity`, `get_branch_identities`; fractopo/branches_and_nodes.py)

Import-free.  Points are an abstract type with decidable equality (in the
implementation: the WKT key of a branch end); the geometric facts are parameters:

* `nearB p`      – `p` is within the snap threshold of some target-area boundary
* `close p q`    – `dist p q < snap_threshold`
* `deg2class`    – the degree → class decision (regenerated: `Gen.degree_to_class`)
* `branchId`     – the (i, xy, e) → label decision (regenerated: `Gen.determine_branch_identity`)
-/
namespace Topo

structure Branch (P : Type) where
  a : P
  b : P
deriving DecidableEq, Repr

variable {P : Type} [DecidableEq P]

/-- all branch end points, in the order `chain(*[get_trace_endpoints(b) …])` -/
def ends (bs : List (Branch P)) : List P := bs.flatMap (fun br => [br.a, br.b])

/-- `collected_nodes`: dict keyed by the point, first seen wins; the result lists the
distinct points in the order of their first occurrence (dict insertion order). -/
def firstSeen : List P → List P
  | [] => []
  | p :: ps => p :: (firstSeen ps).filter (fun q => !(q == p))

def collect (bs : List (Branch P)) : List P := firstSeen (ends bs)

/-- number of branch ends at point `p` -/
def mult (bs : List (Branch P)) (p : P) : Nat := (ends bs).count p

/-- `node_identity`: boundary proximity wins; otherwise the class is decided from the
number of *other* branch ends returned by the point query (`mult − 1`). -/
def nodeClass (nearB : P → Bool) (deg2class : Nat → String) (bs : List (Branch P)) (p : P) : String :=
  if nearB p then "E" else deg2class (mult bs p - 1)

def nodeTable (nearB : P → Bool) (deg2class : Nat → String) (bs : List (Branch P)) : List (P × String) :=
  (collect bs).map (fun p => (p, nodeClass nearB deg2class bs p))

/-- nodes within the threshold of either end of the branch (the `inter` mask) -/
def nodesNear (close : P → P → Bool) (nodes : List P) (br : Branch P) : List P :=
  nodes.filter (fun n => close n br.a || close n br.b)

/-- `get_branch_identities` for one branch -/
def branchLabel (branchId : Nat → Nat → Nat → String) (close : P → P → Bool)
    (nodes : List P) (cls : P → String) (br : Branch P) : String :=
  let near := nodesNear close nodes br
  let e := near.countP (fun n => cls n == "E")
  let i := near.countP (fun n => cls n == "I")
  let xy := near.countP (fun n => cls n == "X" || cls n == "Y")
  branchId i xy e

end Topo
