import FractopoModel.Basic.PyPrelude
/-!
# Hand-written model of `group_gathered_subsamples` and `aggregate_chosen`
(fractopo/analysis/subsampling.py).  Import-free.
-/
namespace Subs

variable {α : Type}

/-- `grouped.setdefault(key, []).append(item)` on a dict in insertion order -/
def insertAcc (k : String) (v : α) : List (String × List α) → List (String × List α)
  | [] => [(k, [v])]
  | (k', vs) :: rest => if k' = k then (k', vs ++ [v]) :: rest else (k', vs) :: insertAcc k v rest

/-- `group_gathered_subsamples`: one pass over the list, accumulating per key -/
def group (xs : List (String × α)) : List (String × List α) :=
  xs.foldl (fun acc (kv : String × α) => insertAcc kv.1 kv.2 acc) []

/-- all (key, item) pairs of a grouping -/
def flat (g : List (String × List α)) : List (String × α) :=
  g.flatMap (fun (kvs : String × List α) => kvs.2.map (fun v => (kvs.1, v)))

/-- a cell of a parameter row: number or text -/
inductive Cell where
  | num (q : Rat)
  | str (s : String)
deriving DecidableEq, Repr, Inhabited

def Cell.num? : Cell → Option Rat
  | .num q => some q
  | .str _ => none

inductive Agg where
  | sum (q : Rat)
  | mean (q : Rat)
  | fallback          -- `str(values)`: the joined string of the raw values
  | undefinedMean     -- weighted mean with zero total weight (numpy raises ZeroDivisionError -> fallback in the code)
deriving DecidableEq, Repr

/-- aggregate one column: `aggregator` is the *name* from the table ("SUM" | "MEAN") -/
def aggColumn (aggregator : String) (values : List Cell) (weights : List Cell) : Agg :=
  match values.mapM Cell.num? with
  | none => .fallback
  | some vs =>
    if aggregator == "SUM" then .sum vs.sum
    else match weights.mapM Cell.num? with
      | none => .fallback
      | some ws =>
        let tot := ws.sum
        if tot == 0 then .undefinedMean else .mean ((List.zipWith (· * ·) vs ws).sum / tot)

/-- aggregator name of a column: table lookup, default otherwise -/
def lookupAgg (table : List (String × String)) (dflt : String) (c : String) : String :=
  match table.find? (·.1 == c) with | some p => p.2 | none => dflt

/-- `aggregate_chosen`: columns of the first row; the aggregator of a column is looked up in
the table afresh for every column (default otherwise); weights = the Area column -/
def aggregate (table : List (String × String)) (dflt : String) (weightCol : String)
    (columns : List String) (rows : List (String → Cell)) : List (String × Agg) :=
  columns.map fun c =>
    (c, aggColumn (lookupAgg table dflt c) (rows.map (· c)) (rows.map (· weightCol)))

end Subs
