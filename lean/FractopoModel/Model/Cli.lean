/-!
# Hand-written model of the file effects of `fractopo tracevalidate` and of the text written
into the error column (`astype(str)` of a tuple of strings).  Import-free.
-/
namespace Cli

/-- a file system: path ↦ content (none = absent) -/
abbrev FS (C : Type) := String → Option C

def FS.write {C : Type} (fs : FS C) (p : String) (c : C) : FS C := fun q => if q = p then some c else fs q
def FS.unlink {C : Type} (fs : FS C) (p : String) : FS C := fun q => if q = p then none else fs q

/-- `tracevalidate`: read both inputs, compute the output content from them (a function of the
input contents and the options only), remove an existing file at the output path, write there -/
def tracevalidate {C : Type} (fs : FS C) (tracePath areaPath outPath : String) (compute : C → C → C) : Option (FS C) :=
  match fs tracePath, fs areaPath with
  | some t, some a =>
    let out := compute t a
    let fs1 := if (fs outPath).isSome then fs.unlink outPath else fs
    some (fs1.write outPath out)
  | _, _ => none

/-! Text of the error column: Python `str(tuple_of_strings)`, over character lists. -/

/-- the items of a non-empty tuple after the opening parenthesis: `'a', 'b')` -/
def itemsC : List (List Char) → List Char
  | [] => [')']
  | [a] => '\'' :: a ++ ['\'', ')']
  | a :: b :: rest => '\'' :: a ++ '\'' :: ',' :: ' ' :: itemsC (b :: rest)

/-- `str(tuple)`: `()`, `('A',)`, `('A', 'B')` -/
def pyTupleReprC : List (List Char) → List Char
  | [] => ['(', ')']
  | [a] => '(' :: '\'' :: a ++ ['\'', ',', ')']
  | l => '(' :: itemsC l

def pyTupleRepr (l : List String) : String := String.ofList (pyTupleReprC (l.map String.toList))

/-- parser states: after `(` or `, ` (expect a string or `)`), inside a string, after a string,
after a comma -/
inductive PSt where
  | out | inStr | afterStr | afterComma

/-- inverse of `pyTupleReprC` on tuples of quote-free strings: a structurally recursive scanner -/
def parseGoC : List Char → PSt → List Char → List (List Char) → Option (List (List Char))
  | [], _, _, _ => none
  | c :: rest, .out, _, items =>
    if c = '\'' then parseGoC rest .inStr [] items
    else if c = ')' ∧ rest = [] then some items.reverse else none
  | c :: rest, .inStr, acc, items =>
    if c = '\'' then parseGoC rest .afterStr [] (acc.reverse :: items)
    else parseGoC rest .inStr (c :: acc) items
  | c :: rest, .afterStr, _, items =>
    if c = ',' then parseGoC rest .afterComma [] items
    else if c = ')' ∧ rest = [] then some items.reverse else none
  | c :: rest, .afterComma, _, items =>
    if c = ' ' then parseGoC rest .out [] items
    else if c = ')' ∧ rest = [] then some items.reverse else none

def parseTupleC : List Char → Option (List (List Char))
  | '(' :: rest => parseGoC rest .out [] []
  | _ => none

end Cli
