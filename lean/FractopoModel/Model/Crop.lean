/-!
# Hand-written model of `crop_to_target_areas` + `dissolve_multi_part_traces`
(fractopo/general.py).  Import-free; generic in the attribute type `A`, the geometry type `G`
and the clip function (the exact `clipLine` is the executable instance in the driver; `gpd.clip`
in the implementation).  Row order of `gpd.clip` is unspecified, so only multiset statements
are made about the result.
-/
namespace Crop

structure Row (A G : Type) where
  attrs : A
  geom : G
deriving Repr, DecidableEq

variable {A G : Type}

/-- clip result of one row: the list of single-part pieces (empty: the row is dropped by the
type filter; one piece: a LineString row; several: a MultiLineString row to be dissolved) -/
def clipped (clip : G → List G) (rows : List (Row A G)) : List (Row A G × List G) :=
  (rows.map fun r => (r, clip r.geom)).filter fun x => !x.2.isEmpty

/-- `dissolve_multi_part_traces`: LineString rows first, then every multi-part row repeated
once per part with the same attributes -/
def dissolve (cl : List (Row A G × List G)) : List (Row A G) :=
  ((cl.filter fun x => x.2.length == 1).flatMap fun x => x.2.map fun g => ⟨x.1.attrs, g⟩) ++
  ((cl.filter fun x => !(x.2.length == 1)).flatMap fun x => x.2.map fun g => ⟨x.1.attrs, g⟩)

/-- the whole function; `long g` = `length > MINIMUM_LINE_LENGTH` -/
def crop (clip : G → List G) (long : G → Bool) (rows : List (Row A G)) : List (Row A G) :=
  (dissolve (clipped clip rows)).filter fun r => long r.geom

/-- what the property demands: every long clip piece of every row, with the row's attributes -/
def expected (clip : G → List G) (long : G → Bool) (rows : List (Row A G)) : List (Row A G) :=
  rows.flatMap fun r => ((clip r.geom).filter long).map fun g => ⟨r.attrs, g⟩

end Crop
