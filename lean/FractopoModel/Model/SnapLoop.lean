import FractopoModel.Model.Snap
/-!
# Hand-written model of the snapping pass of `branches_and_nodes`
(`snap_traces`, `snap_trace_simple`, `simple_snap`, `snap_others_to_trace`,
`resolve_trace_candidates`, `snap_trace_to_another`, `is_endpoint_close_to_boundary`, the
repeat-until-stable loop with `report_snapping_loop`; fractopo/branches_and_nodes.py).
Import-free, executable, exact rational geometry.

Snapping never computes a new coordinate: `simple_snap` moves a trace end onto an existing
interior vertex of another trace, `snap_trace_to_another` inserts an existing trace end into
another trace.  All decisions are distance / incidence predicates, so on inputs where no
predicate is within rounding of its threshold the real result must equal the model's result
coordinate for coordinate (stream S06-snappass).

Python semantics kept: list order of candidates is the index order of the spatial index query,
`raise` is `Except.error`, the index used by the second stage is the index of the ORIGINAL
traces while the candidate geometries are the simply-snapped ones.
-/
namespace SnapL

def first (l : Polyline) : Pt := l.headD default
def last (l : Polyline) : Pt := l.getLastD default

/-- `get_trace_endpoints` -/
def ends (l : Polyline) : List Pt := [first l, last l]

/-- `get_trace_coord_points(trace)[1:-1]` -/
def interior (l : Polyline) : List Pt := l.tail.dropLast

def onLine (p : Pt) (l : Polyline) : Bool :=
  match l with
  | [a] => p == a
  | _ => (segs l).any fun (a, b) => onSeg p a b

/-- `p.distance(l) < t` -/
def near (t : Rat) (p : Pt) (l : Polyline) : Bool :=
  match ptLineDist2 p l with
  | some d => decide (d < t * t)
  | none => false

def bboxOf (l : Polyline) : Box := (Box.ofPts l).getD ⟨0, 0, 0, 0⟩

/-- the order in which the spatial index returns its hits is not specified by GEOS/geopandas: it is a
parameter (ascending or descending); the driver reports a result as crisp only when both orders agree -/
inductive Ord where
  | asc
  | desc
deriving DecidableEq, Repr

def Ord.ap (o : Ord) (l : List Nat) : List Nat := match o with | .asc => l | .desc => l.reverse

/-- `resolve_trace_candidates`: indices of the traces whose ORIGINAL bounding box meets
the bounds of `trace` extended by `margin`; the trace's own index is removed (`list.remove` raises
when it is absent). -/
def candidateIdxs (ord : Ord) (margin : Rat) (orig : List Polyline) (idx : Nat) (trace : Polyline) : Except String (List Nat) :=
  let w := (bboxOf trace).expand margin
  let hits := ord.ap ((List.range orig.length).filter fun i => (bboxOf (orig.getD i [])).meets w)
  if hits.contains idx then .ok (hits.erase idx) else .error "ValueError"

/-- all intersection points of two polylines, or `none` when they share a stretch of positive
length (`line_intersection_to_points` then logs an error and returns no points) -/
def interPts (l m : Polyline) : Option (List Pt) :=
  let rs := (segs l).flatMap fun (a, b) => (segs m).map fun (c, d) => segInter a b c d
  if rs.any (fun r => match r with | .overlap _ _ => true | _ => false) then none
  else some (rs.filterMap fun r => match r with | .point p _ _ => some p | _ => none)

/-- index of the first minimum -/
def argminPt (p : Pt) (vs : List Pt) : Option Pt :=
  match vs with
  | [] => none
  | v :: rest => some (rest.foldl (fun best x => if Pt.dist2 x p < Pt.dist2 best p then x else best) v)

/-- the replacement `simple_snap` decides for endpoint `ep` of `trace` against ONE candidate `c`:
`some v` = move the end onto interior vertex `v` of `c` -/
def simpleTarget (t : Rat) (trace c : Polyline) (ep : Pt) : Option Pt :=
  let cps := interior c
  if cps.isEmpty then none
  else if cps.contains ep then none                         -- already snapped to a vertex
  else
    match argminPt ep cps with
    | none => none
    | some v =>
      if !(decide (Pt.dist2 v ep < t * t)) then none
      else
        let ips := (interPts trace c).getD []
        if ips.any (fun ip => decide (Pt.dist2 ip ep < t * t)) then none  -- overlapping snap: left to stage 2
        else some v

/-- one end against one candidate: a second replacement of the same end raises -/
def simpleStep (t : Rat) (trace c : Polyline) (d : List (Pt × Pt)) (ep : Pt) : Except String (List (Pt × Pt)) :=
  match simpleTarget t trace c ep with
  | none => .ok d
  | some v => if d.any (·.1 == ep) then .error "ValueError" else .ok (d ++ [(ep, v)])

/-- both ends against one candidate -/
def simpleCand (t : Rat) (trace : Polyline) (d : List (Pt × Pt)) (c : Polyline) : Except String (List (Pt × Pt)) :=
  match simpleStep t trace c d (first trace) with
  | .error e => .error e
  | .ok d1 => simpleStep t trace c d1 (last trace)

def simpleFold (t : Rat) (trace : Polyline) : List Polyline → List (Pt × Pt) → Except String (List (Pt × Pt))
  | [], d => .ok d
  | c :: cs, d =>
    match simpleCand t trace d c with
    | .error e => .error e
    | .ok d1 => simpleFold t trace cs d1

/-- `simple_snap`: the replacement dictionary (keyed by the end's coordinates), built candidate by
candidate, end by end -/
def simpleDict (t : Rat) (trace : Polyline) (cands : List Polyline) : Except String (List (Pt × Pt)) :=
  simpleFold t trace (cands.filter fun c => (ends trace).any fun ep => near t ep c) []

def applyDict (d : List (Pt × Pt)) (trace : Polyline) : Polyline :=
  trace.map fun p => match d.find? (·.1 == p) with | some (_, v) => v | none => p

def simpleSnap (t : Rat) (trace : Polyline) (cands : List Polyline) : Except String (Polyline × Bool) :=
  match simpleDict t trace cands with
  | .error e => .error e
  | .ok d => if d.isEmpty then .ok (trace, false) else .ok (applyDict d trace, true)

/-- `snap_trace_simple` -/
def snapTraceSimple (ord : Ord) (t margin : Rat) (orig : List Polyline) (idx : Nat) (trace : Polyline) : Except String (Polyline × Bool) :=
  match candidateIdxs ord margin orig idx trace with
  | .error e => .error e
  | .ok ci =>
    let cands := ci.map fun i => orig.getD i []
    if cands.isEmpty then .ok (trace, false) else simpleSnap t trace cands

/-- `is_endpoint_close_to_boundary` over the flattened polygon list -/
def closeToBoundary (t : Rat) (areas : List Polygon) (p : Pt) : Bool :=
  areas.any fun pg => decide (pg.boundaryDist2 p < t * t)

/-- `snap_trace_to_another`: the ends to insert are chosen against the trace as it is BEFORE any
insertion; they are then inserted one after the other -/
def snapToAnother (t : Rat) (eps : List Pt) (another : Polyline) : Polyline × Bool :=
  let sel := eps.filter fun ep => near t ep another && !onLine ep another
  if sel.isEmpty then (another, false)
  else (sel.foldl (fun l ep => Snap.insertGeo l ep t) another, true)

/-- `snap_others_to_trace`: candidates by the ORIGINAL boxes, geometries from the simply-snapped list -/
def snapOthersToTrace (ord : Ord) (t margin : Rat) (areas : List Polygon) (orig simp : List Polyline) (idx : Nat) (trace : Polyline) :
    Except String (Polyline × Bool) :=
  match candidateIdxs ord margin orig idx trace with
  | .error e => .error e
  | .ok ci =>
    let cands := ci.map fun i => simp.getD i []
    if cands.contains trace then .error "ValueError"
    else if cands.isEmpty then .ok (trace, false)
    else .ok (snapToAnother t ((cands.flatMap ends).filter fun ep => !closeToBoundary t areas ep) trace)

/-- stage 1 over the whole list -/
def stage1 (ord : Ord) (t margin : Rat) (traces : List Polyline) : Except String (List (Polyline × Bool)) :=
  traces.zipIdx.mapM fun (li : Polyline × Nat) => snapTraceSimple ord t margin traces li.2 li.1

/-- stage 2 over the simply-snapped list -/
def stage2 (ord : Ord) (t margin : Rat) (areas : List Polygon) (traces simp : List Polyline) : Except String (List (Polyline × Bool)) :=
  simp.zipIdx.mapM fun (li : Polyline × Nat) => snapOthersToTrace ord t margin areas traces simp li.2 li.1

/-- `snap_traces`: one pass (both stages) over the whole list -/
def snapPass (ord : Ord) (t margin : Rat) (areas : List Polygon) (traces : List Polyline) : Except String (List Polyline × Bool) :=
  if traces.isEmpty then .ok ([], false) else
  match stage1 ord t margin traces with
  | .error e => .error e
  | .ok s1 =>
    match stage2 ord t margin areas traces (s1.map (·.1)) with
    | .error e => .error e
    | .ok s2 => .ok (s2.map (·.1), (s2.any (·.2)) || (s1.any (·.2)))

/-- the `while any_changes_applied` loop: `loops` passes have been made inside the loop so far;
after every pass inside the loop `report_snapping_loop` raises when `loops > allowed` (whether or
not that pass still changed anything) -/
def snapLoopFrom (ord : Ord) (t margin : Rat) (areas : List Polygon) (allowed : Nat) :
    Nat → Nat → List Polyline → Bool → Except String (List Polyline × Nat)
  | 0, loops, traces, _ => .ok (traces, loops)   -- not reached: the fuel exceeds `allowed + 1`
  | fuel + 1, loops, traces, changed =>
    if !changed then .ok (traces, loops)
    else
      match snapPass ord t margin areas traces with
      | .error e => .error e
      | .ok (tr, ch) =>
        if loops + 1 > allowed then .error "RecursionError"
        else snapLoopFrom ord t margin areas allowed fuel (loops + 1) tr ch

/-- the whole snapping stage of `branches_and_nodes`: first pass, then repeat while something
changed; returns the final traces and the number of passes made inside the loop -/
def snapLoop (ord : Ord) (t margin : Rat) (areas : List Polygon) (allowed : Nat) (traces : List Polyline) : Except String (List Polyline × Nat) :=
  match snapPass ord t margin areas traces with
  | .error e => .error e
  | .ok (tr, ch) => snapLoopFrom ord t margin areas allowed (allowed + 2) 0 tr ch

/-! ### the quiet condition: nothing to snap -/

/-- no end of `l` asks for anything from `c`: neither stage's decision predicates fire -/
def quietPair (t : Rat) (l c : Polyline) : Bool :=
  (ends l).all fun ep => (simpleTarget t l c ep).isNone && !(near t ep c && !onLine ep c)

/-- the whole map is quiet: every candidate query succeeds, no candidate is a copy of the trace,
every (trace, candidate) and (candidate, trace) pair is quiet -/
def quietMap (ord : Ord) (t margin : Rat) (traces : List Polyline) : Bool :=
  traces.zipIdx.all fun (l, i) =>
    match candidateIdxs ord margin traces i l with
    | .error _ => false
    | .ok ci => ci.all fun j => (traces.getD j []) != l && quietPair t l (traces.getD j []) && quietPair t (traces.getD j []) l

/-- a geometric sufficient condition used by the map generator (not proved to imply `quietPair`): an end within
the threshold of `c` lies exactly on `c` and is not within the threshold of an interior vertex of `c` unless
it IS that vertex -/
def quietGeo (t : Rat) (l c : Polyline) : Bool :=
  (ends l).all fun ep => !near t ep c ||
    (onLine ep c && ((interior c).contains ep || (interior c).all fun v => !decide (Pt.dist2 v ep < t * t)))

end SnapL
