import FractopoModel.Basic.Geom
/-!
# Hand-written model of `insert_point_to_linestring` / `determine_insert_approach`
(fractopo/branches_and_nodes.py, after the F6 repair).  Import-free.

Combinatorial core over an abstract vertex type: the closest segment `j`, which of its two
ends is nearer (`nearIsSecond`) and whether that end is within the threshold of the point
(`nearClose`) are inputs; `insertGeo` computes them exactly for rational geometry.
-/
namespace Snap

variable {P : Type}

/-- result of the decision: insert the point after vertex `j`, or replace vertex `k` -/
inductive Action where
  | insertAfter (j : Nat)
  | replace (k : Nat)
deriving DecidableEq, Repr

/-- `determine_insert_approach` restricted to the ends of the closest segment `j` of a polyline
with `n` vertices: the nearest end is `j` or `j+1`; a first/last vertex is never replaced; an
interior nearest vertex within the threshold is replaced; otherwise insert between `j` and `j+1` -/
def choose (n j : Nat) (nearIsSecond nearClose : Bool) : Action :=
  let k := if nearIsSecond then j + 1 else j
  if k == 0 || k == n - 1 then .insertAfter j
  else if nearClose then .replace k
  else .insertAfter j

def apply (vs : List P) (p : P) : Action → List P
  | .insertAfter j => vs.take (j + 1) ++ [p] ++ vs.drop (j + 1)
  | .replace k => vs.set k p

/-- exact instance: closest segment (first minimum), nearer end (first on ties = lower index) -/
def argminIdx (ds : List Rat) : Nat :=
  match ds with
  | [] => 0
  | d :: rest => (rest.zipIdx.foldl (fun (best : Nat × Rat) (x : Rat × Nat) => if x.1 < best.2 then (x.2 + 1, x.1) else best) (0, d)).1

def insertGeo (l : Polyline) (p : Pt) (t : Rat) : Polyline :=
  if l.contains p then l else
  let ds := (segs l).map fun (a, b) => ptSegDist2 p a b
  let j := argminIdx ds
  let a := l.getD j default
  let b := l.getD (j + 1) default
  let nearIsSecond := decide (Pt.dist2 p b < Pt.dist2 p a)
  let nd2 := if nearIsSecond then Pt.dist2 p b else Pt.dist2 p a
  apply l p (choose l.length j nearIsSecond (decide (nd2 < t * t)))

end Snap
