import FractopoModel.Basic.Geom
/-!
# Line protocol of the model driver (import-free)

One request per line: `<cmd> key=value key=value …`; one response line per request.
Rationals are `n` or `n/d`; a point is `x,y`; a polyline or ring is points joined by
`;`; lists of polylines are joined by `|`; a polygon is its rings joined by `|`
(exterior first); polygons of one area row are joined by `&`; rows by `#`.
Malformed input yields `error=<reason>`, never a default.
-/
namespace Wire

def parseInt? (s : String) : Option Int := s.toInt?

def parseRat? (s : String) : Option Rat :=
  match s.splitOn "/" with
  | [n] => (parseInt? n).map (fun i => (i : Rat))
  | [n, d] => do
      let ni ← parseInt? n
      let di ← parseInt? d
      if di == 0 then none else some ((ni : Rat) / (di : Rat))
  | _ => none

def parsePt? (s : String) : Option Pt :=
  match s.splitOn "," with
  | [x, y] => do some ⟨← parseRat? x, ← parseRat? y⟩
  | _ => none

def parseLine? (s : String) : Option Polyline :=
  if s.isEmpty then some [] else (s.splitOn ";").mapM parsePt?

def parseLines? (s : String) : Option (List Polyline) :=
  if s.isEmpty then some [] else (s.splitOn "|").mapM parseLine?

def parsePolygon? (s : String) : Option Polygon := do
  let rings ← parseLines? s
  match rings with
  | [] => none
  | e :: hs => some ⟨e, hs⟩

def parseRow? (s : String) : Option AreaRow :=
  if s.isEmpty then some [] else (s.splitOn "&").mapM parsePolygon?

def parseArea? (s : String) : Option (List AreaRow) :=
  if s.isEmpty then some [] else (s.splitOn "#").mapM parseRow?

def parseNat? (s : String) : Option Nat := s.toNat?

def parseNats? (s : String) : Option (List Nat) :=
  if s.isEmpty then some [] else (s.splitOn ",").mapM parseNat?

def parseRats? (s : String) : Option (List Rat) :=
  if s.isEmpty then some [] else (s.splitOn ",").mapM parseRat?

def parseBool? (s : String) : Option Bool :=
  if s == "1" || s == "true" then some true else if s == "0" || s == "false" then some false else none

/-- key=value arguments of a request line -/
abbrev Args := List (String × String)

def parseArgs (toks : List String) : Args :=
  toks.filterMap fun t =>
    match t.splitOn "=" with
    | k :: rest@(_ :: _) => some (k, "=".intercalate rest)
    | _ => none

def Args.get? (a : Args) (k : String) : Option String := (a.find? (·.1 == k)).map (·.2)

def showRat (q : Rat) : String :=
  if q.den == 1 then toString q.num else s!"{q.num}/{q.den}"

def showPt (p : Pt) : String := s!"{showRat p.x},{showRat p.y}"
def showLine (l : Polyline) : String := ";".intercalate (l.map showPt)
def showLines (ls : List Polyline) : String := "|".intercalate (ls.map showLine)
def showBool (b : Bool) : String := if b then "1" else "0"
def showNats (l : List Nat) : String := ",".intercalate (l.map toString)
def showRats (l : List Rat) : String := ",".intercalate (l.map showRat)
/-- strings that may contain spaces are sent with `_` for ` ` -/
def enc (s : String) : String := s.replace " " "_"
def dec (s : String) : String := s.replace "_" " "

end Wire
