/-!
Import-free prelude shared by the regenerated definitions (`Generated/`) and the
hand-written models: the value types the `py2lean` translation scheme targets.
-/

/-- A Python float that may be `nan` (exact rational otherwise). -/
inductive Val where
  | num (q : Rat)
  | nan
deriving DecidableEq, Repr, Inhabited

namespace Val
def isNan : Val → Bool
  | .nan => true
  | _ => false

def map2 (f : Rat → Rat → Rat) : Val → Val → Val
  | .num x, .num y => .num (f x y)
  | _, _ => .nan

instance : Add Val := ⟨map2 (· + ·)⟩
instance : Sub Val := ⟨map2 (· - ·)⟩
instance : Mul Val := ⟨map2 (· * ·)⟩
instance : Div Val := ⟨map2 (· / ·)⟩

@[simp] theorem num_add (a b : Rat) : Val.num a + Val.num b = Val.num (a + b) := rfl
@[simp] theorem num_sub (a b : Rat) : Val.num a - Val.num b = Val.num (a - b) := rfl
@[simp] theorem num_mul (a b : Rat) : Val.num a * Val.num b = Val.num (a * b) := rfl
@[simp] theorem num_div (a b : Rat) : Val.num a / Val.num b = Val.num (a / b) := rfl
@[simp] theorem nan_mul (a : Val) : Val.nan * a = Val.nan := by cases a <;> rfl
@[simp] theorem mul_nan (a : Val) : a * Val.nan = Val.nan := by cases a <;> rfl

/-- comparisons with nan are false, as in IEEE / Python -/
def cmpGt : Val → Val → Bool
  | .num x, .num y => decide (x > y)
  | _, _ => false
def cmpLt : Val → Val → Bool
  | .num x, .num y => decide (x < y)
  | _, _ => false
def cmpGtE : Val → Val → Bool
  | .num x, .num y => decide (x ≥ y)
  | _, _ => false
def cmpLtE : Val → Val → Bool
  | .num x, .num y => decide (x ≤ y)
  | _, _ => false
def cmpEq : Val → Val → Bool
  | .num x, .num y => decide (x = y)
  | _, _ => false
def cmpNotEq (a b : Val) : Bool := !cmpEq a b
end Val

/-- Python dict with string keys: association list in insertion order. -/
abbrev Dict := List (String × Val)
def dictHas (d : Dict) (k : String) : Bool := d.any (fun p => p.1 == k)
def dictGet (d : Dict) (k : String) : Option Val := (d.find? (fun p => p.1 == k)).map (·.2)

/-- numpy reductions on a non-empty array (callers guard the empty case as the code does). -/
def listMin (l : List Rat) : Rat := l.foldl min (l.headD 0)
def listMax (l : List Rat) : Rat := l.foldl max (l.headD 0)
def listMean (l : List Rat) : Rat := l.sum / (l.length : Rat)

deriving instance DecidableEq for Except

/-- `np.arange(start, stop, step)` for `step > 0`: `start + i*step` for `i < ⌈(stop-start)/step⌉` -/
def pyArange (start stop step : Rat) : List Rat :=
  (List.range ((stop - start) / step).ceil.toNat).map (fun (i : Nat) => start + (i : Rat) * step)

/-- the bins of `np.histogram` for explicit edges: `[e_i, e_{i+1})`, the last one closed on the right -/
def pyHistBins : List Rat → List (Rat × Rat × Bool)
  | [] => []
  | [_] => []
  | [a, b] => [(a, b, true)]
  | a :: b :: c :: rest => (a, b, false) :: pyHistBins (b :: c :: rest)

def pyInBin (v : Rat) (b : Rat × Rat × Bool) : Bool :=
  decide (b.1 ≤ v) && (if b.2.2 then decide (v ≤ b.2.1) else decide (v < b.2.1))

/-- total weight of the (value, weight) pairs whose value falls into bin `b` -/
def pyBinSum (ps : List (Rat × Rat)) (b : Rat × Rat × Bool) : Rat := ((ps.filter (fun vw => pyInBin vw.1 b)).map (·.2)).sum

/-- `np.histogram(vals, edges, weights=weights)[0]` in exact arithmetic: values outside `[e_0, e_n]` are not counted -/
def pyHistogram (vals edges weights : List Rat) : List Rat :=
  (pyHistBins edges).map (pyBinSum (vals.zip weights))

/-- result of a translated `for` loop that can leave the function early: `ret r` = the function returns
(or raises) `r`; `done s` = the loop ended (normally or by `break`) with state `s` -/
inductive Loop (ρ σ : Type) where
  | ret (r : ρ)
  | done (s : σ)

/-- Python dict with arbitrary keys: association list in insertion order -/
abbrev AList (κ ν : Type) := List (κ × ν)
def alistHas {κ ν : Type} [BEq κ] (d : AList κ ν) (k : κ) : Bool := d.any (fun p => p.1 == k)
def alistGet? {κ ν : Type} [BEq κ] (d : AList κ ν) (k : κ) : Option ν := (d.find? (fun p => p.1 == k)).map (·.2)
/-- `d[k] = v`: overwrite in place when the key exists, append otherwise -/
def alistSet {κ ν : Type} [BEq κ] (d : AList κ ν) (k : κ) (v : ν) : AList κ ν :=
  if alistHas d k then d.map (fun p => if p.1 == k then (p.1, v) else p) else d ++ [(k, v)]
/-- `s.add(x)` on a set kept as a duplicate-free list -/
def pySetAdd {α : Type} [BEq α] (s : List α) (x : α) : List α := if s.elem x then s else s ++ [x]

/-- pandas `frame["geometry"] = series` on a frame of (label, data, geometry) rows and a series of (label, value) entries: positional when the two
indexes are identical; otherwise the series is re-indexed by the frame's labels -- ValueError when the series index has duplicate labels, `nan` for a
label the series lacks -/
def pyAssignAligned {L D G : Type} [BEq L] (frame : List (L × D × G)) (series : List (L × G)) (nan : G) : Except String (List (L × D × G)) :=
  if frame.map (·.1) == series.map (·.1) then .ok (List.zipWith (fun r s => (r.1, r.2.1, s.2)) frame series)
  else if (series.map (·.1)).any (fun l => (series.map (·.1)).count l > 1) then .error "ValueError"
  else .ok (frame.map fun r => (r.1, r.2.1, match series.find? (·.1 == r.1) with | some s => s.2 | none => nan))

/-- the cache columns `LineData` keeps in the frame it wraps (`None` = the frame has no such column) -/
structure LineCols where
  length : Option (List Rat) := none
  azimuth : Option (List Rat) := none
  azimuth_set : Option (List String) := none
  boundary_weight : Option (List Int) := none
  length_nw : Option (List Rat) := none
deriving Repr, DecidableEq

/-- Python `l[lo:hi]` for non-negative bounds (bounds past the end are clipped, as Python does) -/
def pySliceL {α : Type} (l : List α) (lo hi : Nat) : List α := (l.take hi).drop lo

/-- `list(itertools.compress(data, selectors))` -/
def pyCompress {α : Type} (data : List α) (sel : List Bool) : List α := ((data.zip sel).filter (·.2)).map (·.1)

/-- `d.setdefault(k, []).append(v)` on a dict of lists in insertion order -/
def alistAppendTo {κ ν : Type} [BEq κ] (k : κ) (v : ν) : AList κ (List ν) → AList κ (List ν)
  | [] => [(k, [v])]
  | (k', vs) :: rest => if k' == k then (k', vs ++ [v]) :: rest else (k', vs) :: alistAppendTo k v rest

/-- `itertools.combinations(l, 2)` -/
def pyCombinations2 {α : Type} : List α → List (α × α)
  | [] => []
  | a :: l => l.map (fun b => (a, b)) ++ pyCombinations2 l

/-- a pandas Series with the default labels: (label, value) pairs -/
def pySeries {α : Type} (l : List α) : List (Nat × α) := l.zipIdx.map fun x => (x.2, x.1)
/-- `series.loc[mask]`: rows kept with their labels -/
def pyLocMask {α : Type} (s : List (Nat × α)) (mask : List Bool) : List (Nat × α) := pyCompress s mask
/-- `series.iloc[positions]` (positions out of range would raise; they are dropped here -- the refinement theorem shows they do not occur) -/
def pyIloc {α : Type} (s : List (Nat × α)) (pos : List Nat) : List (Nat × α) := pos.filterMap fun i => s[i]?
/-- `flatten_tuples`: the owner index of every element, and the elements, in order -/
def pyFlattenTuples {α : Type} (ls : List (List α)) : List Nat × List α :=
  (ls.zipIdx.flatMap (fun x => x.1.map fun _ => x.2), ls.flatMap id)

/-- `xs.insert(i, v)`: before position `i`, at the end when `i ≥ len` -/
def pyInsertIdx {α : Type} (l : List α) (i : Nat) (v : α) : List α := l.take i ++ v :: l.drop i

/-- insertion of `x` into a list sorted by `key`, before the first element whose key is not smaller -/
def pyInsertBy {α : Type} (key : α → Rat) (x : α) : List α → List α
  | [] => [x]
  | y :: ys => if key x ≤ key y then x :: y :: ys else y :: pyInsertBy key x ys
/-- `sorted(l, key=key)`: STABLE sort by a rational key (equal keys keep their order) -/
def pySortedBy {α : Type} (key : α → Rat) (l : List α) : List α := l.foldr (pyInsertBy key) []

/-- `l.index(min(l))`: position of the first minimum (0 for the empty list, where Python raises) -/
def pyIndexOfMin : List Rat → Nat
  | [] => 0
  | d :: rest => (rest.zipIdx.foldl (fun (best : Nat × Rat) (x : Rat × Nat) => if x.1 < best.2 then (x.2 + 1, x.1) else best) (0, d)).1
