import FractopoModel.Basic.Geom
/-!
# Exact clipping of polylines to (unions of) polygons — import-free, executable

`clipLine l polys` returns the maximal parts of `l` inside the closed union of `polys`
(this is what `gpd.clip` computes with the union of the mask geometries): every piece is a
polyline whose interior vertices are original vertices of `l`; its first/last vertex is an
original end of `l` or a point where `l` meets a ring.
-/

def insertSortedRat (x : Rat) : List Rat → List Rat
  | [] => [x]
  | y :: ys => if x < y then x :: y :: ys else if x == y then y :: ys else y :: insertSortedRat x ys

def sortDedupRat (l : List Rat) : List Rat := l.foldl (fun acc x => insertSortedRat x acc) []

/-- closed containment in the union of polygons -/
def inAreaClosed (polys : List Polygon) (p : Pt) : Bool :=
  polys.any fun pg => pg.onBoundary p || pg.containsStrict p

/-- strictly inside the union: inside some polygon's interior, or on boundaries only where the
point is interior to the union is NOT detected here (used only for midpoints of pieces) -/
def allRingSegs (polys : List Polygon) : List (Pt × Pt) :=
  polys.flatMap fun pg => pg.rings.flatMap segs

/-- parameters along segment ab where it meets ring segments (incl. 0 and 1) -/
def cutParams (a b : Pt) (ringSegs : List (Pt × Pt)) : List Rat :=
  let ps := ringSegs.flatMap fun (c, d) =>
    match segInter a b c d with
    | .none => []
    | .point _ t _ => [t]
    | .overlap p q => [closestParam p a b, closestParam q a b]
  sortDedupRat (0 :: 1 :: ps)

/-- a sub-segment of the input with the flag "inside the area" -/
structure SubSeg where
  a : Pt
  b : Pt
  inside : Bool
  /-- `b` is an original vertex of the polyline (not a cut point) -/
  bOrig : Bool
deriving Repr

def subSegs (l : Polyline) (polys : List Polygon) : List SubSeg :=
  let rs := allRingSegs polys
  (segs l).flatMap fun (a, b) =>
    if a == b then [] else
    let ts := cutParams a b rs
    (ts.zip ts.tail).map fun (t0, t1) =>
      let p := Pt.lerp a b t0
      let q := Pt.lerp a b t1
      let m := Pt.lerp a b ((t0 + t1) / 2)
      ⟨p, q, inAreaClosed polys m, t1 == 1⟩

/-- group maximal inside runs; drop cut points between two inside sub-segments of one segment -/
def groupRuns : List SubSeg → Option Polyline → List Polyline → List Polyline
  | [], cur, acc => (match cur with | some c => c.reverse :: acc | none => acc).reverse
  | s :: rest, cur, acc =>
    if s.inside then
      match cur with
      | none => groupRuns rest (some [s.b, s.a]) acc
      | some c =>
        -- c is reversed: head is the last point (= s.a). If s.a was a non-original cut point, replace it
        groupRuns rest (some (s.b :: c)) acc
    else
      match cur with
      | none => groupRuns rest none acc
      | some c => groupRuns rest none (c.reverse :: acc)

/-- remove interior vertices that are collinear cut points (not original vertices) -/
def dropCollinear (orig : Polyline) : Polyline → Polyline
  | a :: b :: c :: rest =>
    if !orig.contains b && orient a b c == 0 then dropCollinear orig (a :: c :: rest)
    else a :: dropCollinear orig (b :: c :: rest)
  | l => l
termination_by l => l.length

def clipLine (l : Polyline) (polys : List Polygon) : List Polyline :=
  (groupRuns (subSegs l polys) none []).map (dropCollinear l) |>.filter (fun pc => pc.length ≥ 2)

/-- squared lengths of the segments of a polyline (exact; lengths themselves need sqrt) -/
def segLens2 (l : Polyline) : List Rat := (segs l).map fun (a, b) => Pt.dist2 a b

/-- integer square root bracket: `⌊√(q·s²)⌋/s ≤ √q` for a scale `s` (harness takes the float sqrt;
this bracket is only used for tolerant length comparison) -/
def sqrtLower (q : Rat) (scale : Nat) : Rat :=
  let n := (q * (scale * scale : Nat)).floor.toNat
  (Nat.sqrt n : Rat) / (scale : Rat)
