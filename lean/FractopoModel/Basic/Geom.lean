/-!
# L1 — exact rational plane geometry (import-free, executable)

Every double the implementation sees is an exact dyadic rational; the harness sends
those rationals, so the functions below compute the *true* geometric facts about the
very numbers GEOS works on.  Distances are kept squared (`d < t` is `d² < t²`).
These are definitions (the oracle), not proved against point-set topology.
-/

structure Pt where
  x : Rat
  y : Rat
deriving DecidableEq, Repr, BEq, Hashable, Inhabited

namespace Pt
def sub (a b : Pt) : Pt := ⟨a.x - b.x, a.y - b.y⟩
def add (a b : Pt) : Pt := ⟨a.x + b.x, a.y + b.y⟩
def smul (k : Rat) (a : Pt) : Pt := ⟨k * a.x, k * a.y⟩
def cross (a b : Pt) : Rat := a.x * b.y - a.y * b.x
def dot (a b : Pt) : Rat := a.x * b.x + a.y * b.y
def dist2 (a b : Pt) : Rat := let d := sub a b; dot d d
/-- point `a + t (b - a)` -/
def lerp (a b : Pt) (t : Rat) : Pt := ⟨a.x + t * (b.x - a.x), a.y + t * (b.y - a.y)⟩
end Pt

/-- twice the signed area of triangle abc -/
def orient (a b c : Pt) : Rat := Pt.cross (b.sub a) (c.sub a)

def onSeg (p a b : Pt) : Bool :=
  orient a b p == 0 && min a.x b.x ≤ p.x && p.x ≤ max a.x b.x && min a.y b.y ≤ p.y && p.y ≤ max a.y b.y

/-- parameter in [0,1] of the point of segment ab closest to p -/
def closestParam (p a b : Pt) : Rat :=
  let ab := b.sub a
  let l2 := Pt.dot ab ab
  if l2 == 0 then 0 else max 0 (min 1 (Pt.dot (p.sub a) ab / l2))

/-- squared distance point–segment, exact -/
def ptSegDist2 (p a b : Pt) : Rat := Pt.dist2 p (Pt.lerp a b (closestParam p a b))

inductive SegI where
  | none
  | point (p : Pt) (t u : Rat)   -- t along ab, u along cd
  | overlap (p q : Pt)           -- collinear overlap of positive length from p to q
deriving Repr, Inhabited

/-- intersection of the closed segments ab and cd (both of positive length) -/
def segInter (a b c d : Pt) : SegI :=
  let r := b.sub a
  let s := d.sub c
  let rxs := Pt.cross r s
  let qp := c.sub a
  if rxs == 0 then
    if Pt.cross qp r != 0 then .none
    else
      let rr := Pt.dot r r
      let ss := Pt.dot s s
      if rr == 0 then (if onSeg a c d then .point a 0 (if ss == 0 then 0 else Pt.dot (a.sub c) s / ss) else .none) else
      let t0 := Pt.dot qp r / rr
      let t1 := t0 + Pt.dot s r / rr
      let lo := max 0 (min t0 t1)
      let hi := min 1 (max t0 t1)
      if lo > hi then .none
      else if lo == hi then
        let p := Pt.lerp a b lo
        .point p lo (if ss == 0 then 0 else Pt.dot (p.sub c) s / ss)
      else .overlap (Pt.lerp a b lo) (Pt.lerp a b hi)
  else
    let t := Pt.cross qp s / rxs
    let u := Pt.cross qp r / rxs
    if 0 ≤ t && t ≤ 1 && 0 ≤ u && u ≤ 1 then .point (Pt.lerp a b t) t u else .none

def segSegDist2 (a b c d : Pt) : Rat :=
  match segInter a b c d with
  | .none => min (min (ptSegDist2 a c d) (ptSegDist2 b c d)) (min (ptSegDist2 c a b) (ptSegDist2 d a b))
  | _ => 0

abbrev Polyline := List Pt

def segs (l : Polyline) : List (Pt × Pt) := l.zip l.tail

def minList (l : List Rat) (dflt : Rat) : Rat :=
  match l with
  | [] => dflt
  | x :: xs => xs.foldl min x

/-- squared distance from a point to a polyline (a one-vertex polyline is a point) -/
def ptLineDist2 (p : Pt) (l : Polyline) : Option Rat :=
  match l with
  | [] => none
  | [a] => some (Pt.dist2 p a)
  | _ => some (minList ((segs l).map fun (a, b) => ptSegDist2 p a b) 0)

def lineLineDist2 (l m : Polyline) : Option Rat :=
  match (segs l), (segs m) with
  | [], _ => none
  | _, [] => none
  | sl, sm => some (minList (sl.flatMap fun (a, b) => sm.map fun (c, d) => segSegDist2 a b c d) 0)

/-- a closed ring: first vertex repeated at the end (shapely `exterior.coords`) -/
abbrev Ring := List Pt

structure Polygon where
  ext : Ring
  holes : List Ring
deriving Repr, Inhabited

/-- a target area frame: list of polygons (multi-polygons flattened by the harness, one
entry of the outer list per *row*) -/
abbrev AreaRow := List Polygon

def Polygon.rings (p : Polygon) : List Ring := p.ext :: p.holes

/-- even–odd rule; the point must not lie on the ring -/
def inRing (p : Pt) (r : Ring) : Bool :=
  (segs r).foldl (fun c (ab : Pt × Pt) =>
    let a := ab.1; let b := ab.2
    if (decide (a.y > p.y)) != (decide (b.y > p.y)) then
      let xi := a.x + (p.y - a.y) * (b.x - a.x) / (b.y - a.y)
      if xi > p.x then !c else c
    else c) false

def onRing (p : Pt) (r : Ring) : Bool := (segs r).any fun (a, b) => onSeg p a b

def Polygon.onBoundary (pg : Polygon) (p : Pt) : Bool := pg.rings.any (onRing p)

/-- strictly inside the polygon (not on its boundary) -/
def Polygon.containsStrict (pg : Polygon) (p : Pt) : Bool :=
  !pg.onBoundary p && inRing p pg.ext && pg.holes.all (fun h => !inRing p h)

/-- squared distance from p to the boundary (all rings) of a polygon -/
def Polygon.boundaryDist2 (pg : Polygon) (p : Pt) : Rat :=
  minList (pg.rings.flatMap fun r => (segs r).map fun (a, b) => ptSegDist2 p a b) 0

/-- squared distance from p to the boundary of an area row (`area.boundary` of a
(Multi)Polygon is the union of the rings of its parts) -/
def AreaRow.boundaryDist2 (ar : AreaRow) (p : Pt) : Rat :=
  minList (ar.map fun pg => pg.boundaryDist2 p) 0

structure Box where
  minx : Rat
  miny : Rat
  maxx : Rat
  maxy : Rat
deriving Repr, DecidableEq, Inhabited

def Box.ofPts : List Pt → Option Box
  | [] => none
  | p :: ps => some (ps.foldl (fun b q => ⟨min b.minx q.x, min b.miny q.y, max b.maxx q.x, max b.maxy q.y⟩) ⟨p.x, p.y, p.x, p.y⟩)

def Box.meets (a b : Box) : Bool :=
  a.minx ≤ b.maxx && b.minx ≤ a.maxx && a.miny ≤ b.maxy && b.miny ≤ a.maxy

def Box.expand (b : Box) (m : Rat) : Box := ⟨b.minx - m, b.miny - m, b.maxx + m, b.maxy + m⟩
