import FractopoModel.Basic.Wire
import FractopoModel.Basic.Clip
import FractopoModel.Generated.BranchesAndNodes
import FractopoModel.Generated.NodeIdentity
import FractopoModel.Generated.BranchIdentities
import FractopoModel.Lemmas.SnapStage
/-!
# The REGENERATED `branches_and_nodes` assembled end to end (used by the translator-validation drivers gen_c01 / gen_c06)

`Gen.branches_and_nodes` (orchestration) with the regenerated `snap_traces` (and everything below it), the regenerated node-table
and branch-label loops as its stages; cropping (`clipLine`), noding (split every trace at its exact contact points with the
others) and lengths (float square roots, used only against the 2.01 t / 1.01 t minima) are the exact-geometry stand-ins for
GEOS.  Output format = the model driver's `arr`.  Not used by any theorem.
-/
open Wire
namespace Exec

def toFloat (q : Rat) : Float := Float.ofInt q.num / Float.ofNat q.den

/-- length of a polyline as a rational with 1e-9 resolution (float square roots) -/
def lenApprox (l : Polyline) : Rat :=
  let f := ((segs l).map fun (a, b) => Float.sqrt (toFloat (Pt.dist2 a b))).foldl (· + ·) 0
  ((f * 1e9).floor.toUInt64.toNat : Rat) / 1000000000

/-- parameter of `p` along segment `(a, b)` (for ordering the cut points of one segment) -/
def paramOn (a b p : Pt) : Rat := let d := b.sub a; Pt.dot (p.sub a) d / Pt.dot d d

/-- split a polyline at the given points lying on it -/
def splitAt (l : Polyline) (cuts : List Pt) : List Polyline :=
  let step := fun (st : List Polyline × Polyline) (sg : Pt × Pt) =>
    let (done, cur) := st
    let (a, b) := sg
    let here := ((cuts.filter fun p => onSeg p a b && p != a && p != b).eraseDups.map fun p => (paramOn a b p, p))
    let sorted := here.foldl (fun acc x => (acc.filter fun y => y.1 < x.1) ++ [x] ++ (acc.filter fun y => !(y.1 < x.1))) []
    let (done, cur) := sorted.foldl (fun (st : List Polyline × Polyline) x => (st.1 ++ [st.2 ++ [x.2]], [x.2])) (done, cur)
    -- the segment's end: close the piece here when the vertex itself is a cut point
    if cuts.contains b then (done ++ [cur ++ [b]], [b]) else (done, cur ++ [b])
  match l with
  | [] => []
  | p0 :: _ =>
    let (done, cur) := (segs l).foldl step ([], [p0])
    (if cur.length ≥ 2 then done ++ [cur] else done)

/-- exact noding: every trace split at its isolated contact points with the other traces -/
def noding (traces : List Polyline) : List Polyline :=
  (traces.zipIdx.flatMap fun (l, i) =>
    let cuts := (traces.zipIdx.flatMap fun (m, j) => if i == j then [] else (SnapL.interPts l m).getD [])
    splitAt l cuts).eraseDups

/-- `gpipe t= areas= traces= clipped=0|1 allowed=` -/
def gpipe (a : Args) : Option String := do
  let t ← (a.get? "t") >>= parseRat?
  let areas ← (a.get? "areas") >>= parseArea?
  let traces ← (a.get? "traces") >>= parseLines?
  let clipped := ((a.get? "clipped") >>= parseBool?).getD false
  let allowed := ((a.get? "allowed") >>= parseNat?).getD 10
  let rows := areas.filter fun r => !r.isEmpty
  let t2 := t * t
  let endsOf : List Polyline → List Pt := fun bs => bs.flatMap fun b => [b.headD default, b.getLastD default]
  let nodeTable : List Polyline → List AreaRow → Rat → List Pt × List String := fun bs rws _ =>
    let ends := endsOf bs
    Gen.node_identities_from_branches (fun p row => AreaRow.boundaryDist2 row p) (fun p q => Pt.dist2 p q)
      (fun p => (ends.zipIdx.filter fun x => x.1 == p).map (·.2)) id (default : Pt) ends rws t2
  let branchLabels : List Polyline → List Pt → List String → Rat → List String := fun bs nodes ids _ =>
    Gen.get_branch_identities (fun (_ : Polyline) => List.range nodes.length)
      (fun n (b : Polyline) => min (Pt.dist2 n (b.headD default)) (Pt.dist2 n (b.getLastD default))) bs (fun i => nodes.getD i default) ids t2
  let r := Gen.branches_and_nodes (fun (x : List Polyline) => x.eraseDups) (fun (row : AreaRow) => row) (fun _ => true)
    (fun trs rws => trs.flatMap fun l => clipLine l (rws.flatMap id))
    (fun tr thr polys => Gen.snap_traces SnapStageL.boundsE (SnapStageL.indexE .asc) SnapStageL.simpleSnapG SnapL.ends (SnapStageL.bdistC thr) (SnapStageL.distC thr)
      (fun ep l => SnapL.onLine ep l) (fun l ep th => Snap.insertGeo l ep th) tr thr (some polys))
    lenApprox noding (fun u => u.length != 1) (fun u => u.length == 1) id nodeTable branchLabels traces rows t allowed clipped (allowed + 2)
  some (match r with
    | .error e => s!"err={e}"
    | .ok (brs, nds) =>
      let nodeStr := ";".intercalate (nds.map fun (p, c) => s!"{showPt p}:{c}")
      let brStr := ";".intercalate (brs.map fun (b, lab) => s!"{enc lab}:{showPt (b.headD default)}:{showPt (b.getLastD default)}")
      s!"nodes={nodeStr} branches={brStr}")


end Exec
