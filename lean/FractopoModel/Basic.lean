def hello := "world"
