import FractopoModel.Spec.Defects
import FractopoModel.Generated.JunctionShift
import FractopoModel.Generated.ValidatorTable
import FractopoModel.Spec.Validators
/-!
# C02 — validation verdicts on crisp configurations

The documented defects are specified exactly in `Spec/Defects.lean` (per trace: the set of
strings it must be reported with); the implementation's verdicts are tied to that specification by
stream S02 (ALL lattice pairs; lattice triples; larger lattice polyline configurations).
What is proved here is the index arithmetic junction detection relies on: after the current
trace's own block of points has been removed from the flattened point list, the regenerated shift
addresses exactly the same point (this was defect F13).
-/
namespace C02
variable {α : Type}

/-- the flattened list with the block `[s, s+c)` of the current trace removed -/
def eraseBlock (l : List α) (s c : Nat) : List α := l.take s ++ l.drop (s + c)

/-- **Shift correctness.** For every flattened list, every block `[s, s+c)` inside it and every
candidate position `v` outside the block, the regenerated `junction_shift` gives the position of
the same element in the list with the block removed. -/
theorem C02_shift_correct (l : List α) (s c v : Nat) (hs : s + c ≤ l.length) (hout : v < s ∨ s + c ≤ v) :
    (eraseBlock l s c)[(Gen.junction_shift v s c).toNat]? = l[v]? := by
  unfold eraseBlock Gen.junction_shift
  rcases hout with h | h
  · have h' : ((v : Int) < (s : Int)) := by exact_mod_cast h
    have : s ≤ l.length := by omega
    simp [h', h, List.getElem?_append, List.length_take, Nat.min_eq_left this, List.getElem?_take]
  · have h1 : ¬ ((v : Int) < (s : Int)) := by
      intro hc; have : v < s := by exact_mod_cast hc
      omega
    have : s ≤ l.length := by omega
    have hn : ((v : Int) - (c : Int)).toNat = v - c := by omega
    simp only [h1, decide_false, Bool.false_eq_true, if_false, hn, List.getElem?_append, List.length_take, Nat.min_eq_left this]
    have h2 : ¬ v - c < s := by omega
    simp only [h2, if_false, List.getElem?_drop]
    congr 1; omega

/-- the shift never leaves the shortened list: positions stay in range -/
theorem C02_shift_in_range (n s c v : Nat) (hs : s + c ≤ n) (hv : v < n) (hout : v < s ∨ s + c ≤ v) :
    (Gen.junction_shift v s c).toNat < n - c := by
  unfold Gen.junction_shift
  rcases hout with h | h
  · have h' : ((v : Int) < (s : Int)) := by exact_mod_cast h
    simp only [h', decide_true, if_true]; omega
  · have h1 : ¬ ((v : Int) < (s : Int)) := by
      intro hc; have : v < s := by exact_mod_cast hc
      omega
    simp only [h1, decide_false, Bool.false_eq_true, if_false]; omega

/-- the distance test uses threshold × error multiplier, and the candidate window is ten times that -/
theorem C02_junction_thresholds (t m : Rat) :
    Gen.junction_distance t m = t * m ∧ Gen.junction_window_margin t m = 10 * (t * m) := by
  unfold Gen.junction_distance Gen.junction_window_margin; constructor <;> grind

/-- a trace that takes part in no defect -- it does not cut itself and has neither an overlap, a
shared end nor any point contact pattern with another trace -- is expected to get the empty tuple -/
theorem C02_spec_no_defect (traces : List Polyline) (i : Nat) (l : Polyline) (hl : traces[i]? = some l)
    (h1 : Defects.cutsItself l = false)
    (h2 : ∀ m ∈ (traces.zipIdx.filter fun (x : Polyline × Nat) => x.2 != i).map (·.1),
      Defects.overlaps l m = false ∧ Defects.sharedEnd l m = false ∧ Defects.pointContacts l m = []) :
    Defects.defectsOf traces i = [] := by
  unfold Defects.defectsOf
  simp only [hl, h1]
  have e1 : ((traces.zipIdx.filter fun (x : Polyline × Nat) => x.2 != i).map (·.1)).any (fun m => Defects.overlaps l m) = false :=
    List.any_eq_false.mpr fun m hm => by simp [(h2 m hm).1]
  have e2 : ((traces.zipIdx.filter fun (x : Polyline × Nat) => x.2 != i).map (·.1)).any (fun m => !Defects.overlaps l m && Defects.sharedEnd l m) = false :=
    List.any_eq_false.mpr fun m hm => by simp [(h2 m hm).2.1]
  have e3 : ((traces.zipIdx.filter fun (x : Polyline × Nat) => x.2 != i).map (·.1)).any (fun m => !Defects.overlaps l m && decide ((Defects.pointContacts l m).length > 2)) = false :=
    List.any_eq_false.mpr fun m hm => by simp [(h2 m hm).2.2]
  have e4 : (((traces.zipIdx.filter fun (x : Polyline × Nat) => x.2 != i).map (·.1)).flatMap fun m => if Defects.overlaps l m then [] else Defects.pointContacts l m) = [] := by
    apply List.flatMap_eq_nil_iff.mpr
    intro m hm; simp [(h2 m hm).2.2]
  simp only [e1, e2, e3, e4]
  simp

example : Gen.junction_shift 5 2 2 = 3 ∧ Gen.junction_shift 1 2 2 = 1 := by decide

end C02
