import FractopoModel.Generated.ValidatorMethods
import FractopoModel.Spec.Defects
import FractopoModel.Generated.JunctionShift
import FractopoModel.Generated.ValidatorTable
import FractopoModel.Spec.Validators
import FractopoModel.Lemmas.NodeJunctions
import FractopoModel.Lemmas.IntersectionFilter
import FractopoModel.Generated.GeneralNodes
import FractopoModel.Generated.ValidationCaches
/-!
# C02 — validation verdicts on crisp configurations

The documented defects are specified exactly in `Spec/Defects.lean` (per trace: the set of
strings it must be reported with); the implementation's verdicts are tied to that specification by
stream S02 (ALL lattice pairs; lattice triples; larger lattice polyline configurations).
What is proved here is the index arithmetic junction detection relies on: after the current
trace's own block of points has been removed from the flattened point list, the regenerated shift
addresses exactly the same point (this was defect F13).
-/
namespace C02
variable {α : Type}

/-- the flattened list with the block `[s, s+c)` of the current trace removed -/
def eraseBlock (l : List α) (s c : Nat) : List α := l.take s ++ l.drop (s + c)

/-- **Shift correctness.** For every flattened list, every block `[s, s+c)` inside it and every
candidate position `v` outside the block, the regenerated `junction_shift` gives the position of
the same element in the list with the block removed. -/
theorem C02_shift_correct (l : List α) (s c v : Nat) (hs : s + c ≤ l.length) (hout : v < s ∨ s + c ≤ v) :
    (eraseBlock l s c)[(Gen.junction_shift v s c).toNat]? = l[v]? := by
  unfold eraseBlock Gen.junction_shift
  rcases hout with h | h
  · have h' : ((v : Int) < (s : Int)) := by exact_mod_cast h
    have : s ≤ l.length := by omega
    simp [h', h, List.getElem?_append, List.length_take, Nat.min_eq_left this, List.getElem?_take]
  · have h1 : ¬ ((v : Int) < (s : Int)) := by
      intro hc; have : v < s := by exact_mod_cast hc
      omega
    have : s ≤ l.length := by omega
    have hn : ((v : Int) - (c : Int)).toNat = v - c := by omega
    simp only [h1, decide_false, Bool.false_eq_true, if_false, hn, List.getElem?_append, List.length_take, Nat.min_eq_left this]
    have h2 : ¬ v - c < s := by omega
    simp only [h2, if_false, List.getElem?_drop]
    congr 1; omega

/-- the shift never leaves the shortened list: positions stay in range -/
theorem C02_shift_in_range (n s c v : Nat) (hs : s + c ≤ n) (hv : v < n) (hout : v < s ∨ s + c ≤ v) :
    (Gen.junction_shift v s c).toNat < n - c := by
  unfold Gen.junction_shift
  rcases hout with h | h
  · have h' : ((v : Int) < (s : Int)) := by exact_mod_cast h
    simp only [h', decide_true, if_true]; omega
  · have h1 : ¬ ((v : Int) < (s : Int)) := by
      intro hc; have : v < s := by exact_mod_cast hc
      omega
    simp only [h1, decide_false, Bool.false_eq_true, if_false]; omega

/-- the distance test uses threshold × error multiplier, and the candidate window is ten times that -/
theorem C02_junction_thresholds (t m : Rat) :
    Gen.junction_distance t m = t * m ∧ Gen.junction_window_margin t m = 10 * (t * m) := by
  unfold Gen.junction_distance Gen.junction_window_margin; constructor <;> grind

/-- a trace that takes part in no defect -- it does not cut itself and has neither an overlap, a
shared end nor any point contact pattern with another trace -- is expected to get the empty tuple -/
theorem C02_spec_no_defect (traces : List Polyline) (i : Nat) (l : Polyline) (hl : traces[i]? = some l)
    (h1 : Defects.cutsItself l = false)
    (h2 : ∀ m ∈ (traces.zipIdx.filter fun (x : Polyline × Nat) => x.2 != i).map (·.1),
      Defects.overlaps l m = false ∧ Defects.sharedEnd l m = false ∧ Defects.pointContacts l m = []) :
    Defects.defectsOf traces i = [] := by
  unfold Defects.defectsOf
  simp only [hl, h1]
  have e1 : ((traces.zipIdx.filter fun (x : Polyline × Nat) => x.2 != i).map (·.1)).any (fun m => Defects.overlaps l m) = false :=
    List.any_eq_false.mpr fun m hm => by simp [(h2 m hm).1]
  have e2 : ((traces.zipIdx.filter fun (x : Polyline × Nat) => x.2 != i).map (·.1)).any (fun m => !Defects.overlaps l m && Defects.sharedEnd l m) = false :=
    List.any_eq_false.mpr fun m hm => by simp [(h2 m hm).2.1]
  have e3 : ((traces.zipIdx.filter fun (x : Polyline × Nat) => x.2 != i).map (·.1)).any (fun m => !Defects.overlaps l m && decide ((Defects.pointContacts l m).length > 2)) = false :=
    List.any_eq_false.mpr fun m hm => by simp [(h2 m hm).2.2]
  have e4 : (((traces.zipIdx.filter fun (x : Polyline × Nat) => x.2 != i).map (·.1)).flatMap fun m => if Defects.overlaps l m then [] else Defects.pointContacts l m) = [] := by
    apply List.flatMap_eq_nil_iff.mpr
    intro m hm; simp [(h2 m hm).2.2]
  simp only [e1, e2, e3, e4]
  simp

/-! ### junction marking as a whole (regenerated loops of `determine_node_junctions`) -/

/-- **V NODE / MULTI JUNCTION marking is the documented one.** The regenerated `determine_node_junctions` -- both loops, the removal
of the current trace's own block from the flattened point series, the index shift (the site of defect F13), `.iloc`, the distance
mask, the error threshold, the marking of the trace and of the owners of the close points -- marks trace `k` exactly when the
specification `Spec.junctionMarks` does: some point has at least `max threshold 1` points of OTHER traces strictly within
`t·m`, and `k` owns that point or one of those points. For every list of node tuples (any number of traces, empty tuples
included), any thresholds, any distance function; the spatial-index query only has to return duplicate-free positions that
include every position within `t·m` (`QueryLaw`), in any order, with any extras. -/
theorem C02_generated_junctions {P : Type} (query : P → Rat → List Nat) (dist : P → P → Rat) (nodes : List (List P)) (t m : Rat) (thr : Nat)
    (hq : NodeJunctions.QueryLaw query dist (NodeJunctions.flat nodes) (t * m) (t * m * 10)) (k : Nat) :
    k ∈ Gen.determine_node_junctions query dist nodes t m thr ↔
      k ∈ Spec.junctionMarks dist (NodeJunctions.ownersFrom 0 nodes) (NodeJunctions.flat nodes) (t * m) thr :=
  NodeJunctions.generated_eq_spec query dist nodes t m thr hq k

/-- V NODE is junction marking of the trace ENDS with threshold 1, MULTI JUNCTION of ALL nodes with threshold 2 (regenerated) -/
theorem C02_junction_callers : Gen.vnode_error_threshold = 1 ∧ Gen.junction_error_threshold = 2 := by decide

/-- a trace none of whose points has a point of another trace within `t·m` is not marked by its own points, and no point
fires at all when all traces are farther than `t·m` apart: nothing is marked (no false positive on crisp, separated maps) -/
theorem C02_no_marks_when_separated {P : Type} (dist : P → P → Rat) (o : List Nat) (f : List P) (d : Rat) (thr : Nat)
    (hsep : ∀ a b x y, f[a]? = some x → f[b]? = some y → o.getD b 0 ≠ o.getD a 0 → ¬ dist y x < d) :
    Spec.junctionMarks dist o f d thr = [] := by
  unfold Spec.junctionMarks
  rw [List.flatMap_eq_nil_iff]
  rintro ⟨pt, a⟩ hmem
  have ha : f[a]? = some pt := by simpa using List.mem_zipIdx_iff_getElem?.mp hmem
  have hnil : Spec.junctionHits dist o f d a pt = [] := by
    rw [List.eq_nil_iff_forall_not_mem]
    intro b hb
    obtain ⟨y, hy, hne, hd⟩ := (NodeJunctions.mem_hits dist o f d a pt b).mp hb
    exact hsep a b pt y ha hy hne hd
  simp [hnil]

/-- **Which intersection points count as intersections.** The regenerated `determine_valid_intersection_points_no_vnode` (four nested
loops, flags switched off in place) keeps an intersection point of the trace exactly when it is NOT close to an end of the trace
that coincides with an end of some candidate -- every such point is dropped, whatever the order of candidates, ends and points
and however many of them there are (a shared end is a V-node and is judged from the end points; a third trace through that
point still has its own intersection there). -/
theorem C02_generated_intersection_filter {L P : Type} (inter : List P) (ends_of : L → List P) (close : P → P → Bool) (cands : List L) (geom : L) :
    Gen.intersection_points_no_vnode inter ends_of close cands geom =
      inter.filter fun p => !((IntersectionFilter.activeEnds ends_of close cands geom).any fun ge => close ge p) :=
  IntersectionFilter.generated_eq_spec inter ends_of close cands geom

/-- the node tuples of one row: the intersection points that are not V-nodes (by `C02_generated_intersection_filter`) and the ends that are
not within the tolerance of such an intersection point; nothing for a row that is not a non-empty LineString -/
def rowNodes {G P : Type} (is_line is_ls : G → Bool) (bboxq : Nat → G → List Nat) (inter0 : List G → G → List P) (ends_of : G → List P)
    (close4 close3 : P → P → Bool) (geoms : List G) (gi : G × Nat) : List P × List P :=
  if !is_line gi.1 then ([], [])
  else
    let cands := (((bboxq gi.2 gi.1).erase gi.2).filterMap fun i => geoms[i]?).filter is_ls
    let inter := (inter0 cands gi.1).filter fun p => !((IntersectionFilter.activeEnds ends_of close4 cands gi.1).any fun ge => close4 ge p)
    (inter, (ends_of gi.1).filter fun e => !(inter.any fun ig => close3 e ig))

theorem general_nodes_loop_eq {G P : Type} (is_line is_ls : G → Bool) (bboxq : Nat → G → List Nat) (inter0 : List G → G → List P) (ends_of : G → List P)
    (close4 close3 : P → P → Bool) (geoms : List G) (l : List (G × Nat)) (a b : List (List P)) :
    Gen.general_nodes_loop1 is_line is_ls bboxq inter0 ends_of close4 close3 geoms () l a b =
      (a ++ l.map (fun gi => (rowNodes is_line is_ls bboxq inter0 ends_of close4 close3 geoms gi).1),
       b ++ l.map (fun gi => (rowNodes is_line is_ls bboxq inter0 ends_of close4 close3 geoms gi).2)) := by
  induction l generalizing a b with
  | nil => simp [Gen.general_nodes_loop1]
  | cons gi rest ih =>
    obtain ⟨g, i⟩ := gi
    rw [Gen.general_nodes_loop1]
    by_cases hl : is_line g = true
    · simp only [hl, Bool.not_true, Bool.false_eq_true, if_false, ih, C02_generated_intersection_filter]
      simp [rowNodes, hl]
    · have hl' : is_line g = false := by simpa using hl
      simp only [hl', Bool.not_false, if_true, ih]
      simp [rowNodes, hl']

/-- **One node-tuple pair per row, in row order, each computed from that row's own candidates.** The regenerated loop of
`determine_general_nodes` yields for every row exactly `rowNodes` -- a row that is not a non-empty LineString gets empty tuples and
does not disturb the positions of the others (the trace index = tuple index convention of junction marking relies on this) -/
theorem C02_generated_general_nodes {G P : Type} (is_line is_ls : G → Bool) (bboxq : Nat → G → List Nat) (inter0 : List G → G → List P) (ends_of : G → List P)
    (close4 close3 : P → P → Bool) (geoms : List G) :
    Gen.general_nodes is_line is_ls bboxq inter0 ends_of close4 close3 geoms =
      (geoms.zipIdx.map (fun gi => (rowNodes is_line is_ls bboxq inter0 ends_of close4 close3 geoms gi).1),
       geoms.zipIdx.map (fun gi => (rowNodes is_line is_ls bboxq inter0 ends_of close4 close3 geoms gi).2)) := by
  unfold Gen.general_nodes
  simp only [general_nodes_loop_eq]
  simp

/-- non-vacuity: the trace (ends 0, 9) shares end 0 with a candidate (ends 0, 5); of its intersection points 0, 0 and 4 both copies
of 0 are dropped -/
example : Gen.intersection_points_no_vnode [0, 0, 4] (fun (l : Nat × Nat) => [l.1, l.2]) (fun (a b : Nat) => a == b) [(0, 5), (7, 8)] (0, 9) = [4] := by
  decide

/-- non-vacuity: traces 0 and 1 share an end (distance 0), trace 2 is far: with threshold 1 the first two are marked -/
example :
    Gen.determine_node_junctions (fun (_ : Nat) _ => [0, 1, 2, 3, 4, 5]) (fun (p q : Nat) => if p = q then 0 else 5)
      [[10, 11], [11, 12], [20, 21]] (1 / 100) (11 / 10) 1 = [0, 1] := by decide +kernel

example : Gen.junction_shift 5 2 2 = 3 ∧ Gen.junction_shift 1 2 2 = 1 := by decide

/-- **MULTIPLE CROSSCUTS and CUTS ITSELF** (`MultipleCrosscutValidator.validation_method`, `SimpleGeometryValidator.validation_method`,
regenerated): a trace is reported MULTIPLE CROSSCUTS iff some candidate meets it at all and some candidate's intersection with it is a
MultiPoint of more than two points; CUTS ITSELF iff it is not simple or is a ring. -/
theorem C02_generated_crosscut {L : Type} (meets : L → L → Bool) (ip : L → L → Option Nat) (geom : L) (cands : List L) (simple ring : Bool) :
    Gen.crosscut_validation meets ip geom cands =
      (!(cands.any fun tc => meets tc geom) || !(cands.any fun tc => match ip tc geom with | some n => decide (n > 2) | none => false)) ∧
    Gen.simple_geometry_validation simple ring = (simple && !ring) := by
  constructor
  · unfold Gen.crosscut_validation
    simp only [List.any_map, Function.comp_def]
    cases cands.any (fun tc => meets tc geom)
    · simp
    · simp only [Bool.not_true, Bool.false_eq_true, if_false, Bool.false_or]
      congr 2
  · rfl

/-! ### the per-object node caches (regenerated from their checked shape) -/

section Caches
open Gen
variable {T GN NS : Type}

/-- `k` consecutive `_validate` calls of one pass -/
def accesses (gen : T → GN) (vn fj : GN → NS) (flag : Bool) (traces : T) : Nat → ValCaches GN NS → List (Option NS × Option NS) × ValCaches GN NS
  | 0, c => ([], c)
  | k + 1, c => let (r, c) := val_access gen vn fj flag traces c; let (rs, c) := accesses gen vn fj flag traces k c; (r :: rs, c)

theorem cache_flags : val_flag requires_nodes (major_validators.map (·.1)) = false ∧ val_flag requires_nodes (all_validators.map (·.1)) = true := by decide

theorem access_off (gen : T → GN) (vn fj : GN → NS) (traces : T) (c : ValCaches GN NS) (hv : c.vnodes = none) (hj : c.junctions = none) :
    val_access gen vn fj false traces c = ((none, none), c) := by
  unfold val_access val_vnodes val_junctions
  simp [hv, hj]

theorem accesses_off (gen : T → GN) (vn fj : GN → NS) (traces : T) (k : Nat) (c : ValCaches GN NS) (hv : c.vnodes = none) (hj : c.junctions = none) :
    accesses gen vn fj false traces k c = (List.replicate k (none, none), c) := by
  induction k with
  | zero => rfl
  | succ k ih => simp [accesses, access_off gen vn fj traces c hv hj, ih, List.replicate_succ]

theorem access_on_fresh (gen : T → GN) (vn fj : GN → NS) (traces : T) :
    val_access gen vn fj true traces ({} : ValCaches GN NS) =
      ((some (vn (gen traces)), some (fj (gen traces))), { general := some (gen traces), vnodes := some (vn (gen traces)), junctions := some (fj (gen traces)) }) := by
  unfold val_access val_vnodes val_junctions val_general
  simp

theorem access_filled (gen : T → GN) (vn fj : GN → NS) (flag : Bool) (traces : T) (c : ValCaches GN NS) (v j : NS) (hv : c.vnodes = some v) (hj : c.junctions = some j) :
    val_access gen vn fj flag traces c = ((some v, some j), c) := by
  unfold val_access val_vnodes val_junctions
  simp [hv, hj]

theorem accesses_filled (gen : T → GN) (vn fj : GN → NS) (flag : Bool) (traces : T) (k : Nat) (c : ValCaches GN NS) (v j : NS) (hv : c.vnodes = some v) (hj : c.junctions = some j) :
    accesses gen vn fj flag traces k c = (List.replicate k (some v, some j), c) := by
  induction k with
  | zero => rfl
  | succ k ih => simp [accesses, access_filled gen vn fj flag traces c v j hv hj, ih, List.replicate_succ]

/-- **V NODE and MULTI JUNCTION are judged on the fixed traces** (after the repair of F26). The sets `vnodes` / `faulty_junctions` that `_validate` hands to the two node
validators are, in every call of the second pass, those computed from the frame AFTER the first pass fixed what it could (merged multi-part lines included) -- for the default
validators and for every chosen subset, whatever the first pass had cached. -/
theorem C02_node_sets_from_fixed_traces (gen : T → GN) (vn fj : GN → NS) (unfixed fixed : T) (k1 k2 : Nat) (flag1 flag2 : Bool) :
    let p1 := accesses gen vn fj flag1 unfixed k1 ({} : ValCaches GN NS)
    let p2 := accesses gen vn fj flag2 fixed k2 (val_between_passes p1.2)
    p2.1 = List.replicate k2 (if flag2 then (some (vn (gen fixed)), some (fj (gen fixed))) else (none, none)) := by
  simp only [val_between_passes]
  cases flag2
  · rw [accesses_off gen vn fj fixed k2 {} rfl rfl]; rfl
  · cases k2 with
    | zero => rfl
    | succ k =>
      simp only [accesses, access_on_fresh]
      rw [accesses_filled gen vn fj true fixed k _ _ _ rfl rfl]
      simp [List.replicate_succ]

/-- with the default validators the first pass (MAJOR validators: none needs nodes) computes nothing and the second (ALL validators) needs the node sets -/
theorem C02_node_sets_from_fixed_traces_default_flags : val_flag requires_nodes (major_validators.map (·.1)) = false ∧ val_flag requires_nodes (all_validators.map (·.1)) = true := cache_flags

/-- non-vacuity: the sets the second pass sees are those of the FIXED frame (frames are numbers, "nodes" their double, the sets ± 1) -/
example : (accesses (fun t : Nat => 2 * t) (· + 1) (· - 1) true 7 2 (val_between_passes (accesses (fun t : Nat => 2 * t) (· + 1) (· - 1) true 5 3 {}).2)).1 = [(some 15, some 13), (some 15, some 13)] := by decide

end Caches

end C02
