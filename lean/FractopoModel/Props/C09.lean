import FractopoModel.Model.Validation
import FractopoModel.Spec.Validators
import FractopoModel.Generated.ValidatorTable
import FractopoModel.Generated.ValidateStep
import FractopoModel.Lemmas.CropHelpers
import FractopoModel.Generated.ZCoordinates
/-!
# C09 — validation only annotates

For every oracle (any behaviour of the individual validators), every frame, every option set.
Rows are identified by position: the model returns exactly one `(geometry, errors)` pair per
input row, in order (`C09_one_result_per_row`); labels and attribute cells are carried through
positionally by the code (`self.traces.copy()` + two column assignments), which stream S09
checks on the real frames.
-/
namespace C09
open Tval
variable {G : Type}

theorem passRows_length (O : Oracle G) (cfg : Cfg) (vs : List Validator) (frame : List G) (rows : List (G × Nat)) (glob : String) :
    (passRows O cfg vs frame rows glob).1.length = rows.length := by
  induction rows generalizing glob with
  | nil => rfl
  | cons r rest ih => obtain ⟨g, idx⟩ := r; simp [passRows, ih]

/-- one result per input row, in order -/
theorem C09_one_result_per_row (O : Oracle G) (cfg : Cfg) (a e : Bool) (frame : List G) (glob : String) (rows : List (G × List String))
    (h : (run O cfg a e frame glob).1 = .validated rows) : rows.length = frame.length := by
  unfold run at h
  split at h
  · cases h
  · split at h
    · cases h
    · simp only [Outcome.validated.injEq] at h
      subst h
      simp [pass, passRows_length, List.length_zipIdx]

/-- **The empty-target-area exit** (the documented exception to the normal procedure): taken exactly when the
frame has rows, `allow_empty_area` is false and no trace meets the area; then every row keeps its geometry and
carries exactly the empty-area error, one result per row, the class attribute untouched. -/
theorem C09_empty_area (O : Oracle G) (cfg : Cfg) (a e : Bool) (frame : List G) (glob : String) :
    ((∃ rows, (run O cfg a e frame glob).1 = .emptyArea rows) ↔ (frame ≠ [] ∧ a = false ∧ e = true)) ∧
    (∀ rows, (run O cfg a e frame glob).1 = .emptyArea rows →
      rows = frame.map (fun g => (g, [cfg.emptyAreaError])) ∧ (run O cfg a e frame glob).2 = glob) := by
  unfold run
  cases hf : frame.isEmpty
  · have hne : frame ≠ [] := by intro h; simp [h] at hf
    cases a <;> cases e <;> simp [hne]
  · have : frame = [] := by simpa using hf
    simp [this]

/-! ### error tuples: duplicate-free and documented -/

/-- the strings a configuration can report: the static `ERROR`s of its validators and whatever a
dynamic validator writes -/
def Documented (O : Oracle G) (vs : List Validator) (err : String) : Prop :=
  (∃ v ∈ vs, v.dynamic = false ∧ err = v.staticError) ∨ (∃ v ∈ vs, ∃ fr g i, err = O.dynErr v fr g i)

structure Inv (O : Oracle G) (vs : List Validator) (s : RowSt G) : Prop where
  nodup : s.errs.Nodup
  doc : ∀ e ∈ s.errs, Documented O vs e

theorem errRead_documented (O : Oracle G) (frame : List G) (idx : Nat) (vs : List Validator) (v : Validator) (hv : v ∈ vs)
    (s : RowSt G) (hfail : O.valid v frame s.geom idx = false) : Documented O vs (errRead O frame idx v s) := by
  unfold errRead globAfter
  cases hd : v.dynamic
  · exact .inl ⟨v, hv, hd, by simp⟩
  · simp only [hfail, Bool.not_false, Bool.and_self, if_true]
    exact .inr ⟨v, hv, frame, s.geom, idx, rfl⟩

theorem applyFail_inv (O : Oracle G) (cfg : Cfg) (vs : List Validator) (v : Validator) (s : RowSt G) (glob' err : String)
    (h : Inv O vs s) (hnew : err ∉ s.errs) (hdoc : Documented O vs err) : Inv O vs (applyFail O cfg v s glob' err) := by
  have hnd : (s.errs ++ [err]).Nodup := by
    rw [List.nodup_append]
    exact ⟨h.nodup, by simp, by intro a ha b hb; simp at hb; subst hb; exact fun hab => hnew (hab ▸ ha)⟩
  have hall : ∀ e ∈ s.errs ++ [err], Documented O vs e := by
    intro e he
    rcases List.mem_append.mp he with h1 | h1
    · exact h.doc e h1
    · simp at h1; subst h1; exact hdoc
  unfold applyFail
  split
  · exact ⟨hnd.erase _, fun e he => hall e (List.mem_of_mem_erase he)⟩
  · exact ⟨hnd, hall⟩

theorem validateOne_inv (O : Oracle G) (cfg : Cfg) (frame : List G) (idx : Nat) (vs : List Validator) (v : Validator) (hv : v ∈ vs)
    (s : RowSt G) (h : Inv O vs s) : Inv O vs (validateOne O cfg frame idx v s) := by
  unfold validateOne
  by_cases h1 : (v.lsOnly && !(O.kind s.geom).gatePass) = true
  · simp only [h1, if_true]; exact ⟨h.nodup, h.doc⟩
  · simp only [h1, Bool.false_eq_true, if_false]
    by_cases h2 : (!O.valid v frame s.geom idx && !s.errs.contains (errRead O frame idx v s)) = true
    · simp only [h2, if_true]
      simp only [Bool.and_eq_true, Bool.not_eq_true'] at h2
      have hnew : errRead O frame idx v s ∉ s.errs := by have := h2.2; simpa using this
      exact applyFail_inv O cfg vs v s _ _ h hnew (errRead_documented O frame idx vs v hv s h2.1)
    · simp only [h2, Bool.false_eq_true, if_false]; exact ⟨h.nodup, h.doc⟩

theorem validateRow_inv (O : Oracle G) (cfg : Cfg) (frame : List G) (idx : Nat) (all vs : List Validator) (hsub : ∀ v ∈ vs, v ∈ all)
    (s : RowSt G) (h : Inv O all s) : Inv O all (validateRow O cfg frame idx vs s) := by
  induction vs generalizing s with
  | nil => exact h
  | cons v vs ih =>
    simp only [validateRow]
    split
    · exact h
    · exact ih (fun w hw => hsub w (List.mem_cons_of_mem _ hw)) _ (validateOne_inv O cfg frame idx all v (hsub v (by simp)) s h)

theorem passRows_inv (O : Oracle G) (cfg : Cfg) (vs : List Validator) (frame : List G) (rows : List (G × Nat)) (glob : String) :
    ∀ r ∈ (passRows O cfg vs frame rows glob).1, r.2.Nodup ∧ ∀ e ∈ r.2, Documented O vs e := by
  induction rows generalizing glob with
  | nil => intro r hr; simp [passRows] at hr
  | cons row rest ih =>
    obtain ⟨g, idx⟩ := row
    intro r hr
    simp only [passRows, List.mem_cons] at hr
    rcases hr with rfl | hr
    · have := validateRow_inv O cfg frame idx vs vs (fun _ h => h) ⟨g, [], false, glob⟩ ⟨by simp, by simp⟩
      exact ⟨this.nodup, this.doc⟩
    · exact ih _ r hr

/-- **Error tuples.** Every reported tuple is duplicate-free and consists only of the documented
strings of the validators that ran (static `ERROR`s, or what the dynamic validator wrote). -/
theorem C09_errors_documented (O : Oracle G) (cfg : Cfg) (a e : Bool) (frame : List G) (glob : String)
    (rows : List (G × List String)) (h : (run O cfg a e frame glob).1 = .validated rows) :
    ∀ r ∈ rows, r.2.Nodup ∧ ∀ err ∈ r.2, Documented O (cfg.chosen.getD cfg.all) err := by
  unfold run at h
  split at h
  · cases h
  · split at h
    · cases h
    · simp only [Outcome.validated.injEq] at h
      subst h
      exact passRows_inv O cfg _ _ _ _

/-! ### geometry -/

/-- geometry relation of one step: unchanged, or replaced by what `fix_method` returned with fixing allowed -/
inductive FixedFrom (O : Oracle G) (cfg : Cfg) : G → G → Prop where
  | refl (g : G) : FixedFrom O cfg g g
  | step (g g' g'' : G) (v : Validator) : FixedFrom O cfg g g' → cfg.allowFix = true → O.fix v g' = some g'' → FixedFrom O cfg g g''

theorem validateOne_geom (O : Oracle G) (cfg : Cfg) (frame : List G) (idx : Nat) (v : Validator) (s : RowSt G) (g0 : G)
    (h : FixedFrom O cfg g0 s.geom) : FixedFrom O cfg g0 (validateOne O cfg frame idx v s).geom := by
  unfold validateOne
  by_cases h1 : (v.lsOnly && !(O.kind s.geom).gatePass) = true
  · simp only [h1, if_true]; exact h
  · simp only [h1, Bool.false_eq_true, if_false]
    by_cases h2 : (!O.valid v frame s.geom idx && !s.errs.contains (errRead O frame idx v s)) = true
    · simp only [h2, if_true]
      unfold applyFail
      by_cases ha : cfg.allowFix = true
      · simp only [ha, if_true]
        cases hf : O.fix v s.geom with
        | none => exact h
        | some g => exact .step g0 s.geom g v h ha hf
      · simp only [ha, Bool.false_eq_true, if_false]; exact h
    · simp only [h2, Bool.false_eq_true, if_false]; exact h

theorem validateRow_geom (O : Oracle G) (cfg : Cfg) (frame : List G) (idx : Nat) (vs : List Validator) (s : RowSt G) (g0 : G)
    (h : FixedFrom O cfg g0 s.geom) : FixedFrom O cfg g0 (validateRow O cfg frame idx vs s).geom := by
  induction vs generalizing s with
  | nil => exact h
  | cons v vs ih =>
    simp only [validateRow]
    split
    · exact h
    · exact ih _ (validateOne_geom O cfg frame idx v s g0 h)

theorem fixedFrom_noFix (O : Oracle G) (cfg : Cfg) (hf : cfg.allowFix = false) (g g' : G) (h : FixedFrom O cfg g g') : g' = g := by
  induction h with
  | refl => rfl
  | step _ _ _ _ ha _ _ => simp [hf] at ha

theorem passRows_geom (O : Oracle G) (cfg : Cfg) (vs : List Validator) (frame : List G) (rows : List (G × Nat)) (glob : String) :
    ∀ p ∈ List.zip rows (passRows O cfg vs frame rows glob).1, FixedFrom O cfg p.1.1 p.2.1 := by
  induction rows generalizing glob with
  | nil => intro p hp; simp [passRows] at hp
  | cons row rest ih =>
    obtain ⟨g, idx⟩ := row
    intro p hp
    simp only [passRows, List.zip_cons_cons, List.mem_cons] at hp
    rcases hp with rfl | hp
    · exact validateRow_geom O cfg frame idx vs ⟨g, [], false, glob⟩ g (.refl g)
    · exact ih _ p hp

theorem passRows_noFix (O : Oracle G) (cfg : Cfg) (hf : cfg.allowFix = false) (vs : List Validator) (frame : List G) (rows : List (G × Nat)) (glob : String) :
    (passRows O cfg vs frame rows glob).1.map (·.1) = rows.map (·.1) := by
  induction rows generalizing glob with
  | nil => rfl
  | cons row rest ih =>
    obtain ⟨g, idx⟩ := row
    simp only [passRows, List.map_cons, ih]
    rw [fixedFrom_noFix O cfg hf _ _ (validateRow_geom O cfg frame idx vs ⟨g, [], false, glob⟩ g (.refl g))]

/-- **With fixing disallowed no geometry changes.** -/
theorem C09_no_fix_no_change (O : Oracle G) (cfg : Cfg) (hf : cfg.allowFix = false) (a e : Bool) (frame : List G) (glob : String)
    (rows : List (G × List String)) (h : (run O cfg a e frame glob).1 = .validated rows) : rows.map (·.1) = frame := by
  have hz : ∀ l : List G, l.zipIdx.map (·.1) = l := by
    intro l; simp [List.zipIdx_map_fst]
  unfold run at h
  split at h
  · cases h
  · split at h
    · cases h
    · simp only [Outcome.validated.injEq] at h
      subst h
      simp only [pass]
      rw [passRows_noFix O cfg hf, hz, passRows_noFix O cfg hf, hz]

/-- **Geometries are returned unchanged or as the result of `fix_method`** (with fixing allowed):
row by row, the output geometry is reachable from the input geometry by fix steps only. -/
theorem C09_geometry (O : Oracle G) (cfg : Cfg) (vs : List Validator) (frame : List G) (glob : String) :
    ∀ p ∈ List.zip frame.zipIdx (pass O cfg vs frame glob).1, FixedFrom O cfg p.1.1 p.2.1 :=
  passRows_geom O cfg vs frame _ glob

/-- **The regenerated `Validation._validate` IS the model's step.** `Gen.validate_step` is regenerated from /repo on every
run (the LINESTRING_ONLY gate incl. empty lines, the duplicate-suppressed append, the fix attempt with
`NotImplementedError` folded into an absent result, removal of the error after a successful fix, the MAJOR-error
short-circuit). With the validator's answers plugged in (its verdict, what its `fix_method` returns, its `ERROR` as read after
the call) it returns exactly the geometry, error list and ignore flag of `Tval.validateOne` -- so every theorem of this
file and of C13 about `validateOne` is a statement about the regenerated code. -/
theorem C09_generated_validate_step (O : Oracle G) (cfg : Cfg) (frame : List G) (idx : Nat) (v : Validator) (s : RowSt G) :
    Gen.validate_step v.lsOnly (O.kind s.geom).isLineString (O.kind s.geom == .lineEmpty) (O.kind s.geom == .multi)
        (O.valid v frame s.geom idx) (O.fix v s.geom) (errRead O frame idx v s) cfg.majorErrors s.geom s.errs cfg.allowFix
      = ((validateOne O cfg frame idx v s).geom, (validateOne O cfg frame idx v s).errs, (validateOne O cfg frame idx v s).ignore) := by
  unfold Gen.validate_step validateOne applyFail GKind.gatePass
  cases hl : v.lsOnly <;> cases hk : (O.kind s.geom).isLineString <;> cases he : (O.kind s.geom == GKind.lineEmpty) <;>
    cases hv : O.valid v frame s.geom idx <;> cases hc : (List.elem (errRead O frame idx v s) s.errs) <;>
    cases ha : cfg.allowFix <;> cases hf : O.fix v s.geom <;>
    simp_all [List.elem_eq_contains, List.contains_eq_mem]

/-- the regenerated validator table (order, error strings, LINESTRING_ONLY flags, which validator
rewrites its ERROR, MAJOR sets) is the documented one -/
theorem C09_validator_table :
    Gen.all_validators = Spec.allValidators.map (fun v => (v.name, v.staticError, v.lsOnly, v.dynamic)) ∧
    Gen.major_validators = Spec.majorValidators.map (fun v => (v.name, v.staticError, v.lsOnly, v.dynamic)) ∧
    Gen.major_errors = Spec.majorErrors ∧
    Gen.underlap_written.Perm Spec.underlapStrings ∧
    Gen.requires_nodes = ["MultiJunctionValidator", "VNodeValidator"] ∧
    Gen.empty_area_error = Spec.emptyAreaError ∧ Gen.empty_area_exit_writes_error = true := by
  decide

/-- with the documented validators every reported string is one of the documented strings -/
theorem C09_documented_strings (O : Oracle G) (hdyn : ∀ v fr g i, O.dynErr v fr g i ∈ Spec.underlapStrings)
    (err : String) (h : Documented O Spec.allValidators err) : err ∈ Spec.documentedErrors := by
  rcases h with ⟨v, hv, _, rfl⟩ | ⟨v, _, fr, g, i, rfl⟩
  · simp only [Spec.allValidators, List.mem_cons, List.mem_nil_iff, or_false] at hv
    rcases hv with rfl | rfl | rfl | rfl | rfl | rfl | rfl | rfl | rfl | rfl <;> decide
  · have := hdyn v fr g i
    simp only [Spec.underlapStrings, List.mem_cons, List.mem_nil_iff, or_false] at this
    rcases this with h | h | h <;> rw [h] <;> decide

example :
    let nullV : Validator := ⟨"null", false, "NULL GEOMETRY", false⟩
    let typeV : Validator := ⟨"type", false, "GEOM TYPE MULTILINESTRING", false⟩
    let simpleV : Validator := ⟨"simple", true, "CUTS ITSELF", false⟩
    -- geometries: 0 = fine line, 1 = mergeable multi (fix -> 0), 2 = unmergeable multi
    let O : Oracle Nat := ⟨fun g => if g = 0 then .line else .multi, fun v _ g _ => if v.name == "type" then g == 0 else true,
      fun _ _ _ _ => "", fun _ g => if g = 1 then some 0 else none⟩
    let cfg : Cfg := ⟨true, ["GEOM TYPE MULTILINESTRING", "NULL GEOMETRY"], [nullV, typeV], [nullV, typeV, simpleV], none, "EMPTY TARGET AREA"⟩
    (run O cfg true false [0, 1, 2] "x").1 = .validated [(0, []), (0, []), (2, ["GEOM TYPE MULTILINESTRING"])] := by
  decide

/-- non-vacuity of `C09_empty_area`: two rows, area void of traces, `allow_empty_area = false` -/
example :
    let O : Oracle Nat := ⟨fun _ => .line, fun _ _ _ _ => true, fun _ _ _ _ => "", fun _ _ => none⟩
    let cfg : Cfg := ⟨true, [], [], [], none, "EMPTY TARGET AREA"⟩
    (run O cfg false true [7, 8] "x") = (.emptyArea [(7, ["EMPTY TARGET AREA"]), (8, ["EMPTY TARGET AREA"])], "x") := by
  decide

/-- **What "target area void of traces" means** (`is_empty_area`, regenerated): no area row is met by any of the traces its index
window reports. This is the condition under which `run_validation(allow_empty_area=False)` takes the EMPTY TARGET AREA exit
(`C09_empty_area`). -/
theorem C09_generated_is_empty_area {A G : Type} (window : A → List Nat) (meets : G → A → Bool) (area : List A) (traces : List G) :
    Gen.is_empty_area window meets area traces = !(area.any fun a => ((window a).filterMap fun i => traces[i]?).any fun tr => meets tr a) :=
  CropH.generated_is_empty_area window meets area traces

/-! ### z-coordinate removal in front of validation -/

theorem zip_map_self {α β γ : Type} (f : α → β → γ) (g : α → β) (l : List α) : List.zipWith f l (l.map g) = l.map fun r => f r (g r) := by
  induction l with
  | nil => rfl
  | cons a as ih => simp [ih]

/-- **Removing Z values keeps every row where it was.** The regenerated `remove_z_coordinates_from_geodata` (frame branch; the geometries come from
`.geometry.apply`, which keeps the index labels, and go back by LABEL-ALIGNED column assignment) returns, for EVERY index -- default, permuted, strings,
duplicated labels --, the same rows in the same order with the same labels and data, each geometry replaced by its own 2-D version: no row gets another
row's geometry or a missing one, so verdicts stay with their rows. -/
theorem C09_generated_z_removal {L D G : Type} [BEq L] [LawfulBEq L] (dropz : G → G) (nan : G) (frame : List (L × D × G)) :
    Gen.remove_z_coordinates_from_geodata dropz nan frame = .ok (frame.map fun r => (r.1, r.2.1, dropz r.2.2)) := by
  unfold Gen.remove_z_coordinates_from_geodata pyAssignAligned
  simp only [List.map_map, Function.comp_def]
  have : (List.map (fun r => r.1) frame == List.map (fun r => r.1) frame) = true := by simp
  simp only [this, if_true, zip_map_self]

example : Gen.remove_z_coordinates_from_geodata (fun g : Nat => g % 100) 0 [(7, "a", 301), (7, "b", 402), (3, "c", 5)] = .ok [(7, "a", 1), (7, "b", 2), (3, "c", 5)] := by decide

end C09
