import FractopoModel.Lemmas.CropHelpers
import FractopoModel.Model.Crop
import FractopoModel.Generated.CropPipeline
import FractopoModel.Generated.ZCoordinates
/-!
# C07 — cropping keeps exactly the trace parts inside the areas, with attributes

All statements hold for every frame (any attribute type, any number of rows), every clip
function and every length filter; what `gpd.clip` returns (`ClipLaw`: the single-part pieces of
trace ∩ areas) is outside the model and is tied by stream S07 to the exact `clipLine`.
-/
namespace C07
open Crop
variable {A G : Type}

theorem flatMap_filter_partition {α β : Type} (l : List α) (p : α → Bool) (f : α → List β) :
    ((l.filter p).flatMap f ++ (l.filter (fun x => !p x)).flatMap f).Perm (l.flatMap f) := by
  induction l with
  | nil => simp
  | cons x xs ih =>
    by_cases h : p x
    · simp only [List.filter_cons, h, if_true, Bool.not_true, Bool.false_eq_true, if_false, List.flatMap_cons, List.append_assoc]
      exact List.Perm.append_left _ ih
    · simp only [List.filter_cons, h, Bool.false_eq_true, if_false, Bool.not_false, if_true, List.flatMap_cons]
      have : ((xs.filter p).flatMap f ++ (f x ++ (xs.filter (fun x => !p x)).flatMap f)).Perm
          (f x ++ ((xs.filter p).flatMap f ++ (xs.filter (fun x => !p x)).flatMap f)) := by
        rw [← List.append_assoc, ← List.append_assoc]
        exact List.Perm.append_right _ List.perm_append_comm
      exact this.trans (List.Perm.append_left _ ih)

theorem dissolve_perm (cl : List (Row A G × List G)) :
    (dissolve cl).Perm (cl.flatMap fun x => x.2.map fun g => (⟨x.1.attrs, g⟩ : Row A G)) :=
  flatMap_filter_partition cl (fun x => x.2.length == 1) _

theorem clipped_flat (clip : G → List G) (rows : List (Row A G)) :
    ((clipped clip rows).flatMap fun x => x.2.map fun g => (⟨x.1.attrs, g⟩ : Row A G))
      = rows.flatMap fun r => (clip r.geom).map fun g => ⟨r.attrs, g⟩ := by
  induction rows with
  | nil => simp [clipped]
  | cons r rs ih =>
    simp only [clipped, List.map_cons, List.filter_cons, List.flatMap_cons] at ih ⊢
    cases h : clip r.geom with
    | nil => simpa using ih
    | cons g gs => simp only [List.isEmpty_cons, Bool.not_false, if_true, List.flatMap_cons]; rw [ih]

/-- **Main theorem.** The cropped frame is, as a multiset of rows, exactly: every long clip
piece of every input row, carrying that row's attribute values. -/
theorem C07_crop_eq_expected (clip : G → List G) (long : G → Bool) (rows : List (Row A G)) :
    (crop clip long rows).Perm (expected clip long rows) := by
  unfold crop expected
  have h1 := (dissolve_perm (clipped clip rows)).filter (fun r : Row A G => long r.geom)
  rw [clipped_flat] at h1
  refine h1.trans ?_
  rw [List.filter_flatMap]
  apply List.Perm.of_eq
  congr 1; funext r
  rw [List.filter_map]; rfl

/-- every output row carries the attribute values of an input row and one of its clip pieces -/
theorem C07_rows_from_input (clip : G → List G) (long : G → Bool) (rows : List (Row A G)) (o : Row A G)
    (h : o ∈ crop clip long rows) : ∃ r ∈ rows, o.attrs = r.attrs ∧ o.geom ∈ clip r.geom ∧ long o.geom = true := by
  have := (C07_crop_eq_expected clip long rows).mem_iff.mp h
  simp only [expected, List.mem_flatMap, List.mem_map, List.mem_filter] at this
  obtain ⟨r, hr, g, ⟨hg, hl⟩, rfl⟩ := this
  exact ⟨r, hr, rfl, hg, hl⟩

/-- every long clip piece of every input row is present with the row's attributes -/
theorem C07_all_pieces_present (clip : G → List G) (long : G → Bool) (rows : List (Row A G)) (r : Row A G) (hr : r ∈ rows)
    (g : G) (hg : g ∈ clip r.geom) (hl : long g = true) : (⟨r.attrs, g⟩ : Row A G) ∈ crop clip long rows := by
  apply (C07_crop_eq_expected clip long rows).mem_iff.mpr
  simp only [expected, List.mem_flatMap, List.mem_map, List.mem_filter]
  exact ⟨r, hr, g, ⟨hg, hl⟩, rfl⟩

/-- a trace cut into `k` long pieces yields `k` rows: the number of output rows is the total
number of long pieces -/
theorem C07_row_count (clip : G → List G) (long : G → Bool) (rows : List (Row A G)) :
    (crop clip long rows).length = (rows.map fun r => ((clip r.geom).filter long).length).sum := by
  rw [(C07_crop_eq_expected clip long rows).length_eq]
  unfold expected
  induction rows with
  | nil => simp
  | cons r rs ih => simp [List.flatMap_cons, ih]

theorem perm_sum_rat {l₁ l₂ : List Rat} (h : l₁.Perm l₂) : l₁.sum = l₂.sum := by
  induction h with
  | nil => rfl
  | cons x _ ih => simp [ih]
  | swap x y l => simp only [List.sum_cons]; grind
  | trans _ _ ih1 ih2 => exact ih1.trans ih2

/-- length conservation: for any additive measure (e.g. length) the output total is the total
over all long clip pieces = measure of traces ∩ areas under `ClipLaw` -/
theorem C07_length (clip : G → List G) (long : G → Bool) (len : G → Rat) (rows : List (Row A G)) :
    ((crop clip long rows).map fun r => len r.geom).sum =
      (rows.map fun r => (((clip r.geom).filter long).map len).sum).sum := by
  have hp := (C07_crop_eq_expected clip long rows).map (fun r : Row A G => len r.geom)
  rw [perm_sum_rat hp]
  clear hp
  unfold expected
  induction rows with
  | nil => simp
  | cons r rs ih =>
    simp only [List.flatMap_cons, List.map_append, List.sum_append, List.map_map, Function.comp_def, List.map_cons, List.sum_cons]
    rw [ih]

/-- single-part output and "inside, on the source": consequences of the clip law for pieces -/
theorem C07_inside_on_source (clip : G → List G) (long : G → Bool) (P : G → G → Prop)
    (law : ∀ g pc, pc ∈ clip g → P g pc) (rows : List (Row A G)) (o : Row A G) (h : o ∈ crop clip long rows) :
    ∃ r ∈ rows, o.attrs = r.attrs ∧ P r.geom o.geom := by
  obtain ⟨r, hr, ha, hg, _⟩ := C07_rows_from_input clip long rows o h
  exact ⟨r, hr, ha, law _ _ hg⟩

example : crop (fun (g : Nat) => if g = 0 then [] else if g = 1 then [10] else [20, 21, 0]) (fun g => g != 0)
    [⟨"a", 2⟩, ⟨"b", 0⟩, ⟨"c", 1⟩] = [⟨"c", 10⟩, ⟨"a", 20⟩, ⟨"a", 21⟩] := by decide

/-! ### regenerated `dissolve_multi_part_traces` -/

section Dissolve
variable {D G : Type}

/-- **`dissolve_multi_part_traces` (frame branch, regenerated) in closed form**; see `CropH.generated_dissolve` -/
theorem C07_generated_dissolve (is_mls is_ls : G → Bool) (parts : G → List G) (traces : List (D × G)) :
    Gen.dissolve_multi_part_traces is_mls is_ls parts traces =
      (let mls := traces.filter fun r => is_mls r.2
       if mls.length = 0 then .ok traces
       else if mls.any (fun r => (parts r.2).isEmpty) then .error "ValueError"
       else
         let out := (traces.filter fun r => !is_mls r.2) ++ mls.flatMap fun r => (parts r.2).map fun g => (r.1, g)
         if out.all (fun r => is_ls r.2) then .ok out else .error "TypeError") :=
  CropH.generated_dissolve is_mls is_ls parts traces

theorem rows_perm (p : D × G → Bool) (g : D × G → List (D × G)) (l : List (D × G)) :
    ((l.filter fun r => !p r) ++ (l.filter p).flatMap g).Perm (l.flatMap fun r => if p r then g r else [r]) := by
  induction l with
  | nil => simp
  | cons a as ih =>
    by_cases h : p a = true
    · simp only [List.filter_cons, h, Bool.not_true, Bool.false_eq_true, if_false, if_true, List.flatMap_cons]
      have h1 : (List.filter (fun r => !p r) as ++ (g a ++ List.flatMap g (List.filter p as))).Perm
          (g a ++ (List.filter (fun r => !p r) as ++ List.flatMap g (List.filter p as))) := by
        rw [← List.append_assoc, ← List.append_assoc]
        exact List.Perm.append_right _ List.perm_append_comm
      exact h1.trans (List.Perm.append_left _ ih)
    · have h' : p a = false := by simpa using h
      simp only [List.filter_cons, h', Bool.not_false, if_true, Bool.false_eq_true, if_false, List.flatMap_cons, List.cons_append, List.nil_append]
      exact List.Perm.cons a ih

/-- **Every output row carries the data of the row it was cut from** (row-wise reading of the dissolve): whenever the regenerated
`dissolve_multi_part_traces` returns, its rows are -- up to order -- each single-part row unchanged and, for each multi-part row, one
row per part with that row's data. Nothing is lost, duplicated or re-labelled. -/
theorem C07_generated_dissolve_rows (is_mls is_ls : G → Bool) (parts : G → List G) (traces out : List (D × G))
    (h : Gen.dissolve_multi_part_traces is_mls is_ls parts traces = .ok out) :
    out.Perm (traces.flatMap fun r => if is_mls r.2 then (parts r.2).map (fun g => (r.1, g)) else [r]) := by
  rw [C07_generated_dissolve] at h
  simp only at h
  by_cases h0 : (traces.filter fun r => is_mls r.2).length = 0
  · simp only [h0, if_true, Except.ok.injEq] at h
    subst h
    have hnone : ∀ r ∈ traces, is_mls r.2 = false := by
      intro r hr
      have : traces.filter (fun r => is_mls r.2) = [] := List.eq_nil_of_length_eq_zero h0
      have := List.filter_eq_nil_iff.mp this r hr
      simpa using this
    have : (traces.flatMap fun r => if is_mls r.2 then (parts r.2).map (fun g => (r.1, g)) else [r]) = traces := by
      induction traces with
      | nil => rfl
      | cons a as ih =>
        simp only [List.flatMap_cons, hnone a (by simp), Bool.false_eq_true, if_false, List.cons_append, List.nil_append]
        rw [ih (by
          have hh : List.filter (fun r => is_mls r.2) (a :: as) = [] := List.eq_nil_of_length_eq_zero h0
          have : List.filter (fun r => is_mls r.2) as = [] := by
            rw [List.filter_cons, hnone a (by simp)] at hh; simpa using hh
          simp [this]) (fun r hr => hnone r (by simp [hr]))]
    rw [this]
  · simp only [h0, if_false] at h
    split at h
    · cases h
    · split at h
      · cases h
        exact rows_perm (fun r => is_mls r.2) (fun r => (parts r.2).map fun g => (r.1, g)) traces
      · cases h

/-! ### the whole `crop_to_target_areas`, regenerated -/

/-- the single-part line pieces of a LineString / MultiLineString; nothing for any other kind -/
def linePieces (is_mls is_ls : G → Bool) (parts : G → List G) (g : G) : List G :=
  if is_mls g then parts g else if is_ls g then [g] else []

/-- the single-part line pieces of what `gpd.clip` leaves of a geometry: of the result itself, or -- for a GeometryCollection
(line + touch point) -- of its parts -/
def clipPieces (is_mls is_ls is_coll : G → Bool) (parts cparts : G → List G) (clipg : G → Option G) (g : G) : List G :=
  match clipg g with
  | none => []
  | some c => if is_coll c then (cparts c).flatMap (linePieces is_mls is_ls parts) else linePieces is_mls is_ls parts c

/-- what the five frame operations after the clip do to ONE clipped row -/
theorem row_pipeline (is_mls is_ls is_coll long : G → Bool) (parts cparts : G → List G) (a : D) (c : G) :
    ((((if is_coll c then (cparts c).map (fun g => (a, g)) else [(a, c)]).filter fun r => is_ls r.2 || is_mls r.2).flatMap
        fun r => if is_mls r.2 then (parts r.2).map (fun g => (r.1, g)) else [r]).filter fun r => long r.2)
      = ((if is_coll c then (cparts c).flatMap (linePieces is_mls is_ls parts) else linePieces is_mls is_ls parts c).filter long).map fun g => (a, g) := by
  have one : ∀ g : G, (([(a, g)].filter fun r : D × G => is_ls r.2 || is_mls r.2).flatMap
      fun r => if is_mls r.2 then (parts r.2).map (fun g => (r.1, g)) else [r]) = (linePieces is_mls is_ls parts g).map fun g => (a, g) := by
    intro g
    unfold linePieces
    cases hm : is_mls g <;> cases hl : is_ls g <;> simp [List.filter_cons, hm, hl]
  have A : ∀ gs : List G, (((gs.map fun g => (a, g)).filter fun r : D × G => is_ls r.2 || is_mls r.2).flatMap
      fun r => if is_mls r.2 then (parts r.2).map (fun g => (r.1, g)) else [r]) = (gs.flatMap (linePieces is_mls is_ls parts)).map fun g => (a, g) := by
    intro gs
    induction gs with
    | nil => rfl
    | cons g gs ih =>
      have e : (g :: gs).map (fun g => (a, g)) = [(a, g)] ++ gs.map (fun g => (a, g)) := rfl
      rw [e, List.filter_append, List.flatMap_append, one g, ih, List.flatMap_cons, List.map_append]
  by_cases hc : is_coll c = true
  · simp only [hc, if_true]
    rw [A, List.filter_map]
    rfl
  · have hc' : is_coll c = false := by simpa using hc
    simp only [hc', Bool.false_eq_true, if_false]
    have := A [c]
    simp only [List.map_cons, List.map_nil, List.flatMap_cons, List.flatMap_nil, List.append_nil] at this
    rw [this, List.filter_map]
    rfl

theorem frame_pipeline (is_mls is_ls is_coll long : G → Bool) (parts cparts : G → List G) (L : List (D × G)) :
    ((((L.flatMap fun r => if is_coll r.2 then (cparts r.2).map (fun g => (r.1, g)) else [r]).filter fun r => is_ls r.2 || is_mls r.2).flatMap
        fun r => if is_mls r.2 then (parts r.2).map (fun g => (r.1, g)) else [r]).filter fun r => long r.2)
      = L.flatMap fun r => ((if is_coll r.2 then (cparts r.2).flatMap (linePieces is_mls is_ls parts) else linePieces is_mls is_ls parts r.2).filter long).map fun g => (r.1, g) := by
  induction L with
  | nil => rfl
  | cons r rs ih =>
    obtain ⟨a, c⟩ := r
    rw [List.flatMap_cons, List.filter_append, List.flatMap_append, List.filter_append, ih, List.flatMap_cons]
    congr 1
    exact row_pipeline is_mls is_ls is_coll long parts cparts a c

theorem crop_closed (is_mls is_ls is_coll long : G → Bool) (parts cparts : G → List G) (clipg : G → Option G) (window : List Nat)
    (traces : List (D × G)) (filt allow : Bool) :
    Gen.crop_to_target_areas is_mls is_ls is_coll parts cparts clipg long window traces filt allow =
      if ((!(List.all traces (fun r => is_ls r.2))) && (!allow)) then .error "TypeError" else
      let cand := if filt then traces else window.filterMap fun i => traces[i]?
      let c0 := cand.filterMap fun r => (clipg r.2).map fun g => (r.1, g)
      let c1 := if c0.any (fun r => is_coll r.2) then (c0.filter fun r => !is_coll r.2) ++ (c0.filter fun r => is_coll r.2).flatMap (fun r => (cparts r.2).map fun g => (r.1, g)) else c0
      match Gen.dissolve_multi_part_traces is_mls is_ls parts (c1.filter fun r => is_ls r.2 || is_mls r.2) with
      | .error e => .error e
      | .ok x => .ok (x.filter fun r => long r.2) := by
  unfold Gen.crop_to_target_areas
  cases filt <;> simp only [Bool.not_true, Bool.not_false, Bool.false_eq_true, if_true, if_false, CropH.compress_pred, CropH.compress_not, List.any_map, Function.comp_def, id]
  all_goals (split <;> first | rfl | (generalize Gen.dissolve_multi_part_traces _ _ _ _ = x; cases x <;> rfl))

theorem explode_perm (is_coll : G → Bool) (cparts : G → List G) (c0 : List (D × G)) :
    (if c0.any (fun r => is_coll r.2) then (c0.filter fun r => !is_coll r.2) ++ (c0.filter fun r => is_coll r.2).flatMap (fun r => (cparts r.2).map fun g => (r.1, g)) else c0).Perm
      (c0.flatMap fun r => if is_coll r.2 then (cparts r.2).map (fun g => (r.1, g)) else [r]) := by
  split
  · exact rows_perm (fun r => is_coll r.2) (fun r => (cparts r.2).map fun g => (r.1, g)) c0
  · rename_i h
    have hnone : ∀ r ∈ c0, is_coll r.2 = false := by
      intro r hr
      cases hh : is_coll r.2
      · rfl
      · exact absurd (List.any_eq_true.mpr ⟨r, hr, hh⟩) h
    apply List.Perm.of_eq
    clear h
    induction c0 with
    | nil => rfl
    | cons a as ih =>
      simp only [List.flatMap_cons, hnone a (by simp), Bool.false_eq_true, if_false, List.cons_append, List.nil_append]
      rw [← ih (fun r hr => hnone r (by simp [hr]))]

theorem filter_window_filterMap (clipg : G → Option G) (traces : List (D × G)) (inWin : D × G → Bool)
    (hc : ∀ r ∈ traces, (clipg r.2).isSome = true → inWin r = true) :
    ((traces.filter inWin).filterMap fun r => (clipg r.2).map fun g => (r.1, g)) = traces.filterMap fun r => (clipg r.2).map fun g => (r.1, g) := by
  induction traces with
  | nil => rfl
  | cons a as ih =>
    have ih' := ih (fun r hr => hc r (by simp [hr]))
    rw [List.filter_cons]
    cases hw : inWin a
    · simp only [Bool.false_eq_true, if_false]
      have : clipg a.2 = none := by
        cases hq : clipg a.2
        · rfl
        · have := hc a (by simp) (by simp [hq]); rw [hw] at this; cases this
      rw [ih', List.filterMap_cons, this]; rfl
    · simp only [if_true, List.filterMap_cons]
      rw [ih']

theorem clip_window (clipg : G → Option G) (window : List Nat) (traces : List (D × G)) (inWin : D × G → Bool)
    (hp : (window.filterMap fun i => traces[i]?).Perm (traces.filter inWin)) (hc : ∀ r ∈ traces, (clipg r.2).isSome = true → inWin r = true) :
    ((window.filterMap fun i => traces[i]?).filterMap fun r => (clipg r.2).map fun g => (r.1, g)).Perm
      (traces.filterMap fun r => (clipg r.2).map fun g => (r.1, g)) :=
  (hp.filterMap _).trans (List.Perm.of_eq (filter_window_filterMap clipg traces inWin hc))

theorem flatMap_clip (is_mls is_ls is_coll long : G → Bool) (parts cparts : G → List G) (clipg : G → Option G) (traces : List (D × G)) :
    ((traces.filterMap fun r => (clipg r.2).map fun g => (r.1, g)).flatMap fun r =>
        ((if is_coll r.2 then (cparts r.2).flatMap (linePieces is_mls is_ls parts) else linePieces is_mls is_ls parts r.2).filter long).map fun g => (r.1, g))
      = traces.flatMap fun r => ((clipPieces is_mls is_ls is_coll parts cparts clipg r.2).filter long).map fun g => (r.1, g) := by
  induction traces with
  | nil => rfl
  | cons a as ih =>
    rw [List.filterMap_cons, List.flatMap_cons, ← ih]
    unfold clipPieces
    cases clipg a.2 <;> simp

/-- **The whole `crop_to_target_areas`, regenerated, keeps exactly the line pieces inside the areas, each with the data of its row.** Whenever the
regenerated function (type check, spatial pre-filter unless `is_filtered`, `gpd.clip` row by row, GeometryCollection explode, (Multi)LineString
filter, regenerated dissolve, minimum-length filter) returns, its rows are -- up to order -- for every input row and every single-part line piece of
what the clip leaves of it (pieces of a collection's parts included) that is longer than the minimum: one row with that row's data. Hypothesis when
the function pre-filters itself: the window reports a sub-selection of the rows containing every row the clip does not drop (`gpd.clip` only keeps
rows meeting the areas, and those lie in the areas' bounding box). -/
theorem C07_generated_crop (is_mls is_ls is_coll long : G → Bool) (parts cparts : G → List G) (clipg : G → Option G) (window : List Nat)
    (traces out : List (D × G)) (filt allow : Bool)
    (hwin : filt = false → ∃ inWin : D × G → Bool, (window.filterMap fun i => traces[i]?).Perm (traces.filter inWin) ∧
      ∀ r ∈ traces, (clipg r.2).isSome = true → inWin r = true)
    (h : Gen.crop_to_target_areas is_mls is_ls is_coll parts cparts clipg long window traces filt allow = .ok out) :
    out.Perm (traces.flatMap fun r => ((clipPieces is_mls is_ls is_coll parts cparts clipg r.2).filter long).map fun g => (r.1, g)) := by
  rw [crop_closed] at h
  split at h
  · cases h
  · simp only at h
    have hc0 : (if filt then traces else window.filterMap fun i => traces[i]?).filterMap (fun r => (clipg r.2).map fun g => (r.1, g))
        |>.Perm (traces.filterMap fun r => (clipg r.2).map fun g => (r.1, g)) := by
      cases filt
      · obtain ⟨inWin, hp, hc⟩ := hwin rfl
        exact clip_window clipg window traces inWin hp hc
      · exact List.Perm.refl _
    generalize (if filt then traces else window.filterMap fun i => traces[i]?).filterMap (fun r => (clipg r.2).map fun g => (r.1, g)) = c0 at h hc0
    have hc1 := explode_perm is_coll cparts c0
    generalize (if c0.any (fun r => is_coll r.2) then (c0.filter fun r => !is_coll r.2) ++ (c0.filter fun r => is_coll r.2).flatMap (fun r => (cparts r.2).map fun g => (r.1, g)) else c0) = c1 at h hc1
    cases hd : Gen.dissolve_multi_part_traces is_mls is_ls parts (c1.filter fun r => is_ls r.2 || is_mls r.2) with
    | error e => rw [hd] at h; cases h
    | ok x =>
      rw [hd] at h
      simp only [Except.ok.injEq] at h
      subst h
      have hx := C07_generated_dissolve_rows is_mls is_ls parts _ x hd
      have step := ((((hc1.trans (hc0.flatMap_right _)).filter (fun r => is_ls r.2 || is_mls r.2)).flatMap_right
        (fun r => if is_mls r.2 then (parts r.2).map (fun g => (r.1, g)) else [r])).filter (fun r => long r.2))
      refine ((hx.filter (fun r => long r.2)).trans step).trans (List.Perm.of_eq ?_)
      rw [frame_pipeline, flatMap_clip]

/-- the same, in the vocabulary of the hand-written model: the regenerated function returns `Crop.expected` for the clip function "line pieces of the
clip result" -- so `C07_rows_from_input`, `C07_length`, `C07_inside_on_source` … hold of the regenerated code -/
theorem C07_generated_crop_expected (is_mls is_ls is_coll long : G → Bool) (parts cparts : G → List G) (clipg : G → Option G) (window : List Nat)
    (traces out : List (D × G)) (filt allow : Bool)
    (hwin : filt = false → ∃ inWin : D × G → Bool, (window.filterMap fun i => traces[i]?).Perm (traces.filter inWin) ∧
      ∀ r ∈ traces, (clipg r.2).isSome = true → inWin r = true)
    (h : Gen.crop_to_target_areas is_mls is_ls is_coll parts cparts clipg long window traces filt allow = .ok out) :
    (out.map fun r => (⟨r.1, r.2⟩ : Row D G)).Perm
      (expected (clipPieces is_mls is_ls is_coll parts cparts clipg) long (traces.map fun r => ⟨r.1, r.2⟩)) := by
  refine ((C07_generated_crop is_mls is_ls is_coll long parts cparts clipg window traces out filt allow hwin h).map _).trans (List.Perm.of_eq ?_)
  unfold expected
  rw [List.map_flatMap, List.flatMap_map]
  congr 1; funext r
  simp [List.map_map, Function.comp_def]

/-- a frame with a row that is not a LineString is refused unless multi-part input was allowed -/
theorem C07_generated_crop_type_error (is_mls is_ls is_coll long : G → Bool) (parts cparts : G → List G) (clipg : G → Option G) (window : List Nat)
    (traces : List (D × G)) (filt : Bool) (r : D × G) (hr : r ∈ traces) (hl : is_ls r.2 = false) :
    Gen.crop_to_target_areas is_mls is_ls is_coll parts cparts clipg long window traces filt false = .error "TypeError" := by
  rw [crop_closed]
  have : (traces.all fun r => is_ls r.2) = false := by
    rw [Bool.eq_false_iff]; intro hall
    have := List.all_eq_true.mp hall r hr
    rw [hl] at this; cases this
  simp [this]

/-- non-vacuity: geometries coded as numbers (0 dropped by the clip, 1..9 lines, 10.. collections of a line and a point): a row whose clip is a
collection keeps its line part, the row outside is dropped, data travel with the pieces -/
example : Gen.crop_to_target_areas (D := String) (fun (_ : Nat) => false) (fun g => decide (0 < g ∧ g < 10)) (fun g => decide (10 ≤ g)) (fun _ => [])
    (fun g => [g - 10, 0]) (fun g => if g = 5 then none else some (if g = 2 then 13 else g)) (fun g => decide (g ≠ 0)) [0, 1, 2]
    [("a", 1), ("b", 2), ("c", 5)] false false = .ok [("a", 1), ("b", 3)] := by decide

end Dissolve

/-! ### z-coordinate removal in front of the crop (`Network(truncate_traces=True)`) -/

theorem zip_map_self {α β γ : Type} (f : α → β → γ) (g : α → β) (l : List α) : List.zipWith f l (l.map g) = l.map fun r => f r (g r) := by
  induction l with
  | nil => rfl
  | cons a as ih => simp [ih]

/-- the frame `Network` crops after removing Z values has, for every index, the caller's rows with their labels and data and their own geometry in 2-D
(regenerated `remove_z_coordinates_from_geodata`): attribute carry-over is not disturbed by the clean-up in front of the crop -/
theorem C07_generated_z_removal {L D G : Type} [BEq L] [LawfulBEq L] (dropz : G → G) (nan : G) (frame : List (L × D × G)) :
    Gen.remove_z_coordinates_from_geodata dropz nan frame = .ok (frame.map fun r => (r.1, r.2.1, dropz r.2.2)) := by
  unfold Gen.remove_z_coordinates_from_geodata pyAssignAligned
  simp only [List.map_map, Function.comp_def]
  have : (List.map (fun r => r.1) frame == List.map (fun r => r.1) frame) = true := by simp
  simp only [this, if_true, zip_map_self]

example : Gen.remove_z_coordinates_from_geodata (fun g : Nat => g % 100) 0 [(7, "a", 301), (7, "b", 402), (3, "c", 5)] = .ok [(7, "a", 1), (7, "b", 2), (3, "c", 5)] := by decide

end C07
