import FractopoModel.Lemmas.CropHelpers
import FractopoModel.Model.Crop
/-!
# C07 — cropping keeps exactly the trace parts inside the areas, with attributes

All statements hold for every frame (any attribute type, any number of rows), every clip
function and every length filter; what `gpd.clip` returns (`ClipLaw`: the single-part pieces of
trace ∩ areas) is outside the model and is tied by stream S07 to the exact `clipLine`.
-/
namespace C07
open Crop
variable {A G : Type}

theorem flatMap_filter_partition {α β : Type} (l : List α) (p : α → Bool) (f : α → List β) :
    ((l.filter p).flatMap f ++ (l.filter (fun x => !p x)).flatMap f).Perm (l.flatMap f) := by
  induction l with
  | nil => simp
  | cons x xs ih =>
    by_cases h : p x
    · simp only [List.filter_cons, h, if_true, Bool.not_true, Bool.false_eq_true, if_false, List.flatMap_cons, List.append_assoc]
      exact List.Perm.append_left _ ih
    · simp only [List.filter_cons, h, Bool.false_eq_true, if_false, Bool.not_false, if_true, List.flatMap_cons]
      have : ((xs.filter p).flatMap f ++ (f x ++ (xs.filter (fun x => !p x)).flatMap f)).Perm
          (f x ++ ((xs.filter p).flatMap f ++ (xs.filter (fun x => !p x)).flatMap f)) := by
        rw [← List.append_assoc, ← List.append_assoc]
        exact List.Perm.append_right _ List.perm_append_comm
      exact this.trans (List.Perm.append_left _ ih)

theorem dissolve_perm (cl : List (Row A G × List G)) :
    (dissolve cl).Perm (cl.flatMap fun x => x.2.map fun g => (⟨x.1.attrs, g⟩ : Row A G)) :=
  flatMap_filter_partition cl (fun x => x.2.length == 1) _

theorem clipped_flat (clip : G → List G) (rows : List (Row A G)) :
    ((clipped clip rows).flatMap fun x => x.2.map fun g => (⟨x.1.attrs, g⟩ : Row A G))
      = rows.flatMap fun r => (clip r.geom).map fun g => ⟨r.attrs, g⟩ := by
  induction rows with
  | nil => simp [clipped]
  | cons r rs ih =>
    simp only [clipped, List.map_cons, List.filter_cons, List.flatMap_cons] at ih ⊢
    cases h : clip r.geom with
    | nil => simpa using ih
    | cons g gs => simp only [List.isEmpty_cons, Bool.not_false, if_true, List.flatMap_cons]; rw [ih]

/-- **Main theorem.** The cropped frame is, as a multiset of rows, exactly: every long clip
piece of every input row, carrying that row's attribute values. -/
theorem C07_crop_eq_expected (clip : G → List G) (long : G → Bool) (rows : List (Row A G)) :
    (crop clip long rows).Perm (expected clip long rows) := by
  unfold crop expected
  have h1 := (dissolve_perm (clipped clip rows)).filter (fun r : Row A G => long r.geom)
  rw [clipped_flat] at h1
  refine h1.trans ?_
  rw [List.filter_flatMap]
  apply List.Perm.of_eq
  congr 1; funext r
  rw [List.filter_map]; rfl

/-- every output row carries the attribute values of an input row and one of its clip pieces -/
theorem C07_rows_from_input (clip : G → List G) (long : G → Bool) (rows : List (Row A G)) (o : Row A G)
    (h : o ∈ crop clip long rows) : ∃ r ∈ rows, o.attrs = r.attrs ∧ o.geom ∈ clip r.geom ∧ long o.geom = true := by
  have := (C07_crop_eq_expected clip long rows).mem_iff.mp h
  simp only [expected, List.mem_flatMap, List.mem_map, List.mem_filter] at this
  obtain ⟨r, hr, g, ⟨hg, hl⟩, rfl⟩ := this
  exact ⟨r, hr, rfl, hg, hl⟩

/-- every long clip piece of every input row is present with the row's attributes -/
theorem C07_all_pieces_present (clip : G → List G) (long : G → Bool) (rows : List (Row A G)) (r : Row A G) (hr : r ∈ rows)
    (g : G) (hg : g ∈ clip r.geom) (hl : long g = true) : (⟨r.attrs, g⟩ : Row A G) ∈ crop clip long rows := by
  apply (C07_crop_eq_expected clip long rows).mem_iff.mpr
  simp only [expected, List.mem_flatMap, List.mem_map, List.mem_filter]
  exact ⟨r, hr, g, ⟨hg, hl⟩, rfl⟩

/-- a trace cut into `k` long pieces yields `k` rows: the number of output rows is the total
number of long pieces -/
theorem C07_row_count (clip : G → List G) (long : G → Bool) (rows : List (Row A G)) :
    (crop clip long rows).length = (rows.map fun r => ((clip r.geom).filter long).length).sum := by
  rw [(C07_crop_eq_expected clip long rows).length_eq]
  unfold expected
  induction rows with
  | nil => simp
  | cons r rs ih => simp [List.flatMap_cons, ih]

theorem perm_sum_rat {l₁ l₂ : List Rat} (h : l₁.Perm l₂) : l₁.sum = l₂.sum := by
  induction h with
  | nil => rfl
  | cons x _ ih => simp [ih]
  | swap x y l => simp only [List.sum_cons]; grind
  | trans _ _ ih1 ih2 => exact ih1.trans ih2

/-- length conservation: for any additive measure (e.g. length) the output total is the total
over all long clip pieces = measure of traces ∩ areas under `ClipLaw` -/
theorem C07_length (clip : G → List G) (long : G → Bool) (len : G → Rat) (rows : List (Row A G)) :
    ((crop clip long rows).map fun r => len r.geom).sum =
      (rows.map fun r => (((clip r.geom).filter long).map len).sum).sum := by
  have hp := (C07_crop_eq_expected clip long rows).map (fun r : Row A G => len r.geom)
  rw [perm_sum_rat hp]
  clear hp
  unfold expected
  induction rows with
  | nil => simp
  | cons r rs ih =>
    simp only [List.flatMap_cons, List.map_append, List.sum_append, List.map_map, Function.comp_def, List.map_cons, List.sum_cons]
    rw [ih]

/-- single-part output and "inside, on the source": consequences of the clip law for pieces -/
theorem C07_inside_on_source (clip : G → List G) (long : G → Bool) (P : G → G → Prop)
    (law : ∀ g pc, pc ∈ clip g → P g pc) (rows : List (Row A G)) (o : Row A G) (h : o ∈ crop clip long rows) :
    ∃ r ∈ rows, o.attrs = r.attrs ∧ P r.geom o.geom := by
  obtain ⟨r, hr, ha, hg, _⟩ := C07_rows_from_input clip long rows o h
  exact ⟨r, hr, ha, law _ _ hg⟩

example : crop (fun (g : Nat) => if g = 0 then [] else if g = 1 then [10] else [20, 21, 0]) (fun g => g != 0)
    [⟨"a", 2⟩, ⟨"b", 0⟩, ⟨"c", 1⟩] = [⟨"c", 10⟩, ⟨"a", 20⟩, ⟨"a", 21⟩] := by decide

/-! ### regenerated `dissolve_multi_part_traces` -/

section Dissolve
variable {D G : Type}

/-- **`dissolve_multi_part_traces` (frame branch, regenerated) in closed form**; see `CropH.generated_dissolve` -/
theorem C07_generated_dissolve (is_mls is_ls : G → Bool) (parts : G → List G) (traces : List (D × G)) :
    Gen.dissolve_multi_part_traces is_mls is_ls parts traces =
      (let mls := traces.filter fun r => is_mls r.2
       if mls.length = 0 then .ok traces
       else if mls.any (fun r => (parts r.2).isEmpty) then .error "ValueError"
       else
         let out := (traces.filter fun r => !is_mls r.2) ++ mls.flatMap fun r => (parts r.2).map fun g => (r.1, g)
         if out.all (fun r => is_ls r.2) then .ok out else .error "TypeError") :=
  CropH.generated_dissolve is_mls is_ls parts traces

theorem rows_perm (p : D × G → Bool) (g : D × G → List (D × G)) (l : List (D × G)) :
    ((l.filter fun r => !p r) ++ (l.filter p).flatMap g).Perm (l.flatMap fun r => if p r then g r else [r]) := by
  induction l with
  | nil => simp
  | cons a as ih =>
    by_cases h : p a = true
    · simp only [List.filter_cons, h, Bool.not_true, Bool.false_eq_true, if_false, if_true, List.flatMap_cons]
      have h1 : (List.filter (fun r => !p r) as ++ (g a ++ List.flatMap g (List.filter p as))).Perm
          (g a ++ (List.filter (fun r => !p r) as ++ List.flatMap g (List.filter p as))) := by
        rw [← List.append_assoc, ← List.append_assoc]
        exact List.Perm.append_right _ List.perm_append_comm
      exact h1.trans (List.Perm.append_left _ ih)
    · have h' : p a = false := by simpa using h
      simp only [List.filter_cons, h', Bool.not_false, if_true, Bool.false_eq_true, if_false, List.flatMap_cons, List.cons_append, List.nil_append]
      exact List.Perm.cons a ih

/-- **Every output row carries the data of the row it was cut from** (row-wise reading of the dissolve): whenever the regenerated
`dissolve_multi_part_traces` returns, its rows are -- up to order -- each single-part row unchanged and, for each multi-part row, one
row per part with that row's data. Nothing is lost, duplicated or re-labelled. -/
theorem C07_generated_dissolve_rows (is_mls is_ls : G → Bool) (parts : G → List G) (traces out : List (D × G))
    (h : Gen.dissolve_multi_part_traces is_mls is_ls parts traces = .ok out) :
    out.Perm (traces.flatMap fun r => if is_mls r.2 then (parts r.2).map (fun g => (r.1, g)) else [r]) := by
  rw [C07_generated_dissolve] at h
  simp only at h
  by_cases h0 : (traces.filter fun r => is_mls r.2).length = 0
  · simp only [h0, if_true, Except.ok.injEq] at h
    subst h
    have hnone : ∀ r ∈ traces, is_mls r.2 = false := by
      intro r hr
      have : traces.filter (fun r => is_mls r.2) = [] := List.eq_nil_of_length_eq_zero h0
      have := List.filter_eq_nil_iff.mp this r hr
      simpa using this
    have : (traces.flatMap fun r => if is_mls r.2 then (parts r.2).map (fun g => (r.1, g)) else [r]) = traces := by
      induction traces with
      | nil => rfl
      | cons a as ih =>
        simp only [List.flatMap_cons, hnone a (by simp), Bool.false_eq_true, if_false, List.cons_append, List.nil_append]
        rw [ih (by
          have hh : List.filter (fun r => is_mls r.2) (a :: as) = [] := List.eq_nil_of_length_eq_zero h0
          have : List.filter (fun r => is_mls r.2) as = [] := by
            rw [List.filter_cons, hnone a (by simp)] at hh; simpa using hh
          simp [this]) (fun r hr => hnone r (by simp [hr]))]
    rw [this]
  · simp only [h0, if_false] at h
    split at h
    · cases h
    · split at h
      · cases h
        exact rows_perm (fun r => is_mls r.2) (fun r => (parts r.2).map fun g => (r.1, g)) traces
      · cases h

end Dissolve

end C07
