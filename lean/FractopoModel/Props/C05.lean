import FractopoModel.Lemmas.Pipeline
import FractopoModel.Lemmas.Topology
import FractopoModel.Spec.Classes
import FractopoModel.Generated.BranchIdentity
import FractopoModel.Generated.DegreeToClass
import FractopoModel.Lemmas.NodeTable
import FractopoModel.Lemmas.BranchTable
/-!
# C05 — node and branch tables are mutually consistent for every input

Property theorems only.  `Gen.*` are regenerated from /repo on every run; `Spec.*`
is written from the property statement; `Topo.*` is the hand-written model of node
collection / labelling, tied to the code by correspondence stream S05.
All theorems hold for *every* list of branches (valid or not) over any point type.
-/
namespace C05
open Topo
variable {P : Type} [DecidableEq P]

/-- nodes are pairwise distinct -/
theorem C05_nodes_nodup (bs : List (Branch P)) : (collect bs).Nodup := collect_nodup bs

/-- each branch end coincides with a node, and (nodes being distinct) with exactly one -/
theorem C05_end_has_unique_node (bs : List (Branch P)) (br : Branch P) (h : br ∈ bs) :
    (br.a ∈ collect bs ∧ (collect bs).count br.a = 1) ∧ (br.b ∈ collect bs ∧ (collect bs).count br.b = 1) := by
  have ha : br.a ∈ collect bs := (mem_collect bs _).mpr ((mem_ends bs _).mpr ⟨br, h, .inl rfl⟩)
  have hb : br.b ∈ collect bs := (mem_collect bs _).mpr ((mem_ends bs _).mpr ⟨br, h, .inr rfl⟩)
  have hn := collect_nodup bs
  exact ⟨⟨ha, by rw [hn.count]; simp [ha]⟩, ⟨hb, by rw [hn.count]; simp [hb]⟩⟩

/-- each node coincides with at least one branch end -/
theorem C05_node_has_end (bs : List (Branch P)) (n : P) (h : n ∈ collect bs) :
    ∃ br ∈ bs, n = br.a ∨ n = br.b := by
  rwa [mem_collect, mem_ends] at h

/-- the end-count summed over nodes is twice the number of branches -/
theorem C05_handshake (bs : List (Branch P)) :
    ((collect bs).map (mult bs)).sum = 2 * bs.length := by
  rw [← ends_length]
  exact sum_count_of_nodup (ends bs) (collect bs) (collect_nodup bs) (fun x hx => (mem_collect bs x).mpr hx)

/-- the regenerated degree map is the specified one (argument = other ends = degree − 1) -/
theorem C05_degree_map (n : Nat) : Gen.degree_to_class n = Spec.classOfDegree (n + 1) := by
  unfold Gen.degree_to_class Spec.classOfDegree
  split <;> grind

/-- the regenerated degree map never answers E -/
theorem C05_degree_never_E (n : Nat) : Gen.degree_to_class n ≠ "E" := by
  rw [C05_degree_map]; unfold Spec.classOfDegree; split <;> decide

/-- a node is labelled E exactly when it is within the threshold of the boundary -/
theorem C05_E_iff_boundary (nearB : P → Bool) (bs : List (Branch P)) (p : P) :
    nodeClass nearB Gen.degree_to_class bs p = "E" ↔ nearB p = true := by
  unfold nodeClass
  by_cases h : nearB p = true
  · simp [h]
  · simp [h, C05_degree_never_E]

/-- otherwise its label is the fixed function of the number of branch ends meeting there -/
theorem C05_class_of_degree (nearB : P → Bool) (bs : List (Branch P)) (p : P)
    (hp : p ∈ collect bs) (hb : nearB p = false) :
    nodeClass nearB Gen.degree_to_class bs p = Spec.classOfDegree (mult bs p) := by
  have := mult_pos_of_mem bs p hp
  unfold nodeClass
  simp only [hb, Bool.false_eq_true, if_false]
  rw [C05_degree_map]
  congr 1; omega

/-- the pure labelling function, for all triples of counts -/
theorem C05_branch_identity_total (i xy e : Nat) :
    Gen.determine_branch_identity i xy e = Spec.pairLabel i xy e := by
  unfold Gen.determine_branch_identity Spec.pairLabel
  grind

theorem C05_branch_identity_error (i xy e : Nat) (h : i + xy + e ≠ 2) :
    Gen.determine_branch_identity i xy e = "Error" := by
  rw [C05_branch_identity_total]; simp [Spec.pairLabel, h]

private def b2n (b : Bool) : Nat := if b then 1 else 0

/-- If the nodes within the threshold of a branch's ends are exactly its end nodes
(`crisp`), the label is the unordered pair of the end-node kinds when the ends differ
and `Error` when they coincide. -/
theorem C05_branch_label (close : P → P → Bool) (nodes : List P) (cls : P → String)
    (hcls : ∀ n ∈ nodes, cls n = "I" ∨ cls n = "X" ∨ cls n = "Y" ∨ cls n = "E")
    (hnd : nodes.Nodup) (br : Branch P) (ha : br.a ∈ nodes) (hb : br.b ∈ nodes)
    (crisp : ∀ n ∈ nodes, close n br.a = decide (n = br.a) ∧ close n br.b = decide (n = br.b)) :
    branchLabel Gen.determine_branch_identity close nodes cls br =
      if br.a = br.b then "Error"
      else Spec.pairLabelOfKinds (Spec.kindOf (cls br.a)) (Spec.kindOf (cls br.b)) := by
  have hnear : nodesNear close nodes br = nodes.filter (fun n => decide (n = br.a) || decide (n = br.b)) := by
    unfold nodesNear
    apply List.filter_congr
    intro n hn; rw [(crisp n hn).1, (crisp n hn).2]
  unfold branchLabel
  simp only [hnear]
  rw [C05_branch_identity_total]
  by_cases hab : br.a = br.b
  · simp only [hab, if_true]
    rw [← hab, filter_one_of_nodup nodes br.a hnd ha, filter_one_of_nodup nodes br.a hnd ha,
      filter_one_of_nodup nodes br.a hnd ha]
    rcases hcls _ ha with h | h | h | h <;> simp [h, Spec.pairLabel]
  · simp only [hab, if_false]
    rw [filter_two_of_nodup nodes br.a br.b hnd ha hb hab, filter_two_of_nodup nodes br.a br.b hnd ha hb hab,
      filter_two_of_nodup nodes br.a br.b hnd ha hb hab]
    rcases hcls _ ha with h | h | h | h <;> rcases hcls _ hb with h' | h' | h' | h' <;>
      simp [h, h', Spec.pairLabel, Spec.pairLabelOfKinds, Spec.kindOf]

/-- non-vacuity: three branches meeting in one point, one free tip shared by nobody -/
example :
    let bs : List (Branch Nat) := [⟨0, 1⟩, ⟨2, 1⟩, ⟨3, 1⟩]
    collect bs = [0, 1, 2, 3] ∧ mult bs 1 = 3 ∧
      nodeClass (fun _ => false) Gen.degree_to_class bs 1 = "Y" ∧
      nodeClass (fun p => p == 3) Gen.degree_to_class bs 3 = "E" ∧
      branchLabel Gen.determine_branch_identity (fun p q => p == q) (collect bs)
        (nodeClass (fun p => p == 3) Gen.degree_to_class bs) ⟨3, 1⟩ = "C - E" := by
  decide

/-- **The regenerated node collection IS the model's node table.** `Gen.node_identities_from_branches` and the
`Gen.node_identity` it calls are regenerated from /repo on every run (the loop over all branch ends, the WKT-keyed
dict, the boundary test, the point query, `remove(idx)`, the count of candidates within the threshold, the degree
chain). Under the laws of the geometry parameters (`QueryLaw`: the point query at an end returns the positions of
the coincident ends; a point is within the threshold of itself) the generated code returns exactly
`Topo.collect` with `Topo.nodeClass` -- so every theorem above (`C05_nodes_nodup`, `C05_handshake`,
`C05_E_iff_boundary`, `C05_class_of_degree`, ...) is a statement about the regenerated code. -/
theorem C05_generated_node_table {A : Type} (bdist : P → A → Rat) (dist : P → P → Rat) (query : P → List Nat) (dflt : P)
    (bs : List (Branch P)) (areas : List A) (t : Rat) (hq : NodeTable.QueryLaw query (ends bs)) (ht : ∀ p, dist p p < t) :
    Gen.node_identities_from_branches bdist dist query id dflt (ends bs) areas t =
      (collect bs, (collect bs).map (nodeClass (fun p => areas.any fun a => decide (bdist p a < t)) Gen.degree_to_class bs)) :=
  NodeTable.generated_node_table bdist dist query dflt bs areas t hq ht

/-- non-vacuity: three branches meeting at point 1 (a Y-node), ends 0, 2, 3 free; one area whose boundary is
near point 3 only; the query answers with the positions of equal ends -/
example :
    let bs : List (Branch Nat) := [⟨0, 1⟩, ⟨2, 1⟩, ⟨3, 1⟩]
    let query : Nat → List Nat := fun p => NodeTable.positions (ends bs) p
    Gen.node_identities_from_branches (fun p (_ : Unit) => if p = 3 then 0 else 10) (fun _ _ => 0) query id 0 (ends bs) [()] 1
      = ([0, 1, 2, 3], ["I", "Y", "I", "E"]) := by decide +kernel

/-- **The regenerated branch labelling IS the model's.** `Gen.get_branch_identities` is regenerated from /repo on every
run (loop over the branches, bounding-box query, `iloc`, distance mask, `compress`, the three counts, the call of the
regenerated `determine_branch_identity`). Under the law of the query parameter (`BoxLaw`: the candidates are the nodes inside
some box that contains every node within the threshold) it labels every branch exactly as `Topo.branchLabel` does -- so
`C05_branch_label` below/above is a statement about the regenerated code. -/
theorem C05_generated_branch_labels (bquery : Branch P → List Nat) (edist : P → Branch P → Rat) (close : P → P → Bool)
    (ns : List P) (dflt : P) (cls : P → String) (t : Rat) (brs : List (Branch P))
    (hclose : ∀ n br, decide (edist n br < t) = (close n br.a || close n br.b))
    (law : ∀ br ∈ brs, BranchTable.BoxLaw bquery edist ns t br) :
    Gen.get_branch_identities bquery edist brs (fun i => ns.getD i dflt) (ns.map cls) t
      = brs.map (branchLabel Gen.determine_branch_identity close ns cls) := by
  rw [BranchTable.generated_branch_labels bquery edist ns dflt cls t brs law]
  apply List.map_congr_left
  intro br _
  simp only [BranchTable.labelOf, branchLabel, nodesNear, hclose]
  congr 1
  apply List.countP_congr
  intro n _
  simp only [List.elem]
  cases h1 : (cls n == "X") <;> cases h2 : (cls n == "Y") <;> simp_all

/-- **The node table is computed from exactly the branches that are returned.** In the regenerated orchestration of
`branches_and_nodes` (`Pipeline.finish`, the tail of `Pipeline.generated_pipeline`): when extraction completes, the returned
branch geometries are the noded pieces that passed the length filter, the node table (points and classes) is the one computed from THOSE
branches, and the labels are computed from those branches and that table -- no branch that is dropped afterwards ever contributed an
end to a node, and no returned branch is missing from the count. (`C05_handshake` etc. are about that table.) -/
theorem C05_generated_tables_from_output_branches {G' A' U' N' : Type} (len : G' → Rat) (union_all : List G' → U') (u_is_multi u_is_line : U' → Bool) (u_parts : U' → List G')
    (node_table : List G' → List A' → Rat → List N' × List String) (branch_labels : List G' → List N' → List String → Rat → List String)
    (areas : List A') (t : Rat) (snapped : List G') (brs : List (G' × String)) (nds : List (N' × String))
    (h : Pipeline.finish len union_all u_is_multi u_is_line u_parts node_table branch_labels areas t snapped = .ok (brs, nds)) :
    let B := (u_parts (union_all (snapped.filter fun tr => decide (len tr > t * (201 / 100))))).filter fun b => decide (len b > t * (101 / 100))
    brs = List.zip B (branch_labels B (node_table B areas t).1 (node_table B areas t).2 t) ∧
    nds = List.zip (node_table B areas t).1 (node_table B areas t).2 := by
  unfold Pipeline.finish at h
  simp only at h
  split at h
  · simp only [Except.ok.injEq, Prod.mk.injEq] at h
    exact ⟨h.1.symm, h.2.symm⟩
  · cases h

end C05
