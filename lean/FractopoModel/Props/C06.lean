import FractopoModel.Model.Snap
import FractopoModel.Lemmas.SnapLoop
import FractopoModel.Generated.SnapInsert
import FractopoModel.Lemmas.SnapDriver
import FractopoModel.Lemmas.InsertPoint
import FractopoModel.Lemmas.SnapStage
import FractopoModel.Generated.Windows
import FractopoModel.Generated.DegreeToClass
import FractopoModel.Props.C05
/-!
# C06 — snap-threshold semantics
-/
namespace C06
open Snap
variable {P : Type}

/-- **Within the threshold means connected, beyond it means not** (regenerated guard of the
vertex-insertion pass): an end is inserted into another trace iff it is strictly closer than the
threshold and not already exactly on it. -/
theorem C06_snap_guard (d t : Rat) (on : Bool) :
    Gen.snap_guard d t on = true ↔ (d < t ∧ on = false) := by
  unfold Gen.snap_guard; cases on <;> simp

/-- an end at distance ≥ t from every other trace is never inserted anywhere -/
theorem C06_far_untouched (d t : Rat) (on : Bool) (h : t ≤ d) : Gen.snap_guard d t on = false := by
  unfold Gen.snap_guard
  have : ¬ d < t := by grind
  simp [this]

/-- ends within the threshold of the area boundary are boundary ends: they are excluded from
insertion (`boundary_close`) and classed E by the same strict test (`node_boundary_close`) -/
theorem C06_boundary (d t : Rat) :
    (Gen.boundary_close d t = true ↔ d < t) ∧ (Gen.node_boundary_close d t = Gen.boundary_close d t) ∧
    (Gen.node_coincident d t = true ↔ d < t) := by
  unfold Gen.boundary_close Gen.node_boundary_close Gen.node_coincident; simp

/-- **Insertion lands in the closest segment.** Whenever the decision is to insert, the new
vertex sits between the two ends of the closest segment `j`, all original vertices are kept in
order, and exactly one vertex is added. -/
theorem C06_insert_between (vs : List P) (p : P) (j : Nat) (hj : j + 1 < vs.length) :
    (apply vs p (.insertAfter j))[j]? = vs[j]? ∧ (apply vs p (.insertAfter j))[j + 1]? = some p ∧
    (apply vs p (.insertAfter j))[j + 2]? = vs[j + 1]? ∧ (apply vs p (.insertAfter j)).length = vs.length + 1 := by
  simp only [apply]
  have hl : (vs.take (j + 1)).length = j + 1 := by simp; omega
  refine ⟨?_, ?_, ?_, ?_⟩
  · rw [List.append_assoc, List.getElem?_append_left (by omega), List.getElem?_take_of_lt (by omega)]
  · rw [List.append_assoc, List.getElem?_append_right (by omega), hl]; simp
  · rw [List.append_assoc, List.getElem?_append_right (by omega), hl]
    simp [List.getElem?_drop]
  · simp; omega

/-- the decision never replaces the first or the last vertex (trace ends stay where they are),
replaces only an END of the closest segment, and only when it is within the threshold -/
theorem C06_decision (n j : Nat) (s c : Bool) :
    choose n j s c = .insertAfter j ∨
    (∃ k, choose n j s c = .replace k ∧ c = true ∧ (k = j ∨ k = j + 1) ∧ k ≠ 0 ∧ k ≠ n - 1) := by
  unfold choose
  simp only []
  by_cases h1 : ((if s = true then j + 1 else j) == 0 || (if s = true then j + 1 else j) == n - 1) = true
  · left; simp [h1]
  · simp only [h1, Bool.false_eq_true, if_false]
    cases c
    · left; simp
    · right
      refine ⟨if s = true then j + 1 else j, by simp, rfl, ?_, ?_, ?_⟩
      · cases s <;> simp
      · intro h0; apply h1; simp [h0]
      · intro h0; apply h1; simp [h0]

/-- a replacement changes one vertex only and keeps the number of vertices -/
theorem C06_replace (vs : List P) (p : P) (k : Nat) (hk : k < vs.length) :
    (apply vs p (.replace k)).length = vs.length ∧ (apply vs p (.replace k))[k]? = some p ∧
    ∀ i, i ≠ k → (apply vs p (.replace k))[i]? = vs[i]? := by
  simp only [apply]
  refine ⟨by simp, by simp [hk], ?_⟩
  intro i hi
  rw [List.getElem?_set_ne (Ne.symm hi)]

/-- once connected, the abutment is a Y-node: three branch ends meet there (from C05) -/
theorem C06_connected_is_Y : Gen.degree_to_class 2 = "Y" := by decide

/-! ### the snapping pass as a whole (`Model/SnapLoop.lean`, tied to `snap_traces` and to the loop inside
`branches_and_nodes` by stream S06-snappass) -/

/-- **Nothing within the threshold ⇒ nothing moves.** On a map where no decision predicate of either
stage fires (`quietMap`, a decidable condition the driver evaluates on every generated map) one pass
returns the traces unchanged, in order, and reports no change — for any number of traces, any areas,
either candidate order. -/
theorem C06_quiet_pass_identity (ord : SnapL.Ord) (t margin : Rat) (areas : List Polygon) (traces : List Polyline)
    (h : SnapL.quietMap ord t margin traces = true) : SnapL.snapPass ord t margin areas traces = .ok (traces, false) :=
  SnapL.snapPass_quiet ord t margin areas traces h

/-- … and the repeat-until-stable stage ends after the first pass, never raising -/
theorem C06_quiet_loop_identity (ord : SnapL.Ord) (t margin : Rat) (areas : List Polygon) (allowed : Nat) (traces : List Polyline)
    (h : SnapL.quietMap ord t margin traces = true) : SnapL.snapLoop ord t margin areas allowed traces = .ok (traces, 0) :=
  SnapL.snapLoop_quiet ord t margin areas allowed traces h

/-- the snapping stage returns only after at most `allowed` repeat passes (otherwise it raises), and
every pass keeps the number and order of the traces -/
theorem C06_loop_bound (ord : SnapL.Ord) (t margin : Rat) (areas : List Polygon) (allowed : Nat) (traces out : List Polyline) (n : Nat)
    (h : SnapL.snapLoop ord t margin areas allowed traces = .ok (out, n)) : n ≤ allowed :=
  SnapL.snapLoop_bound ord t margin areas allowed traces out n h

theorem C06_pass_keeps_rows (ord : SnapL.Ord) (t margin : Rat) (areas : List Polygon) (traces out : List Polyline) (ch : Bool)
    (h : SnapL.snapPass ord t margin areas traces = .ok (out, ch)) : out.length = traces.length :=
  SnapL.snapPass_length ord t margin areas traces out ch h

/-- **Moves are bounded by the threshold**: an end is moved only onto a vertex strictly closer than the
threshold, and an end is inserted into another trace only when strictly within the threshold of it and
not already on it -/
theorem C06_moves_within_threshold (t : Rat) (trace c another : Polyline) (ep v : Pt) (eps : List Pt) :
    (SnapL.simpleTarget t trace c ep = some v → Pt.dist2 v ep < t * t) ∧
    ((SnapL.snapToAnother t eps another).2 = true → ∃ e ∈ eps, SnapL.near t e another = true ∧ SnapL.onLine e another = false) :=
  ⟨SnapL.simpleTarget_close t trace c ep v, SnapL.snapToAnother_changed t eps another⟩

/-! ### regenerated loops of the second snapping stage -/

theorem boundary_loop_eq {P A : Type} (bdist : P → A → Rat) (ep : P) (all l : List A) (t : Rat) :
    Gen.is_endpoint_close_to_boundary_loop1 bdist ep all t l =
      if l.any (fun a => decide (bdist ep a < t)) then .ret true else .done () := by
  induction l with
  | nil => simp [Gen.is_endpoint_close_to_boundary_loop1]
  | cons a rest ih =>
    simp only [Gen.is_endpoint_close_to_boundary_loop1, List.any_cons]
    by_cases h : bdist ep a < t
    · simp [h]
    · simp [h, ih]

/-- **Ends near the boundary are boundary ends**: the regenerated `is_endpoint_close_to_boundary` answers true exactly
when some area boundary is strictly within the threshold -- the filter the model applies (`SnapL.closeToBoundary`) -/
theorem C06_generated_boundary_filter {P A : Type} (bdist : P → A → Rat) (ep : P) (areas : List A) (t : Rat) :
    Gen.is_endpoint_close_to_boundary bdist ep areas t = areas.any (fun a => decide (bdist ep a < t)) := by
  unfold Gen.is_endpoint_close_to_boundary
  rw [boundary_loop_eq]
  cases h : areas.any (fun a => decide (bdist ep a < t)) <;> simp

theorem insert_loop_eq {P L : Type} (dist : P → L → Rat) (on : P → L → Bool) (insert : L → P → Rat → L) (te : List P) (t : Rat)
    (all l : List P) (another : L) :
    Gen.snap_trace_to_another_loop1 dist on insert te t all l another = l.foldl (fun a ep => insert a ep t) another := by
  induction l generalizing another with
  | nil => simp [Gen.snap_trace_to_another_loop1]
  | cons ep rest ih => simp [Gen.snap_trace_to_another_loop1, ih]

/-- **The regenerated `snap_trace_to_another` is the model's second stage for one trace**: the ends to insert are
selected against the trace as it is before any insertion (strictly within the threshold and not already on it), then
inserted one after the other; "changed" is reported iff something was selected. Instantiated with the exact
predicates and `Snap.insertGeo` this is `SnapL.snapToAnother`. -/
theorem C06_generated_snap_to_another (dist : Pt → Polyline → Rat) (t : Rat) (eps : List Pt) (another : Polyline)
    (hdist : ∀ ep ∈ eps, decide (dist ep another < t) = SnapL.near t ep another) :
    Gen.snap_trace_to_another dist (fun ep l => SnapL.onLine ep l) (fun l ep thr => Snap.insertGeo l ep thr) eps another t
      = SnapL.snapToAnother t eps another := by
  unfold Gen.snap_trace_to_another SnapL.snapToAnother
  simp only [List.map_id', insert_loop_eq]
  have hsel : (eps.filter fun ep => (decide (dist ep another < t) && !SnapL.onLine ep another))
      = eps.filter fun ep => SnapL.near t ep another && !SnapL.onLine ep another := by
    apply List.filter_congr
    intro ep hep
    rw [hdist ep hep]
  rw [hsel]
  cases hl : (eps.filter fun ep => SnapL.near t ep another && !SnapL.onLine ep another) with
  | nil => simp
  | cons a as => simp

/-! ### the regenerated repeat-until-stable driver (`while any_changes_applied` inside `branches_and_nodes`) -/

/-- **The regenerated snapping driver is the model's loop.** With enough fuel (`allowed + 2` iterations can never all be taken:
the counter check raises first) the regenerated `while any_changes_applied:` loop of `branches_and_nodes` -- pass again with
the same traces / threshold / areas, count, raise RecursionError when more than `allowed_loops` repeat passes were needed -- returns
exactly what `SnapL.snapLoop` returns, for every pass function that does not itself raise. It never runs out of fuel. -/
theorem C06_generated_driver (ord : SnapL.Ord) (t margin : Rat) (areas : List Polygon) (allowed : Nat) (pass_ : List Polyline → List Polyline × Bool)
    (hpass : ∀ tr, SnapL.snapPass ord t margin areas tr = .ok (pass_ tr)) (traces : List Polyline) :
    Gen.snap_driver pass_ traces allowed (allowed + 2) = SnapL.snapLoop ord t margin areas allowed traces :=
  SnapDriver.generated_driver ord t margin areas allowed pass_ hpass traces

/-- non-vacuity: a T-abutment that touches exactly is quiet; the same end 1/200 short of the target is
inserted into the target by one pass (threshold 1/100), and a second pass changes nothing -/
example :
    SnapL.quietMap .asc (1/100) (1/5) [[⟨0, 0⟩, ⟨10, 0⟩], [⟨4, 0⟩, ⟨4, 5⟩]] = true ∧
    SnapL.snapPass .asc (1/100) (1/5) [] [[⟨0, 0⟩, ⟨10, 0⟩], [⟨4, 1/200⟩, ⟨4, 5⟩]]
      = .ok ([[⟨0, 0⟩, ⟨4, 1/200⟩, ⟨10, 0⟩], [⟨4, 1/200⟩, ⟨4, 5⟩]], true) ∧
    SnapL.snapLoop .asc (1/100) (1/5) [] 10 [[⟨0, 0⟩, ⟨10, 0⟩], [⟨4, 1/200⟩, ⟨4, 5⟩]]
      = .ok ([[⟨0, 0⟩, ⟨4, 1/200⟩, ⟨10, 0⟩], [⟨4, 1/200⟩, ⟨4, 5⟩]], 1) := by decide +kernel

example : apply [1, 2, 3, 4] 9 (choose 4 1 false false) = [1, 2, 9, 3, 4] ∧ apply [1, 2, 3, 4] 9 (choose 4 1 true true) = [1, 2, 9, 4] ∧
    apply [1, 2, 3, 4] 9 (choose 4 2 true true) = [1, 2, 3, 9, 4] := by decide

/-! ### regenerated vertex insertion -/

theorem segs_eq_range (l : Polyline) (d : Pt) :
    segs l = (List.range (l.length - 1)).map fun i => (l.getD i d, l.getD (i + 1) d) := by
  unfold segs
  apply List.ext_getElem
  · simp
  · intro i h1 h2
    have hi : i < l.length - 1 := by simpa using h2
    simp only [List.getElem_zip, List.getElem_tail, List.getElem_map, List.getElem_range]
    rw [List.getD_eq_getElem?_getD, List.getD_eq_getElem?_getD, List.getElem?_eq_getElem (by omega), List.getElem?_eq_getElem (by omega)]
    rfl

/-- **The regenerated `insert_point_to_linestring` IS the insertion model.** With exact squared distances for the distance
parameters (the threshold squared accordingly; ordering by squared distance = ordering by distance), the regenerated function --
coincidence guard, distance table, stable sort, first-minimum segment, restriction to the ends of that segment, regenerated
`determine_insert_approach`, `pop` / `insert` -- equals `Snap.insertGeo` for every polyline with at least two vertices, every
point, every threshold. `C06_insert_between`, `C06_decision`, `C06_replace` and the snapping-loop theorems therefore speak about
regenerated code. The angle comparison of the middle branch is irrelevant (its result is overwritten by the caller). -/
theorem C06_generated_insert_point (l : Polyline) (p : Pt) (t : Rat) (angle : Pt → Pt → Pt → Rat) (h2 : 2 ≤ l.length) :
    Gen.insert_point_to_linestring (fun c q => Pt.dist2 q c) (fun a b => a == b) angle (fun a b q => ptSegDist2 q a b) l p (t * t)
      = Snap.insertGeo l p t := by
  by_cases hc : l.contains p = true
  · have hg : (List.any (List.map (fun xy => p == xy) l) id) = true := by
      rw [List.any_eq_true]
      have hm : p ∈ l := by simpa using hc
      exact ⟨true, List.mem_map.mpr ⟨p, hm, by simp⟩, rfl⟩
    unfold Gen.insert_point_to_linestring Snap.insertGeo
    simp only [hg, hc, if_true]
  · have hnm : p ∉ l := by simpa using hc
    have hs : ∀ c ∈ l, (p == c) = false ∧ (c == p) = false := by
      intro c hcm
      have hne : p ≠ c := fun h => hnm (h ▸ hcm)
      exact ⟨by simpa using hne, by simpa using fun h : c = p => hne h.symm⟩
    rw [InsertPt.generated_insert (fun c q => Pt.dist2 q c) (fun a b => a == b) angle (fun a b q => ptSegDist2 q a b) l p (t * t) h2 hs]
    unfold Snap.insertGeo
    simp only [hc, Bool.false_eq_true, if_false]
    rw [segs_eq_range l p]
    simp only [List.map_map, Function.comp_def]
    -- the two ends of the closest segment, read with either default
    generalize hj : Snap.argminIdx (List.map (fun i => ptSegDist2 p (l.getD i p) (l.getD (i + 1) p)) (List.range (l.length - 1))) = j
    have hjlt : j < l.length - 1 := by
      rw [← hj]
      have := InsertPt.argminIdx_lt (List.map (fun i => ptSegDist2 p (l.getD i p) (l.getD (i + 1) p)) (List.range (l.length - 1)))
        (by intro h; have := congrArg List.length h; simp at this; omega)
      simpa using this
    have e1 : l.getD j default = l.getD j p := by
      rw [List.getD_eq_getElem?_getD, List.getD_eq_getElem?_getD, List.getElem?_eq_getElem (by omega)]; rfl
    have e2 : l.getD (j + 1) default = l.getD (j + 1) p := by
      rw [List.getD_eq_getElem?_getD, List.getD_eq_getElem?_getD, List.getElem?_eq_getElem (by omega)]; rfl
    simp only [e1, e2]

/-! ### the regenerated snapping pass -/

/-- **The regenerated `simple_snap` IS the model's first stage for one trace** (exact squared distances for the distance
parameters): candidate pre-filter, replacement dictionary built candidate by candidate and end by end, already-snapped skip, nearest
interior vertex within the threshold (first minimum = head of the stable sort), overlapping-snap skip, ValueError on a second
replacement, rewrite of the coordinates. -/
theorem C06_generated_simple_snap (t : Rat) (trace : Polyline) (cands : List Polyline) :
    SnapStageL.simpleSnapG trace cands t = SnapL.simpleSnap t trace cands :=
  SimpleSnapL.generated_simple_snap t trace cands

/-- **The regenerated `snap_traces` IS the model's snapping pass.** `resolve_trace_candidates`, `snap_trace_simple`,
`snap_others_to_trace` and `snap_traces` are regenerated whole and call the regenerated `simple_snap`,
`is_endpoint_close_to_boundary`, `snap_trace_to_another` (whose vertex insertion is `C06_generated_insert_point`). For every list of
traces, threshold, areas and either candidate order of the spatial index, with distance parameters whose comparison with the
threshold is the exact squared comparison, the regenerated pass equals `SnapL.snapPass` -- results, change flag and both
ValueErrors. Together with `C06_generated_driver` the whole snapping stage of `branches_and_nodes` is regenerated code, and
`C06_quiet_pass_identity`, `C06_loop_bound`, `C06_pass_keeps_rows`, `C04_pass_stays_within_threshold`, `C01_snap_stage_identity`
are theorems about it. -/
theorem C06_generated_snap_traces (ord : SnapL.Ord) (t : Rat) (areas : List Polygon) (traces : List Polyline)
    (dist : Pt → Polyline → Rat) (bdist : Pt → Polygon → Rat)
    (hdist : ∀ ep l, decide (dist ep l < t) = SnapL.near t ep l)
    (hbd : ∀ ep (pg : Polygon), decide (bdist ep pg < t) = decide (pg.boundaryDist2 ep < t * t)) :
    Gen.snap_traces SnapStageL.boundsE (SnapStageL.indexE ord) SnapStageL.simpleSnapG SnapL.ends bdist dist (fun ep l => SnapL.onLine ep l)
        (fun l ep thr => Snap.insertGeo l ep thr) traces t (some areas)
      = SnapL.snapPass ord t (t * 20) areas traces :=
  SnapStageL.generated_snap_traces ord t areas traces dist bdist hdist hbd

/-- the distance laws are satisfiable for every positive threshold (threshold-clamped exact distances), and on the T-abutment
1/200 short of its target the regenerated pass inserts the end into the target -/
example : (∀ ep l, decide (SnapStageL.distC (1 / 100) ep l < 1 / 100) = SnapL.near (1 / 100) ep l) ∧
    (match Gen.snap_traces SnapStageL.boundsE (SnapStageL.indexE .asc) SnapStageL.simpleSnapG SnapL.ends (SnapStageL.bdistC (1 / 100)) (SnapStageL.distC (1 / 100))
        (fun ep l => SnapL.onLine ep l) (fun l ep thr => Snap.insertGeo l ep thr) [[⟨0, 0⟩, ⟨10, 0⟩], [⟨5, 1 / 200⟩, ⟨5, 4⟩]] (1 / 100) (some []) with
      | .ok (tr, ch) => tr == [[⟨0, 0⟩, ⟨5, 1 / 200⟩, ⟨10, 0⟩], [⟨5, 1 / 200⟩, ⟨5, 4⟩]] && ch
      | .error _ => false) = true :=
  ⟨fun ep l => SnapStageL.distC_law _ (by decide +kernel) ep l, by decide +kernel⟩

/-- non-vacuity: the doctest of `insert_point_to_linestring` through the regenerated code -/
example : Gen.insert_point_to_linestring (fun c q => Pt.dist2 q c) (fun a b => a == b) (fun _ _ _ => 0) (fun a b q => ptSegDist2 q a b)
    [⟨0, 0⟩, ⟨1, 0⟩, ⟨2, 0⟩, ⟨3, 0⟩] ⟨5 / 4, 1 / 10⟩ ((1 / 100) * (1 / 100)) = [⟨0, 0⟩, ⟨1, 0⟩, ⟨5 / 4, 1 / 10⟩, ⟨2, 0⟩, ⟨3, 0⟩] := by decide +kernel

end C06
