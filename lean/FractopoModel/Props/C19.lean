import FractopoModel.Model.Cli
import FractopoModel.Generated.Cli
import FractopoModel.Generated.ErrorColumn
import FractopoModel.Generated.GeoReader
import FractopoModel.Spec.Validators
/-!
# C19 — CLI and file round trips
-/
namespace C19
open Cli

/-- **Inputs are left untouched.** After `tracevalidate`, every path other than the output path
holds exactly what it held before -- in particular both input files, unless one of them was
named as the output; the output path holds the computed content (an existing file is replaced). -/
theorem C19_inputs_untouched {C : Type} (fs fs' : FS C) (tp ap op : String) (compute : C → C → C)
    (h : tracevalidate fs tp ap op compute = some fs') :
    (∀ p, p ≠ op → fs' p = fs p) ∧ (∃ t a, fs tp = some t ∧ fs ap = some a ∧ fs' op = some (compute t a)) := by
  unfold tracevalidate at h
  cases ht : fs tp with
  | none => simp [ht] at h
  | some t =>
    cases ha : fs ap with
    | none => simp [ht, ha] at h
    | some a =>
      simp only [ht, ha, Option.some.injEq] at h
      subst h
      refine ⟨?_, t, a, rfl, rfl, ?_⟩
      · intro p hp
        simp only [FS.write, hp, if_false]
        split
        · simp [FS.unlink, hp]
        · rfl
      · simp [FS.write]

/-- the written content depends only on the two input contents (and the options inside `compute`),
not on what was at the output path before -/
theorem C19_output_replaced {C : Type} (fs : FS C) (tp ap op : String) (compute : C → C → C) (old : C)
    (hop : op ≠ tp) (hop2 : op ≠ ap) (fs1 fs2 : FS C)
    (h1 : tracevalidate fs tp ap op compute = some fs1)
    (h2 : tracevalidate (fs.write op old) tp ap op compute = some fs2) : fs1 op = fs2 op := by
  obtain ⟨_, t, a, ht, ha, e1⟩ := C19_inputs_untouched fs fs1 tp ap op compute h1
  obtain ⟨_, t', a', ht', ha', e2⟩ := C19_inputs_untouched _ fs2 tp ap op compute h2
  have : (fs.write op old) tp = fs tp := by simp [FS.write, Ne.symm hop]
  rw [this, ht] at ht'
  have : (fs.write op old) ap = fs ap := by simp [FS.write, Ne.symm hop2]
  rw [this, ha] at ha'
  cases ht'; cases ha'
  rw [e1, e2]

/-- regenerated option plumbing: defaults, options handed through to the library unchanged,
`--only-area-validation` chooses exactly the area validator, the only deletion is the output path -/
theorem C19_options :
    Gen.tracevalidate_defaults = [("allow_fix", "True"), ("summary", "True"), ("snap_threshold", "0.001"), ("output", "None"),
      ("only_area_validation", "False"), ("allow_empty_area", "True")] ∧
    Gen.network_defaults = [("snap_threshold", "0.001"), ("determine_branches_nodes", "True"), ("name", "None"),
      ("circular_target_area", "False"), ("truncate_traces", "True")] ∧
    Gen.only_area_validators = [Spec.vArea.name] ∧ Gen.tracevalidate_deletes = ["output_path"] ∧
    Gen.tracevalidate_passes_options_through = true ∧ Gen.network_passes_options_through = true := by decide

theorem parse_inStr (a rest acc : List Char) (items : List (List Char)) (hq : '\'' ∉ a) :
    parseGoC (a ++ '\'' :: rest) .inStr acc items = parseGoC rest .afterStr [] ((acc.reverse ++ a) :: items) := by
  induction a generalizing acc with
  | nil => simp [parseGoC]
  | cons c cs ih =>
    have hc : c ≠ '\'' := fun h => hq (by simp [h])
    have hcs : '\'' ∉ cs := fun h => hq (by simp [h])
    simp only [List.cons_append, parseGoC, hc, if_false]
    rw [ih (c :: acc) hcs]
    simp

theorem parse_items (l : List (List Char)) (hne : l ≠ []) (hq : ∀ a ∈ l, '\'' ∉ a) (items : List (List Char)) :
    parseGoC (itemsC l) .out [] items = some (items.reverse ++ l) := by
  induction l generalizing items with
  | nil => exact absurd rfl hne
  | cons a rest ih =>
    cases rest with
    | nil =>
      simp only [itemsC, List.cons_append, parseGoC, if_true]
      rw [parse_inStr a [')'] [] items (hq a (by simp))]
      simp [parseGoC]
    | cons b rest' =>
      simp only [itemsC, List.cons_append, parseGoC, if_true]
      rw [parse_inStr a _ [] items (hq a (by simp))]
      simp only [parseGoC, if_true, List.reverse_nil, List.nil_append]
      rw [ih (by simp) (fun x hx => hq x (List.mem_cons_of_mem _ hx)) (a :: items)]
      simp

/-- **The written text determines the tuple.** For every tuple of quote-free strings (all
documented error strings are), parsing the Python text of the tuple gives the tuple back; so the
error column written by the CLI carries exactly the library's validation result. -/
theorem C19_repr_parse (l : List (List Char)) (hq : ∀ a ∈ l, '\'' ∉ a) : parseTupleC (pyTupleReprC l) = some l := by
  match l with
  | [] => simp [pyTupleReprC, parseTupleC, parseGoC]
  | [a] =>
    simp only [pyTupleReprC, List.cons_append, parseTupleC, parseGoC, if_true]
    rw [parse_inStr a [',', ')'] [] [] (hq a (by simp))]
    simp [parseGoC]
  | a :: b :: rest =>
    simp only [pyTupleReprC, parseTupleC]
    rw [parse_items (a :: b :: rest) (by simp) hq []]
    simp

theorem C19_repr_injective (l l' : List (List Char)) (hq : ∀ a ∈ l, '\'' ∉ a) (hq' : ∀ a ∈ l', '\'' ∉ a)
    (h : pyTupleReprC l = pyTupleReprC l') : l = l' := by
  have h1 := C19_repr_parse l hq
  have h2 := C19_repr_parse l' hq'
  rw [h] at h1; rw [h1] at h2; exact Option.some.inj h2

/-- **The error column under its Shapefile name.** A Shapefile keeps the first 10 characters of a field name (dBase; the behaviour of the
driver is what S19-tracevalidate observes). The regenerated `ERROR_COLUMN_TRUNC` is exactly the first 10 characters of the error column name, for
every name (shorter names unchanged), so the column a validated Shapefile carries is one of the two that `run_validation` drops from its input
before validating again (`Gen.stale_columns`, shape-checked) -- a re-validated file gets fresh errors under the same single column. -/
theorem C19_error_column_shapefile_name (col : List Char) :
    Gen.error_column_trunc col = col.take 10 ∧ col.take 10 ∈ Gen.stale_columns col ∧ col ∈ Gen.stale_columns col := by
  have h : Gen.error_column_trunc col = col.take 10 := by
    unfold Gen.error_column_trunc pySliceL
    by_cases hl : col.length > 9
    · simp [hl]
    · have : col.length ≤ 10 := by omega
      simp [hl, List.take_of_length_le this]
  exact ⟨h, by simp [Gen.stale_columns, h], by simp [Gen.stale_columns]⟩

example : String.ofList (Gen.error_column_trunc Gen.error_column) = "VALIDATION" ∧ String.ofList Gen.error_column = "VALIDATION_ERRORS" := by decide

example : String.ofList (pyTupleReprC ["V NODE".toList]) = "('V NODE',)" ∧ pyTupleReprC [] = "()".toList := by decide


/-! ## the package's reader (regenerated `read_geofile`) -/

/-- **The reader returns what the file holds now.** Regenerated `read_geofile` in closed form: the frame `gpd.read_file` returns for the path at the time of the call,
TypeError when that is not a frame — nothing else enters (the item also checks that the function carries no decorator: no memo per path). -/
theorem C19_generated_reader {D : Type} (read_ : String → D) (is_frame : D → Bool) (p : String) :
    Gen.read_geofile read_ is_frame p = if is_frame (read_ p) then .ok (read_ p) else .error "TypeError" := by
  unfold Gen.read_geofile
  cases h : is_frame (read_ p) <;> simp [h]

/-- … so over any history of the file system — a path written, read, REWRITTEN — a read after the last write gives the last content written (and an earlier read the
earlier content): with the model's file system `Cli.FS` as the state behind `gpd.read_file`. -/
theorem C19_reader_sees_the_rewritten_file {C : Type} (fs : Cli.FS C) (p : String) (a b dflt : C) :
    Gen.read_geofile (fun q => ((fs.write p a) q).getD dflt) (fun _ => true) p = .ok a ∧
    Gen.read_geofile (fun q => (((fs.write p a).write p b) q).getD dflt) (fun _ => true) p = .ok b := by
  simp [C19_generated_reader, Cli.FS.write]

example : Gen.read_geofile (fun q => ((Cli.FS.write (Cli.FS.write (fun _ => none) "t.gpkg" (5 : Nat)) "t.gpkg" 4) q).getD 0) (fun _ => true) "t.gpkg" = .ok 4 := by
  simp [C19_generated_reader, Cli.FS.write]


end C19
