import FractopoModel.Basic.Geom
import FractopoModel.Generated.ValidationDefaults
import FractopoModel.Generated.IndexMargins
import FractopoModel.Generated.SnapConstants
import FractopoModel.Generated.JunctionShift
import FractopoModel.Props.C08
import FractopoModel.Generated.ValidationUtils
import FractopoModel.Lemmas.CropHelpers
/-!
# C16 — spatial indexing is a pure optimisation

A spatial-index query returns the features whose bounding box meets the query window.  If the
window is the bounding box of a geometry extended by a margin `μ`, then every feature that has
a point within distance `τ ≤ μ` of a point of the geometry is returned; so filtering the query
result by any predicate that implies "within τ" equals filtering ALL features.
The margins are regenerated from the call sites and compared with the distances the consuming
code tests.
-/
namespace C16

structure BoxP where
  minx : Rat
  miny : Rat
  maxx : Rat
  maxy : Rat

def BoxP.contains (b : BoxP) (p : Pt) : Prop := b.minx ≤ p.x ∧ p.x ≤ b.maxx ∧ b.miny ≤ p.y ∧ p.y ≤ b.maxy
def BoxP.expand (b : BoxP) (m : Rat) : BoxP := ⟨b.minx - m, b.miny - m, b.maxx + m, b.maxy + m⟩
def BoxP.meets (a b : BoxP) : Prop := a.minx ≤ b.maxx ∧ b.minx ≤ a.maxx ∧ a.miny ≤ b.maxy ∧ b.miny ≤ a.maxy

instance (a b : BoxP) : Decidable (a.meets b) := by unfold BoxP.meets; infer_instance

theorem lt_of_sq_lt (a b : Rat) (hb : 0 ≤ b) (h : a * a < b * b) : a < b := by
  by_cases hab : a < b
  · exact hab
  · have hba : b ≤ a := by grind
    have h1 : b * b ≤ a * b := Rat.mul_le_mul_of_nonneg_right hba hb
    have h2 : a * b ≤ a * a := Rat.mul_le_mul_of_nonneg_left hba (by grind)
    grind

theorem sq_nonneg' (a : Rat) : 0 ≤ a * a := by
  by_cases h : 0 ≤ a
  · exact Rat.mul_nonneg h h
  · have : 0 ≤ -a := by grind
    have := Rat.mul_nonneg this this
    grind

/-- the coordinates of two points closer than `τ` differ by less than `τ` -/
theorem coords_close (p q : Pt) (τ : Rat) (hτ : 0 ≤ τ) (h : Pt.dist2 p q < τ * τ) :
    p.x - q.x < τ ∧ q.x - p.x < τ ∧ p.y - q.y < τ ∧ q.y - p.y < τ := by
  simp only [Pt.dist2, Pt.sub, Pt.dot] at h
  have hx := sq_nonneg' (p.x - q.x)
  have hy := sq_nonneg' (p.y - q.y)
  refine ⟨lt_of_sq_lt _ _ hτ (by grind), lt_of_sq_lt _ _ hτ (by grind), lt_of_sq_lt _ _ hτ (by grind), lt_of_sq_lt _ _ hτ (by grind)⟩

/-- **Boxes of close geometries meet.** If some point of a geometry (inside its box `A`) is closer
than `τ` to some point of a feature (inside its box `B`), then `B` meets `A` extended by any
margin `μ ≥ τ`. -/
theorem C16_bbox_of_close (A B : BoxP) (p q : Pt) (τ μ : Rat) (hτ : 0 ≤ τ) (hμ : τ ≤ μ)
    (hp : A.contains p) (hq : B.contains q) (h : Pt.dist2 p q < τ * τ) : (A.expand μ).meets B := by
  obtain ⟨h1, h2, h3, h4⟩ := coords_close p q τ hτ h
  simp only [BoxP.contains] at hp hq
  simp only [BoxP.meets, BoxP.expand]
  refine ⟨?_, ?_, ?_, ?_⟩ <;> grind

/-- touching geometries (`τ = 0`: a common point) have meeting boxes with margin 0 -/
theorem C16_bbox_of_touching (A B : BoxP) (p : Pt) (hp : A.contains p) (hq : B.contains p) : (A.expand 0).meets B := by
  simp only [BoxP.contains] at hp hq
  simp only [BoxP.meets, BoxP.expand]
  refine ⟨?_, ?_, ?_, ?_⟩ <;> grind

/-- a point of a segment lies in every box that contains the segment's ends -/
theorem C16_lerp_in_box (A : BoxP) (a b : Pt) (t : Rat) (h0 : 0 ≤ t) (h1 : t ≤ 1) (ha : A.contains a) (hb : A.contains b) :
    A.contains (Pt.lerp a b t) := by
  simp only [BoxP.contains, Pt.lerp] at *
  have k1 : ∀ u v lo : Rat, lo ≤ u → lo ≤ v → lo ≤ u + t * (v - u) := by
    intro u v lo hu hv
    have e : u + t * (v - u) = (1 - t) * u + t * v := by grind
    have a1 : (1 - t) * lo ≤ (1 - t) * u := Rat.mul_le_mul_of_nonneg_left hu (by grind)
    have a2 : t * lo ≤ t * v := Rat.mul_le_mul_of_nonneg_left hv h0
    grind
  have k2 : ∀ u v hi : Rat, u ≤ hi → v ≤ hi → u + t * (v - u) ≤ hi := by
    intro u v hi hu hv
    have a1 : (1 - t) * u ≤ (1 - t) * hi := Rat.mul_le_mul_of_nonneg_left hu (by grind)
    have a2 : t * v ≤ t * hi := Rat.mul_le_mul_of_nonneg_left hv h0
    grind
  exact ⟨k1 _ _ _ ha.1 hb.1, k2 _ _ _ ha.2.1 hb.2.1, k1 _ _ _ ha.2.2.1 hb.2.2.1, k2 _ _ _ ha.2.2.2 hb.2.2.2⟩

/-- **Transparency of a windowed query.** `feats` with boxes; the query keeps the features whose
box meets the window `A.expand μ`; `near f` says some point of the geometry is within `τ` of some
point of `f` (witnessed inside the boxes).  For any predicate that implies `near`, filtering the
query result equals filtering all features. -/
theorem C16_transparent {F : Type} (feats : List F) (box : F → BoxP) (A : BoxP) (τ μ : Rat) (hτ : 0 ≤ τ) (hμ : τ ≤ μ)
    (pred : F → Bool)
    (hnear : ∀ f ∈ feats, pred f = true → ∃ p q, A.contains p ∧ (box f).contains q ∧ Pt.dist2 p q < τ * τ) :
    (feats.filter fun f => decide ((A.expand μ).meets (box f))).filter pred = feats.filter pred := by
  rw [List.filter_filter]
  apply List.filter_congr
  intro f hf
  cases hp : pred f
  · simp
  · obtain ⟨p, q, h1, h2, h3⟩ := hnear f hf hp
    have := C16_bbox_of_close A (box f) p q τ μ hτ hμ h1 h2 h3
    simp [this]

/-! ### the margins at the call sites (regenerated) against the distances the consumers test -/

/-- validation candidates: the window is extended by threshold x error multiplier x stacking-buffer
multiplier, which bounds every distance a candidate-consuming validator tests (threshold,
threshold x multiplier, stacking buffer) whenever both multipliers are >= 1 -/
theorem C16_validation_margin (t m k : Rat) (ht : 0 ≤ t) (hm : 1 ≤ m) (hk : 1 ≤ k) :
    t ≤ Gen.candidate_window_margin t m k ∧ t * m ≤ Gen.candidate_window_margin t m k ∧
    t * m * k ≤ Gen.candidate_window_margin t m k := by
  unfold Gen.candidate_window_margin
  have h1 : t * 1 ≤ t * m := Rat.mul_le_mul_of_nonneg_left hm ht
  have htm : 0 ≤ t * m := Rat.mul_nonneg ht (by grind)
  have h2 : t * m * 1 ≤ t * m * k := Rat.mul_le_mul_of_nonneg_left hk htm
  refine ⟨by grind, by grind, by grind⟩

/-- snapping candidates (20 t ≥ t), junction candidates (10·t·m ≥ t·m), boundary candidates
(100 t ≥ t), proximal traces (5 b ≥ b) -/
theorem C16_other_margins (t m b : Rat) (ht : 0 ≤ t) (hm : 0 ≤ m) (hb : 0 ≤ b) (minx miny maxx maxy : Rat) :
    Gen.snap_extended_bounds minx miny maxx maxy t = (minx - 20 * t, miny - 20 * t, maxx + 20 * t, maxy + 20 * t) ∧
    t ≤ 20 * t ∧
    Gen.junction_distance t m ≤ Gen.junction_window_margin t m ∧
    t ≤ Gen.boundary_window_margin t ∧
    Gen.extend_bounds minx miny maxx maxy (Gen.boundary_window_margin t) = (minx - 100 * t, miny - 100 * t, maxx + 100 * t, maxy + 100 * t) ∧
    b ≤ Gen.proximal_window_margin b := by
  have htm : 0 ≤ t * m := Rat.mul_nonneg ht hm
  unfold Gen.snap_extended_bounds Gen.junction_distance Gen.junction_window_margin Gen.boundary_window_margin Gen.extend_bounds Gen.proximal_window_margin
  refine ⟨?_, by grind, by grind, by grind, ?_, by grind⟩
  · simp only [Prod.mk.injEq]; refine ⟨?_, ?_, ?_, ?_⟩ <;> grind
  · simp only [Prod.mk.injEq]; refine ⟨?_, ?_, ?_, ?_⟩ <;> grind

/-- the defaults satisfy the hypotheses of `C16_validation_margin` -/
theorem C16_defaults : 0 ≤ Gen.SNAP_THRESHOLD ∧ 1 ≤ Gen.SNAP_THRESHOLD_ERROR_MULTIPLIER ∧ 1 ≤ Gen.STACKED_DETECTOR_BUFFER_MULTIPLIER := by
  decide +kernel

example : (BoxP.expand ⟨0, 0, 1, 0⟩ (11 / 1000)).meets ⟨0, 1 / 100, 1, 1 / 100⟩ := by decide +kernel

/-! ### the candidate window of `determine_boundary_intersecting_lines` is transparent -/

section BoundaryLines
variable {A L P : Type}

/-- **Boundary-intersection flags do not depend on the candidate window.** For the regenerated loops of
`determine_boundary_intersecting_lines`: any two window queries that both return every line lying strictly within the threshold of
an area's boundary (whatever else they return, in whatever order, however many areas have an EMPTY window, in whatever row
position) give the same two flag arrays -- in particular the spatial index and the return-everything index agree. -/
theorem C16_boundary_lines_transparent (areas : List A) (wq1 wq2 : A → List Nat) (line_at : Nat → L) (ldist : L → A → Rat) (ends_of : L → List P)
    (pdist : P → A → Rat) (within : P → A → Bool) (touches : L → A → Bool) (iv : List Nat) (t : Rat)
    (h1 : ∀ a ∈ areas, ∀ c ∈ iv, C08.nearB line_at ldist t a c = true → c ∈ wq1 a)
    (h2 : ∀ a ∈ areas, ∀ c ∈ iv, C08.nearB line_at ldist t a c = true → c ∈ wq2 a) :
    Gen.boundary_intersecting_lines areas wq1 line_at ldist ends_of pdist within touches iv t
      = Gen.boundary_intersecting_lines areas wq2 line_at ldist ends_of pdist within touches iv t := by
  have key : ∀ (wq : A → List Nat), (∀ a ∈ areas, ∀ c ∈ iv, C08.nearB line_at ldist t a c = true → c ∈ wq a) →
      ∀ (g : A → Nat → Bool), ∀ idx ∈ iv,
        (areas.any fun a => (wq a).any fun c => c == idx && (C08.nearB line_at ldist t a c && g a c))
          = areas.any fun a => C08.nearB line_at ldist t a idx && g a idx := by
    intro wq hw g idx hidx
    rw [Bool.eq_iff_iff]
    simp only [List.any_eq_true, Bool.and_eq_true, beq_iff_eq]
    constructor
    · rintro ⟨a, ha, c, _, rfl, hn, hg⟩; exact ⟨a, ha, hn, hg⟩
    · rintro ⟨a, ha, hn, hg⟩; exact ⟨a, ha, idx, hw a ha idx hidx hn, rfl, hn, hg⟩
  rw [C08.C08_generated_boundary_lines, C08.C08_generated_boundary_lines]
  have e1 : ∀ (wq : A → List Nat), (∀ a ∈ areas, ∀ c ∈ iv, C08.nearB line_at ldist t a c = true → c ∈ wq a) →
      (iv.map fun idx => areas.any fun a => (wq a).any fun c => c == idx && C08.nearB line_at ldist t a c)
        = iv.map fun idx => areas.any fun a => C08.nearB line_at ldist t a idx := by
    intro wq hw
    apply List.map_congr_left
    intro idx hidx
    have := key wq hw (fun _ _ => true) idx hidx
    simpa using this
  have e2 : ∀ (wq : A → List Nat), (∀ a ∈ areas, ∀ c ∈ iv, C08.nearB line_at ldist t a c = true → c ∈ wq a) →
      (iv.map fun idx => areas.any fun a => (wq a).any fun c => c == idx && (C08.nearB line_at ldist t a c && C08.cutsB line_at ends_of pdist within touches t a c))
        = iv.map fun idx => areas.any fun a => C08.nearB line_at ldist t a idx && C08.cutsB line_at ends_of pdist within touches t a idx := by
    intro wq hw
    apply List.map_congr_left
    intro idx hidx
    exact key wq hw (fun a c => C08.cutsB line_at ends_of pdist within touches t a c) idx hidx
  rw [e1 wq1 h1, e1 wq2 h2, e2 wq1 h1, e2 wq2 h2]

end BoundaryLines

/-! ### the candidate search of the validators -/

section Candidates
variable {G : Type}

/-- **What `determine_trace_candidates` returns** (regenerated): the traces at the positions the index reports for the bounds of the
trace extended by `extend_bounds_by` on every side, the trace's own position removed (a `ValueError` of `list.remove` when the index
does not report it), non-LineStrings dropped, in index order. -/
theorem C16_generated_validation_candidates (bounds_of : G → Rat × Rat × Rat × Rat) (index_query : Rat × Rat × Rat × Rat → List Nat) (is_ls : G → Bool)
    (geom : G) (idx : Nat) (traces : List G) (e : Rat) :
    Gen.determine_trace_candidates bounds_of index_query is_ls geom idx traces e =
      (let b := bounds_of geom
       let hits := index_query (b.1 - e, b.2.1 - e, b.2.2.1 + e, b.2.2.2 + e)
       if hits.contains idx then .ok (((hits.erase idx).filterMap fun i => traces[i]?).filter is_ls) else .error "ValueError") := by
  unfold Gen.determine_trace_candidates
  obtain ⟨a, b, c, d⟩ := bounds_of geom
  simp only [Bool.false_eq_true, if_false, List.elem_eq_contains]
  split <;> simp_all

/-- **Every trace within reach is a candidate**: if the index reports every position whose bounds meet the window (the law of a
spatial index: it may report more, never less) then every LineString trace other than the validated one whose bounds meet the
extended window is among the candidates -- whatever else the index reports. With `C16_validation_margin` (the window extension
covers every validator's reach) no verdict can depend on the index. -/
theorem C16_candidates_complete (bounds_of : G → Rat × Rat × Rat × Rat) (index_query : Rat × Rat × Rat × Rat → List Nat) (is_ls : G → Bool)
    (geom : G) (idx : Nat) (traces : List G) (e : Rat) (cands : List G) (j : Nat) (g : G)
    (h : Gen.determine_trace_candidates bounds_of index_query is_ls geom idx traces e = .ok cands)
    (hj : j ∈ index_query ((bounds_of geom).1 - e, (bounds_of geom).2.1 - e, (bounds_of geom).2.2.1 + e, (bounds_of geom).2.2.2 + e))
    (hne : j ≠ idx) (hg : traces[j]? = some g) (hls : is_ls g = true) : g ∈ cands := by
  rw [C16_generated_validation_candidates] at h
  simp only at h
  split at h
  · cases h
    rw [List.mem_filter]
    refine ⟨?_, hls⟩
    rw [List.mem_filterMap]
    exact ⟨j, (List.mem_erase_of_ne hne).mpr hj, hg⟩
  · cases h

end Candidates

/-! ### the empty-target-area test -/

section EmptyArea
variable {A G : Type}

/-- **The empty-area test does not depend on the index**: for the regenerated `is_empty_area`, whenever the window of every area row
reports (at least) every trace that meets the row -- and only valid positions -- the answer is "no trace meets any area row",
whatever else the windows report. -/
theorem C16_empty_area_transparent (window : A → List Nat) (meets : G → A → Bool) (area : List A) (traces : List G)
    (hw : ∀ a ∈ area, ∀ (i : Nat) (tr : G), traces[i]? = some tr → meets tr a = true → i ∈ window a) :
    Gen.is_empty_area window meets area traces = !(area.any fun a => traces.any fun tr => meets tr a) := by
  rw [CropH.generated_is_empty_area]
  congr 1
  rw [Bool.eq_iff_iff]
  simp only [List.any_eq_true, List.mem_filterMap]
  constructor
  · rintro ⟨a, ha, tr, ⟨i, _, hi⟩, hm⟩
    exact ⟨a, ha, tr, List.mem_of_getElem? hi, hm⟩
  · rintro ⟨a, ha, tr, htr, hm⟩
    obtain ⟨i, hi⟩ := List.getElem?_of_mem htr
    exact ⟨a, ha, tr, ⟨i, hw a ha i tr hi hm, hi⟩, hm⟩

end EmptyArea

end C16
