import FractopoModel.Lemmas.TopoPerm
import FractopoModel.Props.C01
/-!
# C14 — equivalent routes agree; the topology is a fixed point

Every route ends in the same two steps: noding of the (cropped, snapped) traces, then degree
counting.  If two routes produce the same pieces up to order and direction (on valid maps both
produce the pieces of the arrangement: law `NodingSpec`, sampled by stream S14 on all four routes)
their node and branch tables are equal; and re-extraction from the branches, whose noding is the
identity up to order and direction (`NodingIdempotent`), reproduces the tables.
-/
namespace C14
open Topo
variable {P : Type} [DecidableEq P]

/-- Two routes whose noded pieces agree up to order and direction give the same node set, the
same class at every node, and the same label for every branch (in either direction). -/
theorem C14_routes (bs bs' : List (Branch P)) (h : SameUpToOrderDir bs bs')
    (nearB : P → Bool) (close : P → P → Bool) :
    (collect bs').Perm (collect bs) ∧
    (∀ p, nodeClass nearB Gen.degree_to_class bs' p = nodeClass nearB Gen.degree_to_class bs p) ∧
    (∀ br, branchLabel Gen.determine_branch_identity close (collect bs') (nodeClass nearB Gen.degree_to_class bs') br
        = branchLabel Gen.determine_branch_identity close (collect bs) (nodeClass nearB Gen.degree_to_class bs) br) ∧
    (∀ br, branchLabel Gen.determine_branch_identity close (collect bs) (nodeClass nearB Gen.degree_to_class bs) br.rev
        = branchLabel Gen.determine_branch_identity close (collect bs) (nodeClass nearB Gen.degree_to_class bs) br) := by
  refine ⟨collect_same h, fun p => nodeClass_same h _ _ p, ?_, fun br => branchLabel_rev _ _ _ _ br⟩
  intro br
  have hc : nodeClass nearB Gen.degree_to_class bs' = nodeClass nearB Gen.degree_to_class bs := by
    funext p; exact nodeClass_same h _ _ p
  rw [hc]
  exact branchLabel_nodes_perm _ _ (collect_same h) _ br

/-- Fixed point: extracting again from the produced branches (noding idempotent up to order and
direction) reproduces the node set, every class and every label. -/
theorem C14_fixed_point (bs renoded : List (Branch P)) (idem : SameUpToOrderDir bs renoded)
    (nearB : P → Bool) (close : P → P → Bool) :
    (collect renoded).Perm (collect bs) ∧
    (∀ p, nodeClass nearB Gen.degree_to_class renoded p = nodeClass nearB Gen.degree_to_class bs p) :=
  ⟨(C14_routes bs renoded idem nearB close).1, (C14_routes bs renoded idem nearB close).2.1⟩

/-- counts are functions of the class column: equal node tables give equal counts -/
theorem C14_counts_of_classes (nodes nodes' : List P) (cls cls' : P → String) (hp : nodes'.Perm nodes)
    (hc : ∀ p, cls' p = cls p) (c : String) :
    (nodes'.filter fun p => cls' p == c).length = (nodes.filter fun p => cls p == c).length := by
  have : (fun p => cls' p == c) = (fun p => cls p == c) := by funext p; rw [hc]
  rw [this]; exact (hp.filter _).length_eq

example : SameUpToOrderDir [(⟨1, 2⟩ : Branch Nat), ⟨2, 3⟩] [⟨3, 2⟩, ⟨1, 2⟩] :=
  ⟨[false, true], rfl, by decide⟩

end C14
