import FractopoModel.Generated.NetworkInit
import FractopoModel.Lemmas.TopoPerm
import FractopoModel.Props.C01
/-!
# C14 — equivalent routes agree; the topology is a fixed point

Every route ends in the same two steps: noding of the (cropped, snapped) traces, then degree
counting.  If two routes produce the same pieces up to order and direction (on valid maps both
produce the pieces of the arrangement: law `NodingSpec`, sampled by stream S14 on all four routes)
their node and branch tables are equal; and re-extraction from the branches, whose noding is the
identity up to order and direction (`NodingIdempotent`), reproduces the tables.
-/
namespace C14
open Topo
variable {P : Type} [DecidableEq P]

/-- Two routes whose noded pieces agree up to order and direction give the same node set, the
same class at every node, and the same label for every branch (in either direction). -/
theorem C14_routes (bs bs' : List (Branch P)) (h : SameUpToOrderDir bs bs')
    (nearB : P → Bool) (close : P → P → Bool) :
    (collect bs').Perm (collect bs) ∧
    (∀ p, nodeClass nearB Gen.degree_to_class bs' p = nodeClass nearB Gen.degree_to_class bs p) ∧
    (∀ br, branchLabel Gen.determine_branch_identity close (collect bs') (nodeClass nearB Gen.degree_to_class bs') br
        = branchLabel Gen.determine_branch_identity close (collect bs) (nodeClass nearB Gen.degree_to_class bs) br) ∧
    (∀ br, branchLabel Gen.determine_branch_identity close (collect bs) (nodeClass nearB Gen.degree_to_class bs) br.rev
        = branchLabel Gen.determine_branch_identity close (collect bs) (nodeClass nearB Gen.degree_to_class bs) br) := by
  refine ⟨collect_same h, fun p => nodeClass_same h _ _ p, ?_, fun br => branchLabel_rev _ _ _ _ br⟩
  intro br
  have hc : nodeClass nearB Gen.degree_to_class bs' = nodeClass nearB Gen.degree_to_class bs := by
    funext p; exact nodeClass_same h _ _ p
  rw [hc]
  exact branchLabel_nodes_perm _ _ (collect_same h) _ br

/-- Fixed point: extracting again from the produced branches (noding idempotent up to order and
direction) reproduces the node set, every class and every label. -/
theorem C14_fixed_point (bs renoded : List (Branch P)) (idem : SameUpToOrderDir bs renoded)
    (nearB : P → Bool) (close : P → P → Bool) :
    (collect renoded).Perm (collect bs) ∧
    (∀ p, nodeClass nearB Gen.degree_to_class renoded p = nodeClass nearB Gen.degree_to_class bs p) :=
  ⟨(C14_routes bs renoded idem nearB close).1, (C14_routes bs renoded idem nearB close).2.1⟩

/-- counts are functions of the class column: equal node tables give equal counts -/
theorem C14_counts_of_classes (nodes nodes' : List P) (cls cls' : P → String) (hp : nodes'.Perm nodes)
    (hc : ∀ p, cls' p = cls p) (c : String) :
    (nodes'.filter fun p => cls' p == c).length = (nodes.filter fun p => cls p == c).length := by
  have : (fun p => cls' p == c) = (fun p => cls p == c) := by funext p; rw [hc]
  rw [this]; exact (hp.filter _).length_eq

/-! ### the two entry routes of the regenerated `branches_and_nodes` -/

section Routes
variable {G A Pg U N : Type}

/-- **`already_clipped` only decides who crops.** For the regenerated orchestration, with every stage an arbitrary function: calling
it with `already_clipped = True` on traces `X` and with `already_clipped = False` on traces `Y` gives the same result -- branches,
labels, nodes, classes or the same exception -- whenever the prepared trace lists agree, i.e. whenever `X`, deduplicated and
restricted to LineStrings, is what cropping `Y` (deduplicated, LineStrings) to the areas yields. Nothing downstream (snapping,
length filters, noding, tables) looks at the flag. -/
theorem C14_generated_routes (dedupe : List G → List G) (polys_of : A → List Pg) (is_ls : G → Bool) (crop : List G → List A → List G)
    (snap_ : List G → Rat → List Pg → Except String (List G × Bool)) (len : G → Rat) (union_all : List G → U) (u_is_multi u_is_line : U → Bool)
    (u_parts : U → List G) (node_table : List G → List A → Rat → List N × List String) (branch_labels : List G → List N → List String → Rat → List String)
    (X Y : List G) (areas : List A) (t : Rat) (allowed fuel : Nat)
    (h : (dedupe X).filter is_ls = (crop ((dedupe Y).filter is_ls) areas).filter is_ls) :
    Gen.branches_and_nodes dedupe polys_of is_ls crop snap_ len union_all u_is_multi u_is_line u_parts node_table branch_labels X areas t allowed true fuel
      = Gen.branches_and_nodes dedupe polys_of is_ls crop snap_ len union_all u_is_multi u_is_line u_parts node_table branch_labels Y areas t allowed false fuel := by
  rw [Pipeline.generated_pipeline, Pipeline.generated_pipeline]
  have : Pipeline.prepared dedupe is_ls crop X areas true = Pipeline.prepared dedupe is_ls crop Y areas false := by
    simp only [Pipeline.prepared, if_true, Bool.false_eq_true, if_false]; exact h
  rw [this]

/-- the natural instance: handing over the traces one cropped oneself (already deduplicated LineStrings) -/
theorem C14_generated_routes_cropped (dedupe : List G → List G) (polys_of : A → List Pg) (is_ls : G → Bool) (crop : List G → List A → List G)
    (snap_ : List G → Rat → List Pg → Except String (List G × Bool)) (len : G → Rat) (union_all : List G → U) (u_is_multi u_is_line : U → Bool)
    (u_parts : U → List G) (node_table : List G → List A → Rat → List N × List String) (branch_labels : List G → List N → List String → Rat → List String)
    (Y : List G) (areas : List A) (t : Rat) (allowed fuel : Nat)
    (hd : dedupe ((crop ((dedupe Y).filter is_ls) areas).filter is_ls) = (crop ((dedupe Y).filter is_ls) areas).filter is_ls) :
    Gen.branches_and_nodes dedupe polys_of is_ls crop snap_ len union_all u_is_multi u_is_line u_parts node_table branch_labels
        ((crop ((dedupe Y).filter is_ls) areas).filter is_ls) areas t allowed true fuel
      = Gen.branches_and_nodes dedupe polys_of is_ls crop snap_ len union_all u_is_multi u_is_line u_parts node_table branch_labels Y areas t allowed false fuel := by
  apply C14_generated_routes
  rw [hd, List.filter_filter]
  simp

/-- **What the `Network(...)` route hands to `branches_and_nodes`** (`Network.__post_init__` regenerated; the call inside
`assign_branches_nodes` checked argument by argument). With a non-empty area and topology asked for but not given:
* `truncate_traces=True`: the COPY of the traces (z-coordinates dropped on request) are cropped first -- multi-part input refused, an empty crop is a
  ValueError -- and the CROPPED traces go to `branches_and_nodes` with `already_clipped=True`;
* `truncate_traces=False` (not allowed with a circular target area): the traces go in as they are with `already_clipped=False`.
By `C14_generated_routes` the two ways of getting the topology of cropped data therefore agree. -/
theorem C14_generated_network_route {G' A' : Type} (area_is_empty : A' → Bool) (copy_ : List G' → List G') (has_z : List G' → Bool) (drop_z : List G' → List G')
    (crop_ : List G' → A' → Bool → List G') (traces : List G') (area : A') (truncate circular rz : Bool)
    (ha : area_is_empty area = false) (hc : circular = true → truncate = true) :
    Gen.network_init area_is_empty copy_ has_z drop_z crop_ true traces area truncate circular true rz () () =
      (let t0 := if has_z (copy_ traces) && rz then drop_z (copy_ traces) else copy_ traces
       if truncate then
         (if (crop_ t0 area false).length = 0 then .error "ValueError"
          else .ok (crop_ t0 area false, some (some (crop_ t0 area false, true))))
       else .ok (t0, some (some (t0, false)))) := by
  unfold Gen.network_init
  simp only [ha, Bool.false_eq_true, if_false]
  cases circular with
  | true =>
    have ht : truncate = true := hc rfl
    subst ht
    cases has_z (copy_ traces) <;> cases rz <;> simp
  | false =>
    cases truncate <;> cases has_z (copy_ traces) <;> cases rz <;> simp

end Routes

example : SameUpToOrderDir [(⟨1, 2⟩ : Branch Nat), ⟨2, 3⟩] [⟨3, 2⟩, ⟨1, 2⟩] :=
  ⟨[false, true], rfl, by decide⟩

end C14
