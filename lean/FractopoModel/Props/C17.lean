import FractopoModel.Model.Cache
import FractopoModel.Generated.CacheDecorated
import FractopoModel.Generated.GridSampling
/-!
# C17 — the disk cache is transparent

`LoadLaw` (hypothesis `damageLaw`): damaged bytes either fail to load or still load to the right
value.  joblib stores no checksum, so the law is FALSE for byte flips inside the pickled payload
(known finding F10); truncation and deletion satisfy it (stream S17 enumerates them).
`KeyInjective` is built into the model: the store is keyed by (function, arguments) itself.
-/
namespace C17
open Cache
variable {K V B : Type} [DecidableEq K]

theorem lookup_mem (s : Store K B) (k : K) (b : B) (h : lookup s k = some b) : (k, b) ∈ s := by
  unfold lookup at h
  cases hf : s.find? (·.1 = k) with
  | none => simp [hf] at h
  | some p =>
    simp [hf] at h
    have := List.find?_some hf
    have hm := List.mem_of_find?_eq_some hf
    simp at this
    cases p; simp_all

theorem step_preserves (S : Sys K V B) (roundtrip : ∀ v, S.load (S.dump v) = some v)
    (damageLaw : ∀ (g : B → B) k b, (S.load b = none ∨ S.load b = some (S.f k)) → (S.load (g b) = none ∨ S.load (g b) = some (S.f k)))
    (enabled : Bool) (s : Store K B) (h : StoreOK S s) (op : Op K B) : StoreOK S (step S enabled s op).1 := by
  cases op with
  | call k =>
    simp only [step]
    cases enabled
    · simpa using h
    · simp only [Bool.not_true, Bool.false_eq_true, if_false]
      cases hl : (lookup s k).bind S.load with
      | some v => simpa using h
      | none =>
        intro k' b' hm
        simp [put] at hm
        rcases hm with ⟨rfl, rfl⟩ | ⟨hm, _⟩
        · right; exact roundtrip _
        · exact h k' b' hm
  | damage k g =>
    intro k' b' hm
    simp [step] at hm
    obtain ⟨k0, b0, hm0, heq⟩ := hm
    by_cases hk : k0 = k
    · simp [hk] at heq; obtain ⟨rfl, rfl⟩ := heq
      exact damageLaw g _ _ (h _ _ (hk ▸ hm0))
    · simp [hk] at heq; obtain ⟨rfl, rfl⟩ := heq; exact h _ _ hm0
  | delete k =>
    intro k' b' hm
    simp [step] at hm
    exact h _ _ hm.1

theorem step_value (S : Sys K V B) (enabled : Bool) (s : Store K B) (h : StoreOK S s) (k : K) :
    (step S enabled s (.call k)).2 = some (S.f k) := by
  simp only [step]
  cases enabled
  · rfl
  · simp only [Bool.not_true, Bool.false_eq_true, if_false]
    cases hl : (lookup s k).bind S.load with
    | none => rfl
    | some v =>
      cases hb : lookup s k with
      | none => simp [hb] at hl
      | some b =>
        simp [hb] at hl
        rcases h k b (lookup_mem s k b hb) with h0 | h0 <;> simp_all

/-- **Transparency.** For every history of calls, damages and deletions, from every store that
satisfies the invariant (in particular a fresh or a correctly pre-populated directory), with the
cache enabled or disabled, every call returns exactly what the uncached function returns. -/
theorem C17_transparent (S : Sys K V B) (roundtrip : ∀ v, S.load (S.dump v) = some v)
    (damageLaw : ∀ (g : B → B) k b, (S.load b = none ∨ S.load b = some (S.f k)) → (S.load (g b) = none ∨ S.load (g b) = some (S.f k)))
    (enabled : Bool) (ops : List (Op K B)) (s : Store K B) (h : StoreOK S s) :
    (run S enabled s ops).2 = spec S ops := by
  induction ops generalizing s with
  | nil => rfl
  | cons op ops ih =>
    simp only [run]
    have hp := step_preserves S roundtrip damageLaw enabled s h op
    rw [ih _ hp]
    cases op with
    | call k => simp only [spec]; rw [step_value S enabled s h k]
    | damage k g => simp [spec, step]
    | delete k => simp [spec, step]

/-- a fresh cache directory satisfies the invariant -/
theorem C17_fresh_ok (S : Sys K V B) : StoreOK S ([] : Store K B) := by intro k b h; simp at h

/-- enabled and disabled runs agree call by call (cold, warm, damaged alike) -/
theorem C17_enabled_eq_disabled (S : Sys K V B) (roundtrip : ∀ v, S.load (S.dump v) = some v)
    (damageLaw : ∀ (g : B → B) k b, (S.load b = none ∨ S.load b = some (S.f k)) → (S.load (g b) = none ∨ S.load (g b) = some (S.f k)))
    (ops : List (Op K B)) (s s' : Store K B) (h : StoreOK S s) (h' : StoreOK S s') :
    (run S true s ops).2 = (run S false s' ops).2 := by
  rw [C17_transparent S roundtrip damageLaw true ops s h, C17_transparent S roundtrip damageLaw false ops s' h']

/-- two different inputs never share a result: a stored entry is only ever read under its own key -/
theorem C17_no_sharing (s : Store K B) (k k' : K) (b : B) (hne : k ≠ k') (hk : ∀ p ∈ s, p.1 = k → False) :
    lookup (put s k' b) k = none := by
  unfold lookup put
  have : List.find? (fun x => decide (x.1 = k)) ((k', b) :: s.filter (fun x => decide (x.1 ≠ k'))) = none := by
    apply List.find?_eq_none.mpr
    intro p hp
    simp only [List.mem_cons, List.mem_filter] at hp
    rcases hp with rfl | ⟨hp, _⟩
    · simp [Ne.symm hne]
    · simp; exact fun h => hk p hp h
  rw [this]; rfl

/-- the regenerated list of disk-cached operations is the documented one, and the cache is enabled
exactly when FRACTOPO_DISABLE_CACHE is unset or "0" -/
theorem C17_decorated :
    Gen.cache_decorated = ["branches_and_nodes.branches_and_nodes", "contour_grid.run_grid_sampling", "general.crop_to_target_areas",
      "general.determine_general_nodes", "general.determine_node_junctions", "length_distributions.determine_fit"] ∧
    (∀ v : Option String, Gen.cache_enabled v = true ↔ (v = none ∨ v = some "0")) ∧
    Gen.cache_path_variable = "FRACTOPO_CACHE_PATH" := by
  refine ⟨by decide, ?_, rfl⟩
  intro v
  unfold Gen.cache_enabled
  cases v with
  | none => simp
  | some x =>
    by_cases h : x = "0"
    · simp [List.elem, h]
    · have : (x == "0") = false := by simpa using h
      simp [List.elem, h, this]

/-- **The cached grid sampling never gets the caller's grid itself** (regenerated `run_grid_sampling`, the copy an explicit parameter): with a precursor grid the
body samples INTO `copy_ g` and returns that; the caller's `g` is only read by the copy. So what a call does to the caller's grid cannot depend on whether the body ran
(a miss) or was skipped (a hit): it does nothing either way. -/
theorem C17_grid_sampling_samples_a_copy {L Gr R : Type} (empty_result : R) (is_frame : Option Gr → Bool) (dflt : Gr) (copy_ : Gr → Gr) (isclose0 : Rat → Bool)
    (create_grid_ : Rat → List L → Gr) (sample_ : Gr → R) (traces branches : List L) (w : Rat) (g : Gr) (ht : traces.isEmpty = false) (hf : is_frame (some g) = true) :
    Gen.run_grid_sampling empty_result is_frame dflt copy_ isclose0 create_grid_ sample_ traces branches w (some g) = .ok (sample_ (copy_ g)) ∧
    (∀ g' : Gr, copy_ g' = copy_ g → is_frame (some g') = true →
      Gen.run_grid_sampling empty_result is_frame dflt copy_ isclose0 create_grid_ sample_ traces branches w (some g') = .ok (sample_ (copy_ g))) := by
  have key : ∀ x : Gr, is_frame (some x) = true →
      Gen.run_grid_sampling empty_result is_frame dflt copy_ isclose0 create_grid_ sample_ traces branches w (some x) = .ok (sample_ (copy_ x)) := by
    intro x hx
    unfold Gen.run_grid_sampling
    simp [ht, hx]
  exact ⟨key g hf, fun g' hc hf' => by rw [key g' hf', hc]⟩

example : Gen.run_grid_sampling (0 : Nat) (fun (o : Option Nat) => o.isSome) 0 (fun g => g + 100) (fun _ => false) (fun _ (_ : List Nat) => 0) (fun g => g * 2) [1] [] 1 (some 7) = .ok 214 := by
  decide +kernel

/-- FINDING F10 in the model: a damage that keeps the entry loadable but changes its value
(`LoadLaw` violated) is returned silently -/
example :
    let S : Sys Nat Nat Nat := ⟨fun k => k + 1, id, some⟩
    (run S true [] [.call 1, .damage 1 (fun _ => 99), .call 1]).2 = [some 2, none, some 99] := by decide

end C17
