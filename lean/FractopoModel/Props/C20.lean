import FractopoModel.Model.Subsampling
import FractopoModel.Generated.ParamTable
import FractopoModel.Generated.AggregateDispatch
import FractopoModel.Generated.RandomRadius
import FractopoModel.Generated.Subsampling
import FractopoModel.Generated.RandomSample
/-!
# C20 — subsampling keeps every sample, aggregates as declared, samples inside target
-/
namespace C20
open Subs
variable {α : Type}

theorem flat_insertAcc (k : String) (v : α) (g : List (String × List α)) :
    (flat (insertAcc k v g)).Perm (flat g ++ [(k, v)]) := by
  induction g with
  | nil => simp [insertAcc, flat]
  | cons hd tl ih =>
    obtain ⟨k', vs⟩ := hd
    simp only [insertAcc]
    split
    · subst_vars
      simp only [flat, List.flatMap_cons, List.map_append, List.map_cons, List.map_nil, List.append_assoc]
      apply List.Perm.append_left
      exact List.perm_append_comm
    · simp only [flat, List.flatMap_cons, List.append_assoc] at ih ⊢
      exact List.Perm.append_left _ ih

theorem group_perm_aux (xs : List (String × α)) (acc : List (String × List α)) :
    (flat (xs.foldl (fun acc (kv : String × α) => insertAcc kv.1 kv.2 acc) acc)).Perm (flat acc ++ xs) := by
  induction xs generalizing acc with
  | nil => simp
  | cons x xs ih =>
    simp only [List.foldl_cons]
    refine (ih _).trans ?_
    have h := (flat_insertAcc x.1 x.2 acc)
    have h2 : (flat (insertAcc x.1 x.2 acc) ++ xs).Perm ((flat acc ++ [(x.1, x.2)]) ++ xs) :=
      List.Perm.append_right _ h
    simpa using h2

/-- Grouping is a partition: the (name, description) pairs of the groups are exactly the input
list as a multiset -- every description appears exactly once, under its own name, whatever the
order (interleaving) of the list. -/
theorem C20_group_partition (xs : List (String × α)) : (flat (group xs)).Perm xs := by
  simpa [group, flat] using group_perm_aux xs []

theorem keys_insertAcc_nodup (k : String) (v : α) (g : List (String × List α)) (h : (g.map (·.1)).Nodup) :
    ((insertAcc k v g).map (·.1)).Nodup ∧ ∀ x, x ∈ (insertAcc k v g).map (·.1) ↔ x = k ∨ x ∈ g.map (·.1) := by
  induction g with
  | nil => simp [insertAcc]
  | cons hd tl ih =>
    obtain ⟨k', vs⟩ := hd
    simp only [List.map_cons, List.nodup_cons] at h
    have ih' := ih h.2
    simp only [insertAcc]
    split
    · subst_vars; simp only [List.map_cons, List.nodup_cons]; exact ⟨h, by intro x; simp⟩
    · rename_i hne
      simp only [List.map_cons, List.nodup_cons]
      refine ⟨⟨?_, ih'.1⟩, ?_⟩
      · intro hm; rcases (ih'.2 k').mp hm with h1 | h1
        · exact hne h1
        · exact h.1 h1
      · intro x; simp only [List.mem_cons, ih'.2]; grind

/-- one group per distinct name -/
theorem C20_group_keys_nodup (xs : List (String × α)) : ((group xs).map (·.1)).Nodup := by
  unfold group
  suffices ∀ acc : List (String × List α), (acc.map (·.1)).Nodup →
      ((xs.foldl (fun acc (kv : String × α) => insertAcc kv.1 kv.2 acc) acc).map (·.1)).Nodup from this [] (by simp)
  induction xs with
  | nil => intro acc h; simpa using h
  | cons x xs ih => intro acc h; exact ih _ (keys_insertAcc_nodup x.1 x.2 acc h).1

/-- the interleaved list produced by `[s₁ … s_k] * n` (k networks, n samples): nothing is lost -/
example : group [("a", 1), ("b", 2), ("a", 3), ("b", 4)] = [("a", [1, 3]), ("b", [2, 4])] := by decide

/-- the additive parameters of the regenerated table are exactly Area, the four counts and
Circle Count; every other documented parameter is a weighted mean -/
theorem C20_additive_table :
    (Gen.paramAggregator.filter (·.2 == "SUM")).map (·.1) =
      ["Area", "Number of Branches", "Number of Branches (Real)", "Number of Traces", "Number of Traces (Real)", "Circle Count"] ∧
    Gen.paramAggregator.all (fun p => p.2 == "SUM" || p.2 == "MEAN") = true ∧
    Gen.default_aggregator = "MEAN" ∧ Gen.weight_column = "Area" := by
  decide

def additive : List String :=
  ["Area", "Number of Branches", "Number of Branches (Real)", "Number of Traces", "Number of Traces (Real)", "Circle Count"]

def aggregateGen := aggregate Gen.paramAggregator Gen.default_aggregator Gen.weight_column

theorem table_classified : ∀ p ∈ Gen.paramAggregator,
    (p.2 = "SUM" ∧ p.1 ∈ additive) ∨ (p.2 = "MEAN" ∧ p.1 ∉ additive) := by decide

theorem lookup_additive (c : String) (h : c ∈ additive) :
    lookupAgg Gen.paramAggregator Gen.default_aggregator c = "SUM" := by
  simp only [additive, List.mem_cons, List.mem_nil_iff, or_false] at h
  rcases h with rfl | rfl | rfl | rfl | rfl | rfl <;> decide

theorem lookup_nonadditive (c : String) (h : c ∉ additive) :
    lookupAgg Gen.paramAggregator Gen.default_aggregator c = "MEAN" := by
  unfold lookupAgg
  cases hf : Gen.paramAggregator.find? (·.1 == c) with
  | none => rfl
  | some p =>
    have hm := List.mem_of_find?_eq_some hf
    have hp := List.find?_some hf
    simp at hp
    rcases table_classified p hm with ⟨_, h2⟩ | ⟨h1, _⟩
    · exact absurd (hp ▸ h2) h
    · exact h1

/-- Aggregation, for every list of chosen samples and every column list: a numeric column is
the plain sum when the parameter is additive and the area-weighted mean otherwise (positive
total area); a column with a non-numeric value falls back to the joined string. -/
theorem C20_aggregate (columns : List String) (rows : List (String → Cell)) (c : String) (hc : c ∈ columns) :
    ∃ a, (c, a) ∈ aggregateGen columns rows ∧
      (match (rows.map (· c)).mapM Cell.num?, (rows.map (· "Area")).mapM Cell.num? with
        | none, _ => a = .fallback
        | some vs, ws =>
          if c ∈ additive then a = .sum vs.sum
          else match ws with
            | none => a = .fallback
            | some ws => if ws.sum = 0 then a = .undefinedMean else a = .mean ((List.zipWith (· * ·) vs ws).sum / ws.sum)) := by
  refine ⟨_, List.mem_map.mpr ⟨c, hc, rfl⟩, ?_⟩
  show (match (rows.map (· c)).mapM Cell.num?, (rows.map (· "Area")).mapM Cell.num? with
        | none, _ => aggColumn (lookupAgg Gen.paramAggregator Gen.default_aggregator c) (rows.map (· c)) (rows.map (· Gen.weight_column)) = .fallback
        | some vs, ws =>
          if c ∈ additive then aggColumn (lookupAgg Gen.paramAggregator Gen.default_aggregator c) (rows.map (· c)) (rows.map (· Gen.weight_column)) = .sum vs.sum
          else match ws with
            | none => aggColumn (lookupAgg Gen.paramAggregator Gen.default_aggregator c) (rows.map (· c)) (rows.map (· Gen.weight_column)) = .fallback
            | some ws => if ws.sum = 0 then aggColumn (lookupAgg Gen.paramAggregator Gen.default_aggregator c) (rows.map (· c)) (rows.map (· Gen.weight_column)) = .undefinedMean else aggColumn (lookupAgg Gen.paramAggregator Gen.default_aggregator c) (rows.map (· c)) (rows.map (· Gen.weight_column)) = .mean ((List.zipWith (· * ·) vs ws).sum / ws.sum))
  have hwc : Gen.weight_column = "Area" := rfl
  rw [hwc]
  unfold aggColumn
  cases hv : (rows.map (· c)).mapM Cell.num? with
  | none => simp
  | some vs =>
    by_cases hadd : c ∈ additive
    · simp [hadd, lookup_additive c hadd]
    · have e := lookup_nonadditive c hadd
      simp only [hadd, e, if_false]
      cases hw : (rows.map (· "Area")).mapM Cell.num? with
      | none => simp
      | some ws => by_cases h0 : ws.sum = 0 <;> simp [h0]

/-! ### the regenerated loops of `group_gathered_subsamples` and `aggregate_chosen` -/

theorem alistAppendTo_eq_insertAcc (k : String) (v : α) (g : List (String × List α)) : alistAppendTo k v g = insertAcc k v g := by
  induction g with
  | nil => rfl
  | cons hd tl ih =>
    obtain ⟨k', vs⟩ := hd
    simp only [alistAppendTo, insertAcc, ih]
    by_cases h : k' = k <;> simp [h]

theorem group_loop_eq {I : Type} (keyf : I → String) (all l : List I) (acc : AList String (List I)) :
    Gen.group_gathered_subsamples_loop1 keyf all l acc = l.foldl (fun acc i => insertAcc (keyf i) i acc) acc := by
  induction l generalizing acc with
  | nil => rfl
  | cons i rest ih => simp [Gen.group_gathered_subsamples_loop1, ih, alistAppendTo_eq_insertAcc]

/-- **The regenerated grouping loop IS the model's grouping** (`Subs.group`), hence a partition with one group per
distinct name (`C20_group_partition`, `C20_group_keys_nodup`) whatever the order of the list. -/
theorem C20_generated_group {I : Type} (keyf : I → String) (xs : List I) :
    Gen.group_gathered_subsamples keyf xs = group (xs.map fun i => (keyf i, i)) := by
  unfold Gen.group_gathered_subsamples group
  simp only [group_loop_eq, List.foldl_map]

theorem lookup_loop_eq {C R : Type} (agg : String → List C → List C → Option R) (fb : List C → R) (chosen : List (String → C)) (cols : List String)
    (dflt : String) (c : String) (table : List (String × String)) (cur : String) :
    Gen.aggregate_chosen_loop2 agg fb chosen cols dflt c table cur = (match table.find? (·.1 == c) with | some p => p.2 | none => cur) := by
  induction table with
  | nil => rfl
  | cons p rest ih =>
    simp only [Gen.aggregate_chosen_loop2, List.find?_cons]
    by_cases h : c = p.1
    · subst h; simp
    · have h1 : (c == p.1) = false := by simpa using h
      have h2 : (p.1 == c) = false := by simpa using (Ne.symm h)
      simp [h1, h2, ih]

/-- what the regenerated loop stores for one column -/
def genCell {C R : Type} (agg : String → List C → List C → Option R) (fb : List C → R) (chosen : List (String → C)) (dflt : String) (c : String) : R :=
  match agg (lookupAgg Gen.paramAggregator dflt c) (chosen.map (· c)) (chosen.map (· "Area")) with
  | some v => v
  | none => fb (chosen.map (· c))

theorem agg_loop_eq {C R : Type} (agg : String → List C → List C → Option R) (fb : List C → R) (chosen : List (String → C)) (cols : List String)
    (dflt : String) (l : List String) (acc : AList String R) (hnd : l.Nodup) (hfresh : ∀ c ∈ l, alistHas acc c = false) :
    Gen.aggregate_chosen_loop1 agg fb chosen cols dflt (chosen.map (· "Area")) l acc = acc ++ l.map (fun c => (c, genCell agg fb chosen dflt c)) := by
  induction l generalizing acc with
  | nil => simp [Gen.aggregate_chosen_loop1]
  | cons c rest ih =>
    simp only [Gen.aggregate_chosen_loop1, lookup_loop_eq]
    have hc : alistHas acc c = false := hfresh c (by simp)
    have hset : ∀ v : R, alistSet acc c v = acc ++ [(c, v)] := by intro v; simp [alistSet, hc]
    rw [hset, ih]
    · simp only [List.map_cons, List.append_assoc, List.cons_append, List.nil_append, genCell, lookupAgg]
      rfl
    · exact (List.nodup_cons.mp hnd).2
    · intro c' hc'
      have hne : c' ≠ c := by intro h; subst h; exact (List.nodup_cons.mp hnd).1 hc'
      have := hfresh c' (by simp [hc'])
      simp only [alistHas, List.any_append, List.any_cons, List.any_nil, Bool.or_false] at this ⊢
      simp [this, Ne.symm hne]

/-- **The regenerated aggregation loops**: for duplicate-free columns (dict keys) the result lists, column by column in
order, the aggregator's value -- the aggregator being looked up afresh for EVERY column in the regenerated table
(default otherwise), fed with that column's values and the Area column as weights -- or the fallback when it raises. -/
theorem C20_generated_aggregate {C R : Type} (agg : String → List C → List C → Option R) (fb : List C → R) (chosen : List (String → C))
    (columns : List String) (dflt : String) (hnd : columns.Nodup) :
    Gen.aggregate_chosen agg fb chosen columns dflt = columns.map (fun c => (c, genCell agg fb chosen dflt c)) := by
  unfold Gen.aggregate_chosen
  simp only []
  rw [agg_loop_eq agg fb chosen columns dflt columns [] hnd (by intro c _; rfl)]
  simp

/-- … instantiated with the documented aggregators (`Subs.aggColumn`: sum / area-weighted mean, raising on non-numeric
values or zero total weight) it is the model's `aggregateGen` up to the string fallback -/
theorem C20_generated_aggregate_model (chosen : List (String → Cell)) (columns : List String) (hnd : columns.Nodup) :
    Gen.aggregate_chosen (fun a vs ws => match aggColumn a vs ws with | .sum q => some (Agg.sum q) | .mean q => some (Agg.mean q) | _ => none)
        (fun _ => Agg.fallback) chosen columns Gen.default_aggregator
      = (aggregateGen columns chosen).map (fun ca => (ca.1, match ca.2 with | .undefinedMean => Agg.fallback | a => a)) := by
  rw [C20_generated_aggregate _ _ _ _ _ hnd]
  simp only [aggregateGen, aggregate, List.map_map]
  apply List.map_congr_left
  intro c _
  simp only [Function.comp, genCell]
  have hwc : Gen.weight_column = "Area" := rfl
  rw [hwc]
  cases aggColumn (lookupAgg Gen.paramAggregator Gen.default_aggregator c) (chosen.map (· c)) (chosen.map (· "Area")) <;> rfl

/-! ### gathering the subsample results -/

theorem gather_loop_eq {D : Type} (is_none is_dict : D → Bool) (all l acc : List D) :
    Gen.gather_subsample_descriptions_loop1 is_none is_dict all l acc = acc ++ l.filter (fun r => !is_none r && is_dict r) := by
  induction l generalizing acc with
  | nil => simp [Gen.gather_subsample_descriptions_loop1]
  | cons r rest ih =>
    simp only [Gen.gather_subsample_descriptions_loop1]
    cases hn : is_none r <;> cases hd : is_dict r <;> simp [ih, hn, hd]

/-- **Nothing but the failed samples is lost between sampling and grouping.** The regenerated `gather_subsample_descriptions` returns, in their
order, exactly the results that are not `None` and are dicts: a failed sample anywhere in the list (first, in the middle, several) removes itself and
nothing else.  Together with `C20_generated_group` / `C20_group_partition`: every successful description ends up in exactly one group. -/
theorem C20_generated_gather {D : Type} (is_none is_dict : D → Bool) (rs : List D) :
    Gen.gather_subsample_descriptions is_none is_dict rs = rs.filter (fun r => !is_none r && is_dict r) := by
  unfold Gen.gather_subsample_descriptions
  simp [gather_loop_eq]

example : Gen.gather_subsample_descriptions (fun (r : Option Nat) => r.isNone) (fun _ => true) [some 1, none, some 2, none, some 3] = [some 1, some 2, some 3] := by decide

/-- random radius lies in [r_min, r_max) for u in [0,1) -/
theorem C20_radius_range (rmin rmax u : Rat) (h : rmin < rmax) (hu0 : 0 ≤ u) (hu1 : u < 1) :
    rmin ≤ Gen.random_radius rmin rmax u ∧ Gen.random_radius rmin rmax u < rmax := by
  unfold Gen.random_radius
  have h1 : 0 ≤ u * (rmax - rmin) := Rat.mul_nonneg hu0 (by grind)
  have h2 : u * (rmax - rmin) < 1 * (rmax - rmin) := Rat.mul_lt_mul_of_pos_right hu1 (by grind)
  constructor <;> grind

/-- area mode: the random area lies in [π r_min², π r_max²) -/
theorem C20_area_range (pi rmin rmax u : Rat) (hpi : 0 < pi) (h0 : 0 ≤ rmin) (h : rmin < rmax) (hu0 : 0 ≤ u) (hu1 : u < 1) :
    Gen.calc_circle_area pi rmin ≤ Gen.random_area (Gen.calc_circle_area pi rmin) (Gen.calc_circle_area pi rmax) u ∧
      Gen.random_area (Gen.calc_circle_area pi rmin) (Gen.calc_circle_area pi rmax) u < Gen.calc_circle_area pi rmax := by
  unfold Gen.random_area Gen.calc_circle_area
  have hsq : rmin * rmin < rmax * rmax := by
    have a : rmin * rmin ≤ rmin * rmax := Rat.mul_le_mul_of_nonneg_left (Rat.le_of_lt h) h0
    have b : rmin * rmax < rmax * rmax := Rat.mul_lt_mul_of_pos_right h (by grind)
    grind
  have hA : pi * (rmin * rmin) < pi * (rmax * rmax) := Rat.mul_lt_mul_of_pos_left hsq hpi
  have h1 : 0 ≤ u * (pi * (rmax * rmax) - pi * (rmin * rmin)) := Rat.mul_nonneg hu0 (by grind)
  have h2 : u * (pi * (rmax * rmax) - pi * (rmin * rmin)) < 1 * (pi * (rmax * rmax) - pi * (rmin * rmin)) :=
    Rat.mul_lt_mul_of_pos_right hu1 (by grind)
  constructor <;> grind

/-- … hence (for any monotone `sqrt` that inverts squaring on these two values) the radius
derived from it lies in [r_min, r_max] -/
theorem C20_area_mode_radius (pi : Rat) (sqrt : Rat → Rat) (rmin rmax u : Rat) (hpi : 0 < pi) (h0 : 0 ≤ rmin) (h : rmin < rmax)
    (hu0 : 0 ≤ u) (hu1 : u < 1) (mono : ∀ a b, a ≤ b → sqrt a ≤ sqrt b)
    (inv1 : sqrt (Gen.calc_circle_area pi rmin / pi) = rmin) (inv2 : sqrt (Gen.calc_circle_area pi rmax / pi) = rmax) :
    let r := Gen.calc_circle_radius pi sqrt (Gen.random_area (Gen.calc_circle_area pi rmin) (Gen.calc_circle_area pi rmax) u)
    rmin ≤ r ∧ r ≤ rmax := by
  intro r
  obtain ⟨a, b⟩ := C20_area_range pi rmin rmax u hpi h0 h hu0 hu1
  have hd : ∀ x y : Rat, x ≤ y → x / pi ≤ y / pi := by
    intro x y hxy
    rw [Rat.div_def, Rat.div_def]
    exact Rat.mul_le_mul_of_nonneg_right hxy (Rat.le_of_lt (Rat.inv_pos.mpr hpi))
  constructor
  · rw [← inv1]; exact mono _ _ (hd _ _ a)
  · rw [← inv2]; exact mono _ _ (hd _ _ (Rat.le_of_lt b))

/-- the sample centre is drawn within `R − r` of the target centre (regenerated) -/
theorem C20_centre_buffer (R r : Rat) : Gen.centre_buffer_radius R r = R - r := rfl

/-- … so the sample circle lies inside the target circle: squared-distance form of the
triangle inequality in exact arithmetic -- any point within `r` of a centre that is within
`R − r` of the target centre is within `R` of the target centre (stated with the two
distances `d₁ ≤ R − r`, `d₂ ≤ r` and the triangle inequality `d ≤ d₁ + d₂` as hypothesis). -/
theorem C20_circle_inside (R r d1 d2 d : Rat) (hr : r ≤ R) (h1 : d1 ≤ Gen.centre_buffer_radius R r) (h2 : d2 ≤ r)
    (tri : d ≤ d1 + d2) : d ≤ R := by
  unfold Gen.centre_buffer_radius at h1; grind

example : (0 : Rat) ≤ 1/2 ∧ (1/2 : Rat) < 1 ∧ Gen.random_radius 1 3 (1/2) = 2 := by decide +kernel

/-- **A sample's network is built from the WHOLE source frame and the random circle (regenerated `random_network_sample`).** Whatever the circle, the frame and
the constructor: the sample holds `Network(source traces, one-row area of the circle — carrying the source CRS when there is one —, truncation on, circular area on)`,
`None` exactly when that constructor raised ValueError; centre and radius are those of the drawn circle, the name the sampler's. No pre-selection of traces, no other
area, no other flags (with truncation on, `C14_generated_network_route` / `C07_generated_crop` say the network's traces are the crop of that frame to that circle). -/
theorem C20_generated_sample {C P Ar Crs N F : Type} (traces : F) (crs : Option Crs) (name : String) (t : Rat) (circle : C × P × Rat)
    (area_frame : C → Ar) (set_crs : Ar → Option Crs → Ar) (network_ : F → Ar → String → Bool → Rat → Bool → Bool → Option N) (det : Bool) :
    Gen.random_network_sample traces crs name t circle area_frame set_crs network_ det
      = (network_ traces (match crs with | none => area_frame circle.1 | some _ => set_crs (area_frame circle.1) crs) name det t true true,
         circle.2.1, circle.2.2, name) := by
  obtain ⟨c, p, r⟩ := circle
  cases crs <;> rfl

/-- non-vacuity: a constructor that records what it was given -/
example : Gen.random_network_sample ([1, 2, 3] : List Nat) (some "EPSG:3067") "s" (1/1000) ("circle", (0 : Int), (5 : Rat)) (fun c => (c, "")) (fun a k => (a.1, k.getD ""))
    (fun f a n d t circ trunc => if trunc && circ then some (f, a, n, d, t) else none) true
    = (some ([1, 2, 3], ("circle", "EPSG:3067"), "s", true, 1/1000), 0, 5, "s") := by rfl

end C20
