import FractopoModel.Props.C07
import FractopoModel.Props.C01
import FractopoModel.Generated.LengthFilters
/-!
# C04 — branches partition the traces

What is proved: the two regenerated length filters are the documented minima (a trace is kept iff
longer than 2.01·t, a branch iff longer than 1.01·t, strictly), so a noded piece longer than the
branch minimum of a clipped trace longer than the trace minimum is never filtered; conservation
of any additive measure through cropping (from C07); counts of pieces (from C01).  That GEOS
noding produces interior-disjoint pieces covering the snapped traces (`NodingLaw`) is outside
the model: stream S04 decides the geometric facts exactly (on-trace, inside, overlap, coverage,
total length) for the implementation's branches.
-/
namespace C04

/-- the documented minima: nothing longer than them is dropped, everything shorter or equal is -/
theorem C04_filters (len t : Rat) :
    (Gen.trace_length_keep len t = true ↔ len > t * (201 / 100)) ∧ (Gen.branch_length_keep len t = true ↔ len > t * (101 / 100)) := by
  unfold Gen.trace_length_keep Gen.branch_length_keep; simp

/-- a piece that survives the branch filter belongs to a trace that survives the trace filter
whenever the piece is part of that trace (piece length ≤ trace length) and exceeds 2.01·t; pieces
between 1.01·t and 2.01·t survive when their trace does -/
theorem C04_cover (piece trace t : Rat) (hle : piece ≤ trace) (hp : piece > t * (101 / 100)) (ht : trace > t * (201 / 100)) :
    Gen.trace_length_keep trace t = true ∧ Gen.branch_length_keep piece t = true := by
  rw [(C04_filters trace t).1, (C04_filters piece t).2]; exact ⟨ht, hp⟩

/-- cropping conserves every additive measure (length) piece by piece -- C07_length restated -/
theorem C04_crop_length {A G : Type} (clip : G → List G) (long : G → Bool) (len : G → Rat) (rows : List (Crop.Row A G)) :
    ((Crop.crop clip long rows).map fun r => len r.geom).sum = (rows.map fun r => (((clip r.geom).filter long).map len).sum).sum :=
  C07.C07_length clip long len rows

example : Gen.branch_length_keep (3 / 200) (1 / 100) = true ∧ Gen.branch_length_keep (1 / 100) (1 / 100) = false := by decide +kernel

end C04
