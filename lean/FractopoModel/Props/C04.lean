import FractopoModel.Lemmas.Dedupe
import FractopoModel.Props.C07
import FractopoModel.Props.C01
import FractopoModel.Generated.LengthFilters
/-!
# C04 — branches partition the traces

What is proved: the two regenerated length filters are the documented minima (a trace is kept iff
longer than 2.01·t, a branch iff longer than 1.01·t, strictly), so a noded piece longer than the
branch minimum of a clipped trace longer than the trace minimum is never filtered; conservation
of any additive measure through cropping (from C07); counts of pieces (from C01).  That GEOS
noding produces interior-disjoint pieces covering the snapped traces (`NodingLaw`) is outside
the model: stream S04 decides the geometric facts exactly (on-trace, inside, overlap, coverage,
total length) for the implementation's branches.
-/
namespace C04

/-- the documented minima: nothing longer than them is dropped, everything shorter or equal is -/
theorem C04_filters (len t : Rat) :
    (Gen.trace_length_keep len t = true ↔ len > t * (201 / 100)) ∧ (Gen.branch_length_keep len t = true ↔ len > t * (101 / 100)) := by
  unfold Gen.trace_length_keep Gen.branch_length_keep; simp

/-- a piece that survives the branch filter belongs to a trace that survives the trace filter
whenever the piece is part of that trace (piece length ≤ trace length) and exceeds 2.01·t; pieces
between 1.01·t and 2.01·t survive when their trace does -/
theorem C04_cover (piece trace t : Rat) (hle : piece ≤ trace) (hp : piece > t * (101 / 100)) (ht : trace > t * (201 / 100)) :
    Gen.trace_length_keep trace t = true ∧ Gen.branch_length_keep piece t = true := by
  rw [(C04_filters trace t).1, (C04_filters piece t).2]; exact ⟨ht, hp⟩

/-- cropping conserves every additive measure (length) piece by piece -- C07_length restated -/
theorem C04_crop_length {A G : Type} (clip : G → List G) (long : G → Bool) (len : G → Rat) (rows : List (Crop.Row A G)) :
    ((Crop.crop clip long rows).map fun r => len r.geom).sum = (rows.map fun r => (((clip r.geom).filter long).map len).sum).sum :=
  C07.C07_length clip long len rows

/-- **A snapping pass stays within the threshold of the traces as they were before the pass**: the second stage adds to a
trace only ends (of other traces) that were strictly within the threshold of it, and otherwise keeps or drops its vertices;
the first stage moves an end only onto a point strictly within the threshold (`C06_moves_within_threshold`). -/
theorem C04_pass_stays_within_threshold (t : Rat) (eps : List Pt) (another : Polyline) :
    ∀ v ∈ (SnapL.snapToAnother t eps another).1, v ∈ another ∨ (v ∈ eps ∧ SnapL.near t v another = true) :=
  SnapL.snapToAnother_vertices t eps another

/-- **The bound is per pass, not cumulative (known finding F25)**: for the stacked input `(0 0, 10 0)` with `(5 0.17, 5.1 0.09)`
and threshold 0.1 the snapping loop of the model (both candidate orders) ends after two passes with the first trace bent through
both ends of the second, and the point `(4, 0.136)` of the bent trace is farther than the threshold from BOTH input traces:
"within the snapping tolerance of the input traces" fails for this input. The implementation does the same (corpus witness
F25_dragged_target, stream S04). -/
theorem C04_cumulative_drag_witness :
    let A : Polyline := [⟨0, 0⟩, ⟨10, 0⟩]
    let B : Polyline := [⟨5, 17 / 100⟩, ⟨51 / 10, 9 / 100⟩]
    let t : Rat := 1 / 10
    let bent : Polyline := [⟨0, 0⟩, ⟨5, 17 / 100⟩, ⟨51 / 10, 9 / 100⟩, ⟨10, 0⟩]
    let p : Pt := ⟨4, 17 / 125⟩
    (∀ ord : SnapL.Ord, (match SnapL.snapLoop ord t (20 * t) [] 10 [A, B] with | .ok (ls, n) => ls == [bent, B] && n == 2 | .error _ => false) = true) ∧
    onSeg p ⟨0, 0⟩ ⟨5, 17 / 100⟩ = true ∧ SnapL.near t p A = false ∧ SnapL.near t p B = false := by
  refine ⟨fun ord => ?_, ?_, ?_, ?_⟩
  · cases ord <;> decide +kernel
  all_goals decide +kernel

/-- **The duplicate filter loses nothing but duplicates** (`filter_non_unique_traces`, regenerated; the key of a trace is its WKT
at `int(-log10(snap))` decimals): the result is the first trace of every key in the original order -- a sub-list of the input whose
keys are pairwise different and in which every input trace finds a trace with its key. -/
theorem C04_generated_dedupe {G K : Type} [BEq K] [LawfulBEq K] (key : G → K) (traces : List G) :
    Gen.filter_non_unique_traces key traces = DedupeL.kept key [] traces ∧
    (Gen.filter_non_unique_traces key traces).Sublist traces ∧
    ((Gen.filter_non_unique_traces key traces).map key).Pairwise (· ≠ ·) ∧
    ∀ g ∈ traces, ∃ h ∈ Gen.filter_non_unique_traces key traces, key h = key g := by
  rw [DedupeL.generated_dedupe]
  refine ⟨rfl, DedupeL.kept_sublist key [] traces, DedupeL.kept_keys_nodup key [] traces, ?_⟩
  intro g hg
  rcases DedupeL.kept_covers key [] traces g hg with h | h
  · simp at h
  · exact h

example : Gen.branch_length_keep (3 / 200) (1 / 100) = true ∧ Gen.branch_length_keep (1 / 100) (1 / 100) = false := by decide +kernel

end C04
