import FractopoModel.Generated.Windows
import FractopoModel.Generated.ValidationDefaults
import FractopoModel.Generated.JunctionShift
/-!
# C10 — near-threshold errors are reported inside the documented windows only
(the window arithmetic; the detectors' geometry is tied by stream S10)
-/
namespace C10

/-- UNDERLAPPING / OVERLAPPING SNAP: the end's distance to a candidate lies strictly between the
threshold and threshold × error multiplier -/
theorem C10_underlap_window (d t m : Rat) : Gen.underlap_window d t m = true ↔ (t < d ∧ d < t * m) := by
  unfold Gen.underlap_window; simp

/-- an end already snapped to some trace (closer than the threshold) is not examined further -/
theorem C10_well_snapped (d t : Rat) : Gen.well_snapped d t = true ↔ d < t := by unfold Gen.well_snapped; simp

/-- TRACE UNDERLAPS TARGET AREA: distance to the boundary in `[t, t × multiplier × edge multiplier)` -/
theorem C10_area_window (d t m a : Rat) : Gen.area_window d t m a = true ↔ (t ≤ d ∧ d < t * m * a) := by
  unfold Gen.area_window; simp

/-- the same features clearly outside the windows (below 0.9× the lower or above 1.2× the upper
bound) are not reported, for every positive threshold and multipliers ≥ 1 -/
theorem C10_outside_silent (d t m a : Rat) (ht : 0 < t) (hm : 1 ≤ m) (ha : 1 ≤ a) :
    (d ≤ 9 / 10 * t → Gen.underlap_window d t m = false ∧ Gen.area_window d t m a = false) ∧
    (6 / 5 * (t * m) ≤ d → Gen.underlap_window d t m = false) ∧
    (6 / 5 * (t * m * a) ≤ d → Gen.area_window d t m a = false) := by
  have htm : 0 < t * m := Rat.mul_pos ht (by grind)
  have htma : 0 < t * m * a := Rat.mul_pos htm (by grind)
  unfold Gen.underlap_window Gen.area_window
  refine ⟨fun h => ⟨?_, ?_⟩, fun h => ?_, fun h => ?_⟩
  · have : ¬ t < d := by grind
    simp [this]
  · have : ¬ t ≤ d := by grind
    simp [this]
  · have : ¬ d < t * m := by grind
    simp [this]
  · have : ¬ d < t * m * a := by grind
    simp [this]

/-- with the default multipliers the windows are (t, 1.1 t) and [t, 1.65 t) -/
theorem C10_default_windows (d t : Rat) :
    (Gen.underlap_window d t Gen.SNAP_THRESHOLD_ERROR_MULTIPLIER = true ↔ (t < d ∧ d < t * (11 / 10))) ∧
    (Gen.area_window d t Gen.SNAP_THRESHOLD_ERROR_MULTIPLIER Gen.AREA_EDGE_SNAP_MULTIPLIER = true ↔ (t ≤ d ∧ d < t * (33 / 20))) := by
  rw [C10_underlap_window, C10_area_window]
  have e1 : Gen.SNAP_THRESHOLD_ERROR_MULTIPLIER = 11 / 10 := by decide +kernel
  have e2 : Gen.AREA_EDGE_SNAP_MULTIPLIER = 3 / 2 := by decide +kernel
  rw [e1, e2]
  have : t * (11 / 10) * (3 / 2) = t * (33 / 20) := by grind
  rw [this]
  exact ⟨Iff.rfl, Iff.rfl⟩

/-- V NODE / MULTI JUNCTION: points of different traces closer than threshold × multiplier -/
theorem C10_junction_window (t m : Rat) : Gen.junction_distance t m = t * m := rfl

/-- stacking buffer and overlap-detection length with the defaults: 5.5 t and 50 t; sharp-turn angles 135 / 100 degrees -/
theorem C10_stacking_defaults :
    Gen.SNAP_THRESHOLD_ERROR_MULTIPLIER * Gen.STACKED_DETECTOR_BUFFER_MULTIPLIER = 11 / 2 ∧ Gen.OVERLAP_DETECTION_MULTIPLIER = 50 ∧
    Gen.SHARP_AVG_THRESHOLD = 135 ∧ Gen.SHARP_PREV_SEG_THRESHOLD = 100 ∧ Gen.TRIANGLE_ERROR_SNAP_MULTIPLIER = 10 := by
  decide +kernel

example : Gen.underlap_window (21 / 2000) (1 / 100) (11 / 10) = true ∧ Gen.underlap_window (1 / 100) (1 / 100) (11 / 10) = false := by decide +kernel

end C10
