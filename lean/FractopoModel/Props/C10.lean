import FractopoModel.Generated.ValidationUtils
import FractopoModel.Lemmas.Stacking
import FractopoModel.Lemmas.SharpCorners
import FractopoModel.Generated.ValidatorMethods
import FractopoModel.Generated.Windows
import FractopoModel.Generated.ValidationDefaults
import FractopoModel.Generated.JunctionShift
import FractopoModel.Lemmas.Underlap
import FractopoModel.Generated.AreaValidator
import FractopoModel.Generated.UnitVectorCompare
/-!
# C10 — near-threshold errors are reported inside the documented windows only
(the window arithmetic; the detectors' geometry is tied by stream S10)
-/
namespace C10

/-- UNDERLAPPING / OVERLAPPING SNAP: the end's distance to a candidate lies strictly between the
threshold and threshold × error multiplier -/
theorem C10_underlap_window (d t m : Rat) : Gen.underlap_window d t m = true ↔ (t < d ∧ d < t * m) := by
  unfold Gen.underlap_window; simp

/-- an end already snapped to some trace (closer than the threshold) is not examined further -/
theorem C10_well_snapped (d t : Rat) : Gen.well_snapped d t = true ↔ d < t := by unfold Gen.well_snapped; simp

/-- TRACE UNDERLAPS TARGET AREA: distance to the boundary in `[t, t × multiplier × edge multiplier)` -/
theorem C10_area_window (d t m a : Rat) : Gen.area_window d t m a = true ↔ (t ≤ d ∧ d < t * m * a) := by
  unfold Gen.area_window; simp

/-- the same features clearly outside the windows (below 0.9× the lower or above 1.2× the upper
bound) are not reported, for every positive threshold and multipliers ≥ 1 -/
theorem C10_outside_silent (d t m a : Rat) (ht : 0 < t) (hm : 1 ≤ m) (ha : 1 ≤ a) :
    (d ≤ 9 / 10 * t → Gen.underlap_window d t m = false ∧ Gen.area_window d t m a = false) ∧
    (6 / 5 * (t * m) ≤ d → Gen.underlap_window d t m = false) ∧
    (6 / 5 * (t * m * a) ≤ d → Gen.area_window d t m a = false) := by
  have htm : 0 < t * m := Rat.mul_pos ht (by grind)
  have htma : 0 < t * m * a := Rat.mul_pos htm (by grind)
  unfold Gen.underlap_window Gen.area_window
  refine ⟨fun h => ⟨?_, ?_⟩, fun h => ?_, fun h => ?_⟩
  · have : ¬ t < d := by grind
    simp [this]
  · have : ¬ t ≤ d := by grind
    simp [this]
  · have : ¬ d < t * m := by grind
    simp [this]
  · have : ¬ d < t * m * a := by grind
    simp [this]

/-- with the default multipliers the windows are (t, 1.1 t) and [t, 1.65 t) -/
theorem C10_default_windows (d t : Rat) :
    (Gen.underlap_window d t Gen.SNAP_THRESHOLD_ERROR_MULTIPLIER = true ↔ (t < d ∧ d < t * (11 / 10))) ∧
    (Gen.area_window d t Gen.SNAP_THRESHOLD_ERROR_MULTIPLIER Gen.AREA_EDGE_SNAP_MULTIPLIER = true ↔ (t ≤ d ∧ d < t * (33 / 20))) := by
  rw [C10_underlap_window, C10_area_window]
  have e1 : Gen.SNAP_THRESHOLD_ERROR_MULTIPLIER = 11 / 10 := by decide +kernel
  have e2 : Gen.AREA_EDGE_SNAP_MULTIPLIER = 3 / 2 := by decide +kernel
  rw [e1, e2]
  have : t * (11 / 10) * (3 / 2) = t * (33 / 20) := by grind
  rw [this]
  exact ⟨Iff.rfl, Iff.rfl⟩

/-- V NODE / MULTI JUNCTION: points of different traces closer than threshold × multiplier -/
theorem C10_junction_window (t m : Rat) : Gen.junction_distance t m = t * m := rfl

/-- stacking buffer and overlap-detection length with the defaults: 5.5 t and 50 t; sharp-turn angles 135 / 100 degrees -/
theorem C10_stacking_defaults :
    Gen.SNAP_THRESHOLD_ERROR_MULTIPLIER * Gen.STACKED_DETECTOR_BUFFER_MULTIPLIER = 11 / 2 ∧ Gen.OVERLAP_DETECTION_MULTIPLIER = 50 ∧
    Gen.SHARP_AVG_THRESHOLD = 135 ∧ Gen.SHARP_PREV_SEG_THRESHOLD = 100 ∧ Gen.TRIANGLE_ERROR_SNAP_MULTIPLIER = 10 := by
  decide +kernel

/-! ### the under/overlap validator as a whole (regenerated loops) -/

/-- **The regenerated `UnderlappingSnapValidator.validation_method` is the specified decision**: both loops, the well-snapped
skip, the window test, the first hit deciding, the string written into the class attribute -- for every trace, every
candidate list (any length), any thresholds, any behaviour of the geometric oracles. -/
theorem C10_generated_underlap_eq_spec {L P : Type} (endpoints_of : L → List P) (dist : L → P → Rat) (isUl : L → L → P → Option Bool)
    (overlaps : L → L → Bool) (geom : L) (cands : List L) (t m : Rat) (glob : String) :
    Gen.underlap_validation endpoints_of dist isUl overlaps geom cands t m glob
      = Spec.underlapVerdict dist isUl overlaps geom cands (endpoints_of geom) t m glob :=
  Underlap.generated_eq_spec endpoints_of dist isUl overlaps geom cands t m glob

/-- the window used inside the loops is the regenerated window expression of `C10_underlap_window` -/
theorem C10_loop_window (t m d : Rat) : Spec.inWindow t m d = Gen.underlap_window d t m := by
  unfold Spec.inWindow Gen.underlap_window; rfl

/-- **Reported inside the window only, and only for ends that are not well snapped**: the trace passes exactly when every
end is either strictly within the threshold of some candidate, or has no candidate at a distance in (t, t·m) -/
theorem C10_underlap_silent_iff {L P : Type} (dist : L → P → Rat) (t m : Rat) (cands : List L) (eps : List P) :
    Spec.underlapHit dist t m cands eps = none ↔
      ∀ ep ∈ eps, Spec.wellSnapped dist cands t ep = true ∨ ∀ c ∈ cands, Spec.inWindow t m (dist c ep) = false := by
  unfold Spec.underlapHit
  rw [List.findSome?_eq_none_iff]
  constructor
  · intro h ep hep
    have := h ep hep
    by_cases hw : Spec.wellSnapped dist cands t ep = true
    · exact .inl hw
    · right
      simp only [hw, Bool.false_eq_true, if_false, Option.map_eq_none_iff, List.find?_eq_none] at this
      intro c hc
      simpa using this c hc
  · intro h ep hep
    rcases h ep hep with hw | hn
    · simp [hw]
    · by_cases hw : Spec.wellSnapped dist cands t ep = true
      · simp [hw]
      · simp only [hw, Bool.false_eq_true, if_false, Option.map_eq_none_iff, List.find?_eq_none]
        intro c hc
        simp [hn c hc]

/-! ### the target-area validator (regenerated loops) -/

theorem area_inner_eq {L P A : Type} (endpoints_of : L → List P) (candidate : P → L → A → Bool) (bdist : P → A → Rat) (geom : L) (all : List A)
    (t m a : Rat) (ep : P) (l : List A) :
    Gen.area_validation_loop2 endpoints_of candidate bdist geom all t m a ep l =
      if l.any (fun ar => candidate ep geom ar && Gen.area_window (bdist ep ar) t m a) then .ret false else .done () := by
  induction l with
  | nil => simp [Gen.area_validation_loop2]
  | cons ar rest ih =>
    simp only [Gen.area_validation_loop2, List.any_cons, Gen.area_window]
    by_cases hc : candidate ep geom ar = true
    · by_cases hw : (decide (t ≤ bdist ep ar) && decide (bdist ep ar < t * m * a)) = true
      · simp [hc, hw]
      · simp only [hc, if_true, hw, Bool.false_eq_true, if_false, Bool.and_false, Bool.false_or]
        simpa [Gen.area_window] using ih
    · simp only [hc, Bool.false_eq_true, if_false, Bool.false_and, Bool.false_or]
      simpa [Gen.area_window] using ih

theorem area_outer_eq {L P A : Type} (endpoints_of : L → List P) (candidate : P → L → A → Bool) (bdist : P → A → Rat) (geom : L) (areas : List A)
    (t m a : Rat) (alleps eps : List P) :
    Gen.area_validation_loop1 endpoints_of candidate bdist geom areas t m a alleps eps =
      if eps.any (fun ep => areas.any fun ar => candidate ep geom ar && Gen.area_window (bdist ep ar) t m a) then .ret false else .done () := by
  induction eps with
  | nil => simp [Gen.area_validation_loop1]
  | cons ep rest ih =>
    simp only [Gen.area_validation_loop1, area_inner_eq, List.any_cons]
    by_cases h : (areas.any fun ar => candidate ep geom ar && Gen.area_window (bdist ep ar) t m a) = true
    · simp [h]
    · simp only [h, Bool.false_eq_true, if_false, Bool.false_or]
      exact ih

/-- **TRACE UNDERLAPS TARGET AREA is reported inside the documented window only**: the regenerated validation method (both
loops) fails exactly when some end is a candidate for some area polygon (inside it, on a part of the trace that does not reach
the boundary) and its distance to that polygon's boundary lies in `[t, t·m·a)` (the regenerated window of `C10_area_window`) -/
theorem C10_generated_area_validation {L P A : Type} (endpoints_of : L → List P) (candidate : P → L → A → Bool) (bdist : P → A → Rat)
    (geom : L) (areas : List A) (t m a : Rat) :
    Gen.area_validation endpoints_of candidate bdist geom areas t m a =
      !((endpoints_of geom).any fun ep => areas.any fun ar => candidate ep geom ar && Gen.area_window (bdist ep ar) t m a) := by
  unfold Gen.area_validation
  simp only [area_outer_eq]
  cases h : ((endpoints_of geom).any fun ep => areas.any fun ar => candidate ep geom ar && Gen.area_window (bdist ep ar) t m a) <;> simp

/-- the quick candidate checks: an end outside the polygon is never a candidate; an end inside with the whole trace inside
(exactly, or after the 1 + t scaling of the polygon) always is; otherwise the split-based test decides (`none`) -/
theorem C10_simple_underlapping_checks (epIn geomIn geomInScaled : Bool) :
    Gen.simple_underlapping_checks epIn geomIn geomInScaled =
      if !epIn then some false else if geomIn || geomInScaled then some true else none := by
  unfold Gen.simple_underlapping_checks
  cases epIn <;> cases geomIn <;> cases geomInScaled <;> rfl

/-- non-vacuity: one candidate, first end 1.05 t away (inside the window), second end free; the oracle says "underlapping" -/
example :
    Gen.underlap_validation (fun (_ : Unit) => [0, 1]) (fun _ (p : Nat) => if p = 0 then 21 / 2000 else 5) (fun _ _ _ => some true) (fun _ _ => false)
      () [()] (1 / 100) (11 / 10) "x" = .ok (false, "UNDERLAPPING SNAP") := by decide +kernel

example : Gen.underlap_window (21 / 2000) (1 / 100) (11 / 10) = true ∧ Gen.underlap_window (1 / 100) (1 / 100) (11 / 10) = false := by decide +kernel

/-! ### regenerated decision skeletons of trace_validation_utils.py -/

section Utils
variable {L S P : Type}

theorem underlap_loop_eq (split_ : L → L → Option (List S)) (sdist : S → P → Rat) (geom trace : L) (ep : P) (t m : Rat) (all l : List S) :
    Gen.is_underlapping_loop1 split_ sdist geom trace ep t m all l =
      if l.any (fun sg => decide (sdist sg ep < t * m)) then .ret (some false) else .done () := by
  induction l with
  | nil => simp [Gen.is_underlapping_loop1]
  | cons a rest ih =>
    simp only [Gen.is_underlapping_loop1, List.any_cons]
    by_cases h : sdist a ep < t * m
    · simp [h]
    · simp [h, ih]

/-- **The under/overlap decision** (`is_underlapping`, regenerated): unresolved (`None`) when the split fails; *underlapping* when
the split leaves the trace in one piece (no intersection); *overlapping* when it is cut and some piece lies strictly within the
error distance `t·m` of the end (the dangling stub); unresolved otherwise. -/
theorem C10_generated_is_underlapping (split_ : L → L → Option (List S)) (sdist : S → P → Rat) (geom trace : L) (ep : P) (t m : Rat) :
    Gen.is_underlapping split_ sdist geom trace ep t m =
      match split_ geom trace with
      | none => none
      | some ps =>
        if ps.length = 1 then some true
        else if ps.length > 1 && ps.any (fun sg => decide (sdist sg ep < t * m)) then some false
        else none := by
  unfold Gen.is_underlapping
  cases split_ geom trace with
  | none => rfl
  | some ps =>
    simp only [underlap_loop_eq]
    by_cases h1 : ps.length = 1
    · simp [h1]
    · by_cases h2 : ps.length > 1
      · by_cases h3 : ps.any (fun sg => decide (sdist sg ep < t * m)) = true
        · simp [h1, h2, h3]
        · simp [h1, h2, h3]
      · simp [h1, h2]

theorem middle_loop_eq (ssdist : S → S → Rat) (segments : List S) (t m : Rat) (l : List (S × Nat)) (acc : List S) :
    Gen.determine_middle_in_triangle_loop1 ssdist segments t m l acc =
      acc ++ (l.filter fun x => decide (((segments.eraseIdx x.2).countP fun o => decide (ssdist x.1 o < t * m)) ≥ 2)).map (·.1) := by
  induction l generalizing acc with
  | nil => simp [Gen.determine_middle_in_triangle_loop1]
  | cons x rest ih =>
    obtain ⟨sg, i⟩ := x
    simp only [Gen.determine_middle_in_triangle_loop1, List.filter_cons]
    have hc : (decide ((((List.countP (fun other => decide (ssdist sg other < t * m)) (segments.eraseIdx i) : Nat) : Rat)) ≥ (2 : Rat)))
        = decide ((List.countP (fun o => decide (ssdist sg o < t * m)) (segments.eraseIdx i)) ≥ 2) := by
      rw [decide_eq_decide]
      constructor
      · intro h; exact_mod_cast h
      · intro h; exact_mod_cast h
    rw [hc]
    by_cases h : (List.countP (fun o => decide (ssdist sg o < t * m)) (segments.eraseIdx i)) ≥ 2
    · simp [h, ih]
    · simp [h, ih]

/-- **The middle of a small triangle** (`determine_middle_in_triangle`, regenerated): the pieces that are strictly within `t·m` of at
least two of the OTHER pieces, in order. -/
theorem C10_generated_middle_in_triangle (ssdist : S → S → Rat) (segments : List S) (t m : Rat) :
    Gen.determine_middle_in_triangle ssdist segments t m =
      (segments.zipIdx.filter fun x => decide (((segments.eraseIdx x.2).countP fun o => decide (ssdist x.1 o < t * m)) ≥ 2)).map (·.1) := by
  unfold Gen.determine_middle_in_triangle
  simp [middle_loop_eq]

theorem triangle_loop_eq (split_ : L → L → Option (List S)) (ip : L → L → Bool) (ssdist : S → S → Rat) (slen : S → Rat) (tr sp : L) (t k : Rat) (all l : List Rat) :
    Gen.split_to_determine_triangle_errors_loop1 split_ ip ssdist slen tr sp t k all l =
      if l.any (fun x => decide (t / k < x) && decide (x < t * k)) then .ret true else .done () := by
  induction l with
  | nil => simp [Gen.split_to_determine_triangle_errors_loop1]
  | cons a rest ih =>
    simp only [Gen.split_to_determine_triangle_errors_loop1, List.any_cons]
    by_cases h : (decide (t / k < a) && decide (a < t * k)) = true
    · simp [h]
    · simp [h, ih]

/-- **The small-triangle flavour of STACKED TRACES** (`split_to_determine_triangle_errors`, regenerated): when the split fails the
verdict is "error" unless the two traces meet in a single point; when the split yields more than three pieces it is an error;
with exactly three pieces it is an error iff one of the relevant pieces -- the middle ones (`C10_generated_middle_in_triangle`) if
there are any, else all three -- has a length strictly inside the window `(t / k, t · k)`; with one or two pieces never. -/
theorem C10_generated_triangle (split_ : L → L → Option (List S)) (ip : L → L → Bool) (ssdist : S → S → Rat) (slen : S → Rat) (tr sp : L) (t k : Rat) :
    Gen.split_to_determine_triangle_errors split_ ip ssdist slen tr sp t k =
      match split_ tr sp with
      | none => !ip tr sp
      | some segs =>
        if segs.length > 3 then true
        else if segs.length > 2 then
          let middle := Gen.determine_middle_in_triangle ssdist segs t k
          ((if middle.length > 0 then middle else segs).map slen).any fun x => decide (t / k < x) && decide (x < t * k)
        else false := by
  unfold Gen.split_to_determine_triangle_errors
  cases split_ tr sp with
  | none => cases ip tr sp <;> rfl
  | some segs =>
    simp only [triangle_loop_eq]
    by_cases h3 : segs.length > 3
    · have h2 : segs.length > 2 := by omega
      simp [h3, h2]
    · by_cases h2 : segs.length > 2
      · simp only [h3, h2, decide_true, decide_false, if_true, Bool.false_eq_true, if_false]
        by_cases hm : (Gen.determine_middle_in_triangle ssdist segs t k).length > 0
        · simp only [hm, decide_true, if_true]
          cases List.any (List.map slen (Gen.determine_middle_in_triangle ssdist segs t k)) (fun x => decide (t / k < x) && decide (x < t * k)) <;> simp
        · simp only [hm, decide_false, Bool.false_eq_true, if_false]
          cases List.any (List.map slen segs) (fun x => decide (t / k < x) && decide (x < t * k)) <;> simp
      · simp [h3, h2]

/-- **The alongside flavour of STACKED TRACES in closed form** (`segment_within_buffer` with `segmentize_linestring`, `linestring_segment`
and `within_bounds`, all regenerated): never for an empty neighbour set; at once when the trace overlaps its neighbours in more than
points; otherwise the neighbours are cropped to the buffer of radius `t·m·b` around the trace -- nothing left, or a single part
shorter than the detection length `t·o`, or a non-linear crop means "not stacked" -- and every cropped part is cut, FROM ITS START,
into pieces of the detection length: stacked iff one of these pieces has both ends inside the buffer's bounding box, is longer than
(or `isclose` to) the detection length and lies within the buffer. (The last piece of a part and parts shorter than two detection
lengths are where known finding F24 lives: which pieces exist depends on where the crop happened to start.) -/
theorem C10_generated_stacking_decision {L' M B : Type} (mls_empty : M → Bool) (overlaps : L' → M → Bool) (inter_is_points : L' → M → Bool) (buffer_ : L' → Rat → B)
    (bounds_of : B → Rat × Rat × Rat × Rat) (intersects : B → M → Bool) (crop_ : B → M → List L') (crop_is_lines : B → M → Bool) (interp : L' → Rat → Rat × Rat)
    (slen : L' → Rat) (seg_len : Rat × Rat → Rat × Rat → Rat) (isclose : Rat → Rat → Bool) (seg_within : Rat × Rat → Rat × Rat → B → Bool)
    (ls : L') (mls : M) (t m o b : Rat) :
    Gen.segment_within_buffer mls_empty overlaps inter_is_points buffer_ bounds_of intersects crop_ crop_is_lines interp slen seg_len isclose seg_within ls mls t m o b =
      (if mls_empty mls then false
       else if overlaps ls mls && !inter_is_points ls mls then true
       else StackingL.tail buffer_ bounds_of intersects crop_ crop_is_lines interp slen seg_len isclose seg_within ls mls t m o b) :=
  StackingL.generated_segment_within_buffer mls_empty overlaps inter_is_points buffer_ bounds_of intersects crop_ crop_is_lines interp slen seg_len isclose seg_within ls mls t m o b

/-- the pieces a cropped part is cut into start at 0, `d`, `2d`, … below its length, each reaching one detection length further -/
theorem C10_generated_segmentize {L' : Type} (interp : L' → Rat → Rat × Rat) (slen : L' → Rat) (ls : L') (d : Rat) :
    Gen.segmentize_linestring interp slen ls d = (pyArange 0 (slen ls) d).map fun s => (interp ls s, interp ls (s + d)) := by
  unfold Gen.segmentize_linestring
  have : ∀ (l : List Rat) (acc : List ((Rat × Rat) × (Rat × Rat))),
      Gen.segmentize_linestring_loop1 interp slen ls d l acc = acc ++ l.map fun s => (interp ls s, interp ls (s + d)) := by
    intro l
    induction l with
    | nil => intro acc; simp [Gen.segmentize_linestring_loop1]
    | cons x rest ih => intro acc; simp [Gen.segmentize_linestring_loop1, ih, Gen.linestring_segment]
  simp [this]

/-- **SHARP TURNS in closed form** (`SharpCornerValidator.validation_method`, regenerated): a two-vertex trace always passes; a trace
whose chord direction is undefined fails; otherwise the trace passes iff EVERY segment has a defined direction within the average
threshold of the chord direction and, from the second segment on, within the previous-segment threshold of its predecessor. -/
theorem C10_generated_sharp_turns {L' P' V : Type} (coords_of : L' → List P') (dflt : P') (unit : P' → P' → V) (is_nan : V → Bool) (aligned : V → V → Rat → Bool)
    (geom : L') (avg prev : Rat) :
    Gen.sharp_corner_validation coords_of dflt unit is_nan aligned geom avg prev =
      (let cs := coords_of geom
       let chord := unit (cs.headD dflt) (cs.getLastD dflt)
       if cs.length = 2 then true
       else if is_nan chord then false
       else (List.range (cs.length - 1)).all (SharpL.okAt dflt unit is_nan aligned cs chord avg prev)) :=
  SharpL.generated_sharp coords_of dflt unit is_nan aligned geom avg prev

theorem stacked_loop_eq {L' : Type} (is_ls : L' → Bool) (nb : L' → Rat → L' → Bool) (al : L' → List L' → Bool) (tri : L' → L' → Bool) (geom : L') (cands : List L')
    (t m o : Rat) (l : List L') :
    Gen.stacked_validation_loop1 is_ls nb al tri geom cands t m o l = bif l.any (fun c => tri geom c) then .ret false else .done () := by
  induction l with
  | nil => simp [Gen.stacked_validation_loop1]
  | cons c rest ih =>
    simp only [Gen.stacked_validation_loop1, List.any_cons, ih]
    cases tri geom c <;> simp

/-- **When a trace is reported STACKED TRACES** (`StackedTracesValidator.validation_method`, regenerated): never without candidates;
otherwise iff the alongside test (`C10_generated_stacking_decision`) fires on the LineString candidates whose buffer of radius
`t·o·m` meets the trace, or the small-triangle test (`C10_generated_triangle`) fires against ANY candidate. -/
theorem C10_generated_stacked_validator {L' : Type} (is_ls : L' → Bool) (nb : L' → Rat → L' → Bool) (al : L' → List L' → Bool) (tri : L' → L' → Bool) (geom : L')
    (cands : List L') (t m o : Rat) :
    Gen.stacked_validation is_ls nb al tri geom cands t m o =
      (cands.isEmpty || !(al geom (cands.filter fun tc => is_ls tc && nb tc (t * o * m) geom) || cands.any fun c => tri geom c)) := by
  unfold Gen.stacked_validation
  simp only [stacked_loop_eq]
  cases cands with
  | nil => simp
  | cons c cs =>
    simp only [List.length_cons, Nat.succ_ne_zero, decide_false, Bool.false_eq_true, if_false, List.isEmpty_cons, Bool.false_or]
    generalize al geom (List.filter (fun tc => is_ls tc && nb tc (t * o * m) geom) (c :: cs)) = A
    generalize (c :: cs).any (fun c => tri geom c) = B
    cases A <;> cases B <;> rfl

end Utils

/-! ### the direction comparison under SHARP TURNS -/

/-- **Identical directions compare as equal, also when rounding pushes the dot product above 1.** In the regenerated `compare_unit_vector_orientation` two vectors
that do not face opposite ways and whose dot product is close to 1 are "the same direction" -- whatever the exact value of the product (the product of two equal
unit vectors is often 1.0000000000000002) and whatever arccos would say; otherwise, inside the domain of arccos, they are the same direction iff the angle does not
exceed the threshold; outside it they are not. So a straight interior vertex never gives SHARP TURNS. -/
theorem C10_generated_direction_compare {V : Type} (opposite : V → V → Bool) (dot : V → V → Rat) (close_to_one is_nan : Rat → Bool) (arccos rad2deg : Rat → Rat)
    (u v : V) (thr : Rat) :
    Gen.compare_unit_vector_orientation opposite dot close_to_one is_nan arccos rad2deg u v thr =
      (!(opposite u v) && (close_to_one (dot u v) ||
        (!(decide (dot u v > 1) || decide (dot u v < -1) || is_nan (dot u v)) && !(decide (rad2deg (arccos (dot u v)) > thr))))) := by
  unfold Gen.compare_unit_vector_orientation
  simp only []
  generalize dot u v = d
  generalize opposite u v = o
  generalize close_to_one d = c
  generalize is_nan d = n
  generalize rad2deg (arccos d) = a
  cases o <;> cases c <;> cases n <;> by_cases h1 : d > 1 <;> by_cases h2 : d < -1 <;> by_cases h3 : a > thr <;> simp [h1, h2, h3]

example : Gen.compare_unit_vector_orientation (fun (_ _ : Unit) => false) (fun _ _ => (1 : Rat) + 1 / 4503599627370496) (fun d => decide (d < 1 + 1 / 100000 ∧ d > 1 - 1 / 100000))
    (fun _ => false) (fun _ => 0) (fun r => r) () () 100 = true := by decide +kernel

end C10
