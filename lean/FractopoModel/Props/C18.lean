import FractopoModel.Generated.GridSampling
import FractopoModel.Generated.GridLoops
import FractopoModel.Model.Grid
import FractopoModel.Generated.Grid
import FractopoModel.Generated.SampleCell
/-!
# C18 — contour grid: cover, equal disjoint cells, deterministic order, schedule-independence
-/
namespace C18
open Grid

theorem ceil_pos_of_pos (x : Rat) (h : 0 < x) : 0 < x.ceil := by
  have := @Rat.lt_ceil_iff x 0
  simp at this; exact this.mpr h

theorem div_mul_cancel' (a w : Rat) (hw : 0 < w) : a / w * w = a := by
  have : w ≠ 0 := by intro h; rw [h] at hw; exact absurd hw (by decide)
  grind

/-- the cells along one axis reach the far bound: `extent ≤ ⌈extent / w⌉ · w` -/
theorem C18_cover_axis (extent w : Rat) (hw : 0 < w) : extent ≤ ((extent / w).ceil : Rat) * w := by
  have h : extent / w ≤ ((extent / w).ceil : Rat) := Rat.le_ceil
  have := Rat.mul_le_mul_of_nonneg_right h (Rat.le_of_lt hw)
  rwa [div_mul_cancel' extent w hw] at this

/-- … with no superfluous cell: `(⌈extent / w⌉ − 1) · w < extent` -/
theorem C18_tight_axis (extent w : Rat) (hw : 0 < w) : (((extent / w).ceil : Rat) - 1) * w < extent := by
  have h : ((extent / w).ceil : Rat) < extent / w + 1 := Rat.ceil_lt
  have h2 : ((extent / w).ceil : Rat) - 1 < extent / w := by grind
  have := Rat.mul_lt_mul_of_pos_right h2 hw
  rwa [div_mul_cancel' extent w hw] at this

/-- the regenerated row/column counts are those ceilings, anchored at the top-left corner -/
theorem C18_counts (xmin ymin xmax ymax w : Rat) :
    Gen.grid_rows xmin ymin xmax ymax w = ((ymax - ymin) / w).ceil ∧
    Gen.grid_cols xmin ymin xmax ymax w = ((xmax - xmin) / w).ceil ∧
    Gen.grid_x_left_origin xmin ymin xmax ymax w = xmin ∧ Gen.grid_x_right_origin xmin ymin xmax ymax w = xmin + w ∧
    Gen.grid_y_top_origin xmin ymin xmax ymax w = ymax ∧ Gen.grid_y_bottom_origin xmin ymin xmax ymax w = ymax - w ∧
    Gen.grid_column_major = true := ⟨rfl, rfl, rfl, rfl, rfl, rfl, rfl⟩

/-- FINDING F11: a zero extent (a single vertical or horizontal trace) gives zero cells -/
theorem C18_degenerate (w : Rat) : ((0 : Rat) / w).ceil = 0 := by
  rw [Rat.div_def, Rat.zero_mul]; rfl

theorem natCast_toNat (z : Int) (h : 0 ≤ z) : ((z.toNat : Nat) : Rat) = (z : Rat) := by
  obtain ⟨n, rfl⟩ := Int.eq_ofNat_of_zero_le h
  simp only [Int.toNat_natCast]
  exact (Rat.intCast_natCast n).symm

/-- every cell is a square of the requested width -/
theorem C18_cell_square (xmin ymax w : Rat) (c r : Nat) :
    (cell xmin ymax w c r).right - (cell xmin ymax w c r).left = w ∧
    (cell xmin ymax w c r).top - (cell xmin ymax w c r).bottom = w := by
  simp only [cell]; constructor <;> grind

/-- one row per cell, in column-major order -/
theorem C18_cell_count (xmin ymax w : Rat) (rows cols : Nat) : (cells xmin ymax w rows cols).length = cols * rows := by
  unfold cells
  induction cols with
  | zero => simp
  | succ n ih =>
    rw [List.range_succ, List.flatMap_append, List.length_append, ih]
    simp [Nat.succ_mul]

/-- distinct cells do not overlap: their interiors are separated in x (different columns) or in
y (different rows) -/
theorem C18_disjoint (xmin ymax w : Rat) (hw : 0 < w) (c r c' r' : Nat) (h : (c, r) ≠ (c', r')) :
    (cell xmin ymax w c r).right ≤ (cell xmin ymax w c' r').left ∨ (cell xmin ymax w c' r').right ≤ (cell xmin ymax w c r).left ∨
    (cell xmin ymax w c r).top ≤ (cell xmin ymax w c' r').bottom ∨ (cell xmin ymax w c' r').top ≤ (cell xmin ymax w c r).bottom := by
  simp only [cell]
  have key : ∀ a b : Nat, a < b → xmin + ((a : Rat) + 1) * w ≤ xmin + (b : Rat) * w := by
    intro a b hab
    have : ((a : Rat) + 1) ≤ (b : Rat) := by exact_mod_cast hab
    have := Rat.mul_le_mul_of_nonneg_right this (Rat.le_of_lt hw)
    grind
  have keyy : ∀ a b : Nat, a < b → ymax - (a : Rat) * w ≥ ymax - ((b : Rat) ) * w ∧ ymax - (b:Rat) * w ≤ ymax - ((a : Rat) + 1) * w := by
    intro a b hab
    have : ((a : Rat) + 1) ≤ (b : Rat) := by exact_mod_cast hab
    have := Rat.mul_le_mul_of_nonneg_right this (Rat.le_of_lt hw)
    constructor <;> grind
  by_cases hc : c = c'
  · have hr : r ≠ r' := by intro hr; exact h (by rw [hc, hr])
    rcases Nat.lt_or_gt_of_ne hr with h1 | h1
    · right; right; right; exact (keyy r r' h1).2
    · right; right; left; exact (keyy r' r h1).2
  · rcases Nat.lt_or_gt_of_ne hc with h1 | h1
    · left; exact key c c' h1
    · right; left; exact key c' c h1

/-- the union of the cells contains the bounding box of the lines: every point of
`[xmin, xmax] × [ymin, ymax]` lies in some cell with column `< cols` and row `< rows` -/
theorem C18_cover (xmin ymin xmax ymax w x y : Rat) (hw : 0 < w) (hx0 : xmin ≤ x) (hx1 : x ≤ xmax) (hy0 : ymin ≤ y) (hy1 : y ≤ ymax)
    (hxx : xmin < xmax) (hyy : ymin < ymax) :
    ∃ c r : Nat, (c : Int) < Gen.grid_cols xmin ymin xmax ymax w ∧ (r : Int) < Gen.grid_rows xmin ymin xmax ymax w ∧
      (cell xmin ymax w c r).left ≤ x ∧ x ≤ (cell xmin ymax w c r).right ∧
      (cell xmin ymax w c r).bottom ≤ y ∧ y ≤ (cell xmin ymax w c r).top := by
  have hwne : w ≠ 0 := by intro h; rw [h] at hw; exact absurd hw (by decide)
  -- one axis: for 0 ≤ d ≤ extent with extent > 0 there is k < ⌈extent/w⌉ with k·w ≤ d ≤ (k+1)·w
  have axis : ∀ d extent : Rat, 0 ≤ d → d ≤ extent → 0 < extent →
      ∃ k : Nat, (k : Int) < (extent / w).ceil ∧ (k : Rat) * w ≤ d ∧ d ≤ ((k : Rat) + 1) * w := by
    intro d extent hd0 hd1 hpos
    have hcpos : 0 < (extent / w).ceil := ceil_pos_of_pos _ (by
      rw [Rat.div_def]; exact Rat.mul_pos hpos (Rat.inv_pos.mpr hw))
    by_cases hlast : d = extent
    · -- the far edge belongs to the last cell
      have e : ((((extent / w).ceil - 1).toNat : Nat) : Rat) = ((extent / w).ceil : Rat) - 1 := by
        rw [natCast_toNat _ (by omega)]; simp [Rat.intCast_sub]
      refine ⟨((extent / w).ceil - 1).toNat, by omega, ?_, ?_⟩
      · rw [e, hlast]; exact Rat.le_of_lt (C18_tight_axis extent w hw)
      · rw [e, hlast]
        have := C18_cover_axis extent w hw
        grind
    · have hlt : d < extent := by grind
      have hq0 : 0 ≤ d / w := by rw [Rat.div_def]; exact Rat.mul_nonneg hd0 (Rat.le_of_lt (Rat.inv_pos.mpr hw))
      have hf0 : 0 ≤ (d / w).floor := Rat.le_floor_iff.mpr (by simpa using hq0)
      have e : (((d / w).floor.toNat : Nat) : Rat) = ((d / w).floor : Rat) := natCast_toNat _ hf0
      have h1 : ((d / w).floor : Rat) ≤ d / w := Rat.floor_le (d / w)
      refine ⟨(d / w).floor.toNat, ?_, ?_, ?_⟩
      · have e' : (((d / w).floor.toNat : Nat) : Int) = (d / w).floor := Int.toNat_of_nonneg hf0
        rw [e']
        have h2 : d / w < extent / w := by
          rw [Rat.div_def, Rat.div_def]; exact Rat.mul_lt_mul_of_pos_right hlt (Rat.inv_pos.mpr hw)
        have h3 : extent / w ≤ ((extent / w).ceil : Rat) := Rat.le_ceil
        have : ((d / w).floor : Rat) < ((extent / w).ceil : Rat) := by grind
        exact_mod_cast this
      · rw [e]
        have := Rat.mul_le_mul_of_nonneg_right h1 (Rat.le_of_lt hw)
        rwa [div_mul_cancel' d w hw] at this
      · rw [e]
        have h : d / w < (((d / w).floor + 1 : Int) : Rat) := Rat.lt_floor_add_one (d / w)
        have h' : d / w < ((d / w).floor : Rat) + 1 := by simpa [Rat.intCast_add] using h
        have := Rat.mul_lt_mul_of_pos_right h' hw
        rw [div_mul_cancel' d w hw] at this
        exact Rat.le_of_lt this
  obtain ⟨c, hc, hc1, hc2⟩ := axis (x - xmin) (xmax - xmin) (by grind) (by grind) (by grind)
  obtain ⟨r, hr, hr1, hr2⟩ := axis (ymax - y) (ymax - ymin) (by grind) (by grind) (by grind)
  refine ⟨c, r, hc, hr, ?_, ?_, ?_, ?_⟩ <;> simp only [cell] <;> grind

/-- the sample circle radius is 1.5 cell widths (for any `sqrt` with `sqrt (w²) = w`) -/
theorem C18_radius (sqrt : Rat → Rat) (w : Rat) (h : sqrt (w * w) = w) : Gen.sample_radius sqrt (w * w) = 3 / 2 * w := by
  unfold Gen.sample_radius; rw [h]; grind

/-! ### schedule independence -/

theorem write_length {β : Type} (slots : List (Option β)) (iv : Nat × β) : (write slots iv).length = slots.length := by
  simp [write]

theorem gather_getElem {β : Type} (done : List (Nat × β)) (slots : List (Option β)) (i : Nat) (v : β)
    (hmem : (i, v) ∈ done) (hi : i < slots.length) (huniq : ∀ p ∈ done, p.1 = i → p.2 = v) :
    (done.foldl write slots)[i]? = some (some v) := by
  induction done generalizing slots with
  | nil => simp at hmem
  | cons p rest ih =>
    simp only [List.foldl_cons]
    by_cases hin : (i, v) ∈ rest
    · exact ih (write slots p) hin (by rw [write_length]; exact hi) (fun q hq => huniq q (List.mem_cons_of_mem _ hq))
    · -- the last write to slot i is p itself; later writes go elsewhere or write the same value
      have hp : p = (i, v) := by
        rcases List.mem_cons.mp hmem with h | h
        · exact h.symm
        · exact absurd h hin
      subst hp
      -- fold over rest preserves slot i unless it writes i, in which case it writes v
      have pres : ∀ (rest : List (Nat × β)) (s : List (Option β)), s[i]? = some (some v) → (∀ q ∈ rest, q.1 = i → q.2 = v) →
          (rest.foldl write s)[i]? = some (some v) := by
        intro rest
        induction rest with
        | nil => intro s hs _; simpa using hs
        | cons q qs ihq =>
          intro s hs hq
          simp only [List.foldl_cons]
          apply ihq
          · simp only [write]
            by_cases hqi : q.1 = i
            · have hv := hq q (by simp) hqi
              have hlen : i < s.length := by
                rcases List.getElem?_eq_some_iff.mp hs with ⟨h, _⟩; exact h
              rw [hqi, hv, List.getElem?_set_self hlen]
            · rw [List.getElem?_set_ne hqi]; exact hs
          · exact fun q' hq' => hq q' (List.mem_cons_of_mem _ hq')
      apply pres
      · simp only [write]; rw [List.getElem?_set_self hi]
      · exact fun q hq => huniq q (List.mem_cons_of_mem _ hq)

/-- **Schedule independence.** Whatever the completion order (any list containing every
`(index, f cell)` pair, nothing else for those indices -- e.g. any permutation of the submission
order, with any number of workers), gathering by submission index yields exactly
`cells.map f`: the table is identical for every schedule. -/
theorem C18_schedule {α β : Type} (f : α → β) (cs : List α) (done : List (Nat × β))
    (hall : ∀ i (h : i < cs.length), (i, f cs[i]) ∈ done)
    (hsound : ∀ p ∈ done, ∃ h : p.1 < cs.length, p.2 = f (cs[p.1]'h)) :
    gather cs.length done = cs.map (fun c => some (f c)) := by
  apply List.ext_getElem?
  intro i
  by_cases hi : i < cs.length
  · rw [List.getElem?_map, List.getElem?_eq_getElem hi]
    simp only [Option.map_some]
    apply gather_getElem done _ i (f cs[i]) (hall i hi) (by simp [hi])
    intro p hp hpi
    obtain ⟨h, hv⟩ := hsound p hp
    subst hpi; exact hv
  · have h1 : (cs.map fun c => some (f c))[i]? = none := by simp [List.getElem?_eq_none (Nat.le_of_not_lt hi)]
    rw [h1]
    apply List.getElem?_eq_none
    have : ∀ (d : List (Nat × β)) (s : List (Option β)), (d.foldl write s).length = s.length := by
      intro d; induction d with
      | nil => intro s; rfl
      | cons q qs ih => intro s; simp only [List.foldl_cons]; rw [ih, write_length]
    rw [gather, this]; simp; omega

example : gather 3 [(2, "c"), (0, "a"), (1, "b")] = [some "a", some "b", some "c"] := by decide

/-! ### the regenerated loops of `create_grid` -/

def cellTuple (c : Cell) : Rat × Rat × Rat × Rat := (c.left, c.right, c.bottom, c.top)

theorem flatMap_congr' {α β : Type} (l : List α) (f g : α → List β) (h : ∀ x ∈ l, f x = g x) : l.flatMap f = l.flatMap g := by
  induction l with
  | nil => rfl
  | cons a as ih => simp only [List.flatMap_cons, h a (by simp), ih (fun x hx => h x (by simp [hx]))]

theorem grid_inner_eq (a b c d w xl xr h : Rat) (rows : Int) (l : List Nat) (p : List (Rat × Rat × Rat × Rat)) (yt yb : Rat) :
    Gen.create_grid_cells_loop2 a b c d w xl xr h rows l p yt yb =
      (p ++ (List.range l.length).map (fun (i : Nat) => (xl, xr, yb - (i : Rat) * h, yt - (i : Rat) * h)), yt - (l.length : Rat) * h, yb - (l.length : Rat) * h) := by
  induction l generalizing p yt yb with
  | nil => simp [Gen.create_grid_cells_loop2]; constructor <;> grind
  | cons x rest ih =>
    rw [Gen.create_grid_cells_loop2, ih]
    simp only [List.length_cons, List.range_succ_eq_map, List.map_cons, List.map_map, Prod.mk.injEq]
    refine ⟨?_, ?_, ?_⟩
    · rw [List.append_assoc]
      congr 1
      simp only [List.singleton_append, List.cons.injEq, Prod.mk.injEq, Function.comp_def]
      refine ⟨⟨trivial, trivial, by simp; grind, by simp; grind⟩, ?_⟩
      apply List.map_congr_left
      intro i _
      simp only [Prod.mk.injEq, true_and]
      constructor <;> (push_cast; grind)
    · push_cast; grind
    · push_cast; grind

theorem grid_outer_eq (a b c d w yt0 yb0 h : Rat) (rows cols : Int) (hyb : yb0 = yt0 - h) (l : List Nat) (p : List (Rat × Rat × Rat × Rat)) (xl xr : Rat) :
    (Gen.create_grid_cells_loop1 a b c d w yt0 yb0 rows h cols l p xl xr).1 =
      p ++ (List.range l.length).flatMap (fun (k : Nat) => (List.range rows.toNat).map fun (i : Nat) =>
        (xl + (k : Rat) * w, xr + (k : Rat) * w, yb0 - (i : Rat) * h, yt0 - (i : Rat) * h)) := by
  induction l generalizing p xl xr with
  | nil => simp [Gen.create_grid_cells_loop1]
  | cons x rest ih =>
    rw [Gen.create_grid_cells_loop1]
    simp only [grid_inner_eq, List.length_range]
    rw [ih]
    simp only [List.length_cons, List.range_succ_eq_map, List.flatMap_cons, List.flatMap_map, List.append_assoc]
    congr 1
    congr 1
    · apply List.map_congr_left
      intro i _
      simp only [Prod.mk.injEq, and_true]
      constructor <;> (push_cast; grind)
    · apply flatMap_congr'
      intro k _
      apply List.map_congr_left
      intro i _
      simp only [Function.comp, Prod.mk.injEq, and_true]
      constructor <;> (push_cast; grind)

/-- **The regenerated loops of `create_grid` build exactly the model grid**: `cols × rows` cells, column by column from the left,
each column from the top, cell (c, r) spanning `[xmin + c·w, xmin + (c+1)·w] × [ymax − (r+1)·w, ymax − r·w]` -- what the
repeated additions of the loops reach in exact arithmetic -- with `rows = ⌈(ymax − ymin)/w⌉`, `cols = ⌈(xmax − xmin)/w⌉`. All
theorems about `Grid.cells` (`C18_cell_square`, `C18_cell_count`, `C18_disjoint`, `C18_cover`) therefore hold of the regenerated code. -/
theorem C18_generated_grid (xmin ymin xmax ymax w : Rat) :
    Gen.create_grid_cells xmin ymin xmax ymax w =
      (cells xmin ymax w (((ymax - ymin) / w).ceil.toNat) (((xmax - xmin) / w).ceil.toNat)).map cellTuple := by
  unfold Gen.create_grid_cells
  simp only []
  rw [grid_outer_eq _ _ _ _ _ _ _ _ _ _ rfl]
  simp only [List.nil_append, List.length_range, cells, List.map_flatMap, List.map_map]
  apply flatMap_congr'
  intro k _
  apply List.map_congr_left
  intro i _
  simp only [Function.comp, cellTuple, cell, Prod.mk.injEq]
  refine ⟨by grind, by grind, by grind, by grind⟩

/-- **Which data the grid is laid over** (`run_grid_sampling`, regenerated): an empty trace frame gives the empty result; a COPY of a precursor grid is
used as it is (a non-frame precursor is a TypeError); otherwise a cell width that is negative or close to zero is a ValueError, and the
grid is created over the BRANCHES whenever there are any and over the traces only when there are none -- then sampled. -/
theorem C18_generated_grid_sampling {L Gr R : Type} (empty_result : R) (is_frame : Option Gr → Bool) (dflt : Gr) (copy_ : Gr → Gr) (isclose0 : Rat → Bool)
    (create_grid_ : Rat → List L → Gr) (sample_ : Gr → R) (traces branches : List L) (w : Rat) (pre : Option Gr) :
    Gen.run_grid_sampling empty_result is_frame dflt copy_ isclose0 create_grid_ sample_ traces branches w pre =
      (if traces.isEmpty then .ok empty_result
       else match pre with
         | some g => if is_frame (some g) then .ok (sample_ (copy_ g)) else .error "TypeError"
         | none =>
           if isclose0 w || decide (w < 0) then .error "ValueError"
           else .ok (sample_ (create_grid_ w (if branches.length > 0 then branches else traces)))) := by
  unfold Gen.run_grid_sampling
  cases traces.isEmpty with
  | true => rfl
  | false =>
    cases pre with
    | some g => cases h : is_frame (some g) <;> simp [h]
    | none =>
      cases h : (isclose0 w || decide (w < 0))
      · by_cases hb : branches.length > 0 <;> simp [h, hb]
      · simp [h]

/-! ### one grid cell (regenerated `populate_sample_cell`) -/

section SampleCell
open Gen
variable {Cell Pt0 C S G P K R : Type}

/-- what one sample circle contains, as the regenerated `populate_sample_cell` computes it (no per-cell extraction) -/
def sampleSpec (area_of : C → Rat) (tindex bindex : List G → S) (nindex : List (P × String) → S) (window : S → C → List Nat)
    (meets : G → C → Bool) (pmeets : P → C → Bool) (crop : List G → C → List G) (len : G → Rat) (count_nodes : List String → K)
    (topo : List Rat → K → Rat → List Rat → Bool → Bool → R) (circle : C) (traces : List G) (nodes : List (P × String)) (branches : List G) : R :=
  let pick : {α : Type} → S → List α → List α := fun i l => (window i circle).filterMap fun k => l[k]?
  let inside : List G → List G := fun cands => if cands.any (fun g => meets g circle) then crop cands circle else []
  let tc := pick (tindex traces) traces
  if tc.length = 0 then topo [] (count_nodes []) (area_of circle) [] true false
  else if branches.length > 0 then
    let sn := if nodes.any (fun n => pmeets n.1 circle) then (pick (nindex nodes) nodes).filter (fun n => pmeets n.1 circle) else []
    topo ((inside tc).map len) (count_nodes (sn.map (·.2))) (area_of circle) ((inside (pick (bindex branches) branches)).map len) true false
  else topo ((inside tc).map len) (count_nodes []) (area_of circle) [] false false

/-- **What a grid cell reports.** The regenerated `populate_sample_cell` (nested helpers included; no per-cell extraction) returns the parameter function applied to: the
lengths of the trace candidates cropped to the cell's sample circle (nothing when no candidate meets it), the classes of the node candidates inside the circle, the circle's
area, the lengths of the branch candidates cropped to the circle -- or, when the index window of the circle holds no trace at all, the parameters of the empty sample with
the circle's area. The circle comes from the cell's centroid and the cell area only (radius factor: `Gen.sample_radius`-items of Grid). -/
theorem C18_generated_sample_cell (centroid_of : Cell → Pt0) (is_point : Pt0 → Bool) (circle_of : Pt0 → Rat → C) (area_of : C → Rat) (tindex bindex : List G → S)
    (nindex : List (P × String) → S) (window : S → C → List Nat) (meets : G → C → Bool) (pmeets : P → C → Bool) (crop : List G → C → List G) (len : G → Rat)
    (count_nodes : List String → K) (topo : List Rat → K → Rat → List Rat → Bool → Bool → R) (ban : List G → C → Except String (List G × List (P × String)))
    (cell : Cell) (cell_area : Rat) (traces : List G) (nodes : List (P × String)) (branches : List G) (hp : is_point (centroid_of cell) = true) :
    populate_sample_cell centroid_of is_point circle_of area_of tindex bindex nindex window meets pmeets crop len count_nodes topo ban cell cell_area traces nodes branches false =
      .ok (sampleSpec area_of tindex bindex nindex window meets pmeets crop len count_nodes topo (circle_of (centroid_of cell) cell_area) traces nodes branches) := by
  unfold populate_sample_cell sampleSpec sc_choose_geometries sc_resolve_samples
  simp only [hp, Bool.not_true, Bool.false_eq_true, if_false]
  by_cases h0 : ((window (tindex traces) (circle_of (centroid_of cell) cell_area)).filterMap fun k => traces[k]?).length = 0
  · simp [h0]
  · by_cases hb : branches.length > 0
    · simp [h0, hb]
    · simp [h0, hb]

/-- the part of `sampleSpec` after the branches and nodes are known (`r` = per-cell extraction was asked for) -/
def sampleRest (area_of : C → Rat) (bindex : List G → S) (nindex : List (P × String) → S) (window : S → C → List Nat)
    (meets : G → C → Bool) (pmeets : P → C → Bool) (crop : List G → C → List G) (len : G → Rat) (count_nodes : List String → K)
    (topo : List Rat → K → Rat → List Rat → Bool → Bool → R) (circle : C) (tc : List G) (nodes : List (P × String)) (branches : List G) (r : Bool) : R :=
  let pick : {α : Type} → S → List α → List α := fun i l => (window i circle).filterMap fun k => l[k]?
  let inside : List G → List G := fun cands => if cands.any (fun g => meets g circle) then crop cands circle else []
  if branches.length > 0 then
    let sn := if nodes.any (fun n => pmeets n.1 circle) then (pick (nindex nodes) nodes).filter (fun n => pmeets n.1 circle) else []
    topo ((inside tc).map len) (count_nodes (sn.map (·.2))) (area_of circle) ((inside (pick (bindex branches) branches)).map len) true r
  else topo ((inside tc).map len) (count_nodes []) (area_of circle) [] false r

/-- **Per-cell topology mode** (after the repair of F17: a circle that holds no trace is the empty sample, not a crash). With `resolve_branches_and_nodes` the regenerated
`populate_sample_cell` reports the parameters of the empty sample when the index window of the circle holds no trace OR none of the candidates has a part inside the circle;
otherwise it extracts branches and nodes from the trace candidates and reports the parameters of THOSE -- whether topology counts as defined is decided by the extracted
branches, never by the branches the caller passed; an exception of the extraction propagates. -/
theorem C18_generated_sample_cell_resolved (centroid_of : Cell → Pt0) (is_point : Pt0 → Bool) (circle_of : Pt0 → Rat → C) (area_of : C → Rat) (tindex bindex : List G → S)
    (nindex : List (P × String) → S) (window : S → C → List Nat) (meets : G → C → Bool) (pmeets : P → C → Bool) (crop : List G → C → List G) (len : G → Rat)
    (count_nodes : List String → K) (topo : List Rat → K → Rat → List Rat → Bool → Bool → R) (ban : List G → C → Except String (List G × List (P × String)))
    (cell : Cell) (cell_area : Rat) (traces : List G) (nodes : List (P × String)) (branches : List G) (hp : is_point (centroid_of cell) = true) :
    populate_sample_cell centroid_of is_point circle_of area_of tindex bindex nindex window meets pmeets crop len count_nodes topo ban cell cell_area traces nodes branches true =
      (let circle := circle_of (centroid_of cell) cell_area
       let tc := (window (tindex traces) circle).filterMap fun k => traces[k]?
       let inside := if tc.any (fun g => meets g circle) then crop tc circle else []
       if tc.length = 0 ∨ inside.length = 0 then .ok (topo [] (count_nodes []) (area_of circle) [] true true)
       else match ban tc circle with
         | .error e => .error e
         | .ok (b, n) => .ok (sampleRest area_of bindex nindex window meets pmeets crop len count_nodes topo circle tc n b true)) := by
  unfold populate_sample_cell sampleRest sc_choose_geometries sc_resolve_samples
  simp only [hp, Bool.not_true, Bool.false_eq_true, if_false, if_true, Bool.true_and]
  by_cases h0 : ((window (tindex traces) (circle_of (centroid_of cell) cell_area)).filterMap fun k => traces[k]?).length = 0
  · simp only [h0, decide_true, Bool.true_or, if_true, true_or]
  · by_cases h1 : (if (((window (tindex traces) (circle_of (centroid_of cell) cell_area)).filterMap fun k => traces[k]?).any fun g => meets g (circle_of (centroid_of cell) cell_area)) = true
        then crop ((window (tindex traces) (circle_of (centroid_of cell) cell_area)).filterMap fun k => traces[k]?) (circle_of (centroid_of cell) cell_area) else []).length = 0
    · simp only [h0, h1, decide_false, decide_true, Bool.false_or, if_true, false_or]
    · simp only [h0, h1, decide_false, Bool.or_self, Bool.false_eq_true, if_false, or_self]
      cases hb : ban ((window (tindex traces) (circle_of (centroid_of cell) cell_area)).filterMap fun k => traces[k]?) (circle_of (centroid_of cell) cell_area) with
      | error e => rfl
      | ok bn =>
        obtain ⟨b, n⟩ := bn
        by_cases hl : b.length > 0
        · simp only [hl, decide_true, if_true]
        · simp only [hl, decide_false, Bool.false_eq_true, if_false]

/-- a cell whose centroid is not a point is refused -/
theorem C18_sample_cell_type_error (centroid_of : Cell → Pt0) (is_point : Pt0 → Bool) (circle_of : Pt0 → Rat → C) (area_of : C → Rat) (tindex bindex : List G → S)
    (nindex : List (P × String) → S) (window : S → C → List Nat) (meets : G → C → Bool) (pmeets : P → C → Bool) (crop : List G → C → List G) (len : G → Rat)
    (count_nodes : List String → K) (topo : List Rat → K → Rat → List Rat → Bool → Bool → R) (ban : List G → C → Except String (List G × List (P × String)))
    (cell : Cell) (cell_area : Rat) (traces : List G) (nodes : List (P × String)) (branches : List G) (r : Bool) (hp : is_point (centroid_of cell) = false) :
    populate_sample_cell centroid_of is_point circle_of area_of tindex bindex nindex window meets pmeets crop len count_nodes topo ban cell cell_area traces nodes branches r =
      .error "TypeError" := by
  unfold populate_sample_cell
  simp [hp]

/-- non-vacuity: geometries are numbers (length = the number, inside the circle iff < 10), the window reports everything: the cell reports the total length inside -/
example : populate_sample_cell (fun (_ : Unit) => ()) (fun _ => true) (fun _ _ => ()) (fun _ => 4) (fun _ => ()) (fun _ => ()) (fun _ => ()) (fun _ _ => [0, 1, 2])
    (fun (g : Nat) _ => g < 10) (fun (p : Nat) _ => p < 10) (fun l _ => l.filter (· < 10)) (fun g => (g : Rat)) (fun cls => cls.length)
    (fun tl k a _ _ _ => (tl.sum / a, k)) (fun _ _ => .error "x") () 1 [3, 50, 5] [(1, "X"), (70, "Y")] [3] false = .ok (2, 1) := by decide +kernel

end SampleCell

end C18
