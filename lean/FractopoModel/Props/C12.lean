import FractopoModel.Model.Relationships
/-!
# C12 — cross-cut / abutting relationship counts
-/
namespace C12
open Rel

theorem mem_pairs_of_sublist {l l' : List String} (h : l.Sublist l') (x : String × String) (hx : x ∈ pairs l) : x ∈ pairs l' := by
  induction h with
  | slnil => exact hx
  | cons a _ ih => simp only [pairs, List.mem_append]; exact .inr (ih hx)
  | cons_cons a hs ih =>
    simp only [pairs, List.mem_append, List.mem_map] at hx ⊢
    rcases hx with ⟨b, hb, rfl⟩ | hx
    · exact .inl ⟨b, hs.subset hb, rfl⟩
    · exact .inr (ih hx)

/-- **The row of a pair depends only on those two sets.** Defining further sets -- anywhere in
the list, including sets with no traces -- neither changes nor removes any existing row. -/
theorem C12_rows_independent (nodes : List Node) (nonEmpty : String → Bool) (names names' : List String)
    (h : names.Sublist names') (r : Row) (hr : r ∈ table nodes nonEmpty names) : r ∈ table nodes nonEmpty names' := by
  simp only [table, List.mem_filterMap] at hr ⊢
  obtain ⟨p, hp, hpr⟩ := hr
  exact ⟨p, mem_pairs_of_sublist h p hp, hpr⟩

/-- every pair of sets that both contain traces has its row, equal to `rowOf` of just those two -/
theorem C12_row_present (nodes : List Node) (nonEmpty : String → Bool) (names : List String) (a b : String)
    (hp : (a, b) ∈ pairs names) (ha : nonEmpty a = true) (hb : nonEmpty b = true) :
    rowOf nodes a b ∈ table nodes nonEmpty names := by
  simp only [table, List.mem_filterMap]
  exact ⟨(a, b), hp, by simp [ha, hb]⟩

/-- zero errors, always: nodes are pre-selected by "meets both sets", so the error branches of
`determine_intersect` are unreachable for X and Y nodes -/
theorem C12_no_errors (nodes : List Node) (hcls : ∀ n ∈ nodes, n.cls = "X" ∨ n.cls = "Y") (a b : String) :
    (rowOf nodes a b).errors = 0 := by
  simp only [rowOf]
  apply List.countP_eq_zero.mpr
  intro r hr
  simp only [List.mem_map, List.mem_filter] at hr
  obtain ⟨n, ⟨hn, ht⟩, rfl⟩ := hr
  simp only [Bool.and_eq_true] at ht
  rcases hcls n hn with h | h <;> simp [intersectOf, h, ht.1, ht.2]

/-- **Counts.** With X and Y nodes only: `x` = number of X-nodes meeting both sets, `y` = number
of Y-nodes meeting both sets where a trace of the FIRST set ends, `y-reverse` the others. -/
theorem C12_counts (nodes : List Node) (hcls : ∀ n ∈ nodes, n.cls = "X" ∨ n.cls = "Y") (a b : String) (hab : a ≠ b) :
    (rowOf nodes a b).x = nodes.countP (fun n => n.cls == "X" && n.touch a && n.touch b) ∧
    (rowOf nodes a b).y = nodes.countP (fun n => n.cls == "Y" && n.touch a && n.touch b && n.endsIn a) ∧
    (rowOf nodes a b).yrev = nodes.countP (fun n => n.cls == "Y" && n.touch a && n.touch b && !n.endsIn a) := by
  simp only [rowOf, List.countP_map, List.countP_filter]
  refine ⟨?_, ?_, ?_⟩ <;> apply List.countP_congr <;> intro n hn <;>
    rcases hcls n hn with h | h <;> cases h1 : n.touch a <;> cases h2 : n.touch b <;> cases h3 : n.endsIn a <;>
    simp [intersectOf, h, h1, h2, h3, hab, Ne.symm hab]

example : pairs ["1", "2", "3"] = [("1", "2"), ("1", "3"), ("2", "3")] := by decide

/-- three sets of which the middle one is empty: both outer rows survive -/
example : (table [] (fun s => s != "2") ["1", "2", "3"]).map (·.sets) = [("1", "3")] := by decide

end C12
