import FractopoModel.Generated.IntersectsLoop
import FractopoModel.Model.Relationships
import FractopoModel.Generated.DetermineIntersect
import FractopoModel.Generated.RelationshipLoop
import FractopoModel.Generated.NetworkInit
/-!
# C12 — cross-cut / abutting relationship counts
-/
namespace C12
open Rel

theorem mem_pairs_of_sublist {l l' : List String} (h : l.Sublist l') (x : String × String) (hx : x ∈ pairs l) : x ∈ pairs l' := by
  induction h with
  | slnil => exact hx
  | cons a _ ih => simp only [pairs, List.mem_append]; exact .inr (ih hx)
  | cons_cons a hs ih =>
    simp only [pairs, List.mem_append, List.mem_map] at hx ⊢
    rcases hx with ⟨b, hb, rfl⟩ | hx
    · exact .inl ⟨b, hs.subset hb, rfl⟩
    · exact .inr (ih hx)

/-- **The row of a pair depends only on those two sets.** Defining further sets -- anywhere in
the list, including sets with no traces -- neither changes nor removes any existing row. -/
theorem C12_rows_independent (nodes : List Node) (nonEmpty : String → Bool) (names names' : List String)
    (h : names.Sublist names') (r : Row) (hr : r ∈ table nodes nonEmpty names) : r ∈ table nodes nonEmpty names' := by
  simp only [table, List.mem_filterMap] at hr ⊢
  obtain ⟨p, hp, hpr⟩ := hr
  exact ⟨p, mem_pairs_of_sublist h p hp, hpr⟩

/-- every pair of sets that both contain traces has its row, equal to `rowOf` of just those two -/
theorem C12_row_present (nodes : List Node) (nonEmpty : String → Bool) (names : List String) (a b : String)
    (hp : (a, b) ∈ pairs names) (ha : nonEmpty a = true) (hb : nonEmpty b = true) :
    rowOf nodes a b ∈ table nodes nonEmpty names := by
  simp only [table, List.mem_filterMap]
  exact ⟨(a, b), hp, by simp [ha, hb]⟩

/-- zero errors, always: nodes are pre-selected by "meets both sets", so the error branches of
`determine_intersect` are unreachable for X and Y nodes -/
theorem C12_no_errors (nodes : List Node) (hcls : ∀ n ∈ nodes, n.cls = "X" ∨ n.cls = "Y") (a b : String) :
    (rowOf nodes a b).errors = 0 := by
  simp only [rowOf]
  apply List.countP_eq_zero.mpr
  intro r hr
  simp only [List.mem_map, List.mem_filter] at hr
  obtain ⟨n, ⟨hn, ht⟩, rfl⟩ := hr
  simp only [Bool.and_eq_true] at ht
  rcases hcls n hn with h | h <;> simp [intersectOf, h, ht.1, ht.2]

/-- **Counts.** With X and Y nodes only: `x` = number of X-nodes meeting both sets, `y` = number
of Y-nodes meeting both sets where a trace of the FIRST set ends, `y-reverse` the others. -/
theorem C12_counts (nodes : List Node) (hcls : ∀ n ∈ nodes, n.cls = "X" ∨ n.cls = "Y") (a b : String) (hab : a ≠ b) :
    (rowOf nodes a b).x = nodes.countP (fun n => n.cls == "X" && n.touch a && n.touch b) ∧
    (rowOf nodes a b).y = nodes.countP (fun n => n.cls == "Y" && n.touch a && n.touch b && n.endsIn a) ∧
    (rowOf nodes a b).yrev = nodes.countP (fun n => n.cls == "Y" && n.touch a && n.touch b && !n.endsIn a) := by
  simp only [rowOf, List.countP_map, List.countP_filter]
  refine ⟨?_, ?_, ?_⟩ <;> apply List.countP_congr <;> intro n hn <;>
    rcases hcls n hn with h | h <;> cases h1 : n.touch a <;> cases h2 : n.touch b <;> cases h3 : n.endsIn a <;>
    simp [intersectOf, h, h1, h2, h3, hab, Ne.symm hab]

example : pairs ["1", "2", "3"] = [("1", "2"), ("1", "3"), ("2", "3")] := by decide

/-- three sets of which the middle one is empty: both outer rows survive -/
example : (table [] (fun s => s != "2") ["1", "2", "3"]).map (·.sets) = [("1", "3")] := by decide

/-- **The regenerated `determine_intersect` IS the model's decision** (`Rel.intersectOf`) for every node class, every
pair of set names and every combination of the three incidence facts: an X-node between the two sets is recorded under
(first, second); a Y-node under (first, second) when a trace of the FIRST set ends there and under (second, first)
otherwise; anything else raises (and is counted as an error by the caller). -/
theorem C12_generated_determine_intersect (cls : String) (l1 l2 p1 : Bool) (first second : String) :
    Gen.determine_intersect p1 cls l1 l2 first second = Rel.intersectOf cls l1 l2 p1 first second := by
  unfold Gen.determine_intersect Rel.intersectOf
  by_cases hx : cls = "X"
  · subst hx; cases l1 <;> cases l2 <;> simp
  · by_cases hy : cls = "Y"
    · subst hy; cases l1 <;> cases l2 <;> cases p1 <;> simp
    · simp [hx, hy]

/-! ### the regenerated loop over the pairs of sets -/

abbrev Item := (String × (String × String)) × Nat
abbrev GRow := String × (String × String) × Nat × Nat × Nat × Nat

/-- reading the grouped counts of one pair: the X count, the Y count recorded under (first, second), the Y count under
(second, first) -/
def readCounts (first second : String) : List Item → Nat × Nat × Nat → Nat × Nat × Nat
  | [], acc => acc
  | it :: rest, (x, y, yr) =>
    if it.1.1 == "X" then readCounts first second rest (it.2, y, yr)
    else if it.1.2 = (first, second) then readCounts first second rest (x, it.2, yr)
    else readCounts first second rest (x, y, it.2)

/-- the grouped counts of a pair mention only X, and Y under one of the two orders of the pair (what `determine_intersect`
can produce, `C12_generated_determine_intersect`) -/
def ItemsOK (first second : String) (its : List Item) : Prop :=
  ∀ it ∈ its, it.1.1 = "X" ∨ (it.1.1 = "Y" ∧ (it.1.2 = (first, second) ∨ it.1.2 = (second, first)))

theorem inner_loop_eq (nonEmpty : String → Bool) (items : String → String → List Item) (errcount : String → String → Nat) (names : List String)
    (label first second : String) (u : Unit) (its : List Item) (h : ItemsOK first second its) (x y yr : Nat) :
    Gen.relationship_rows_loop2 nonEmpty items errcount names label first second u its x y yr = .done (readCounts first second its (x, y, yr)) := by
  induction its generalizing x y yr with
  | nil => rfl
  | cons it rest ih =>
    have hit := h it (by simp)
    have hrest : ItemsOK first second rest := fun i hi => h i (by simp [hi])
    simp only [Gen.relationship_rows_loop2, readCounts]
    rcases hit with hx | ⟨hy, h12 | h21⟩
    · simp [hx, ih hrest]
    · have : (it.1.1 == "X") = false := by rw [hy]; decide
      simp [this, hy, h12, ih hrest]
    · have hX : (it.1.1 == "X") = false := by rw [hy]; decide
      by_cases h12 : it.1.2 = (first, second)
      · simp [hX, hy, h12, ih hrest]
      · have hne : ¬(second = first ∧ first = second) := by
          intro hh; apply h12; rw [h21]; simp [hh.1]
        simp [hX, hy, h21, hne, ih hrest]

/-- the row the loop produces for a pair whose sets both contain traces -/
def genRow (items : String → String → List Item) (errcount : String → String → Nat) (label : String) (p : String × String) : GRow :=
  let c := readCounts p.1 p.2 (items p.1 p.2) (0, 0, 0)
  (label, (p.1, p.2), c.1, c.2.1, c.2.2, errcount p.1 p.2)

theorem outer_loop_eq (nonEmpty : String → Bool) (items : String → String → List Item) (errcount : String → String → Nat) (names : List String)
    (label : String) (all ps : List (String × String)) (hok : ∀ p ∈ ps, ItemsOK p.1 p.2 (items p.1 p.2)) (acc : List GRow) :
    Gen.relationship_rows_loop1 nonEmpty items errcount names label all ps acc =
      .done (acc ++ ps.filterMap fun p => if nonEmpty p.1 && nonEmpty p.2 then some (genRow items errcount label p) else none) := by
  induction ps generalizing acc with
  | nil => simp [Gen.relationship_rows_loop1]
  | cons p rest ih =>
    obtain ⟨a, b⟩ := p
    have hrest : ∀ p ∈ rest, ItemsOK p.1 p.2 (items p.1 p.2) := fun p hp => hok p (by simp [hp])
    simp only [Gen.relationship_rows_loop1, List.filterMap_cons]
    by_cases hne : (nonEmpty a && nonEmpty b) = true
    · have h1 : (!nonEmpty a || !nonEmpty b) = false := by
        simp only [Bool.and_eq_true] at hne; simp [hne.1, hne.2]
      simp only [h1, Bool.false_eq_true, if_false, hne, if_true]
      rw [inner_loop_eq nonEmpty items errcount names label a b () (items a b) (hok (a, b) (by simp))]
      simp only []
      rw [ih hrest]
      simp [genRow]
    · have h1 : (!nonEmpty a || !nonEmpty b) = true := by
        cases ha : nonEmpty a <;> cases hb : nonEmpty b <;> simp_all
      simp only [h1, if_true, hne, Bool.false_eq_true, if_false]
      exact ih hrest acc

/-- **One row per pair of sets that both contain traces, in `combinations` order, each computed from that pair alone.** The
regenerated loop of `determine_crosscut_abutting_relationships` (with the `continue` for pairs with an empty set) produces
exactly the rows of the non-empty pairs: an empty set anywhere in the list removes only its own pairs -- never a later
row (`C12_rows_independent` for the regenerated code). -/
theorem C12_generated_rows (nonEmpty : String → Bool) (items : String → String → List Item) (errcount : String → String → Nat)
    (names : List String) (label : String) (hn : 2 ≤ names.length)
    (hok : ∀ p ∈ pyCombinations2 names, ItemsOK p.1 p.2 (items p.1 p.2)) :
    Gen.relationship_rows nonEmpty items errcount names label =
      .ok ((pyCombinations2 names).filterMap fun p => if nonEmpty p.1 && nonEmpty p.2 then some (genRow items errcount label p) else none) := by
  unfold Gen.relationship_rows
  have : ¬ names.length < 2 := by omega
  simp only [this, decide_false, Bool.false_eq_true, if_false]
  rw [outer_loop_eq nonEmpty items errcount names label _ _ hok []]
  simp

/-- `itertools.combinations(names, 2)` of the regenerated code is the model's `pairs` -/
theorem combinations_eq_pairs (l : List String) : pyCombinations2 l = pairs l := by
  induction l with
  | nil => rfl
  | cons a l ih => simp [pyCombinations2, pairs, ih]

/-- non-vacuity: three sets, the middle one empty: the row of the outer pair is there -/
example :
    Gen.relationship_rows (fun s => s != "B") (fun _ _ => [(("X", ("A", "C")), 2), (("Y", ("C", "A")), 1)]) (fun _ _ => 0) ["A", "B", "C"] "t"
      = .ok [("t", ("A", "C"), 2, 0, 1, 0)] := by
  simp [Gen.relationship_rows, pyCombinations2, Gen.relationship_rows_loop1, Gen.relationship_rows_loop2]

/-! ### the node loop of `determine_intersects` (regenerated) -/

section IntersectsLoop
variable {N : Type}

/-- the row recorded for one node -/
def rowOf (touches1 touches2 : N → Bool) (intersect_ : N → String → Bool → Bool → Option (String × String)) (names : String × String) (x : N × String) :
    N × String × (String × String) × Bool :=
  match intersect_ x.1 x.2 (touches1 x.1) (touches2 x.1) with
  | some sets => (x.1, x.2, sets, false)
  | none => (x.1, x.2, names, true)

theorem intersects_loop_eq (touches1 touches2 : N → Bool) (intersect_ : N → String → Bool → Bool → Option (String × String)) (names : String × String)
    (ns : List N) (cs : List String) (l : List (N × String)) (acc : List (N × String × (String × String) × Bool)) :
    Gen.determine_intersects_rows_loop1 touches1 touches2 intersect_ names ns cs l acc =
      bif l.any (fun x => !touches1 x.1 && !touches2 x.1) then .ret (.error "ValueError")
      else .done (acc ++ l.map (rowOf touches1 touches2 intersect_ names)) := by
  induction l generalizing acc with
  | nil => simp [Gen.determine_intersects_rows_loop1]
  | cons x rest ih =>
    obtain ⟨n, c⟩ := x
    simp only [Gen.determine_intersects_rows_loop1, List.any_cons, List.map_cons]
    cases h : (!touches1 n && !touches2 n)
    · simp only [Bool.false_eq_true, if_false, Bool.false_or, ih]
      unfold rowOf
      cases intersect_ n c (touches1 n) (touches2 n) <;> cases rest.any (fun x => !touches1 x.1 && !touches2 x.1) <;> simp
    · simp

/-- **One row per node, in order.** The regenerated node loop of `determine_intersects` raises ValueError iff some node touches the
traces of NEITHER set; otherwise it records every X/Y node exactly once, in order: with the ordered pair `determine_intersect`
(`C12_generated_determine_intersect`) decides and `error = False`, or -- when that function raises -- with the unordered pair of set
names and `error = True`. No node is dropped, none counted twice. -/
theorem C12_generated_intersects_rows (touches1 touches2 : N → Bool) (intersect_ : N → String → Bool → Bool → Option (String × String))
    (names : String × String) (ns : List N) (cs : List String) :
    Gen.determine_intersects_rows touches1 touches2 intersect_ names ns cs =
      (if (List.zip ns cs).any (fun x => !touches1 x.1 && !touches2 x.1) then .error "ValueError"
       else .ok ((List.zip ns cs).map (rowOf touches1 touches2 intersect_ names))) := by
  unfold Gen.determine_intersects_rows
  simp only [intersects_loop_eq, List.nil_append]
  cases (List.zip ns cs).any (fun x => !touches1 x.1 && !touches2 x.1) <;> rfl

end IntersectsLoop

/-- **The relationships of a Network are computed from its own set assignment.** In the regenerated `Network.__post_init__` (the defensive copy an explicit parameter)
the frame into which a Network writes its azimuth-set column -- the column `azimuth_set_relationships` groups by -- is a function of the COPY of the caller's frame only: an
earlier analysis of the same caller's frame with other sets cannot leak into it. (S12-relations analyses every frame once before with other sets.) -/
theorem C12_network_sets_from_a_copy {G' A' : Type} (area_is_empty : A' → Bool) (copy_ : List G' → List G') (has_z : List G' → Bool) (drop_z : List G' → List G')
    (crop_ : List G' → A' → Bool → List G') (given : Bool) (traces traces' : List G') (area : A') (truncate circular topo rz : Bool)
    (h : copy_ traces = copy_ traces') :
    Gen.network_init area_is_empty copy_ has_z drop_z crop_ given traces area truncate circular topo rz () () =
      Gen.network_init area_is_empty copy_ has_z drop_z crop_ given traces' area truncate circular topo rz () () := by
  unfold Gen.network_init
  simp only [h]

end C12
