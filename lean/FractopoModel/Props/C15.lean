import FractopoModel.Generated.IsSet
import FractopoModel.Generated.DetermineSet
import FractopoModel.Generated.AzimuthPost
import FractopoModel.Generated.IsAzimuthClose
import FractopoModel.Generated.DefaultAzimuthSets
import FractopoModel.Generated.CalcBins
import FractopoModel.Generated.AzimuthBins
import FractopoModel.Spec.Azimuth
import FractopoModel.Generated.NetworkInit
import FractopoModel.Generated.LineDataCache
/-!
# C15 — azimuths, set membership, rose bins

`d` below is `degrees(atan2(Δy, Δx)) ∈ (−180, 180]` of the chord, a parameter of the model
(the trigonometry is outside it); the code computes `azimuth_post (90 − d) halved`.
-/
namespace C15

/-- membership of a value in a closed, possibly wrap-around range (specification) -/
def inRange (v : Rat) (r : Rat × Rat) (loop : Bool) : Prop :=
  (r.1 ≤ v ∧ v ≤ r.2) ∨ (loop = true ∧ r.1 > r.2 ∧ (v ≥ r.1 ∨ v ≤ r.2))

instance (v : Rat) (r : Rat × Rat) (loop : Bool) : Decidable (inRange v r loop) := by
  unfold inRange; infer_instance

/-- the azimuth is in [0,180) and is the clockwise angle from north (90 − d) modulo 180 -/
theorem C15_azimuth_range (d : Rat) (h1 : -180 < d) (h2 : d ≤ 180) :
    0 ≤ Gen.azimuth_post (90 - d) true ∧ Gen.azimuth_post (90 - d) true < 180 ∧
      (Gen.azimuth_post (90 - d) true = 90 - d ∨ Gen.azimuth_post (90 - d) true = 90 - d + 180 ∨
        Gen.azimuth_post (90 - d) true = 90 - d - 180) := by
  unfold Gen.azimuth_post; grind

/-- … and equals the specified reduction `(90 − d) mod 180` -/
theorem C15_azimuth_eq_spec (d : Rat) (h1 : -180 < d) (h2 : d ≤ 180) :
    Gen.azimuth_post (90 - d) true = Spec.azimuthMod d := by
  unfold Spec.azimuthMod
  have key : ∀ k : Int, (k : Rat) ≤ (90 - d) / 180 → (90 - d) / 180 < (k : Rat) + 1 → ((90 - d) / 180).floor = k := by
    intro k hk1 hk2
    have a : k ≤ ((90 - d) / 180).floor := Rat.le_floor_iff.mpr hk1
    have b : ((90 - d) / 180).floor < k + 1 := by
      have := @Rat.floor_lt_iff ((90 - d) / 180) (k + 1)
      simp at this; exact this.mpr hk2
    omega
  by_cases c1 : d ≤ -90
  · rw [key 1 (by grind) (by grind)]; unfold Gen.azimuth_post; grind
  · by_cases c2 : d ≤ 90
    · rw [key 0 (by grind) (by grind)]; unfold Gen.azimuth_post; grind
    · rw [key (-1) (by grind) (by grind)]; unfold Gen.azimuth_post; grind

/-- full-circle variant: in [0,360] -/
theorem C15_azimuth_range_full (d : Rat) (h1 : -180 < d) (h2 : d ≤ 180) :
    0 ≤ Gen.azimuth_post (90 - d) false ∧ Gen.azimuth_post (90 - d) false ≤ 360 := by
  unfold Gen.azimuth_post; grind

/-- the reversed line (`atan2(−y,−x) = atan2(y,x) ± 180`) has the same azimuth -/
theorem C15_reversal (d : Rat) (h1 : -180 < d) (h2 : d ≤ 180) :
    Gen.azimuth_post (90 - (if d ≤ 0 then d + 180 else d - 180)) true = Gen.azimuth_post (90 - d) true := by
  unfold Gen.azimuth_post; grind

/-- exactly axis-parallel chords: north/south ↦ 0, east/west ↦ 90 -/
theorem C15_axis_parallel :
    Gen.azimuth_post (90 - 90) true = 0 ∧ Gen.azimuth_post (90 - (-90)) true = 0 ∧
      Gen.azimuth_post (90 - 0) true = 90 ∧ Gen.azimuth_post (90 - 180) true = 90 := by
  decide +kernel

/-- `is_set` is membership in the closed, possibly wrap-around range -/
theorem C15_is_set_spec (v lo hi : Rat) (b : Bool) :
    Gen.is_set v (lo, hi) b = decide (inRange v (lo, hi) b) := by
  unfold Gen.is_set inRange; grind

theorem inRangeB_iff (v : Rat) (r : Rat × Rat) (b : Bool) : Spec.inRangeB v r b = decide (inRange v r b) := by
  unfold Spec.inRangeB inRange; grind

/-- names of the ranges containing `v` (specification of the candidate list) -/
def containing (v : Rat) (loop : Bool) : List String → List (Rat × Rat) → List String
  | n :: ns, r :: rs => if inRange v r loop then n :: containing v loop ns rs else containing v loop ns rs
  | _, _ => []

theorem possible_eq_containing (v : Rat) (loop : Bool) (names : List String) (ranges : List (Rat × Rat)) :
    (List.map (fun (x : String × (Rat × Rat)) => x.1)
      (List.filter (fun (x : String × (Rat × Rat)) => Gen.is_set v x.2 loop) (List.zip names ranges)))
      = containing v loop names ranges := by
  induction names generalizing ranges with
  | nil => simp [containing]
  | cons n ns ih =>
    cases ranges with
    | nil => simp [containing]
    | cons r rs =>
      obtain ⟨lo, hi⟩ := r
      simp only [List.zip_cons_cons, List.filter_cons, containing, C15_is_set_spec]
      by_cases h : inRange v (lo, hi) loop <;> simp [h, ih]

/-- With ranges of which at most one contains the value (in particular: pairwise
non-overlapping ranges), set assignment never raises and returns the unique containing set,
or the null set when there is none. -/
theorem C15_set_unique (v : Rat) (loop : Bool) (names : List String) (ranges : List (Rat × Rat))
    (h : (containing v loop names ranges).length ≤ 1) :
    Gen.determine_set v ranges names loop =
      .ok (match containing v loop names ranges with | [] => "-1" | n :: _ => n) := by
  unfold Gen.determine_set
  have e := possible_eq_containing v loop names ranges
  simp only [] at e ⊢
  rw [show (List.map (fun (x : String × (Rat × Rat)) => match x with | (set_name, value_range) => set_name)
        (List.filter (fun (x : String × (Rat × Rat)) => match x with | (set_name, value_range) => Gen.is_set v value_range loop)
          (names.zip ranges))) = containing v loop names ranges from e]
  match hc : containing v loop names ranges with
  | [] => simp
  | [n] => simp
  | a :: b :: rest => rw [hc] at h; simp at h

/-- pairwise disjoint ranges contain a value at most once -/
theorem containing_le_one (v : Rat) (loop : Bool) (names : List String) (ranges : List (Rat × Rat))
    (hd : ranges.Pairwise (fun r s => ¬ (inRange v r loop ∧ inRange v s loop))) :
    (containing v loop names ranges).length ≤ 1 := by
  induction names generalizing ranges with
  | nil => simp [containing]
  | cons n ns ih =>
    cases ranges with
    | nil => simp [containing]
    | cons r rs =>
      rw [List.pairwise_cons] at hd
      simp only [containing]
      by_cases h : inRange v r loop
      · simp only [h, if_true, List.length_cons]
        have : containing v loop ns rs = [] := by
          clear ih
          induction ns generalizing rs with
          | nil => simp [containing]
          | cons m ms ihm =>
            cases rs with
            | nil => simp [containing]
            | cons s ss =>
              have hs : ¬ inRange v s loop := fun hs => hd.1 s (by simp) ⟨h, hs⟩
              simp only [containing, hs, if_false]
              exact ihm ss ⟨fun a ha => hd.1 a (by simp [ha]), (List.pairwise_cons.mp hd.2).2⟩
        simp [this]
      · simp only [h, if_false]; exact ih rs hd.2

/-- C15 for pairwise non-overlapping ranges (the statement of the property) -/
theorem C15_set_nonoverlapping (v : Rat) (loop : Bool) (names : List String) (ranges : List (Rat × Rat))
    (hd : ranges.Pairwise (fun r s => ¬ (inRange v r loop ∧ inRange v s loop))) :
    ∃ s, Gen.determine_set v ranges names loop = .ok s :=
  ⟨_, C15_set_unique v loop names ranges (containing_le_one v loop names ranges hd)⟩

/-- FINDING F4: the package's DEFAULT ranges share their end values; a line at exactly 60
(or 120) degrees makes set assignment raise. -/
theorem C15_F4_default_ranges_witness :
    Gen.determine_set 60 Gen.default_azimuth_set_ranges Gen.default_azimuth_set_names true = .error "ValueError" ∧
    Gen.determine_set 120 Gen.default_azimuth_set_ranges Gen.default_azimuth_set_names true = .error "ValueError" := by
  decide +kernel

/-- … and that is the only way the default ranges fail: every other azimuth in [0,180] is
assigned to exactly one of the three sets -/
theorem C15_default_partial (v : Rat) (h0 : 0 ≤ v) (h1 : v ≤ 180) (h60 : v ≠ 60) (h120 : v ≠ 120) :
    Gen.determine_set v [(0, 60), (60, 120), (120, 180)] ["1", "2", "3"] true =
      .ok (if v < 60 then "1" else if v < 120 then "2" else "3") := by
  rw [C15_set_unique]
  · simp only [containing, inRange]
    by_cases a : v < 60 <;> by_cases b : v < 120 <;> simp [a, b] <;> grind
  · simp only [containing, inRange]
    by_cases a : v < 60 <;> by_cases b : v < 120 <;> simp [a, b] <;> grind

theorem C15_default_ranges_are_those : Gen.default_azimuth_set_ranges = [(0, 60), (60, 120), (120, 180)] ∧
    Gen.default_azimuth_set_names = ["1", "2", "3"] := by decide +kernel

/-! ## rose bins (exact arithmetic; the floating-point edge count is swept by stream S15) -/

theorem ceil_pos_of_pos (x : Rat) (h : 0 < x) : 0 < x.ceil := by
  have := @Rat.lt_ceil_iff x 0
  simp at this; exact this.mpr h

theorem arange_count (n : Int) (hn : 0 < n) :
    ((180 + (180 / (n : Rat)) * (1/100) - 0) / (180 / (n : Rat))).ceil = n + 1 := by
  have hn' : (n : Rat) ≠ 0 := by
    intro h; have : n = 0 := by exact_mod_cast h
    omega
  have e : (180 + (180 / (n:Rat)) * (1/100) - 0) / (180 / (n:Rat)) = (1/100 : Rat) + (n : Rat) := by
    grind
  rw [e, Rat.ceil_add_intCast]
  have : (1/100 : Rat).ceil = 1 := by decide +kernel
  omega

/-- For every positive ideal bin width the bins cover [0,180] with equal widths: with
`n = ⌈180/w⌉ ≥ 1` bins of width `180/n` the edges are `0, bw, 2bw, …, n·bw = 180`. -/
theorem C15_bins (w : Rat) (hw : 0 < w) :
    let n := (180 / w).ceil
    let r := Gen.calc_bins w true
    0 < n ∧ r.2 = 180 / (n : Rat) ∧ r.1.length = n.toNat + 1 ∧
      (∀ i, i ≤ n.toNat → r.1[i]? = some ((i : Rat) * r.2)) ∧ r.1[n.toNat]? = some 180 := by
  intro n r
  have hn : 0 < n := ceil_pos_of_pos _ (by
    have : (180 : Rat) / w = 180 * w⁻¹ := Rat.div_def _ _
    rw [this]; exact Rat.mul_pos (by decide +kernel) (Rat.inv_pos.mpr hw))
  have hn' : (n : Rat) ≠ 0 := by
    intro h; have : n = 0 := by exact_mod_cast h
    omega
  have hlen : r.1.length = n.toNat + 1 := by
    show (pyArange 0 (180 + 180 / (n : Rat) * (1/100)) (180 / (n : Rat))).length = _
    unfold pyArange
    rw [List.length_map, List.length_range, arange_count n hn]
    omega
  have hget : ∀ i, i ≤ n.toNat → r.1[i]? = some ((i : Rat) * r.2) := by
    intro i hi
    show (pyArange 0 (180 + 180 / (n : Rat) * (1/100)) (180 / (n : Rat)))[i]? = _
    unfold pyArange
    rw [List.getElem?_map, List.getElem?_range (by rw [arange_count n hn]; omega)]
    show some (0 + (i : Rat) * (180 / (n : Rat))) = some ((i : Rat) * (180 / (n : Rat)))
    congr 1; grind
  refine ⟨hn, rfl, hlen, hget, ?_⟩
  rw [hget _ (Nat.le_refl _)]
  show some (((n.toNat : Nat) : Rat) * (180 / (n : Rat))) = some 180
  have : ((n.toNat : Nat) : Rat) = (n : Rat) := by
    have : ((n.toNat : Nat) : Int) = n := Int.toNat_of_nonneg (by omega)
    exact_mod_cast this
  rw [this]; congr 1; grind

/-- the bar locations are the bin centres `bw/2 + i·bw`, one per bin -/
theorem C15_locs (n : Int) (hn : 0 < n) :
    (Gen.calc_locs (180 / (n : Rat)) true).length = n.toNat ∧
      ∀ i, i < n.toNat → (Gen.calc_locs (180 / (n : Rat)) true)[i]? = some (180 / (n : Rat) / 2 + (i : Rat) * (180 / (n : Rat))) := by
  have hn' : (n : Rat) ≠ 0 := by
    intro h; have : n = 0 := by exact_mod_cast h
    omega
  have e : ((180 + 180 / (n : Rat) / 2 - 180 / (n : Rat) / 2) / (180 / (n : Rat))).ceil = n := by
    have : (180 + 180 / (n : Rat) / 2 - 180 / (n : Rat) / 2) / (180 / (n : Rat)) = (n : Rat) := by grind
    rw [this]; simp
  have hl : Gen.calc_locs (180 / (n : Rat)) true
      = pyArange (180 / (n : Rat) / 2) (180 + 180 / (n : Rat) / 2) (180 / (n : Rat)) := by
    simp [Gen.calc_locs]
  rw [hl]
  constructor
  · unfold pyArange
    rw [List.length_map, List.length_range, e]
  · intro i hi
    unfold pyArange
    rw [List.getElem?_map, List.getElem?_range (by rw [e]; exact hi)]
    rfl


/-! ## histogram (regenerated `determine_azimuth_bins`): every weight lands in exactly one bin -/

theorem binSum_cons (v w : Rat) (ps : List (Rat × Rat)) (b : Rat × Rat × Bool) :
    pyBinSum ((v, w) :: ps) b = (if pyInBin v b then w else 0) + pyBinSum ps b := by
  unfold pyBinSum
  cases h : pyInBin v b <;> simp [List.filter_cons, h]
  grind

theorem sum_map_zero {α : Type} (l : List α) : (l.map (fun _ => (0 : Rat))).sum = 0 := by
  induction l with
  | nil => rfl
  | cons _ _ ih => simp only [List.map_cons, List.sum_cons, ih]; grind

theorem hist_cons (v w : Rat) (ps : List (Rat × Rat)) (bins : List (Rat × Rat × Bool)) :
    (bins.map (pyBinSum ((v, w) :: ps))).sum
      = w * ((bins.countP (pyInBin v) : Nat) : Rat) + (bins.map (pyBinSum ps)).sum := by
  induction bins with
  | nil => simp; grind
  | cons b bs ih =>
    simp only [List.map_cons, List.sum_cons, List.countP_cons, binSum_cons]
    rw [ih]
    cases h : pyInBin v b <;> simp <;> grind

theorem bins_lo_ge (a : Rat) (l : List Rat) (h : List.Pairwise (· < ·) (a :: l)) :
    ∀ b ∈ pyHistBins (a :: l), a ≤ b.1 := by
  induction l generalizing a with
  | nil => simp [pyHistBins]
  | cons x xs ih =>
    cases xs with
    | nil => simp [pyHistBins]; 
    | cons y ys =>
      intro b hb
      simp only [pyHistBins, List.mem_cons] at hb
      rcases hb with rfl | hb
      · exact Rat.le_refl
      · have hp := List.pairwise_cons.mp h
        have hax : a < x := hp.1 x (by simp)
        have := ih x hp.2 b (by simpa [pyHistBins] using hb)
        grind

theorem count_one (v a : Rat) (l : List Rat) (hne : l ≠ []) (h : List.Pairwise (· < ·) (a :: l))
    (hlo : a ≤ v) (hhi : v ≤ (a :: l).getLast (by simp)) :
    (pyHistBins (a :: l)).countP (pyInBin v) = 1 := by
  induction l generalizing a with
  | nil => exact absurd rfl hne
  | cons x xs ih =>
    cases xs with
    | nil =>
      simp [pyHistBins, pyInBin, List.countP_cons] at *
      grind
    | cons y ys =>
      have hp := List.pairwise_cons.mp h
      simp only [pyHistBins, List.countP_cons]
      by_cases hvx : v < x
      · -- in the first bin, in no later one
        have hnone : (pyHistBins (x :: y :: ys)).countP (pyInBin v) = 0 := by
          rw [List.countP_eq_zero]
          intro b hb
          have := bins_lo_ge x (y :: ys) hp.2 b hb
          simp [pyInBin]; grind
        rw [hnone]; simp [pyInBin, hlo, hvx]
      · have hvx : x ≤ v := Rat.not_lt.mp hvx
        have := ih x (by simp) hp.2 hvx (by simpa using hhi)
        rw [this]; simp [pyInBin]; grind

theorem hist_conserve (ps : List (Rat × Rat)) (a : Rat) (l : List Rat) (hne : l ≠ []) (h : List.Pairwise (· < ·) (a :: l))
    (hin : ∀ p ∈ ps, a ≤ p.1 ∧ p.1 ≤ (a :: l).getLast (by simp)) :
    ((pyHistBins (a :: l)).map (pyBinSum ps)).sum = (ps.map (·.2)).sum := by
  induction ps with
  | nil => exact sum_map_zero _
  | cons p ps ih =>
    obtain ⟨v, w⟩ := p
    rw [hist_cons, count_one v a l hne h (hin (v, w) (by simp)).1 (hin (v, w) (by simp)).2,
      ih (fun p hp => hin p (by simp [hp]))]
    simp

theorem histBins_length (l : List Rat) : (pyHistBins l).length = l.length - 1 := by
  fun_induction pyHistBins l <;> simp_all

theorem arange_pairwise (start step : Rat) (hs : 0 < step) (k : Nat) :
    List.Pairwise (· < ·) ((List.range k).map (fun (i : Nat) => start + (i : Rat) * step)) := by
  rw [List.pairwise_map]
  refine List.Pairwise.imp ?_ List.pairwise_lt_range
  intro i j hij
  have h1 : (i : Rat) < (j : Rat) := Rat.natCast_lt_natCast.mpr hij
  have h2 := Rat.mul_lt_mul_of_pos_right h1 hs
  grind

theorem sum_replicate_one (n : Nat) : (List.replicate n (1 : Rat)).sum = (n : Rat) := by
  induction n with
  | zero => simp
  | succ k ih => rw [List.replicate_succ, List.sum_cons, ih]; push_cast; grind

theorem bins_core (w : Rat) (hw : 0 < w) (az ws : List Rat) (hin : ∀ a ∈ az, 0 ≤ a ∧ a ≤ 180) (hlen : ws.length = az.length) :
    (pyHistogram az (Gen.calc_bins w true).1 ws).sum = ws.sum ∧ (pyHistogram az (Gen.calc_bins w true).1 ws).length = ((180 / w).ceil).toNat := by
  obtain ⟨hn, hbw, hl, hget, hlast⟩ := C15_bins w hw
  generalize hnn : (180 / w).ceil = n at hn hbw hl hget hlast
  have hbwpos : 0 < 180 / (n : Rat) := by
    have : (180 : Rat) / (n : Rat) = 180 * (n : Rat)⁻¹ := Rat.div_def _ _
    rw [this]; exact Rat.mul_pos (by decide +kernel) (Rat.inv_pos.mpr (by exact_mod_cast hn))
  have hpw : List.Pairwise (· < ·) (Gen.calc_bins w true).1 := by
    show List.Pairwise (· < ·) (pyArange 0 (180 + 180 / (((180 / w).ceil : Int) : Rat) * (1/100)) (180 / (((180 / w).ceil : Int) : Rat)))
    rw [hnn]
    exact arange_pairwise 0 _ hbwpos _
  generalize (Gen.calc_bins w true).1 = edges at hl hget hlast hpw
  constructor
  · match edges, hl, hget, hlast, hpw with
    | [], hl, _, _, _ => simp at hl
    | a :: l, hl, hget, hlast, hpw =>
      have hne : l ≠ [] := by
        intro h; subst h; simp at hl; omega
      have ha : a = 0 := by
        have := hget 0 (Nat.zero_le _); simp at this; exact this
      have hlastv : (a :: l).getLast (by simp) = 180 := by
        rw [List.getLast_eq_getElem]
        have : (a :: l).length - 1 = n.toNat := by rw [hl]; omega
        have h2 := hlast
        rw [← this] at h2
        rw [List.getElem?_eq_getElem (by simp)] at h2
        exact Option.some.inj h2
      show ((pyHistBins (a :: l)).map (pyBinSum (az.zip ws))).sum = _
      rw [hist_conserve _ a l hne hpw]
      · rw [List.map_snd_zip (by rw [hlen]; exact Nat.le_refl _)]
      · intro p hp
        have := hin p.1 (List.of_mem_zip hp).1
        rw [hlastv, ha]; exact this
  · show (List.map _ (pyHistBins edges)).length = _
    rw [List.length_map, histBins_length, hl]; omega

/-- **Rose bins conserve the weights (regenerated `determine_azimuth_bins`, all sample sizes, all multipliers).** For every sample of azimuths in `[0, 180]`, whatever
the ideal width the sample size yields (any positive value) and whatever the multiplier: there is one height and one bar location per bin, `⌈180 / w⌉` of them, and the heights
sum to the total of the length weights — to the NUMBER of lines when no lengths are given. (`np.histogram` is the prelude's exact `pyHistogram`: bins `[e_i, e_{i+1})`, the last closed.) -/
theorem C15_generated_bin_heights_sum (ideal_ : Nat → Bool → Rat) (az : List Rat) (len : Option (List Rat)) (m : Rat)
    (hw : 0 < ideal_ az.length true * m) (hin : ∀ a ∈ az, 0 ≤ a ∧ a ≤ 180) (hlen : ∀ l, len = some l → l.length = az.length) :
    let r := Gen.determine_azimuth_bins ideal_ az len m true
    let n := (180 / (ideal_ az.length true * m)).ceil
    r.2.2.sum = (match len with | none => (az.length : Rat) | some l => l.sum) ∧
      r.2.2.length = n.toNat ∧ r.2.1.length = n.toNat ∧ r.1 = 180 / (n : Rat) := by
  intro r n
  obtain ⟨hn, hbw, _, _, _⟩ := C15_bins (ideal_ az.length true * m) hw
  have hlocs : (Gen.calc_locs (Gen.calc_bins (ideal_ az.length true * m) true).2 true).length = n.toNat := (C15_locs n hn).1
  cases len with
  | none =>
    have hc := bins_core _ hw az (List.replicate az.length 1) hin (by simp)
    rw [sum_replicate_one] at hc
    exact ⟨hc.1, hc.2, hlocs, hbw⟩
  | some ws =>
    have hc := bins_core _ hw az ws hin (hlen ws rfl)
    exact ⟨hc.1, hc.2, hlocs, hbw⟩

/-- **The histogram's bin of a value is the specification's floor index.** For uniform edges `i·bw` a value `a ≥ 0` lies in the half-open bin `[i·bw, (i+1)·bw)` of the
prelude's `pyHistogram` exactly when `⌊a / bw⌋ = i` — the index `Spec.binIndex` assigns (the driver's `bins` command, which S15-bins runs against the real
`determine_azimuth_bins`): the regenerated histogram and the hand-written specification bin alike. -/
theorem C15_bin_membership_is_floor_index (bw a : Rat) (hbw : 0 < bw) (h0 : 0 ≤ a) (i : Nat) :
    pyInBin a ((i : Rat) * bw, ((i : Rat) + 1) * bw, false) = true ↔ (a / bw).floor.toNat = i := by
  have hq0 : 0 ≤ a / bw := by
    rw [Rat.div_def]; exact Rat.mul_nonneg h0 (Rat.le_of_lt (Rat.inv_pos.mpr hbw))
  have hf0 : 0 ≤ (a / bw).floor := Rat.le_floor_iff.mpr (by simpa using hq0)
  have e1 : ((i : Rat) * bw ≤ a) ↔ ((i : Int) ≤ (a / bw).floor) := by
    rw [Rat.le_floor_iff]
    constructor
    · intro h
      have : ((i : Int) : Rat) = (i : Rat) := by norm_cast
      rw [this]
      by_cases hlt : a / bw < (i : Rat)
      · have := (Rat.div_lt_iff hbw).mp hlt
        exact absurd h (Rat.not_le.mpr this)
      · exact Rat.not_lt.mp hlt
    · intro h
      have : ((i : Int) : Rat) = (i : Rat) := by norm_cast
      rw [this] at h
      by_cases hlt : a < (i : Rat) * bw
      · have := (Rat.div_lt_iff hbw).mpr hlt
        exact absurd h (Rat.not_le.mpr this)
      · exact Rat.not_lt.mp hlt
  have e2 : (a < ((i : Rat) + 1) * bw) ↔ ((a / bw).floor < (i : Int) + 1) := by
    rw [Rat.floor_lt_iff, Rat.div_lt_iff hbw]
    have : (((i : Int) + 1 : Int) : Rat) = (i : Rat) + 1 := by push_cast; rfl
    rw [this]
  simp only [pyInBin, Bool.and_eq_true, decide_eq_true_eq, Bool.false_eq_true, if_false]
  rw [e1, e2]
  omega

/-- the same, stated with `Spec.binIndex` for azimuths in `[0, 180)` -/
theorem C15_spec_bin_index_is_histogram_bin (w a : Rat) (hbw : 0 < Spec.binWidth w) (h0 : 0 ≤ a) (h1 : a < 180) (i : Nat) :
    Spec.binIndex w a = some i ↔ pyInBin a ((i : Rat) * Spec.binWidth w, ((i : Rat) + 1) * Spec.binWidth w, false) = true := by
  rw [C15_bin_membership_is_floor_index _ _ hbw h0]
  have hn : ¬ (a < 0) := Rat.not_lt.mpr h0
  have hg : ¬ (a > 180) := Rat.not_lt.mpr (Rat.le_of_lt h1)
  have hne : (a == 180) = false := by
    simp only [beq_eq_false_iff_ne, ne_eq]
    intro h; rw [h] at h1; exact absurd h1 (by decide +kernel)
  simp [Spec.binIndex, hn, hg, hne]

/-- non-vacuity: the doctest of `determine_azimuth_bins` (4 azimuths, ideal width 90 / ∛4 ≈ 56.7 → 4 bins of 45°) -/
example : Gen.determine_azimuth_bins (fun _ _ => 567/10) [25, 50, 145, 160] (some [5, 5, 10, 60]) 1 true = (45, [45/2, 135/2, 225/2, 315/2], [5, 5, 0, 70]) := by
  decide +kernel

example : (containing 30 true ["a", "b"] [(160, 40), (50, 100)]).length ≤ 1 := by decide +kernel

/-! ### the column cache of `LineData` (regenerated from its checked shape) -/

/-- **Sets are assigned from the lines' own azimuths.** With neither an azimuth nor an azimuth-set column in the wrapped frame, the regenerated
`LineData.azimuth_set_array` is `determine_set` mapped over the azimuths of the lines' own geometry. -/
theorem C15_linedata_sets (detset : Rat → String) (azimuths : List Rat) (cols : LineCols) (ha : cols.azimuth = none) (hs : cols.azimuth_set = none) :
    (Gen.ld_azimuth_set_array detset azimuths cols).1 = azimuths.map detset := by
  unfold Gen.ld_azimuth_set_array Gen.ld_azimuth_array
  rw [hs, ha]


/-- asking twice gives the same answer (the second time from the stored column) -/
theorem C15_linedata_idempotent (detset : Rat → String) (azimuths : List Rat) (cols : LineCols) :
    (Gen.ld_azimuth_set_array detset azimuths (Gen.ld_azimuth_set_array detset azimuths cols).2).1 = (Gen.ld_azimuth_set_array detset azimuths cols).1 := by
  unfold Gen.ld_azimuth_set_array Gen.ld_azimuth_array
  cases hs : cols.azimuth_set <;> cases ha : cols.azimuth <;> simp [hs]


/-- **Set membership is computed per Network.** In the regenerated `Network.__post_init__` the frame into which a Network writes its azimuth and
azimuth-set columns is a function of the COPY of the caller's frame only; the caller's frame never receives them, so a second Network with other set
ranges on the same caller's frame computes its own sets. (History stream S15-network observes exactly this.) -/
theorem C15_network_sets_from_a_copy {G' A' : Type} (area_is_empty : A' → Bool) (copy_ : List G' → List G') (has_z : List G' → Bool) (drop_z : List G' → List G')
    (crop_ : List G' → A' → Bool → List G') (given : Bool) (traces traces' : List G') (area : A') (truncate circular topo rz : Bool)
    (h : copy_ traces = copy_ traces') :
    Gen.network_init area_is_empty copy_ has_z drop_z crop_ given traces area truncate circular topo rz () () =
      Gen.network_init area_is_empty copy_ has_z drop_z crop_ given traces' area truncate circular topo rz () () := by
  unfold Gen.network_init
  simp only [h]

/-- the hypothesis is met by two different caller frames with the same copy, and the frame the Network keeps is then the same -/
example : Gen.network_init (fun (_ : Unit) => false) (fun (l : List Nat) => l.map (· % 10)) (fun _ => false) id (fun l _ _ => l) true [11, 22] () false false false false () ()
    = Gen.network_init (fun (_ : Unit) => false) (fun (l : List Nat) => l.map (· % 10)) (fun _ => false) id (fun l _ _ => l) true [1, 2] () false false false false () () := by decide


end C15
