import FractopoModel.Props.C01
import FractopoModel.Lemmas.SnapDriver
import FractopoModel.Generated.Windows
import FractopoModel.Generated.SnapConstants
import FractopoModel.Props.C05
import FractopoModel.Generated.ZCoordinates
/-!
# C03 — data that passes validation is analysable (the threshold contract between the two halves)

The two halves of the package share one threshold: snapping acts strictly inside it, the
validators report strictly between it and threshold × multiplier.  The theorems state, for every
gap and threshold, that an end which validation accepts is either snapped (connected) or at
least a threshold away from the trace it approaches (a clean free tip) -- nothing accepted is
left closer than the threshold without being connected.  That the extraction of such maps is a
consistent planar graph is tied by stream S03 on generated near-threshold maps.
-/
namespace C03

/-- accepted by the under/overlap validator: not in the window (or already well snapped) -/
def accepted (d t m : Rat) : Bool := Gen.well_snapped d t || !Gen.underlap_window d t m

/-- **Threshold contract (trace ends near traces).** For all `d ≥ 0`, `t > 0`, `m ≥ 1`: an end at
distance `d` that is accepted is snapped when it is off the trace (`d < t`), and otherwise is at
least `t` away; in particular never in `(t, t·m)`. -/
theorem C03_contract (d t m : Rat) (hm : 1 ≤ m) (ht : 0 < t) (h : accepted d t m = true) :
    (d < t ∧ Gen.snap_guard d t false = true) ∨ (d = t ∧ Gen.snap_guard d t false = false) ∨ (t * m ≤ d ∧ Gen.snap_guard d t false = false) := by
  unfold accepted Gen.well_snapped Gen.underlap_window at h
  unfold Gen.snap_guard
  have h1 : t * 1 ≤ t * m := Rat.mul_le_mul_of_nonneg_left hm (Rat.le_of_lt ht)
  by_cases c1 : d < t
  · left; simp [c1]
  · by_cases c2 : d = t
    · right; left; subst c2; simp
    · right; right
      have c3 : t < d := by grind
      simp [c1, c3] at h
      constructor
      · grind
      · simp [c1]

/-- **Threshold contract (trace ends near the area boundary).** An end inside the area that is
accepted by the area validator is within the threshold of the boundary (and becomes an E-node, by
the same strict test) or at least `t·m·a` away. -/
theorem C03_contract_boundary (d t m a : Rat) (h : Gen.area_window d t m a = false) :
    Gen.node_boundary_close d t = true ∨ t * m * a ≤ d := by
  unfold Gen.area_window at h
  unfold Gen.node_boundary_close
  by_cases c1 : d < t
  · left; simp [c1]
  · right
    have : t ≤ d := by grind
    simp [this] at h; grind

/-- the snapping loop either stabilises or raises after more than `allowed_loops` passes -/
theorem C03_loop_bound (loops : Nat) : Gen.snapping_loop_raises loops Gen.allowed_loops_default = true ↔ 10 < loops := by
  simp [Gen.snapping_loop_raises, Gen.allowed_loops_default]

/-- consistency of the node classes with the branch ends meeting there (from C05): I, Y, X
terminate exactly 1, 3, 4 branches; 2 ends (a removed stub) would be labelled I -- the error case -/
theorem C03_degree_classes :
    Gen.degree_to_class 0 = "I" ∧ Gen.degree_to_class 2 = "Y" ∧ Gen.degree_to_class 3 = "X" ∧ Gen.degree_to_class 1 = "I" := by decide

example : accepted (1 / 200) (1 / 100) (11 / 10) = true ∧ accepted (21 / 2000) (1 / 100) (11 / 10) = false ∧ accepted (3 / 100) (1 / 100) (11 / 10) = true := by
  decide +kernel

/-- **Extraction gives up only by raising, never by looping on**: whenever the regenerated snapping driver of
`branches_and_nodes` returns (for any pass function that does not raise by itself), at most `allowed_loops` repeat passes were
made -- the `report_snapping_loop` bound, for the regenerated `while` loop. -/
theorem C03_generated_loop_bound (ord : SnapL.Ord) (t margin : Rat) (areas : List Polygon) (allowed : Nat)
    (pass_ : List Polyline → List Polyline × Bool) (hpass : ∀ tr, SnapL.snapPass ord t margin areas tr = .ok (pass_ tr))
    (traces out : List Polyline) (n : Nat) (h : Gen.snap_driver pass_ traces allowed (allowed + 2) = .ok (out, n)) : n ≤ allowed := by
  rw [SnapDriver.generated_driver ord t margin areas allowed pass_ hpass] at h
  exact SnapL.snapLoop_bound ord t margin areas allowed traces out n h

/-- **Extraction either completes or raises what the snapping stage raised.** For the regenerated `branches_and_nodes` (orchestration and
snapping pass regenerated, `C01_generated_pipeline`): when the model's snapping loop on the prepared traces raises -- `RecursionError`
after more than `allowed_loops` repeat passes (`C03_loop_bound`), or a `ValueError` of a pass -- extraction raises exactly that and
returns no tables; when it completes, the only other exception is the `TypeError` of the noding dispatch. In particular a map that
cannot be made stable within the allowed number of passes is refused, never silently extracted. -/
theorem C03_generated_raise {A U N : Type} (ord : SnapL.Ord) (dedupe : List Polyline → List Polyline) (polys_of : A → List Polygon) (is_ls : Polyline → Bool)
    (crop : List Polyline → List A → List Polyline) (len : Polyline → Rat) (union_all : List Polyline → U) (u_is_multi u_is_line : U → Bool)
    (u_parts : U → List Polyline) (node_table : List Polyline → List A → Rat → List N × List String)
    (branch_labels : List Polyline → List N → List String → Rat → List String)
    (dist : Pt → Polyline → Rat) (bdist : Pt → Polygon → Rat) (t : Rat)
    (hdist : ∀ ep l, decide (dist ep l < t) = SnapL.near t ep l)
    (hbd : ∀ ep (pg : Polygon), decide (bdist ep pg < t) = decide (pg.boundaryDist2 ep < t * t))
    (traces : List Polyline) (areas : List A) (allowed : Nat) (clipped : Bool) (e : String)
    (h : SnapL.snapLoop ord t (t * 20) ((areas.map polys_of).flatMap id) allowed (Pipeline.prepared dedupe is_ls crop traces areas clipped) = .error e) :
    Gen.branches_and_nodes dedupe polys_of is_ls crop
        (fun tr thr polys => Gen.snap_traces SnapStageL.boundsE (SnapStageL.indexE ord) SnapStageL.simpleSnapG SnapL.ends bdist dist (fun ep l => SnapL.onLine ep l)
          (fun l ep th => Snap.insertGeo l ep th) tr thr (some polys))
        len union_all u_is_multi u_is_line u_parts node_table branch_labels traces areas t allowed clipped (allowed + 2) = .error e := by
  rw [C01.C01_generated_pipeline ord dedupe polys_of is_ls crop len union_all u_is_multi u_is_line u_parts node_table branch_labels dist bdist t hdist hbd, h]

/-! ### the z-coordinate gate in front of snapping and noding -/

/-- **The clean-up runs as soon as ANY geometry has a Z value.** The regenerated `check_for_z_coordinates` is true iff some geometry (that has the attribute
at all) has Z: a map with Z values on only some of its traces is cleaned before the 2-D snapping and noding work on it. -/
theorem C03_generated_z_gate {G : Type} (has_attr has_z : G → Bool) (l : List G) :
    Gen.check_for_z_coordinates has_attr has_z l = true ↔ ∃ g ∈ l, has_attr g = true ∧ has_z g = true := by
  unfold Gen.check_for_z_coordinates
  simp [List.any_eq_true]

example : Gen.check_for_z_coordinates (fun _ => true) (fun g : Nat => g > 100) [1, 2, 300] = true := by decide

end C03
