import FractopoModel.Spec.Arrangement
import FractopoModel.Props.C05
import FractopoModel.Generated.LengthFilters
import FractopoModel.Generated.SnapConstants
import FractopoModel.Lemmas.SnapLoop
import FractopoModel.Lemmas.PipelineSnap
import FractopoModel.Lemmas.SnapStage
/-!
# C01 — extracted topology equals the exact planar arrangement

The theorems below are the combinatorial half: for EVERY well-formed contact structure
(any number of traces, any contacts) the degree-counting classification that the code
performs on the noded pieces (`Topo.nodeClass` with the regenerated `degree_to_class`,
`Topo.branchLabel` with the regenerated `determine_branch_identity`) yields exactly the
arrangement's classes: cross ↦ X, abutment ↦ Y, free tip ↦ I, boundary cut ↦ E, and each
branch the pair of its end kinds.  The geometric half (the implementation's noding yields the
pieces of the contact structure on valid maps) is the law `NodingSpec`, sampled by stream S01
against the exact contact oracle (`Model/Contacts.lean`).
-/
namespace C01
open Arr Topo
variable {N : Type} [DecidableEq N]

def endsOfPieces (evs : List (Event N)) : List N := (pieces evs).flatMap fun (ab : Event N × Event N) => [ab.1.node, ab.2.node]

theorem count_endsOfPieces (n : N) (evs : List (Event N)) :
    (endsOfPieces evs).count n = 2 * interiorOcc n evs + firstIs n evs + lastIs n evs := by
  match evs with
  | [] => simp [endsOfPieces, pieces, interiorOcc, firstIs, lastIs]
  | [_] => simp [endsOfPieces, pieces, interiorOcc, firstIs, lastIs]
  | [a, b] => simp [endsOfPieces, pieces, interiorOcc, firstIs, lastIs, List.count_cons]; grind
  | a :: b :: c :: rest =>
    have ih := count_endsOfPieces n (b :: c :: rest)
    simp only [endsOfPieces, pieces, List.flatMap_cons, List.count_append, List.count_cons, List.count_nil,
      interiorOcc, firstIs, lastIs] at ih ⊢
    grind

theorem ends_toBranches (cs : CS N) : Topo.ends (toBranches cs) = cs.flatMap endsOfPieces := by
  induction cs with
  | nil => simp [toBranches, branches, Topo.ends]
  | cons evs rest ih =>
    simp only [toBranches, branches, Topo.ends, List.flatMap_cons, List.map_append, List.flatMap_append] at ih ⊢
    rw [ih]
    congr 1
    simp [endsOfPieces, List.flatMap_map]

/-- number of branch ends meeting at a node = 2·(interior occurrences) + (end occurrences) -/
theorem mult_formula (cs : CS N) (n : N) :
    Topo.mult (toBranches cs) n = 2 * totalInterior cs n + totalEnd cs n := by
  unfold Topo.mult
  rw [ends_toBranches]
  induction cs with
  | nil => simp [totalInterior, totalEnd]
  | cons evs rest ih =>
    simp only [List.flatMap_cons, List.count_append, totalInterior, totalEnd, List.map_cons, List.sum_cons, endOcc] at ih ⊢
    rw [count_endsOfPieces, ih]; omega

theorem wf_event (cs : CS N) (h : WellFormed cs = true) (e : Event N) (he : e ∈ allEvents cs) :
    (e.role = .onCross → totalInterior cs e.node = 2 ∧ totalEnd cs e.node = 0) ∧
    ((e.role = .onAbut ∨ e.role = .endAbut) → totalInterior cs e.node = 1 ∧ totalEnd cs e.node = 1) ∧
    ((e.role = .endFree ∨ e.role = .endBoundary) → totalInterior cs e.node = 0 ∧ totalEnd cs e.node = 1) := by
  unfold WellFormed at h
  simp only [Bool.and_eq_true, List.all_eq_true] at h
  have := h.1.2 e he
  cases hr : e.role <;> simp [hr] at this ⊢ <;> exact this

theorem wf_boundary_consistent (cs : CS N) (h : WellFormed cs = true) (e : Event N) (he : e ∈ allEvents cs) :
    isBoundaryNode cs e.node = decide (e.role = .endBoundary) := by
  unfold WellFormed at h
  simp only [Bool.and_eq_true, List.all_eq_true] at h
  have hc := h.2 e he
  unfold isBoundaryNode
  by_cases hb : e.role = .endBoundary
  · simp only [hb, decide_true]
    exact List.any_eq_true.mpr ⟨e, he, by simp [hb]⟩
  · simp only [hb, decide_false]
    apply List.any_eq_false.mpr
    intro f hf
    have := hc f hf
    by_cases hn : f.node = e.node
    · simp [hn, hb] at this; simp [hn, this]
    · simp [hn]

/-- **Node classes.** In every well-formed contact structure, counting branch ends at a node
(boundary proximity first, then the regenerated degree map on `multiplicity − 1`) gives the
class of the node's true kind: crossing ↦ X, abutment ↦ Y, free tip ↦ I, boundary end ↦ E. -/
theorem C01_node_class (cs : CS N) (h : WellFormed cs = true) (e : Event N) (he : e ∈ allEvents cs) :
    Topo.nodeClass (isBoundaryNode cs) Gen.degree_to_class (toBranches cs) e.node = classOfRole e.role := by
  unfold Topo.nodeClass
  rw [wf_boundary_consistent cs h e he, mult_formula]
  obtain ⟨hx, hy, hi⟩ := wf_event cs h e he
  cases hr : e.role
  · -- endFree
    obtain ⟨a, b⟩ := hi (.inl hr); simp [a, b, classOfRole]; decide
  · simp [classOfRole]
  · obtain ⟨a, b⟩ := hy (.inr hr); simp [a, b, classOfRole]; decide
  · obtain ⟨a, b⟩ := hy (.inl hr); simp [a, b, classOfRole]; decide
  · obtain ⟨a, b⟩ := hx hr; simp [a, b, classOfRole]; decide

/-- multiplicities: 4 at a crossing, 3 at an abutment, 1 at a tip or a boundary end -/
theorem C01_multiplicity (cs : CS N) (h : WellFormed cs = true) (e : Event N) (he : e ∈ allEvents cs) :
    Topo.mult (toBranches cs) e.node =
      match e.role with
      | .onCross => 4 | .onAbut => 3 | .endAbut => 3 | .endFree => 1 | .endBoundary => 1 := by
  rw [mult_formula]
  obtain ⟨hx, hy, hi⟩ := wf_event cs h e he
  cases hr : e.role
  · obtain ⟨a, b⟩ := hi (.inl hr); simp only []; omega
  · obtain ⟨a, b⟩ := hi (.inr hr); simp only []; omega
  · obtain ⟨a, b⟩ := hy (.inr hr); simp only []; omega
  · obtain ⟨a, b⟩ := hy (.inl hr); simp only []; omega
  · obtain ⟨a, b⟩ := hx hr; simp only []; omega

theorem pieces_length (evs : List (Event N)) : (pieces evs).length = evs.length - 1 := by
  match evs with
  | [] => rfl
  | [_] => rfl
  | a :: b :: rest =>
    have := pieces_length (b :: rest)
    simp only [pieces, List.length_cons] at this ⊢; omega

/-- **Counts.** One branch per piece between consecutive nodes: `#branches = Σ (|events| − 1)`,
and twice that number is the sum of the node multiplicities (4X + 3Y + I + E on a
well-formed structure by `C01_multiplicity`). -/
theorem C01_counts (cs : CS N) :
    (toBranches cs).length = (cs.map fun evs => evs.length - 1).sum ∧
    ((Topo.collect (toBranches cs)).map (Topo.mult (toBranches cs))).sum = 2 * (toBranches cs).length := by
  refine ⟨?_, C05.C05_handshake _⟩
  simp only [toBranches, branches, List.length_map]
  induction cs with
  | nil => simp
  | cons evs rest ih => simp [List.flatMap_cons, List.length_append, pieces_length, ih]

/-- **Branch classes.** With coincident ends identical (crisp), the label computed from the
node classes found at the two ends of a piece is the connection class of its two end nodes. -/
theorem C01_branch_class (cs : CS N) (h : WellFormed cs = true) (b : Event N × Event N) (hb : b ∈ branches cs)
    (hmem : b.1 ∈ allEvents cs ∧ b.2 ∈ allEvents cs) (hne : b.1.node ≠ b.2.node) :
    let bs := toBranches cs
    let cls := Topo.nodeClass (isBoundaryNode cs) Gen.degree_to_class bs
    Topo.branchLabel Gen.determine_branch_identity (fun p q => decide (p = q)) (Topo.collect bs) cls ⟨b.1.node, b.2.node⟩
      = branchClass b := by
  intro bs cls
  have hbr : (⟨b.1.node, b.2.node⟩ : Topo.Branch N) ∈ bs := by
    simp only [bs, toBranches, List.mem_map]; exact ⟨b, hb, rfl⟩
  have hends := C05.C05_end_has_unique_node bs _ hbr
  have hcls : ∀ n ∈ Topo.collect bs, cls n = "I" ∨ cls n = "X" ∨ cls n = "Y" ∨ cls n = "E" := by
    intro n _
    simp only [cls, Topo.nodeClass]
    split
    · simp
    · rw [C05.C05_degree_map]; unfold Spec.classOfDegree; split <;> simp
  have := C05.C05_branch_label (fun p q => decide (p = q)) (Topo.collect bs) cls hcls (Topo.collect_nodup bs)
    ⟨b.1.node, b.2.node⟩ hends.1.1 hends.2.1 (by intro n _; simp)
  rw [this]
  simp only [hne, if_false, cls, branchClass]
  rw [C01_node_class cs h b.1 hmem.1, C01_node_class cs h b.2 hmem.2]

/-! ## the length filters and the snapping loop on valid maps -/

/-- neither length filter removes a line longer than the documented minima (2.01·t for traces,
1.01·t for branches), and both are strict -/
theorem C01_filters (len t : Rat) (ht : 0 < t) :
    (Gen.trace_length_keep len t = decide (len > t * (201 / 100))) ∧
    (Gen.branch_length_keep len t = decide (len > t * (101 / 100))) ∧
    (len ≥ 50 * t → Gen.trace_length_keep len t = true ∧ Gen.branch_length_keep len t = true) := by
  refine ⟨rfl, rfl, ?_⟩
  intro h
  unfold Gen.trace_length_keep Gen.branch_length_keep
  constructor <;> simp <;> grind

/-- the candidate window of snapping is the trace's bounds extended by 20·t on every side, and
the loop gives up (raises) only after more than `allowed_loops = 10` passes -/
theorem C01_snap_constants (minx miny maxx maxy t : Rat) (loops : Nat) :
    Gen.snap_extended_bounds minx miny maxx maxy t = (minx - 20 * t, miny - 20 * t, maxx + 20 * t, maxy + 20 * t) ∧
    Gen.allowed_loops_default = 10 ∧
    (Gen.snapping_loop_raises loops Gen.allowed_loops_default = true ↔ loops > 10) := by
  refine ⟨?_, rfl, ?_⟩
  · unfold Gen.snap_extended_bounds; simp only [Prod.mk.injEq]; refine ⟨?_, ?_, ?_, ?_⟩ <;> grind
  · simp [Gen.snapping_loop_raises, Gen.allowed_loops_default]

/-- **The snapping stage is the identity on maps whose contacts are exact** (the hypothesis `quietMap` is
evaluated by the oracle on the clipped pieces of every valid map of stream S01, for both candidate
orders): the noding stage therefore sees exactly the clipped traces, with the window margin and loop
bound of the regenerated constants (20·t, 10). -/
theorem C01_snap_stage_identity (ord : SnapL.Ord) (t : Rat) (areas : List Polygon) (pieces : List Polyline)
    (h : SnapL.quietMap ord t (20 * t) pieces = true) :
    SnapL.snapLoop ord t (20 * t) areas Gen.allowed_loops_default pieces = .ok (pieces, 0) :=
  SnapL.snapLoop_quiet ord t (20 * t) areas _ pieces h

/-- non-vacuity: one crossing (node 5), one abutment (node 6), two boundary cuts -/
example :
    let cs : CS Nat := [[⟨1, .endBoundary⟩, ⟨5, .onCross⟩, ⟨2, .endBoundary⟩],
                        [⟨3, .endFree⟩, ⟨5, .onCross⟩, ⟨6, .onAbut⟩, ⟨4, .endFree⟩],
                        [⟨7, .endFree⟩, ⟨6, .endAbut⟩]]
    WellFormed cs = true ∧ Topo.mult (toBranches cs) 5 = 4 ∧ Topo.mult (toBranches cs) 6 = 3 := by
  decide

/-! ### the regenerated orchestration of `branches_and_nodes` -/

section Pipeline
variable {A U N : Type}

/-- **What `branches_and_nodes` computes, stage by stage.** The orchestration is regenerated whole (`Gen.branches_and_nodes`), its
snapping pass is the regenerated `snap_traces` with all its regenerated callees. For every input, either candidate order of the
spatial index, distance parameters obeying the threshold laws, and the fuel `allowed_loops + 2` (never exhausted):

* the trace list is prepared first -- duplicates removed, non-LineStrings dropped, and, unless `already_clipped`, cropped to the
  target areas (and filtered again) BEFORE any snapping; `already_clipped` is read nowhere else;
* the snapping stage on that list is the model loop `SnapL.snapLoop` over the flattened polygons of the areas, with its
  `RecursionError` / `ValueError`s propagating unchanged;
* the snapped traces are then filtered by length (> 2.01 t), noded, dispatched on the type of the noding result (TypeError
  otherwise), the pieces filtered by length (> 1.01 t), and the node table and branch labels computed from exactly those pieces. -/
theorem C01_generated_pipeline (ord : SnapL.Ord) (dedupe : List Polyline → List Polyline) (polys_of : A → List Polygon) (is_ls : Polyline → Bool)
    (crop : List Polyline → List A → List Polyline) (len : Polyline → Rat) (union_all : List Polyline → U) (u_is_multi u_is_line : U → Bool)
    (u_parts : U → List Polyline) (node_table : List Polyline → List A → Rat → List N × List String)
    (branch_labels : List Polyline → List N → List String → Rat → List String)
    (dist : Pt → Polyline → Rat) (bdist : Pt → Polygon → Rat) (t : Rat)
    (hdist : ∀ ep l, decide (dist ep l < t) = SnapL.near t ep l)
    (hbd : ∀ ep (pg : Polygon), decide (bdist ep pg < t) = decide (pg.boundaryDist2 ep < t * t))
    (traces : List Polyline) (areas : List A) (allowed : Nat) (clipped : Bool) :
    Gen.branches_and_nodes dedupe polys_of is_ls crop
        (fun tr thr polys => Gen.snap_traces SnapStageL.boundsE (SnapStageL.indexE ord) SnapStageL.simpleSnapG SnapL.ends bdist dist (fun ep l => SnapL.onLine ep l)
          (fun l ep th => Snap.insertGeo l ep th) tr thr (some polys))
        len union_all u_is_multi u_is_line u_parts node_table branch_labels traces areas t allowed clipped (allowed + 2)
      = match SnapL.snapLoop ord t (t * 20) ((areas.map polys_of).flatMap id) allowed (Pipeline.prepared dedupe is_ls crop traces areas clipped) with
        | .error e => .error e
        | .ok (snapped, _) => Pipeline.finish len union_all u_is_multi u_is_line u_parts node_table branch_labels areas t snapped := by
  rw [Pipeline.generated_pipeline]
  have hpass : (fun x => Gen.snap_traces SnapStageL.boundsE (SnapStageL.indexE ord) SnapStageL.simpleSnapG SnapL.ends bdist dist (fun ep l => SnapL.onLine ep l)
      (fun l ep th => Snap.insertGeo l ep th) x t (some ((areas.map polys_of).flatMap id)))
      = SnapL.snapPass ord t (t * 20) ((areas.map polys_of).flatMap id) := by
    funext x
    exact SnapStageL.generated_snap_traces ord t _ x dist bdist hdist hbd
  have hst := Pipeline.stage_eq_snapLoop ord t (t * 20) ((areas.map polys_of).flatMap id) allowed (Pipeline.prepared dedupe is_ls crop traces areas clipped)
  rw [← hpass] at hst
  rw [hst]
  cases SnapL.snapLoop ord t (t * 20) ((areas.map polys_of).flatMap id) allowed (Pipeline.prepared dedupe is_ls crop traces areas clipped) with
  | error e => rfl
  | ok r => rfl

end Pipeline

end C01
