import FractopoModel.Basic.Geom
import FractopoModel.Lemmas.TopoPerm
import FractopoModel.Props.C08
import FractopoModel.Props.C14
import FractopoModel.Props.C13
import FractopoModel.Lemmas.IntersectionFilter
import FractopoModel.Generated.LineDataCache
import FractopoModel.Generated.ZCoordinates
/-!
# C11 — results depend only on 2-D geometry: order, direction, similarity

* every exact geometric predicate the models are built from is invariant under translations
  and the 8 lattice symmetries, and scales by `k²` under scaling by `k` (so thresholds scaled by
  `k` give the same verdicts);
* node classes, node set and branch labels are invariant under permuting and reversing branches
  (C14_routes, reused);
* the published parameters scale as dimensional analysis demands.
-/
namespace C11

def translate (v p : Pt) : Pt := ⟨p.x + v.x, p.y + v.y⟩
def scale (k : Rat) (p : Pt) : Pt := ⟨k * p.x, k * p.y⟩
/-- the 8 lattice symmetries: optional swap of the axes, optional sign flips -/
def sym (swap fx fy : Bool) (p : Pt) : Pt :=
  let q : Pt := if swap then ⟨p.y, p.x⟩ else p
  ⟨if fx then -q.x else q.x, if fy then -q.y else q.y⟩

theorem C11_dist2_translate (v p q : Pt) : Pt.dist2 (translate v p) (translate v q) = Pt.dist2 p q := by
  simp only [Pt.dist2, Pt.sub, Pt.dot, translate]; grind

theorem C11_dist2_sym (s fx fy : Bool) (p q : Pt) : Pt.dist2 (sym s fx fy p) (sym s fx fy q) = Pt.dist2 p q := by
  cases s <;> cases fx <;> cases fy <;> simp only [Pt.dist2, Pt.sub, Pt.dot, sym] <;> grind

theorem C11_dist2_scale (k : Rat) (p q : Pt) : Pt.dist2 (scale k p) (scale k q) = k * k * Pt.dist2 p q := by
  simp only [Pt.dist2, Pt.sub, Pt.dot, scale]; grind

/-- a threshold test `d < t` is unchanged when the map and the threshold are scaled together -/
theorem C11_close_scale (k t : Rat) (hk : 0 < k) (p q : Pt) :
    (Pt.dist2 (scale k p) (scale k q) < (k * t) * (k * t)) ↔ (Pt.dist2 p q < t * t) := by
  rw [C11_dist2_scale]
  have hkk : 0 < k * k := Rat.mul_pos hk hk
  have e : k * t * (k * t) = k * k * (t * t) := by grind
  rw [e]
  constructor
  · intro h
    by_cases c : Pt.dist2 p q < t * t
    · exact c
    · have : t * t ≤ Pt.dist2 p q := by grind
      have := Rat.mul_le_mul_of_nonneg_left this (Rat.le_of_lt hkk)
      grind
  · intro h; exact Rat.mul_lt_mul_of_pos_left h hkk

theorem C11_orient_translate (v a b c : Pt) : orient (translate v a) (translate v b) (translate v c) = orient a b c := by
  simp only [orient, Pt.cross, Pt.sub, translate]; grind

theorem C11_orient_scale (k : Rat) (a b c : Pt) : orient (scale k a) (scale k b) (scale k c) = k * k * orient a b c := by
  simp only [orient, Pt.cross, Pt.sub, scale]; grind

/-- a symmetry keeps or flips the sign of every orientation at once (mirror images) -/
theorem C11_orient_sym (s fx fy : Bool) (a b c : Pt) :
    orient (sym s fx fy a) (sym s fx fy b) (sym s fx fy c) = (if (s != fx) != fy then -1 else 1) * orient a b c := by
  cases s <;> cases fx <;> cases fy <;> simp only [orient, Pt.cross, Pt.sub, sym] <;> grind

/-- hence collinearity (orientation zero) -- and with it on-segment and intersection tests -- are
invariant under the whole group -/
theorem C11_collinear_invariant (s fx fy : Bool) (v : Pt) (k : Rat) (hk : k ≠ 0) (a b c : Pt) :
    (orient (sym s fx fy (translate v (scale k a))) (sym s fx fy (translate v (scale k b))) (sym s fx fy (translate v (scale k c))) = 0) ↔ orient a b c = 0 := by
  rw [C11_orient_sym, C11_orient_translate, C11_orient_scale]
  have hkk : k * k ≠ 0 := by
    intro h; rcases Rat.mul_eq_zero.mp h with h | h <;> exact hk h
  have key : ∀ x : Rat, k * k * x = 0 → x = 0 := by
    intro x hx
    rcases Rat.mul_eq_zero.mp hx with h | h
    · exact absurd h hkk
    · exact h
  constructor
  · intro h
    cases hs : ((s != fx) != fy)
    · simp only [hs, Bool.false_eq_true, if_false, Rat.one_mul] at h; exact key _ h
    · simp only [hs, if_true] at h
      have : k * k * orient a b c = 0 := by grind
      exact key _ this
  · intro h; rw [h]; simp

/-- node classes, the node set and branch labels do not depend on the order of the branches nor
on the direction in which any of them was digitised -/
theorem C11_topology_perm {P : Type} [DecidableEq P] (bs bs' : List (Topo.Branch P)) (h : Topo.SameUpToOrderDir bs bs')
    (nearB : P → Bool) (close : P → P → Bool) :
    (Topo.collect bs').Perm (Topo.collect bs) ∧
    (∀ p, Topo.nodeClass nearB Gen.degree_to_class bs' p = Topo.nodeClass nearB Gen.degree_to_class bs p) :=
  ⟨(C14.C14_routes bs bs' h nearB close).1, (C14.C14_routes bs bs' h nearB close).2.1⟩

/-! ### the V-node bookkeeping of validation does not depend on row order or digitising direction -/

/-- **Order and direction freedom of the intersection filter.** The regenerated `determine_valid_intersection_points_no_vnode` (four nested
loops that switch flags off in place, scanning the candidate rows in frame order and the two ends of every candidate in digitising order) returns
the same points when the candidate rows are permuted and when any trace (candidate or the trace itself) is digitised in the other direction --
i.e. when `ends_of` lists the ends of every line in another order.  So which contacts count as V-nodes moves with the rows. -/
theorem C11_intersection_filter_order_free {L P : Type} (inter : List P) (ends_of ends_of' : L → List P) (close : P → P → Bool)
    (cands cands' : List L) (geom : L) (hperm : cands.Perm cands') (hends : ∀ l, (ends_of' l).Perm (ends_of l)) :
    Gen.intersection_points_no_vnode inter ends_of' close cands' geom = Gen.intersection_points_no_vnode inter ends_of close cands geom := by
  rw [IntersectionFilter.generated_eq_spec, IntersectionFilter.generated_eq_spec]
  apply List.filter_congr
  intro p _
  congr 1
  rw [Bool.eq_iff_iff]
  simp only [List.any_eq_true, IntersectionFilter.activeEnds, List.mem_flatMap, List.mem_filter]
  constructor
  · rintro ⟨ge, ⟨c, hc, ce, hce, hge, hcl⟩, hp⟩
    exact ⟨ge, ⟨c, hperm.mem_iff.mpr hc, ce, (hends c).mem_iff.mp hce, (hends geom).mem_iff.mp hge, hcl⟩, hp⟩
  · rintro ⟨ge, ⟨c, hc, ce, hce, hge, hcl⟩, hp⟩
    exact ⟨ge, ⟨c, hperm.mem_iff.mp hc, ce, (hends c).mem_iff.mpr hce, (hends geom).mem_iff.mpr hge, hcl⟩, hp⟩

/-- the hypotheses are met by a reversed row order with every trace reversed, and the filter then really drops a V-node contact -/
example : Gen.intersection_points_no_vnode [5, 9] (fun l : Nat × Nat => [l.2, l.1]) (fun a b => a == b) [(7, 8), (1, 5)] (5, 6)
    = Gen.intersection_points_no_vnode [5, 9] (fun l : Nat × Nat => [l.1, l.2]) (fun a b => a == b) [(1, 5), (7, 8)] (5, 6) ∧
    Gen.intersection_points_no_vnode [5, 9] (fun l : Nat × Nat => [l.1, l.2]) (fun a b => a == b) [(1, 5), (7, 8)] (5, 6) = [9] := by decide +kernel

/-! ### decoration with columns named like the package's cache columns (known finding F12) -/

/-- helper: a frame that already has a `length` column gets it back unchanged -/
theorem length_cached (lengths stale : List Rat) (counts : List Int) (cols : LineCols) (hl : cols.length = some stale) :
    Gen.ld_length_array Gen.intersection_count_to_boundary_weight lengths counts cols = (.ok stale, cols) := by
  unfold Gen.ld_length_array; rw [hl]

/-- helper: the set assignment reads a pre-existing `azimuth` column instead of the geometry -/
theorem sets_cached_azimuth (detset : Rat → String) (azimuths a : List Rat) (cols : LineCols) (ha : cols.azimuth = some a) (hs : cols.azimuth_set = none) :
    (Gen.ld_azimuth_set_array detset azimuths cols).1 = a.map detset := by
  unfold Gen.ld_azimuth_set_array Gen.ld_azimuth_array
  rw [hs, ha]


/-- **F12, stated on the regenerated code.** The regenerated column cache of `LineData` returns whatever the wrapped frame already holds under the
names `length` / `azimuth` (…): a user's attribute column of that name REPLACES the value computed from the geometry, and the set assignment is made from
the user's `azimuth` values. Extra columns are therefore not always inert -- the decoration clause of C11 fails exactly for these names (the names are
`Gen.line_cache_columns`). -/
theorem C11_F12_cache_named_columns_win (lengths stale azimuths user_az : List Rat) (counts : List Int) (detset : Rat → String) (cols : LineCols)
    (hl : cols.length = some stale) (ha : cols.azimuth = some user_az) (hs : cols.azimuth_set = none) :
    Gen.ld_length_array Gen.intersection_count_to_boundary_weight lengths counts cols = (.ok stale, cols) ∧
    (Gen.ld_azimuth_set_array detset azimuths cols).1 = user_az.map detset ∧
    Gen.line_cache_columns = ["length", "azimuth", "azimuth_set", "boundary_weight", "length non-weighted"] :=
  ⟨length_cached lengths stale counts cols hl, sets_cached_azimuth detset azimuths user_az cols ha hs, rfl⟩

example : (Gen.ld_azimuth_set_array (fun a => if a < 90 then "E" else "W") [10, 100] { azimuth := some [100, 100] }).1 = ["W", "W"] := by decide +kernel

/-! ### the one validator that keeps state on its class -/

/-- **The under/overlap label of a row does not depend on which rows were validated before it.** The regenerated `UnderlappingSnapValidator.validation_method`
(class attribute threaded as a value) reports, for a failing end, a label chosen from the call's own arguments only: whatever label earlier rows (in any order) left on
the class, the verdict and the label are the same -- so the verdict moves with its row under every row permutation. -/
theorem C11_underlap_label_independent_of_earlier_rows {L P : Type} (endpoints_of : L → List P) (dist : L → P → Rat) (isUl : L → L → P → Option Bool)
    (overlaps : L → L → Bool) (geom : L) (cands : List L) (t m : Rat) (left_by_earlier_rows left_by_other_order : String) (out : String)
    (h : Gen.underlap_validation endpoints_of dist isUl overlaps geom cands t m left_by_earlier_rows = .ok (false, out)) :
    Gen.underlap_validation endpoints_of dist isUl overlaps geom cands t m left_by_other_order = .ok (false, out) :=
  ((C13.C13_underlap_attribute endpoints_of dist isUl overlaps geom cands t m left_by_earlier_rows left_by_other_order false out h).2.1 rfl).2

/-! ### dimensional analysis of the published parameters (through C08: generated = published) -/

theorem sum_map_mul (k : Rat) (l : List Rat) : (l.map (k * ·)).sum = k * l.sum := by
  induction l with
  | nil => simp
  | cons a as ih => simp only [List.map_cons, List.sum_cons, ih]; grind

open Spec in
/-- the network scaled by `k > 0`: lengths × k, area × k², counts unchanged -/
def scaleNet (k : Rat) (n : NetIn) : NetIn :=
  { n with traceLens := n.traceLens.map (k * ·), branchLens := n.branchLens.map (k * ·), area := k * k * n.area }

open Spec in
/-- **Scaling law.** Under scaling by `k > 0` (area > 0): intensities (P21, B21) scale by 1/k, areal
frequencies (P20, B20) and connection frequency by 1/k², mean lengths by k, and the dimensionless
parameters and counts (P22, connections per trace / branch, numbers of traces and branches) are
unchanged. -/
theorem C11_param_scaling (k : Rat) (hk : 0 < k) (n : NetIn) :
    (scaleNet k n).nTraces = n.nTraces ∧ (scaleNet k n).nBranches = n.nBranches ∧
    (scaleNet k n).connPerTrace = n.connPerTrace ∧ (scaleNet k n).connPerBranch = n.connPerBranch ∧
    (scaleNet k n).p21 = n.p21 / k ∧
    (scaleNet k n).nTraces / (scaleNet k n).area = n.nTraces / n.area / (k * k) ∧
    (scaleNet k n).nBranches / (scaleNet k n).area = n.nBranches / n.area / (k * k) ∧
    (scaleNet k n).meanTrace = k * n.meanTrace ∧ (scaleNet k n).meanBranch = k * n.meanBranch ∧
    (scaleNet k n).p21 * (scaleNet k n).meanTrace = n.p21 * n.meanTrace ∧
    (scaleNet k n).p21 * (scaleNet k n).meanBranch = n.p21 * n.meanBranch := by
  have hk0 : k ≠ 0 := by intro h; rw [h] at hk; exact absurd hk (by decide)
  have hp21 : (scaleNet k n).p21 = n.p21 / k := by
    simp only [NetIn.p21, NetIn.totalLen, scaleNet, sum_map_mul]; grind
  have hmt : (scaleNet k n).meanTrace = k * n.meanTrace := by
    simp only [NetIn.meanTrace, NetIn.totalLen, scaleNet, sum_map_mul, List.length_map]
    split <;> grind
  have hmb : (scaleNet k n).meanBranch = k * n.meanBranch := by
    simp only [NetIn.meanBranch, NetIn.safeDiv, NetIn.totalLen, NetIn.nBranches, scaleNet, sum_map_mul]
    split <;> grind
  refine ⟨rfl, rfl, rfl, rfl, hp21, ?_, ?_, hmt, hmb, ?_, ?_⟩
  · simp only [NetIn.nTraces, scaleNet]; grind
  · simp only [NetIn.nBranches, scaleNet]; grind
  · rw [hp21, hmt]; grind
  · rw [hp21, hmb]; grind

example : Pt.dist2 (sym true true false ⟨1, 2⟩) (sym true true false ⟨4, 6⟩) = 25 := by decide +kernel

/-! ### decoration with Z values -/

theorem zip_map_self {α β γ : Type} (f : α → β → γ) (g : α → β) (l : List α) : List.zipWith f l (l.map g) = l.map fun r => f r (g r) := by
  induction l with
  | nil => rfl
  | cons a as ih => simp [ih]

/-- Z values are removed row by row whatever the index labels are (regenerated `remove_z_coordinates_from_geodata`): a map decorated with Z values and any
index is, after the clean-up that `Network`, `Validation` and `branches_and_nodes` run first, the same map in 2-D with the same labels and data -/
theorem C11_generated_z_removal {L D G : Type} [BEq L] [LawfulBEq L] (dropz : G → G) (nan : G) (frame : List (L × D × G)) :
    Gen.remove_z_coordinates_from_geodata dropz nan frame = .ok (frame.map fun r => (r.1, r.2.1, dropz r.2.2)) := by
  unfold Gen.remove_z_coordinates_from_geodata pyAssignAligned
  simp only [List.map_map, Function.comp_def]
  have : (List.map (fun r => r.1) frame == List.map (fun r => r.1) frame) = true := by simp
  simp only [this, if_true, zip_map_self]

example : Gen.remove_z_coordinates_from_geodata (fun g : Nat => g % 100) 0 [(7, "a", 301), (7, "b", 402), (3, "c", 5)] = .ok [(7, "a", 1), (7, "b", 2), (3, "c", 5)] := by decide

end C11
