import FractopoModel.Spec.SandersonNixon
import FractopoModel.Spec.Classes
import FractopoModel.Generated.TopologyParameters
import FractopoModel.Generated.BoundaryWeight
import FractopoModel.Generated.ParamTable
import FractopoModel.Generated.BranchBoundary
import FractopoModel.Generated.BoundaryLines
import FractopoModel.Generated.NetworkInit
import FractopoModel.Generated.LineDataCache
/-!
# C08 — network parameters equal the published definitions
-/
namespace C08
open Spec

/-- node-count dictionary of the generated function from a spec input -/
def counts (n : NetIn) : String → Rat := fun k =>
  if k = "X" then n.X else if k = "Y" then n.Y else if k = "I" then n.I else if k = "E" then n.E else 0

def gen (n : NetIn) (branchesDefined : Bool) : Except String Dict :=
  Gen.determine_topology_parameters n.pi n.sqrt n.traceLens n.area branchesDefined n.circular (counts n) n.branchLens

/-- the generated parameter table is the documented list of names (plus the multi-network
bookkeeping column "Circle Count", which is not a network parameter) -/
theorem C08_param_names : Gen.paramNames.Perm ("Circle Count" :: Spec.paramNames) := by decide

/-- Every reported parameter equals its published definition, for all counts, length lists,
areas, π, √ and both values of the circular flag; the function never raises. -/
theorem C08_params_eq_spec (n : NetIn) :
    ∃ d, gen n true = .ok d ∧ ∀ k ∈ Spec.paramNames, dictGet d k = n.param k := by
  obtain ⟨X, Y, I, E, tl, bl, area, circ, pi, sqrt⟩ := n
  cases circ <;> refine ⟨_, rfl, ?_⟩ <;> intro k hk <;>
  simp only [Spec.paramNames, List.mem_cons, List.mem_nil_iff, or_false] at hk <;>
  rcases hk with h | h | h | h | h | h | h | h | h | h | h | h | h | h | h | h | h | h | h | h | h | h | h <;>
    subst h <;>
    simp [dictGet, counts, NetIn.param, NetIn.nTraces, NetIn.nBranches, NetIn.p21, NetIn.totalLen,
      NetIn.meanTrace, NetIn.minTrace, NetIn.maxTrace, NetIn.minBranch, NetIn.maxBranch, NetIn.meanBranch,
      NetIn.safeDiv, NetIn.connPerTrace, NetIn.connPerBranch, NetIn.radius, NetIn.mauldonMeanLen,
      NetIn.mauldonDensity, NetIn.mauldon, listMean] <;>
    grind

/-- zero instead of a division error: with no I-, Y-, X-nodes every guarded quotient is 0 and
the function still returns (no error value), whatever the lengths and area -/
theorem C08_zero_denominators (n : NetIn) (hX : n.X = 0) (hY : n.Y = 0) (hI : n.I = 0) :
    ∃ d, gen n true = .ok d ∧
      dictGet d "Connections per Branch" = some (.num 0) ∧
      dictGet d "Connections per Trace" = some (.num 0) ∧
      dictGet d "Branch Mean Length" = some (.num 0) ∧
      dictGet d "Dimensionless Intensity B22" = some (.num 0) ∧
      dictGet d "Trace Mean Length (Mauldon)" = some (if n.circular then .num 0 else .nan) := by
  obtain ⟨d, hd, h⟩ := C08_params_eq_spec n
  refine ⟨d, hd, ?_⟩
  have e1 := h "Connections per Branch" (by simp [Spec.paramNames])
  have e2 := h "Connections per Trace" (by simp [Spec.paramNames])
  have e3 := h "Branch Mean Length" (by simp [Spec.paramNames])
  have e4 := h "Dimensionless Intensity B22" (by simp [Spec.paramNames])
  have e5 := h "Trace Mean Length (Mauldon)" (by simp [Spec.paramNames])
  rw [e1, e2, e3, e4, e5]
  simp [NetIn.param, NetIn.connPerBranch, NetIn.connPerTrace, NetIn.meanBranch, NetIn.safeDiv, NetIn.nBranches,
    NetIn.nTraces, NetIn.mauldon, NetIn.mauldonMeanLen, hX, hY, hI]
  grind

/-- the three Mauldon estimators are `nan` exactly for non-circular areas -/
theorem C08_mauldon_only_circular (n : NetIn) :
    ∃ d, gen n true = .ok d ∧ ∀ k ∈ ["Trace Mean Length (Mauldon)", "Fracture Density (Mauldon)", "Fracture Intensity (Mauldon)"],
      ((dictGet d k = some .nan) ↔ n.circular = false) := by
  obtain ⟨d, hd, h⟩ := C08_params_eq_spec n
  refine ⟨d, hd, ?_⟩
  intro k hk
  simp only [List.mem_cons, List.mem_nil_iff, or_false] at hk
  rcases hk with rfl | rfl | rfl
  · rw [h _ (by simp [Spec.paramNames])]; cases hc : n.circular <;> simp [NetIn.param, NetIn.mauldon, hc]
  · rw [h _ (by simp [Spec.paramNames])]; cases hc : n.circular <;> simp [NetIn.param, NetIn.mauldon, hc]
  · rw [h _ (by simp [Spec.paramNames])]; cases hc : n.circular <;> simp [NetIn.param, NetIn.mauldon, hc]

/-- without topology: the non-topological parameters keep their definitions, all others are `nan` -/
theorem C08_without_topology (n : NetIn) :
    ∃ d, gen n false = .ok d ∧ ∀ k ∈ Spec.paramNames,
      dictGet d k = if k ∈ Spec.nonTopological then n.param k else some .nan := by
  refine ⟨_, rfl, ?_⟩
  intro k hk
  simp only [Spec.paramNames, List.mem_cons, List.mem_nil_iff, or_false] at hk
  rcases hk with h | h | h | h | h | h | h | h | h | h | h | h | h | h | h | h | h | h | h | h | h | h | h <;>
    subst h <;>
    simp [dictGet, dictHas, Gen.paramNames, Spec.nonTopological, NetIn.param, NetIn.p21, NetIn.totalLen,
      NetIn.meanTrace, NetIn.minTrace, NetIn.maxTrace, listMean] <;>
    grind

/-- boundary weights: 1, 2, 0 for 0, 1, 2 intersections and an error otherwise -/
theorem C08_weights (c : Int) :
    Gen.intersection_count_to_boundary_weight c =
      match Spec.boundaryWeight c with
      | some w => .ok w
      | none => .error "ValueError" := by
  unfold Gen.intersection_count_to_boundary_weight Spec.boundaryWeight
  split <;> grind

/-- the sum of two boolean arrays is pointwise the number of trues, hence in {0,1,2} -/
theorem C08_bool_sum (a b : Bool) :
    Gen.bool_sum a b = a.toNat + b.toNat ∧ Gen.bool_sum a b ≤ 2 := by
  cases a <;> cases b <;> decide

/-- a branch labelled with the pair of its end kinds intersects the boundary as many times as
it has E ends (so the length weights 1, 2, 0 apply to 0, 1, 2 E-ends) -/
theorem C08_branch_boundary_count (k1 k2 : String)
    (h1 : k1 = "C" ∨ k1 = "I" ∨ k1 = "E") (h2 : k2 = "C" ∨ k2 = "I" ∨ k2 = "E") :
    Gen.branch_boundary_count (Spec.pairLabelOfKinds k1 k2) =
      (if k1 = "E" then 1 else 0) + (if k2 = "E" then 1 else 0) := by
  rcases h1 with rfl | rfl | rfl <;> rcases h2 with rfl | rfl | rfl <;> decide

/-! ### boundary-intersection counts of the lines (regenerated loops of `determine_boundary_intersecting_lines`) -/

section boundary
variable {A L P : Type}

/-- candidate `c` of area `a` is strictly within the threshold of the area's boundary -/
def nearB (line_at : Nat → L) (ldist : L → A → Rat) (t : Rat) (a : A) (c : Nat) : Bool := decide (ldist (line_at c) a < t)

/-- the line cuts through: both ends are within the threshold of the boundary, or no end is inside the area while the line touches it -/
def cutsB (line_at : Nat → L) (ends_of : L → List P) (pdist : P → A → Rat) (within : P → A → Bool) (touches : L → A → Bool) (t : Rat) (a : A) (c : Nat) : Bool :=
  ((ends_of (line_at c)).all fun e => decide (pdist e a < t)) || (!((ends_of (line_at c)).any fun e => within e a) && touches (line_at c) a)

theorem boundary_inner (areas : List A) (wq : A → List Nat) (line_at : Nat → L) (ldist : L → A → Rat) (ends_of : L → List P) (pdist : P → A → Rat)
    (within : P → A → Bool) (touches : L → A → Bool) (iv : List Nat) (t : Rat) (a : A) (all cs i k : List Nat) :
    Gen.boundary_intersecting_lines_loop2 areas wq line_at ldist ends_of pdist within touches iv t a all cs i k =
      (i ++ cs.filter (nearB line_at ldist t a), k ++ cs.filter fun c => nearB line_at ldist t a c && cutsB line_at ends_of pdist within touches t a c) := by
  induction cs generalizing i k with
  | nil => simp [Gen.boundary_intersecting_lines_loop2]
  | cons c rest ih =>
    rw [Gen.boundary_intersecting_lines_loop2]
    simp only [List.all_map, List.any_map, Function.comp_def, id]
    by_cases hn : ldist (line_at c) a < t
    · simp only [hn, decide_true, if_true]
      by_cases hall : ((ends_of (line_at c)).all fun e => decide (pdist e a < t)) = true
      · simp only [hall, if_true, ih]
        simp [nearB, cutsB, hn, hall, List.filter_cons]
      · simp only [hall, Bool.false_eq_true, if_false]
        by_cases hcut : (!((ends_of (line_at c)).any fun e => within e a) && touches (line_at c) a) = true
        · simp only [hcut, if_true, ih]
          simp [nearB, cutsB, hn, hall, hcut, List.filter_cons]
        · simp only [hcut, Bool.false_eq_true, if_false, ih]
          have hall' : ((ends_of (line_at c)).all fun e => decide (pdist e a < t)) = false := by simpa using hall
          have hcut' : (!((ends_of (line_at c)).any fun e => within e a) && touches (line_at c) a) = false := by simpa using hcut
          simp [nearB, cutsB, hn, hall', hcut', List.filter_cons]
    · simp only [hn, decide_false, Bool.false_eq_true, if_false, ih]
      simp [nearB, hn, List.filter_cons]

theorem boundary_outer (areas : List A) (wq : A → List Nat) (line_at : Nat → L) (ldist : L → A → Rat) (ends_of : L → List P) (pdist : P → A → Rat)
    (within : P → A → Bool) (touches : L → A → Bool) (iv : List Nat) (t : Rat) (l : List A) (i k : List Nat) :
    Gen.boundary_intersecting_lines_loop1 areas wq line_at ldist ends_of pdist within touches iv t l i k =
      (i ++ l.flatMap (fun a => (wq a).filter (nearB line_at ldist t a)),
       k ++ l.flatMap (fun a => (wq a).filter fun c => nearB line_at ldist t a c && cutsB line_at ends_of pdist within touches t a c)) := by
  induction l generalizing i k with
  | nil => simp [Gen.boundary_intersecting_lines_loop1]
  | cons a rest ih =>
    rw [Gen.boundary_intersecting_lines_loop1]
    by_cases he : (wq a).length = 0
    · have : wq a = [] := List.eq_nil_of_length_eq_zero he
      simp [he, this, ih]
    · simp only [he, decide_false, Bool.false_eq_true, if_false, boundary_inner, ih]
      simp [List.append_assoc]

/-- **Which lines intersect the boundary, which cut through.** The regenerated loops flag the line with index value `idx` as
*intersecting* exactly when, for some target area, it is among that area's window candidates and strictly within the threshold
of the area's boundary; and as *cutting through* when in addition both its ends are within the threshold of that boundary, or
no end lies inside the area while the line touches it -- for any number of areas and lines, in frame order. -/
theorem C08_generated_boundary_lines (areas : List A) (wq : A → List Nat) (line_at : Nat → L) (ldist : L → A → Rat) (ends_of : L → List P)
    (pdist : P → A → Rat) (within : P → A → Bool) (touches : L → A → Bool) (iv : List Nat) (t : Rat) :
    Gen.boundary_intersecting_lines areas wq line_at ldist ends_of pdist within touches iv t =
      (iv.map (fun idx => areas.any fun a => (wq a).any fun c => c == idx && nearB line_at ldist t a c),
       iv.map (fun idx => areas.any fun a => (wq a).any fun c => c == idx && (nearB line_at ldist t a c && cutsB line_at ends_of pdist within touches t a c))) := by
  unfold Gen.boundary_intersecting_lines
  simp only [boundary_outer, List.nil_append, Prod.mk.injEq]
  constructor <;>
  · apply List.map_congr_left
    intro idx _
    rw [Bool.eq_iff_iff]
    simp only [List.elem_eq_contains, List.contains_eq_mem, List.mem_flatMap, List.mem_filter, decide_eq_true_eq, List.any_eq_true,
      Bool.and_eq_true, beq_iff_eq]
    constructor
    · rintro ⟨a, ha, hc, h⟩; exact ⟨a, ha, idx, hc, rfl, h⟩
    · rintro ⟨a, ha, c, hc, rfl, h⟩; exact ⟨a, ha, hc, h⟩

/-- **The count is the number of ends on the boundary** (0, 1 or 2) for a two-ended line in one area, on crisp input: the line is
near the boundary exactly when one of its ends is; an end that is not on the boundary lies inside the area. With the regenerated
`bool_sum` the count is `[intersecting] + [cuts through]`. -/
theorem C08_count_is_ends_on_boundary (e1 e2 : P) (a : A) (pdist : P → A → Rat) (within : P → A → Bool) (near touches : Bool) (t : Rat)
    (hnear : near = (decide (pdist e1 a < t) || decide (pdist e2 a < t)))
    (h1 : ¬ pdist e1 a < t → within e1 a = true) (h2 : ¬ pdist e2 a < t → within e2 a = true) :
    Gen.bool_sum near (near && (([e1, e2].all fun e => decide (pdist e a < t)) || (!([e1, e2].any fun e => within e a) && touches)))
      = (if pdist e1 a < t then 1 else 0) + (if pdist e2 a < t then 1 else 0) := by
  subst hnear
  unfold Gen.bool_sum
  by_cases c1 : pdist e1 a < t <;> by_cases c2 : pdist e2 a < t
  · simp [c1, c2]
  · simp [c1, c2, h2 c2]
  · simp [c1, c2, h1 c1]
  · simp [c1, c2]

end boundary

example : ∃ n : NetIn, n.X = 1 ∧ n.area > 0 ∧ n.param "Connections per Branch" = some (.num 2) :=
  ⟨⟨1, 0, 0, 4, [2, 2], [1, 1, 1, 1], 4, true, 3, fun x => x⟩, by decide +kernel⟩

/-! ### the column cache of `LineData` (regenerated from its checked shape) -/

/-- the weight of a boundary-intersection count: 1, 2, 0 for 0, 1, 2 ends on the boundary -/
def w012 (c : Int) : Int := if c = 0 then 1 else if c = 1 then 2 else 0


/-- **Length weights come from the boundary counts.** With no weight column in the wrapped frame, the regenerated `LineData.length_boundary_weights`
maps the regenerated `intersection_count_to_boundary_weight` over the line's boundary-intersection counts (1, 2, 0 for 0, 1, 2) and stores the result under
its own column. -/
theorem C08_linedata_weights (counts : List Int) (cols : LineCols) (h : cols.boundary_weight = none) (hc : ∀ c ∈ counts, c = 0 ∨ c = 1 ∨ c = 2) :
    Gen.ld_length_boundary_weights Gen.intersection_count_to_boundary_weight counts.length counts cols =
      .ok (counts.map w012, { cols with boundary_weight := some (counts.map w012) }) := by
  unfold Gen.ld_length_boundary_weights
  rw [h]
  have : counts.mapM Gen.intersection_count_to_boundary_weight = .ok (counts.map w012) := by
    induction counts with
    | nil => rfl
    | cons c cs ih =>
      have hcs := ih (fun x hx => hc x (by simp [hx]))
      rw [List.mapM_cons, hcs]
      rcases hc c (by simp) with h0 | h1 | h2
      · subst h0; rfl
      · subst h1; rfl
      · subst h2; rfl
  simp only [this, List.length_map, if_true]


/-- **Weighted lengths are own length × weight.** With neither a length nor a weight column in the wrapped frame and one boundary count per line, the
regenerated `LineData.length_array` is the line lengths times the weights of their boundary counts, stored under the length column (and the weights
under theirs). -/
theorem C08_linedata_lengths (lengths : List Rat) (counts : List Int) (cols : LineCols) (hl : cols.length = none) (hw : cols.boundary_weight = none)
    (hne : counts ≠ []) (hrows : lengths.length = counts.length) (hc : ∀ c ∈ counts, c = 0 ∨ c = 1 ∨ c = 2) :
    ∃ cols', Gen.ld_length_array Gen.intersection_count_to_boundary_weight lengths counts cols =
      (.ok (List.zipWith (fun (l : Rat) (k : Int) => l * (k : Rat)) lengths (counts.map w012)), cols') ∧
      cols'.length = some (List.zipWith (fun (l : Rat) (k : Int) => l * (k : Rat)) lengths (counts.map w012)) ∧ cols'.boundary_weight = some (counts.map w012) := by
  unfold Gen.ld_length_array
  rw [hl]
  have hpos : counts.length > 0 := by cases counts with | nil => exact absurd rfl hne | cons _ _ => simp
  simp only [hpos, if_true]
  rw [hrows, C08_linedata_weights counts cols hw hc]
  exact ⟨_, rfl, rfl, rfl⟩


/-- **A Network's values come from its own traces, not from what an earlier analysis left in the caller's frame.** In the regenerated
`Network.__post_init__` everything the Network keeps is a function of the copy taken of the caller's frame at construction; the length, weight and
boundary-count columns that `LineData` caches are written into that copy (and into the crop made from it), never into the caller's frame, so a second
Network built from the same caller's frame starts from the same columns as the first. (History stream S08-network observes exactly this.) -/
theorem C08_network_values_from_a_copy {G' A' : Type} (area_is_empty : A' → Bool) (copy_ : List G' → List G') (has_z : List G' → Bool) (drop_z : List G' → List G')
    (crop_ : List G' → A' → Bool → List G') (given : Bool) (traces traces' : List G') (area : A') (truncate circular topo rz : Bool)
    (h : copy_ traces = copy_ traces') :
    Gen.network_init area_is_empty copy_ has_z drop_z crop_ given traces area truncate circular topo rz () () =
      Gen.network_init area_is_empty copy_ has_z drop_z crop_ given traces' area truncate circular topo rz () () := by
  unfold Gen.network_init
  simp only [h]

/-- the hypothesis is met by two different caller frames with the same copy, and the frame the Network keeps is then the same -/
example : Gen.network_init (fun (_ : Unit) => false) (fun (l : List Nat) => l.map (· % 10)) (fun _ => false) id (fun l _ _ => l) true [11, 22] () false false false false () ()
    = Gen.network_init (fun (_ : Unit) => false) (fun (l : List Nat) => l.map (· % 10)) (fun _ => false) id (fun l _ _ => l) true [1, 2] () false false false false () () := by decide


end C08
