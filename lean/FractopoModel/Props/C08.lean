import FractopoModel.Spec.SandersonNixon
import FractopoModel.Spec.Classes
import FractopoModel.Generated.TopologyParameters
import FractopoModel.Generated.BoundaryWeight
import FractopoModel.Generated.ParamTable
import FractopoModel.Generated.BranchBoundary
/-!
# C08 — network parameters equal the published definitions
-/
namespace C08
open Spec

/-- node-count dictionary of the generated function from a spec input -/
def counts (n : NetIn) : String → Rat := fun k =>
  if k = "X" then n.X else if k = "Y" then n.Y else if k = "I" then n.I else if k = "E" then n.E else 0

def gen (n : NetIn) (branchesDefined : Bool) : Except String Dict :=
  Gen.determine_topology_parameters n.pi n.sqrt n.traceLens n.area branchesDefined n.circular (counts n) n.branchLens

/-- the generated parameter table is the documented list of names (plus the multi-network
bookkeeping column "Circle Count", which is not a network parameter) -/
theorem C08_param_names : Gen.paramNames.Perm ("Circle Count" :: Spec.paramNames) := by decide

/-- Every reported parameter equals its published definition, for all counts, length lists,
areas, π, √ and both values of the circular flag; the function never raises. -/
theorem C08_params_eq_spec (n : NetIn) :
    ∃ d, gen n true = .ok d ∧ ∀ k ∈ Spec.paramNames, dictGet d k = n.param k := by
  obtain ⟨X, Y, I, E, tl, bl, area, circ, pi, sqrt⟩ := n
  cases circ <;> refine ⟨_, rfl, ?_⟩ <;> intro k hk <;>
  simp only [Spec.paramNames, List.mem_cons, List.mem_nil_iff, or_false] at hk <;>
  rcases hk with h | h | h | h | h | h | h | h | h | h | h | h | h | h | h | h | h | h | h | h | h | h | h <;>
    subst h <;>
    simp [dictGet, counts, NetIn.param, NetIn.nTraces, NetIn.nBranches, NetIn.p21, NetIn.totalLen,
      NetIn.meanTrace, NetIn.minTrace, NetIn.maxTrace, NetIn.minBranch, NetIn.maxBranch, NetIn.meanBranch,
      NetIn.safeDiv, NetIn.connPerTrace, NetIn.connPerBranch, NetIn.radius, NetIn.mauldonMeanLen,
      NetIn.mauldonDensity, NetIn.mauldon, listMean] <;>
    grind

/-- zero instead of a division error: with no I-, Y-, X-nodes every guarded quotient is 0 and
the function still returns (no error value), whatever the lengths and area -/
theorem C08_zero_denominators (n : NetIn) (hX : n.X = 0) (hY : n.Y = 0) (hI : n.I = 0) :
    ∃ d, gen n true = .ok d ∧
      dictGet d "Connections per Branch" = some (.num 0) ∧
      dictGet d "Connections per Trace" = some (.num 0) ∧
      dictGet d "Branch Mean Length" = some (.num 0) ∧
      dictGet d "Dimensionless Intensity B22" = some (.num 0) ∧
      dictGet d "Trace Mean Length (Mauldon)" = some (if n.circular then .num 0 else .nan) := by
  obtain ⟨d, hd, h⟩ := C08_params_eq_spec n
  refine ⟨d, hd, ?_⟩
  have e1 := h "Connections per Branch" (by simp [Spec.paramNames])
  have e2 := h "Connections per Trace" (by simp [Spec.paramNames])
  have e3 := h "Branch Mean Length" (by simp [Spec.paramNames])
  have e4 := h "Dimensionless Intensity B22" (by simp [Spec.paramNames])
  have e5 := h "Trace Mean Length (Mauldon)" (by simp [Spec.paramNames])
  rw [e1, e2, e3, e4, e5]
  simp [NetIn.param, NetIn.connPerBranch, NetIn.connPerTrace, NetIn.meanBranch, NetIn.safeDiv, NetIn.nBranches,
    NetIn.nTraces, NetIn.mauldon, NetIn.mauldonMeanLen, hX, hY, hI]
  grind

/-- the three Mauldon estimators are `nan` exactly for non-circular areas -/
theorem C08_mauldon_only_circular (n : NetIn) :
    ∃ d, gen n true = .ok d ∧ ∀ k ∈ ["Trace Mean Length (Mauldon)", "Fracture Density (Mauldon)", "Fracture Intensity (Mauldon)"],
      ((dictGet d k = some .nan) ↔ n.circular = false) := by
  obtain ⟨d, hd, h⟩ := C08_params_eq_spec n
  refine ⟨d, hd, ?_⟩
  intro k hk
  simp only [List.mem_cons, List.mem_nil_iff, or_false] at hk
  rcases hk with rfl | rfl | rfl
  · rw [h _ (by simp [Spec.paramNames])]; cases hc : n.circular <;> simp [NetIn.param, NetIn.mauldon, hc]
  · rw [h _ (by simp [Spec.paramNames])]; cases hc : n.circular <;> simp [NetIn.param, NetIn.mauldon, hc]
  · rw [h _ (by simp [Spec.paramNames])]; cases hc : n.circular <;> simp [NetIn.param, NetIn.mauldon, hc]

/-- without topology: the non-topological parameters keep their definitions, all others are `nan` -/
theorem C08_without_topology (n : NetIn) :
    ∃ d, gen n false = .ok d ∧ ∀ k ∈ Spec.paramNames,
      dictGet d k = if k ∈ Spec.nonTopological then n.param k else some .nan := by
  refine ⟨_, rfl, ?_⟩
  intro k hk
  simp only [Spec.paramNames, List.mem_cons, List.mem_nil_iff, or_false] at hk
  rcases hk with h | h | h | h | h | h | h | h | h | h | h | h | h | h | h | h | h | h | h | h | h | h | h <;>
    subst h <;>
    simp [dictGet, dictHas, Gen.paramNames, Spec.nonTopological, NetIn.param, NetIn.p21, NetIn.totalLen,
      NetIn.meanTrace, NetIn.minTrace, NetIn.maxTrace, listMean] <;>
    grind

/-- boundary weights: 1, 2, 0 for 0, 1, 2 intersections and an error otherwise -/
theorem C08_weights (c : Int) :
    Gen.intersection_count_to_boundary_weight c =
      match Spec.boundaryWeight c with
      | some w => .ok w
      | none => .error "ValueError" := by
  unfold Gen.intersection_count_to_boundary_weight Spec.boundaryWeight
  split <;> grind

/-- the sum of two boolean arrays is pointwise the number of trues, hence in {0,1,2} -/
theorem C08_bool_sum (a b : Bool) :
    Gen.bool_sum a b = a.toNat + b.toNat ∧ Gen.bool_sum a b ≤ 2 := by
  cases a <;> cases b <;> decide

/-- a branch labelled with the pair of its end kinds intersects the boundary as many times as
it has E ends (so the length weights 1, 2, 0 apply to 0, 1, 2 E-ends) -/
theorem C08_branch_boundary_count (k1 k2 : String)
    (h1 : k1 = "C" ∨ k1 = "I" ∨ k1 = "E") (h2 : k2 = "C" ∨ k2 = "I" ∨ k2 = "E") :
    Gen.branch_boundary_count (Spec.pairLabelOfKinds k1 k2) =
      (if k1 = "E" then 1 else 0) + (if k2 = "E" then 1 else 0) := by
  rcases h1 with rfl | rfl | rfl <;> rcases h2 with rfl | rfl | rfl <;> decide

example : ∃ n : NetIn, n.X = 1 ∧ n.area > 0 ∧ n.param "Connections per Branch" = some (.num 2) :=
  ⟨⟨1, 0, 0, 4, [2, 2], [1, 1, 1, 1], 4, true, 3, fun x => x⟩, by decide +kernel⟩

end C08
