import FractopoModel.Model.Validation
import FractopoModel.Lemmas.Underlap
import FractopoModel.Generated.ValidationPass
import FractopoModel.Generated.RunValidation
import FractopoModel.Generated.ValidationCaches
import FractopoModel.Generated.ValidatorTable
/-!
# C13 — validation is pure and repeatable (history-independence of the orchestration)

`glob` is the process-global class attribute `UnderlappingSnapValidator.ERROR`, the only state
that survives between rows, runs and `Validation` objects.  The theorems hold for every oracle
(every behaviour of the individual validators as functions of frame, geometry and row).
-/
namespace C13
open Tval
variable {G : Type}

def core (s : RowSt G) : G × List String × Bool := (s.geom, s.errs, s.ignore)

theorem validateOne_core (O : Oracle G) (cfg : Cfg) (frame : List G) (idx : Nat) (v : Validator) (s s' : RowSt G)
    (h : core s = core s') : core (validateOne O cfg frame idx v s) = core (validateOne O cfg frame idx v s') := by
  obtain ⟨g, e, i, gl⟩ := s
  obtain ⟨g', e', i', gl'⟩ := s'
  simp only [core, Prod.mk.injEq] at h
  obtain ⟨rfl, rfl, rfl⟩ := h
  unfold validateOne
  by_cases h1 : (v.lsOnly && !(O.kind g).gatePass) = true
  · simp [h1, core]
  · simp only [h1, Bool.false_eq_true, if_false]
    cases hok : O.valid v frame g idx
    · -- the validator fails: the error string read does not depend on the incoming global
      have he : errRead O frame idx v ⟨g, e, i, gl⟩ = errRead O frame idx v ⟨g, e, i, gl'⟩ := by
        simp only [errRead, globAfter, hok]; cases v.dynamic <;> simp
      rw [he]
      by_cases hc : (!false && !e.contains (errRead O frame idx v ⟨g, e, i, gl'⟩)) = true
      · simp only [hc, if_true]
        unfold applyFail core
        simp only []
        split <;> simp
      · simp only [hc, Bool.false_eq_true, if_false, core]
    · simp [core]

theorem validateRow_core (O : Oracle G) (cfg : Cfg) (frame : List G) (idx : Nat) (vs : List Validator) (s s' : RowSt G)
    (h : core s = core s') : core (validateRow O cfg frame idx vs s) = core (validateRow O cfg frame idx vs s') := by
  induction vs generalizing s s' with
  | nil => simpa [validateRow] using h
  | cons v vs ih =>
    have hi : s.ignore = s'.ignore := by simp only [core, Prod.mk.injEq] at h; exact h.2.2
    simp only [validateRow, hi]
    split
    · exact h
    · exact ih _ _ (validateOne_core O cfg frame idx v s s' h)

theorem passRows_glob_irrelevant (O : Oracle G) (cfg : Cfg) (vs : List Validator) (frame : List G)
    (rows : List (G × Nat)) (glob glob' : String) :
    (passRows O cfg vs frame rows glob).1 = (passRows O cfg vs frame rows glob').1 := by
  induction rows generalizing glob glob' with
  | nil => rfl
  | cons r rest ih =>
    obtain ⟨g, idx⟩ := r
    simp only [passRows]
    have hc := validateRow_core O cfg frame idx vs ⟨g, [], false, glob⟩ ⟨g, [], false, glob'⟩ rfl
    simp only [core, Prod.mk.injEq] at hc
    rw [hc.1, hc.2.1, ih (validateRow O cfg frame idx vs ⟨g, [], false, glob⟩).glob (validateRow O cfg frame idx vs ⟨g, [], false, glob'⟩).glob]

/-- **No memory of earlier runs.** Whatever earlier validations (of any frames, by any objects)
left in the process-global class attribute, the errors and geometries computed for a frame are
the same: the outcome does not depend on the incoming value of the global. -/
theorem C13_global_irrelevant (O : Oracle G) (cfg : Cfg) (allowEmptyArea areaEmpty : Bool) (frame : List G)
    (glob glob' : String) :
    (run O cfg allowEmptyArea areaEmpty frame glob).1 = (run O cfg allowEmptyArea areaEmpty frame glob').1 := by
  unfold run
  split
  · rfl
  · split
    · rfl
    · simp only [pass]
      have h1 := passRows_glob_irrelevant O cfg (cfg.chosen.getD cfg.major) frame frame.zipIdx glob glob'
      rw [h1]
      have h2 := passRows_glob_irrelevant O cfg (cfg.chosen.getD cfg.all)
        ((passRows O cfg (cfg.chosen.getD cfg.major) frame frame.zipIdx glob').1.map (·.1))
        ((passRows O cfg (cfg.chosen.getD cfg.major) frame frame.zipIdx glob').1.map (·.1)).zipIdx
        (passRows O cfg (cfg.chosen.getD cfg.major) frame frame.zipIdx glob).2
        (passRows O cfg (cfg.chosen.getD cfg.major) frame frame.zipIdx glob').2
      rw [h2]

/-- a history: a sequence of validations of arbitrary frames with arbitrary options, threaded
through the global -/
def runHistory (O : Oracle G) : List (Cfg × Bool × Bool × List G) → String → String
  | [], glob => glob
  | (cfg, a, e, frame) :: rest, glob => runHistory O rest (run O cfg a e frame glob).2

/-- **History-independence.** After ANY sequence of other validations in the same process, a
frame validates to exactly what it validates to first. -/
theorem C13_history_irrelevant (O : Oracle G) (history : List (Cfg × Bool × Bool × List G))
    (cfg : Cfg) (a e : Bool) (frame : List G) (glob0 : String) :
    (run O cfg a e frame (runHistory O history glob0)).1 = (run O cfg a e frame glob0).1 :=
  C13_global_irrelevant O cfg a e frame _ _

/-- re-running on the same object (same frame, same options): same outcome every time -/
theorem C13_rerun (O : Oracle G) (cfg : Cfg) (a e : Bool) (frame : List G) (glob : String) :
    (run O cfg a e frame (run O cfg a e frame glob).2).1 = (run O cfg a e frame glob).1 :=
  C13_global_irrelevant O cfg a e frame _ _

/-! ### the regenerated two nested loops of `run_validation` -/

/-- the step function handed to the regenerated loops: `Tval.validateOne` with the class attribute pinned to an arbitrary value
(by `validateOne_core` its geometry / errors / ignore flag do not depend on that value) -/
def stepOf (O : Oracle G) (cfg : Cfg) (frame : List G) (g0 : String) (v : Validator) (geom : G) (errs : List String) (idx : Nat) : G × List String × Bool :=
  core (validateOne O cfg frame idx v ⟨geom, errs, false, g0⟩)

theorem gen_row_eq (O : Oracle G) (cfg : Cfg) (frame : List G) (g0 : String) (isLine : G → Bool) (geoms : List G) (allvs : List Validator) (idx : Nat)
    (vs : List Validator) (s : RowSt G) :
    (Gen.validation_pass_loop2 (stepOf O cfg frame g0) isLine geoms allvs idx vs () s.geom s.errs s.ignore).2 = core (validateRow O cfg frame idx vs s) := by
  induction vs generalizing s with
  | nil => simp [Gen.validation_pass_loop2, validateRow, core]
  | cons v vs ih =>
    rw [Gen.validation_pass_loop2, validateRow]
    by_cases hi : s.ignore = true
    · simp [hi, core]
    · simp only [hi, Bool.false_eq_true, if_false]
      have hcore : stepOf O cfg frame g0 v s.geom s.errs idx = core (validateOne O cfg frame idx v s) := by
        unfold stepOf
        apply validateOne_core
        simp only [core, Prod.mk.injEq, true_and]
        simpa using hi
      have := ih (validateOne O cfg frame idx v s)
      simp only [core] at hcore this ⊢
      split
      · rw [hcore]; exact this
      · rw [hcore]; exact this

theorem gen_rows_eq (O : Oracle G) (cfg : Cfg) (frame : List G) (g0 : String) (isLine : G → Bool) (geoms : List G) (vs : List Validator)
    (rows : List (G × Nat)) (glob : String) (ae : List (List String)) (ag : List G) :
    Gen.validation_pass_loop1 (stepOf O cfg frame g0) isLine geoms vs rows ae ag =
      (ae ++ (passRows O cfg vs frame rows glob).1.map (·.2), ag ++ (passRows O cfg vs frame rows glob).1.map (·.1)) := by
  induction rows generalizing glob ae ag with
  | nil => simp [Gen.validation_pass_loop1, passRows]
  | cons r rest ih =>
    obtain ⟨g, idx⟩ := r
    rw [Gen.validation_pass_loop1]
    have hrow := gen_row_eq O cfg frame g0 isLine geoms vs idx vs ⟨g, [], false, glob⟩
    simp only [core] at hrow
    simp only [passRows]
    generalize hr : Gen.validation_pass_loop2 (stepOf O cfg frame g0) isLine geoms vs idx vs () g [] false = r at hrow
    obtain ⟨u, g', e', i'⟩ := r
    simp only [Prod.mk.injEq] at hrow
    obtain ⟨h1, h2, _⟩ := hrow
    simp only []
    rw [ih (validateRow O cfg frame idx vs ⟨g, [], false, glob⟩).glob]
    simp [h1, h2]

/-- **The regenerated row and validator loops of `run_validation` ARE the model's pass** (`Tval.passRows`): for every row the
validators run in order until one sets the ignore flag (`break`), geometry / errors / flag are handed from one validator to the
next, and the per-row errors and geometries are collected in row order -- with the regenerated `_validate` (`C09_generated_validate_step`)
as the step. The class attribute does not occur: the result is the model's for EVERY value it may hold (`C13_global_irrelevant`). -/
theorem C13_generated_pass (O : Oracle G) (cfg : Cfg) (frame : List G) (g0 glob : String) (isLine : G → Bool) (vs : List Validator) :
    Gen.validation_pass (stepOf O cfg frame g0) isLine frame vs =
      ((pass O cfg vs frame glob).1.map (·.2), (pass O cfg vs frame glob).1.map (·.1)) := by
  unfold Gen.validation_pass pass
  simp only []
  rw [gen_rows_eq O cfg frame g0 isLine frame vs _ glob [] []]
  simp

/-- **What the only stateful validator does to its class attribute** (regenerated loops of
`UnderlappingSnapValidator.validation_method`, cls.ERROR threaded as a value): a passing call leaves it untouched; a
failing call overwrites it with one of the three documented strings, chosen from the call's own arguments only -- the
value it had before (whatever earlier validations in the process left there) never influences verdict or string. -/
theorem C13_underlap_attribute {L P : Type} (endpoints_of : L → List P) (dist : L → P → Rat) (isUl : L → L → P → Option Bool)
    (overlaps : L → L → Bool) (geom : L) (cands : List L) (t m : Rat) (glob glob' : String) (ok : Bool) (out : String)
    (h : Gen.underlap_validation endpoints_of dist isUl overlaps geom cands t m glob = .ok (ok, out)) :
    (ok = true → out = glob) ∧
    (ok = false → out ∈ ["UNDERLAPPING SNAP", "OVERLAPPING SNAP", "STACKED TRACES"] ∧
      Gen.underlap_validation endpoints_of dist isUl overlaps geom cands t m glob' = .ok (false, out)) ∧
    (ok = true → Gen.underlap_validation endpoints_of dist isUl overlaps geom cands t m glob' = .ok (true, glob')) := by
  rw [Underlap.generated_eq_spec] at h ⊢
  unfold Spec.underlapVerdict at h ⊢
  cases hh : Spec.underlapHit dist t m cands (endpoints_of geom) with
  | none =>
    simp only [hh] at h ⊢
    cases h
    simp
  | some pc =>
    obtain ⟨ep, c⟩ := pc
    simp only [hh] at h ⊢
    cases hu : isUl geom c ep with
    | none =>
      simp only [hu] at h ⊢
      by_cases ho : overlaps geom c = true
      · simp only [ho, if_true] at h ⊢; cases h; simp
      · simp only [ho, Bool.false_eq_true, if_false] at h; cases h
    | some b =>
      cases b <;> simp only [hu] at h ⊢ <;> cases h <;> simp

/-! ### the frame-level plumbing of `run_validation` (regenerated) -/

/-- how the regenerated function's (tag, rows) result reads as a model outcome -/
def encode : Outcome G → String × List (G × List String)
  | .untouched => ("untouched", [])
  | .emptyArea rows => ("emptyarea", rows)
  | .validated rows => ("validated", rows)

theorem stale_columns_loop {V : Type} (errc errct : String) (has_col : String → Bool) (major all_ : List V) (req : V → Bool) (ae : List G → Bool) (ee : String)
    (pass_ : List V → List G → List (List String) × List G) (recur : List G → String × List (G × List String)) (fp : Bool) (ch : Option (List V)) (al : Bool)
    (l : List String) (fr : List G) :
    Gen.run_validation_frame_loop1 errc errct has_col major all_ req ae ee pass_ recur fp ch al l fr = fr := by
  induction l generalizing fr with
  | nil => rfl
  | cons c rest ih =>
    rw [Gen.run_validation_frame_loop1]
    by_cases h : has_col c = true <;> simp [h, ih]

theorem passRows_length' (O : Oracle G) (cfg : Cfg) (vs : List Validator) (frame : List G) (rows : List (G × Nat)) (glob : String) :
    (passRows O cfg vs frame rows glob).1.length = rows.length := by
  induction rows generalizing glob with
  | nil => rfl
  | cons r rest ih => obtain ⟨g, idx⟩ := r; simp [passRows, ih]

theorem zip_fst_snd {α β : Type} (l : List (α × β)) : List.zip (l.map (·.1)) (l.map (·.2)) = l := by
  induction l with
  | nil => rfl
  | cons a as ih => simp [ih]

/-- **The regenerated `run_validation` IS the model's `Tval.run`.** The frame-level plumbing of `run_validation` is regenerated
(`Gen.run_validation_frame`: stale error columns dropped, MAJOR validators in the first pass and ALL in the second unless validators
were chosen, the empty-frame exit, the EMPTY TARGET AREA exit when `allow_empty_area` is off, the pass, the recursive call for the
second pass on the first pass's geometries with `allow_empty_area` back at its default), its row loop is the regenerated
`Gen.validation_pass` with the regenerated `_validate` as the step (`C13_generated_pass`, `C09_generated_validate_step`), and the
recursion is unfolded once (the recursive call passes `first_pass=False`, which never recurses). For every oracle, configuration,
frame and value of the class attribute the result is `Tval.run`'s -- so `C09_one_result_per_row`, `C09_empty_area`,
`C09_errors_documented`, `C13_global_irrelevant`, `C13_history_irrelevant`, `C13_rerun` are theorems about regenerated code. -/
theorem C13_generated_run_validation (O : Oracle G) (cfg : Cfg) (isLine : G → Bool) (g0 glob errc errct : String) (has_col : String → Bool)
    (req : Validator → Bool) (areaEmpty : List G → Bool) (allowEmpty : Bool) (frame : List G) :
    let passG : List Validator → List G → List (List String) × List G := fun vs fr => Gen.validation_pass (stepOf O cfg fr g0) isLine fr vs
    let second : List G → String × List (G × List String) := fun fr =>
      Gen.run_validation_frame errc errct has_col cfg.major cfg.all req areaEmpty cfg.emptyAreaError passG (fun _ => ("untouched", [])) fr false cfg.chosen true
    Gen.run_validation_frame errc errct has_col cfg.major cfg.all req areaEmpty cfg.emptyAreaError passG second frame true cfg.chosen allowEmpty
      = encode (run O cfg allowEmpty (areaEmpty frame) frame glob).1 := by
  intro passG second
  unfold Gen.run_validation_frame run
  simp only [stale_columns_loop]
  have hval : ∀ (d : List Validator), (if (!(Option.isNone cfg.chosen)) = true then cfg.chosen.getD d else d) = cfg.chosen.getD d := by
    intro d; cases cfg.chosen <;> simp
  by_cases he : frame = []
  · subst he; simp [encode]
  · have hlen : ¬ frame.length = 0 := fun h => he (List.eq_nil_of_length_eq_zero h)
    have hemp : frame.isEmpty = false := by cases frame with | nil => exact absurd rfl he | cons a b => rfl
    simp only [hlen, decide_false, Bool.false_eq_true, if_false, hemp]
    by_cases hae : (!allowEmpty && areaEmpty frame) = true
    · simp [hae, encode]
    · simp only [hae, Bool.false_eq_true, if_false, if_true, hval]
      -- first pass
      have h1 := C13_generated_pass O cfg frame g0 glob isLine (cfg.chosen.getD cfg.major)
      simp only [passG, h1]
      -- second pass, inside the recursive call
      generalize hp1 : pass O cfg (cfg.chosen.getD cfg.major) frame glob = p1
      obtain ⟨r1, g1⟩ := p1
      have hl1 : r1.length = frame.length := by
        have := passRows_length' O cfg (cfg.chosen.getD cfg.major) frame frame.zipIdx glob
        unfold pass at hp1
        rw [hp1] at this
        simpa using this
      have hne : ¬ (r1.map (·.1)).length = 0 := by rw [List.length_map, hl1]; exact hlen
      simp only [second]
      unfold Gen.run_validation_frame
      simp only [stale_columns_loop, hne, decide_false, Bool.false_eq_true, if_false, Bool.not_true, Bool.false_and, hval]
      have h2 := C13_generated_pass O cfg (r1.map (·.1)) g0 g1 isLine (cfg.chosen.getD cfg.all)
      show ("validated", (passG (cfg.chosen.getD cfg.all) (r1.map (·.1))).2.zip (passG (cfg.chosen.getD cfg.all) (r1.map (·.1))).1) = _
      simp only [passG, h2, zip_fst_snd, encode]

/-! ### the per-object node caches (regenerated from their checked shape) -/

section Caches
open Gen
variable {T GN NS : Type}

/-- `k` consecutive `_validate` calls of one pass -/
def accesses (gen : T → GN) (vn fj : GN → NS) (flag : Bool) (traces : T) : Nat → ValCaches GN NS → List (Option NS × Option NS) × ValCaches GN NS
  | 0, c => ([], c)
  | k + 1, c => let (r, c) := val_access gen vn fj flag traces c; let (rs, c) := accesses gen vn fj flag traces k c; (r :: rs, c)

theorem cache_flags : val_flag requires_nodes (major_validators.map (·.1)) = false ∧ val_flag requires_nodes (all_validators.map (·.1)) = true := by decide

theorem access_off (gen : T → GN) (vn fj : GN → NS) (traces : T) (c : ValCaches GN NS) (hv : c.vnodes = none) (hj : c.junctions = none) :
    val_access gen vn fj false traces c = ((none, none), c) := by
  unfold val_access val_vnodes val_junctions
  simp [hv, hj]

theorem accesses_off (gen : T → GN) (vn fj : GN → NS) (traces : T) (k : Nat) (c : ValCaches GN NS) (hv : c.vnodes = none) (hj : c.junctions = none) :
    accesses gen vn fj false traces k c = (List.replicate k (none, none), c) := by
  induction k with
  | zero => rfl
  | succ k ih => simp [accesses, access_off gen vn fj traces c hv hj, ih, List.replicate_succ]

theorem access_on_fresh (gen : T → GN) (vn fj : GN → NS) (traces : T) :
    val_access gen vn fj true traces ({} : ValCaches GN NS) =
      ((some (vn (gen traces)), some (fj (gen traces))), { general := some (gen traces), vnodes := some (vn (gen traces)), junctions := some (fj (gen traces)) }) := by
  unfold val_access val_vnodes val_junctions val_general
  simp

theorem access_filled (gen : T → GN) (vn fj : GN → NS) (flag : Bool) (traces : T) (c : ValCaches GN NS) (v j : NS) (hv : c.vnodes = some v) (hj : c.junctions = some j) :
    val_access gen vn fj flag traces c = ((some v, some j), c) := by
  unfold val_access val_vnodes val_junctions
  simp [hv, hj]

theorem accesses_filled (gen : T → GN) (vn fj : GN → NS) (flag : Bool) (traces : T) (k : Nat) (c : ValCaches GN NS) (v j : NS) (hv : c.vnodes = some v) (hj : c.junctions = some j) :
    accesses gen vn fj flag traces k c = (List.replicate k (some v, some j), c) := by
  induction k with
  | zero => rfl
  | succ k ih => simp [accesses, access_filled gen vn fj flag traces c v j hv hj, ih, List.replicate_succ]

/-- **The object's node caches cannot go stale across the two passes** (after the repair of F26: every cache is reset where `self.traces` becomes the fixed frame).
In the regenerated cache logic of `Validation` -- caches start empty, are filled at first access from `self.traces` as it is at that moment (the node SETS only while
`determine_validation_nodes` is on, which `run_validation` derives from the validators of the pass), and are reset between the passes --: whatever validators the two passes
run (default or chosen) and whatever the first pass computed, every `_validate` call of the second pass gets the V-node and junction sets of the FIXED frame, or none when no
validator of the pass needs nodes. -/
theorem C13_node_caches_follow_the_fixed_frame (gen : T → GN) (vn fj : GN → NS) (unfixed fixed : T) (k1 k2 : Nat) (flag1 flag2 : Bool) :
    let p1 := accesses gen vn fj flag1 unfixed k1 ({} : ValCaches GN NS)
    let p2 := accesses gen vn fj flag2 fixed k2 (val_between_passes p1.2)
    p2.1 = List.replicate k2 (if flag2 then (some (vn (gen fixed)), some (fj (gen fixed))) else (none, none)) := by
  simp only [val_between_passes]
  cases flag2
  · rw [accesses_off gen vn fj fixed k2 {} rfl rfl]; rfl
  · cases k2 with
    | zero => rfl
    | succ k =>
      simp only [accesses, access_on_fresh]
      rw [accesses_filled gen vn fj true fixed k _ _ _ rfl rfl]
      simp [List.replicate_succ]

/-- with the default validators the first pass (MAJOR validators: none needs nodes) computes nothing and the second (ALL validators) needs the node sets -/
theorem C13_node_caches_follow_the_fixed_frame_default_flags : val_flag requires_nodes (major_validators.map (·.1)) = false ∧ val_flag requires_nodes (all_validators.map (·.1)) = true := cache_flags

/-- non-vacuity: the sets the second pass sees are those of the FIXED frame (frames are numbers, "nodes" their double, the sets ± 1) -/
example : (accesses (fun t : Nat => 2 * t) (· + 1) (· - 1) true 7 2 (val_between_passes (accesses (fun t : Nat => 2 * t) (· + 1) (· - 1) true 5 3 {}).2)).1 = [(some 15, some 13), (some 15, some 13)] := by decide

end Caches

end C13
