import FractopoModel.Model.Validation
import FractopoModel.Lemmas.Underlap
import FractopoModel.Generated.ValidationPass
/-!
# C13 — validation is pure and repeatable (history-independence of the orchestration)

`glob` is the process-global class attribute `UnderlappingSnapValidator.ERROR`, the only state
that survives between rows, runs and `Validation` objects.  The theorems hold for every oracle
(every behaviour of the individual validators as functions of frame, geometry and row).
-/
namespace C13
open Tval
variable {G : Type}

def core (s : RowSt G) : G × List String × Bool := (s.geom, s.errs, s.ignore)

theorem validateOne_core (O : Oracle G) (cfg : Cfg) (frame : List G) (idx : Nat) (v : Validator) (s s' : RowSt G)
    (h : core s = core s') : core (validateOne O cfg frame idx v s) = core (validateOne O cfg frame idx v s') := by
  obtain ⟨g, e, i, gl⟩ := s
  obtain ⟨g', e', i', gl'⟩ := s'
  simp only [core, Prod.mk.injEq] at h
  obtain ⟨rfl, rfl, rfl⟩ := h
  unfold validateOne
  by_cases h1 : (v.lsOnly && !(O.kind g).gatePass) = true
  · simp [h1, core]
  · simp only [h1, Bool.false_eq_true, if_false]
    cases hok : O.valid v frame g idx
    · -- the validator fails: the error string read does not depend on the incoming global
      have he : errRead O frame idx v ⟨g, e, i, gl⟩ = errRead O frame idx v ⟨g, e, i, gl'⟩ := by
        simp only [errRead, globAfter, hok]; cases v.dynamic <;> simp
      rw [he]
      by_cases hc : (!false && !e.contains (errRead O frame idx v ⟨g, e, i, gl'⟩)) = true
      · simp only [hc, if_true]
        unfold applyFail core
        simp only []
        split <;> simp
      · simp only [hc, Bool.false_eq_true, if_false, core]
    · simp [core]

theorem validateRow_core (O : Oracle G) (cfg : Cfg) (frame : List G) (idx : Nat) (vs : List Validator) (s s' : RowSt G)
    (h : core s = core s') : core (validateRow O cfg frame idx vs s) = core (validateRow O cfg frame idx vs s') := by
  induction vs generalizing s s' with
  | nil => simpa [validateRow] using h
  | cons v vs ih =>
    have hi : s.ignore = s'.ignore := by simp only [core, Prod.mk.injEq] at h; exact h.2.2
    simp only [validateRow, hi]
    split
    · exact h
    · exact ih _ _ (validateOne_core O cfg frame idx v s s' h)

theorem passRows_glob_irrelevant (O : Oracle G) (cfg : Cfg) (vs : List Validator) (frame : List G)
    (rows : List (G × Nat)) (glob glob' : String) :
    (passRows O cfg vs frame rows glob).1 = (passRows O cfg vs frame rows glob').1 := by
  induction rows generalizing glob glob' with
  | nil => rfl
  | cons r rest ih =>
    obtain ⟨g, idx⟩ := r
    simp only [passRows]
    have hc := validateRow_core O cfg frame idx vs ⟨g, [], false, glob⟩ ⟨g, [], false, glob'⟩ rfl
    simp only [core, Prod.mk.injEq] at hc
    rw [hc.1, hc.2.1, ih (validateRow O cfg frame idx vs ⟨g, [], false, glob⟩).glob (validateRow O cfg frame idx vs ⟨g, [], false, glob'⟩).glob]

/-- **No memory of earlier runs.** Whatever earlier validations (of any frames, by any objects)
left in the process-global class attribute, the errors and geometries computed for a frame are
the same: the outcome does not depend on the incoming value of the global. -/
theorem C13_global_irrelevant (O : Oracle G) (cfg : Cfg) (allowEmptyArea areaEmpty : Bool) (frame : List G)
    (glob glob' : String) :
    (run O cfg allowEmptyArea areaEmpty frame glob).1 = (run O cfg allowEmptyArea areaEmpty frame glob').1 := by
  unfold run
  split
  · rfl
  · split
    · rfl
    · simp only [pass]
      have h1 := passRows_glob_irrelevant O cfg (cfg.chosen.getD cfg.major) frame frame.zipIdx glob glob'
      rw [h1]
      have h2 := passRows_glob_irrelevant O cfg (cfg.chosen.getD cfg.all)
        ((passRows O cfg (cfg.chosen.getD cfg.major) frame frame.zipIdx glob').1.map (·.1))
        ((passRows O cfg (cfg.chosen.getD cfg.major) frame frame.zipIdx glob').1.map (·.1)).zipIdx
        (passRows O cfg (cfg.chosen.getD cfg.major) frame frame.zipIdx glob).2
        (passRows O cfg (cfg.chosen.getD cfg.major) frame frame.zipIdx glob').2
      rw [h2]

/-- a history: a sequence of validations of arbitrary frames with arbitrary options, threaded
through the global -/
def runHistory (O : Oracle G) : List (Cfg × Bool × Bool × List G) → String → String
  | [], glob => glob
  | (cfg, a, e, frame) :: rest, glob => runHistory O rest (run O cfg a e frame glob).2

/-- **History-independence.** After ANY sequence of other validations in the same process, a
frame validates to exactly what it validates to first. -/
theorem C13_history_irrelevant (O : Oracle G) (history : List (Cfg × Bool × Bool × List G))
    (cfg : Cfg) (a e : Bool) (frame : List G) (glob0 : String) :
    (run O cfg a e frame (runHistory O history glob0)).1 = (run O cfg a e frame glob0).1 :=
  C13_global_irrelevant O cfg a e frame _ _

/-- re-running on the same object (same frame, same options): same outcome every time -/
theorem C13_rerun (O : Oracle G) (cfg : Cfg) (a e : Bool) (frame : List G) (glob : String) :
    (run O cfg a e frame (run O cfg a e frame glob).2).1 = (run O cfg a e frame glob).1 :=
  C13_global_irrelevant O cfg a e frame _ _

/-! ### the regenerated two nested loops of `run_validation` -/

/-- the step function handed to the regenerated loops: `Tval.validateOne` with the class attribute pinned to an arbitrary value
(by `validateOne_core` its geometry / errors / ignore flag do not depend on that value) -/
def stepOf (O : Oracle G) (cfg : Cfg) (frame : List G) (g0 : String) (v : Validator) (geom : G) (errs : List String) (idx : Nat) : G × List String × Bool :=
  core (validateOne O cfg frame idx v ⟨geom, errs, false, g0⟩)

theorem gen_row_eq (O : Oracle G) (cfg : Cfg) (frame : List G) (g0 : String) (isLine : G → Bool) (geoms : List G) (allvs : List Validator) (idx : Nat)
    (vs : List Validator) (s : RowSt G) :
    (Gen.validation_pass_loop2 (stepOf O cfg frame g0) isLine geoms allvs idx vs () s.geom s.errs s.ignore).2 = core (validateRow O cfg frame idx vs s) := by
  induction vs generalizing s with
  | nil => simp [Gen.validation_pass_loop2, validateRow, core]
  | cons v vs ih =>
    rw [Gen.validation_pass_loop2, validateRow]
    by_cases hi : s.ignore = true
    · simp [hi, core]
    · simp only [hi, Bool.false_eq_true, if_false]
      have hcore : stepOf O cfg frame g0 v s.geom s.errs idx = core (validateOne O cfg frame idx v s) := by
        unfold stepOf
        apply validateOne_core
        simp only [core, Prod.mk.injEq, true_and]
        simpa using hi
      have := ih (validateOne O cfg frame idx v s)
      simp only [core] at hcore this ⊢
      split
      · rw [hcore]; exact this
      · rw [hcore]; exact this

theorem gen_rows_eq (O : Oracle G) (cfg : Cfg) (frame : List G) (g0 : String) (isLine : G → Bool) (geoms : List G) (vs : List Validator)
    (rows : List (G × Nat)) (glob : String) (ae : List (List String)) (ag : List G) :
    Gen.validation_pass_loop1 (stepOf O cfg frame g0) isLine geoms vs rows ae ag =
      (ae ++ (passRows O cfg vs frame rows glob).1.map (·.2), ag ++ (passRows O cfg vs frame rows glob).1.map (·.1)) := by
  induction rows generalizing glob ae ag with
  | nil => simp [Gen.validation_pass_loop1, passRows]
  | cons r rest ih =>
    obtain ⟨g, idx⟩ := r
    rw [Gen.validation_pass_loop1]
    have hrow := gen_row_eq O cfg frame g0 isLine geoms vs idx vs ⟨g, [], false, glob⟩
    simp only [core] at hrow
    simp only [passRows]
    generalize hr : Gen.validation_pass_loop2 (stepOf O cfg frame g0) isLine geoms vs idx vs () g [] false = r at hrow
    obtain ⟨u, g', e', i'⟩ := r
    simp only [Prod.mk.injEq] at hrow
    obtain ⟨h1, h2, _⟩ := hrow
    simp only []
    rw [ih (validateRow O cfg frame idx vs ⟨g, [], false, glob⟩).glob]
    simp [h1, h2]

/-- **The regenerated row and validator loops of `run_validation` ARE the model's pass** (`Tval.passRows`): for every row the
validators run in order until one sets the ignore flag (`break`), geometry / errors / flag are handed from one validator to the
next, and the per-row errors and geometries are collected in row order -- with the regenerated `_validate` (`C09_generated_validate_step`)
as the step. The class attribute does not occur: the result is the model's for EVERY value it may hold (`C13_global_irrelevant`). -/
theorem C13_generated_pass (O : Oracle G) (cfg : Cfg) (frame : List G) (g0 glob : String) (isLine : G → Bool) (vs : List Validator) :
    Gen.validation_pass (stepOf O cfg frame g0) isLine frame vs =
      ((pass O cfg vs frame glob).1.map (·.2), (pass O cfg vs frame glob).1.map (·.1)) := by
  unfold Gen.validation_pass pass
  simp only []
  rw [gen_rows_eq O cfg frame g0 isLine frame vs _ glob [] []]
  simp

/-- **What the only stateful validator does to its class attribute** (regenerated loops of
`UnderlappingSnapValidator.validation_method`, cls.ERROR threaded as a value): a passing call leaves it untouched; a
failing call overwrites it with one of the three documented strings, chosen from the call's own arguments only -- the
value it had before (whatever earlier validations in the process left there) never influences verdict or string. -/
theorem C13_underlap_attribute {L P : Type} (endpoints_of : L → List P) (dist : L → P → Rat) (isUl : L → L → P → Option Bool)
    (overlaps : L → L → Bool) (geom : L) (cands : List L) (t m : Rat) (glob glob' : String) (ok : Bool) (out : String)
    (h : Gen.underlap_validation endpoints_of dist isUl overlaps geom cands t m glob = .ok (ok, out)) :
    (ok = true → out = glob) ∧
    (ok = false → out ∈ ["UNDERLAPPING SNAP", "OVERLAPPING SNAP", "STACKED TRACES"] ∧
      Gen.underlap_validation endpoints_of dist isUl overlaps geom cands t m glob' = .ok (false, out)) ∧
    (ok = true → Gen.underlap_validation endpoints_of dist isUl overlaps geom cands t m glob' = .ok (true, glob')) := by
  rw [Underlap.generated_eq_spec] at h ⊢
  unfold Spec.underlapVerdict at h ⊢
  cases hh : Spec.underlapHit dist t m cands (endpoints_of geom) with
  | none =>
    simp only [hh] at h ⊢
    cases h
    simp
  | some pc =>
    obtain ⟨ep, c⟩ := pc
    simp only [hh] at h ⊢
    cases hu : isUl geom c ep with
    | none =>
      simp only [hu] at h ⊢
      by_cases ho : overlaps geom c = true
      · simp only [ho, if_true] at h ⊢; cases h; simp
      · simp only [ho, Bool.false_eq_true, if_false] at h; cases h
    | some b =>
      cases b <;> simp only [hu] at h ⊢ <;> cases h <;> simp

end C13
