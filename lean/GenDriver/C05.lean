import FractopoModel.Basic.Wire
import FractopoModel.Generated.NodeIdentity
import FractopoModel.Generated.BranchIdentities
/-!
# Runs the REGENERATED node-table and branch-label loops of C05 with exact rational geometry (translator validation,
stream S05-generated).  Thresholds are compared on squared distances.
-/
open Wire

/-- `gentopo t= areas= branches=<a;b|a;b|…>` -/
def gentopo (a : Args) : Option String := do
  let t ← (a.get? "t") >>= parseRat?
  let areas ← (a.get? "areas") >>= parseArea?
  let bls ← (a.get? "branches") >>= parseLines?
  let bs : List (Pt × Pt) ← bls.mapM fun l => match l with | [p, q] => some (p, q) | _ => none
  let ends : List Pt := bs.flatMap fun b => [b.1, b.2]
  let t2 := t * t
  let rows := areas.filter fun r => !r.isEmpty
  -- the point query of the spatial index: positions of the coincident ends
  let query : Pt → List Nat := fun p => (ends.zipIdx.filter fun x => x.1 == p).map (·.2)
  let (nodes, ids) := Gen.node_identities_from_branches (fun p row => AreaRow.boundaryDist2 row p) (fun p q => Pt.dist2 p q) query id (default : Pt) ends rows t2
  -- the bounding-box query answers with every node (a superset is allowed by BoxLaw)
  let labels := Gen.get_branch_identities (fun (_ : Pt × Pt) => List.range nodes.length)
    (fun n (b : Pt × Pt) => min (Pt.dist2 n b.1) (Pt.dist2 n b.2)) bs (fun i => nodes.getD i default) ids t2
  let nodeStr := ";".intercalate ((nodes.zip ids).map fun (p, c) => s!"{showPt p}:{c}")
  some s!"nodes={nodeStr} labels={";".intercalate (labels.map enc)}"

def dispatch (line : String) : String :=
  let toks := (line.trimAscii.toString.splitOn " ").filter (· ≠ "")
  match toks with
  | [] => "error=empty"
  | cmd :: rest =>
    let a := parseArgs rest
    let r : Option String :=
      match cmd with
      | "gentopo" => gentopo a
      | _ => some s!"error=unknown-command:{cmd}"
    r.getD "error=bad-arguments"

partial def loop (hin hout : IO.FS.Stream) : IO Unit := do
  let line ← hin.getLine
  if line.isEmpty then return ()
  hout.putStrLn (dispatch line)
  hout.flush
  loop hin hout

def main : IO Unit := do loop (← IO.getStdin) (← IO.getStdout)
