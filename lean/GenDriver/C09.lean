import FractopoModel.Basic.Wire
import FractopoModel.Generated.ValidateStep
/-!
# Runs the REGENERATED `Validation._validate` (translator validation, stream S09-generated) on scripted validators:
geometries are natural numbers, the validator's answers are given on the wire.
-/
open Wire

/-- `vstep lsonly= isls= isempty= valid= fix=<n|-> err=<s> major=<a;b> geom=<n> errs=<a;b> allowfix=` -/
def vstep (a : Args) : Option String := do
  let b := fun k => (a.get? k) >>= parseBool?
  let lsOnly ← b "lsonly"; let isLs ← b "isls"; let isEmpty ← b "isempty"; let valid ← b "valid"; let allowFix ← b "allowfix"
  let fixS := (a.get? "fix").getD "-"
  let fix : Option Nat := if fixS == "-" then none else fixS.toNat?
  let err := dec ((a.get? "err").getD "")
  let lst := fun k => let s := (a.get? k).getD ""; if s.isEmpty then [] else (s.splitOn ";").map dec
  let geom ← (a.get? "geom") >>= parseNat?
  let (g, errs, ign) := Gen.validate_step lsOnly isLs isEmpty false valid fix err (lst "major") geom (lst "errs") allowFix
  some s!"geom={g} errs={";".intercalate (errs.map enc)} ignore={showBool ign}"

def dispatch (line : String) : String :=
  let toks := (line.trimAscii.toString.splitOn " ").filter (· ≠ "")
  match toks with
  | [] => "error=empty"
  | cmd :: rest =>
    let a := parseArgs rest
    let r : Option String :=
      match cmd with
      | "vstep" => vstep a
      | _ => some s!"error=unknown-command:{cmd}"
    r.getD "error=bad-arguments"

partial def loop (hin hout : IO.FS.Stream) : IO Unit := do
  let line ← hin.getLine
  if line.isEmpty then return ()
  hout.putStrLn (dispatch line)
  hout.flush
  loop hin hout

def main : IO Unit := do loop (← IO.getStdin) (← IO.getStdout)
