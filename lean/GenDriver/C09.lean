import FractopoModel.Basic.Wire
import FractopoModel.Generated.ValidateStep
import FractopoModel.Generated.CropHelpers
import FractopoModel.Basic.Clip
/-!
# Runs the REGENERATED `Validation._validate` (translator validation, stream S09-generated) on scripted validators:
geometries are natural numbers, the validator's answers are given on the wire.
-/
open Wire

/-- `vstep lsonly= isls= isempty= valid= fix=<n|-> err=<s> major=<a;b> geom=<n> errs=<a;b> allowfix=` -/
def vstep (a : Args) : Option String := do
  let b := fun k => (a.get? k) >>= parseBool?
  let lsOnly ← b "lsonly"; let isLs ← b "isls"; let isEmpty ← b "isempty"; let valid ← b "valid"; let allowFix ← b "allowfix"
  let fixS := (a.get? "fix").getD "-"
  let fix : Option Nat := if fixS == "-" then none else fixS.toNat?
  let err := dec ((a.get? "err").getD "")
  let lst := fun k => let s := (a.get? k).getD ""; if s.isEmpty then [] else (s.splitOn ";").map dec
  let geom ← (a.get? "geom") >>= parseNat?
  let (g, errs, ign) := Gen.validate_step lsOnly isLs isEmpty false valid fix err (lst "major") geom (lst "errs") allowFix
  some s!"geom={g} errs={";".intercalate (errs.map enc)} ignore={showBool ign}"

/-- `gempty areas=<rows> traces=<lines>`: the regenerated `is_empty_area` with exact geometry (a trace meets an area row iff a piece of
positive length of it lies inside or one of its vertices is inside or on the boundary); the window reports every trace -/
def gempty (a : Args) : Option String := do
  let areas ← (a.get? "areas") >>= parseArea?
  let traces ← (a.get? "traces") >>= parseLines?
  let rows := areas.filter fun r => !r.isEmpty
  let meets : Polyline → AreaRow → Bool := fun l row => !(clipLine l row).isEmpty || l.any (fun p => inAreaClosed row p)
  some s!"empty={showBool (Gen.is_empty_area (fun (_ : AreaRow) => List.range traces.length) meets rows traces)}"

def dispatch (line : String) : String :=
  let toks := (line.trimAscii.toString.splitOn " ").filter (· ≠ "")
  match toks with
  | [] => "error=empty"
  | cmd :: rest =>
    let a := parseArgs rest
    let r : Option String :=
      match cmd with
      | "vstep" => vstep a
      | "gempty" => gempty a
      | _ => some s!"error=unknown-command:{cmd}"
    r.getD "error=bad-arguments"

partial def loop (hin hout : IO.FS.Stream) : IO Unit := do
  let line ← hin.getLine
  if line.isEmpty then return ()
  hout.putStrLn (dispatch line)
  hout.flush
  loop hin hout

def main : IO Unit := do loop (← IO.getStdin) (← IO.getStdout)
