import FractopoModel.Basic.Wire
import FractopoModel.Generated.Dedupe
/-!
# Runs the REGENERATED `filter_non_unique_traces` (translator validation, stream S04-generated): the keys (WKT at the rounding precision the
code asks for) are computed by the Python side with the very `dumps` call of the source and sent along; what is compared is which rows survive.
-/
open Wire

/-- `gdedupe keys=<k0;k1;…>`: positions of the rows the regenerated filter keeps -/
def gdedupe (a : Args) : Option String := do
  let keys := ((a.get? "keys").getD "").splitOn ";"
  let rows : List (Nat × String) := keys.zipIdx.map fun (k, i) => (i, k)
  let kept := Gen.filter_non_unique_traces (fun (r : Nat × String) => r.2) rows
  some s!"kept={showNats (kept.map (·.1))}"

def dispatch (line : String) : String :=
  let toks := (line.trimAscii.toString.splitOn " ").filter (· ≠ "")
  match toks with
  | [] => "error=empty"
  | cmd :: rest =>
    let a := parseArgs rest
    let r : Option String :=
      match cmd with
      | "gdedupe" => gdedupe a
      | _ => some s!"error=unknown-command:{cmd}"
    r.getD "error=bad-arguments"

partial def loop (hin hout : IO.FS.Stream) : IO Unit := do
  let line ← hin.getLine
  if line.isEmpty then return ()
  hout.putStrLn (dispatch line)
  hout.flush
  loop hin hout

def main : IO Unit := do loop (← IO.getStdin) (← IO.getStdout)
