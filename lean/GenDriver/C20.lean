import FractopoModel.Basic.Wire
import FractopoModel.Model.Subsampling
import FractopoModel.Generated.Subsampling
import FractopoModel.Generated.AggregateDispatch
/-!
# Runs the REGENERATED loops of `group_gathered_subsamples` / `aggregate_chosen` (translator validation, stream S20-generated).
The aggregator functions are the documented ones (`Subs.aggColumn`: sum / area-weighted mean, raising on text or zero weight).
-/
open Wire

def gengroup (a : Args) : Option String := do
  let ks := ((a.get? "keys").getD "").splitOn ";"
  let items := ks.zip (List.range ks.length)
  let g := Gen.group_gathered_subsamples (fun (it : String × Nat) => it.1) items
  some s!"groups={"|".intercalate (g.map fun (k, its) => s!"{k}:{showNats (its.map (·.2))}")}"

/-- the REGENERATED `gather_subsample_descriptions` on a list of result kinds: d = a description (dict), n = None (failed sample), x = anything else -/
def gengather (a : Args) : Option String := do
  let ks := (((a.get? "kinds").getD "").splitOn ",").filter (· ≠ "")
  let items := ks.zip (List.range ks.length)
  let kept := Gen.gather_subsample_descriptions (fun (it : String × Nat) => it.1 == "n") (fun (it : String × Nat) => it.1 == "d") items
  some s!"kept={showNats (kept.map (·.2))}"

def parseCell? (s : String) : Option Subs.Cell :=
  if s.startsWith "n:" then (parseRat? (s.drop 2).toString).map .num
  else if s.startsWith "s:" then some (.str (s.drop 2).toString) else none

def genaggregate (a : Args) : Option String := do
  let cols := (((a.get? "cols").getD "").splitOn ";").map dec
  let rows ← (((a.get? "rows").getD "").splitOn ";").mapM fun r => (r.splitOn ",").mapM parseCell?
  if rows.any (·.length != cols.length) then none
  let rowFns : List (String → Subs.Cell) := rows.map fun r => fun c =>
    match (cols.zip r).find? (·.1 == c) with | some p => p.2 | none => .str "missing"
  let agg : String → List Subs.Cell → List Subs.Cell → Option Subs.Agg := fun name vs ws =>
    match Subs.aggColumn name vs ws with | .sum q => some (.sum q) | .mean q => some (.mean q) | _ => none
  let out := Gen.aggregate_chosen agg (fun _ => Subs.Agg.fallback) rowFns cols Gen.default_aggregator
  let sh : Subs.Agg → String
    | .sum q => s!"sum:{showRat q}"
    | .mean q => s!"mean:{showRat q}"
    | .fallback => "fallback"
    | .undefinedMean => "undef"
  some s!"agg={"|".intercalate (out.map fun (c, v) => s!"{enc c}={sh v}")}"

def dispatch (line : String) : String :=
  let toks := (line.trimAscii.toString.splitOn " ").filter (· ≠ "")
  match toks with
  | [] => "error=empty"
  | cmd :: rest =>
    let a := parseArgs rest
    let r : Option String :=
      match cmd with
      | "group" => gengroup a
      | "aggregate" => genaggregate a
      | "gather" => gengather a
      | _ => some s!"error=unknown-command:{cmd}"
    r.getD "error=bad-arguments"

partial def loop (hin hout : IO.FS.Stream) : IO Unit := do
  let line ← hin.getLine
  if line.isEmpty then return ()
  hout.putStrLn (dispatch line)
  hout.flush
  loop hin hout

def main : IO Unit := do loop (← IO.getStdin) (← IO.getStdout)
