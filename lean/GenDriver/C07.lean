import FractopoModel.Basic.Wire
import FractopoModel.Generated.CropHelpers
import FractopoModel.Generated.CropPipeline
/-!
# Runs the REGENERATED `dissolve_multi_part_traces` (frame branch) on coded rows (translator validation, stream S07-generated): a geometry is a
code `k` = number of parts (1 = LineString, ≥ 2 = MultiLineString of k LineStrings, 0 = a multi-part geometry without parts, 9 = a part
that is not a LineString); the parts of row `u` are `u·100 + j`.
-/
open Wire

/-- `gdissolve rows=<uid:code;…>` -/
def gdissolve (a : Args) : Option String := do
  let toks := (((a.get? "rows").getD "").splitOn ";").filter (· ≠ "")
  let rows : List (Nat × (Nat × Nat)) ← toks.mapM fun t => match t.splitOn ":" with
    | [u, c] => do some (← u.toNat?, (← c.toNat?, 0))
    | _ => none
  -- geometry = (code, part number); a part has code 1 (or 9 when the row is coded 19: one of its parts is a point)
  let isMls : Nat × Nat → Bool := fun g => g.1 != 1 && g.1 != 9
  let isLs : Nat × Nat → Bool := fun g => g.1 == 1
  let parts : Nat × Nat → List (Nat × Nat) := fun g =>
    if g.1 == 19 then [(1, 1), (9, 2)] else if g.1 == 10 then [] else (List.range g.1).map fun j => (1, j + 1)
  some (match Gen.dissolve_multi_part_traces isMls isLs parts rows with
    | .error e => s!"err={e}"
    | .ok out => s!"rows={";".intercalate (out.map fun r => s!"{r.1}:{r.2.1}:{r.2.2}")}")

/-- `gcrop rows=<uid:inkind:script;…> window=<i,j,…> filt=0|1 allow=0|1`: the REGENERATED `crop_to_target_areas` with a scripted clip.
A geometry is (kind, id): input rows are (100, uid) LineStrings or (101, uid) MultiLineStrings; the clip result of row uid is scripted:
n nothing, l long line, s short line, p point, m2/m3 multi-line of long parts, ms multi-line of a short and a long part, c collection of a long line and a point,
cm collection of a two-part multi-line and a point, cs collection of a short line and a point. Piece ids are uid·100 + j. -/
def gcrop (a : Args) : Option String := do
  let toks := (((a.get? "rows").getD "").splitOn ";").filter (· ≠ "")
  let spec : List (Nat × Nat × String) ← toks.mapM fun t => match t.splitOn ":" with
    | [u, k, c] => do some (← u.toNat?, ← k.toNat?, c)
    | _ => none
  let window ← ((((a.get? "window").getD "").splitOn ",").filter (· ≠ "")).mapM (·.toNat?)
  let rows : List (Nat × (Nat × Nat)) := spec.map fun (u, k, _) => (u, (k, u))
  let script : Nat → String := fun u => match spec.find? (·.1 == u) with | some x => x.2.2 | none => "n"
  -- kinds: 1 long line, 2 short line, 9 point, 30 multi (long parts), 31 multi (short + long), 32 multi of two long parts inside a collection,
  --        20 collection line+point, 21 collection multi+point, 22 collection short+point; 100 / 101 input line / multi-line
  let clipg : Nat × Nat → Option (Nat × Nat) := fun g =>
    let b := g.2 * 100
    match script g.2 with
    | "n" => none | "l" => some (1, b) | "s" => some (2, b) | "p" => some (9, b)
    | "m2" => some (30, b + 2) | "m3" => some (30, b + 3) | "ms" => some (31, b)
    | "c" => some (20, b) | "cm" => some (21, b) | "cs" => some (22, b) | _ => none
  let isLs : Nat × Nat → Bool := fun g => g.1 == 1 || g.1 == 2 || g.1 == 100
  let isMls : Nat × Nat → Bool := fun g => g.1 == 30 || g.1 == 31 || g.1 == 32 || g.1 == 101
  let isColl : Nat × Nat → Bool := fun g => g.1 == 20 || g.1 == 21 || g.1 == 22
  let parts : Nat × Nat → List (Nat × Nat) := fun g =>
    if g.1 == 30 then (List.range (g.2 % 100)).map fun j => (1, g.2 / 100 * 100 + j + 1)
    else if g.1 == 31 then [(2, g.2 + 1), (1, g.2 + 2)]
    else if g.1 == 32 then [(1, g.2 + 1), (1, g.2 + 2)] else []
  let cparts : Nat × Nat → List (Nat × Nat) := fun g =>
    if g.1 == 20 then [(1, g.2 + 1), (9, g.2 + 2)] else if g.1 == 21 then [(32, g.2 + 10), (9, g.2 + 2)] else if g.1 == 22 then [(2, g.2 + 1), (9, g.2 + 2)] else []
  let long : Nat × Nat → Bool := fun g => g.1 == 1
  some (match Gen.crop_to_target_areas isMls isLs isColl parts cparts clipg long window rows ((a.get? "filt") == some "1") ((a.get? "allow") == some "1") with
    | .error e => s!"err={e}"
    | .ok out => s!"rows={";".intercalate (out.map fun r => s!"{r.1}:{r.2.2}")}")

def dispatch (line : String) : String :=
  let toks := (line.trimAscii.toString.splitOn " ").filter (· ≠ "")
  match toks with
  | [] => "error=empty"
  | cmd :: rest =>
    let a := parseArgs rest
    let r : Option String :=
      match cmd with
      | "gdissolve" => gdissolve a
      | "gcrop" => gcrop a
      | _ => some s!"error=unknown-command:{cmd}"
    r.getD "error=bad-arguments"

partial def loop (hin hout : IO.FS.Stream) : IO Unit := do
  let line ← hin.getLine
  if line.isEmpty then return ()
  hout.putStrLn (dispatch line)
  hout.flush
  loop hin hout

def main : IO Unit := do loop (← IO.getStdin) (← IO.getStdout)
