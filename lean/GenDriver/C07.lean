import FractopoModel.Basic.Wire
import FractopoModel.Generated.CropHelpers
/-!
# Runs the REGENERATED `dissolve_multi_part_traces` (frame branch) on coded rows (translator validation, stream S07-generated): a geometry is a
code `k` = number of parts (1 = LineString, ≥ 2 = MultiLineString of k LineStrings, 0 = a multi-part geometry without parts, 9 = a part
that is not a LineString); the parts of row `u` are `u·100 + j`.
-/
open Wire

/-- `gdissolve rows=<uid:code;…>` -/
def gdissolve (a : Args) : Option String := do
  let toks := (((a.get? "rows").getD "").splitOn ";").filter (· ≠ "")
  let rows : List (Nat × (Nat × Nat)) ← toks.mapM fun t => match t.splitOn ":" with
    | [u, c] => do some (← u.toNat?, (← c.toNat?, 0))
    | _ => none
  -- geometry = (code, part number); a part has code 1 (or 9 when the row is coded 19: one of its parts is a point)
  let isMls : Nat × Nat → Bool := fun g => g.1 != 1 && g.1 != 9
  let isLs : Nat × Nat → Bool := fun g => g.1 == 1
  let parts : Nat × Nat → List (Nat × Nat) := fun g =>
    if g.1 == 19 then [(1, 1), (9, 2)] else if g.1 == 10 then [] else (List.range g.1).map fun j => (1, j + 1)
  some (match Gen.dissolve_multi_part_traces isMls isLs parts rows with
    | .error e => s!"err={e}"
    | .ok out => s!"rows={";".intercalate (out.map fun r => s!"{r.1}:{r.2.1}:{r.2.2}")}")

def dispatch (line : String) : String :=
  let toks := (line.trimAscii.toString.splitOn " ").filter (· ≠ "")
  match toks with
  | [] => "error=empty"
  | cmd :: rest =>
    let a := parseArgs rest
    let r : Option String :=
      match cmd with
      | "gdissolve" => gdissolve a
      | _ => some s!"error=unknown-command:{cmd}"
    r.getD "error=bad-arguments"

partial def loop (hin hout : IO.FS.Stream) : IO Unit := do
  let line ← hin.getLine
  if line.isEmpty then return ()
  hout.putStrLn (dispatch line)
  hout.flush
  loop hin hout

def main : IO Unit := do loop (← IO.getStdin) (← IO.getStdout)
