import FractopoModel.Basic.Wire
import FractopoModel.Generated.ValidateStep
import FractopoModel.Generated.ValidationPass
import FractopoModel.Generated.RunValidation
/-!
# Runs the REGENERATED row / validator loops of `run_validation` (`Gen.validation_pass`) with the regenerated `_validate`
inside, twice (first pass geometries feed the second pass, as `run_validation` does), on scripted validators (translator
validation, stream S13-generated).  Geometries are codes: 0 line, 1 empty line, 2 multi-line, 3 point, 9 the fixed line.
-/
open Wire

structure SV where
  lsOnly : Bool
  err : String
  fails : List Nat        -- geometry codes the validator rejects
  fix : Option Nat        -- what fix_method returns (none = None / NotImplementedError)

def parseSV (s : String) : Option SV :=
  match s.splitOn ":" with
  | [l, e, f, x] => do
    let lo ← parseBool? l
    let fs ← if f == "-" then some [] else (f.splitOn ".").mapM String.toNat?
    some { lsOnly := lo, err := dec e, fails := fs, fix := if x == "-" then none else x.toNat? }
  | _ => none

/-- `vpass geoms=0,2,3 allowfix=1 major=<a;b> vals=<lsonly:err:failcodes:fix>|…` -/
def vpass (a : Args) : Option String := do
  let geoms ← (a.get? "geoms") >>= parseNats?
  let allowFix ← (a.get? "allowfix") >>= parseBool?
  let major := let s := (a.get? "major").getD ""; if s.isEmpty then [] else (s.splitOn ";").map dec
  let vals ← (((a.get? "vals").getD "").splitOn "|").mapM parseSV
  let isLs : Nat → Bool := fun g => g == 0 || g == 1 || g == 9
  let isLine : Nat → Bool := fun g => g == 0 || g == 9
  let validate_ : SV → Nat → List String → Nat → Nat × List String × Bool := fun v g errs _ =>
    Gen.validate_step v.lsOnly (isLs g) (g == 1) false (!(v.fails.contains g)) v.fix v.err major g errs allowFix
  -- the regenerated frame-level plumbing of run_validation (both passes through its own recursion, unfolded once) around the regenerated loops
  let passG : List SV → List Nat → List (List String) × List Nat := fun vs fr => Gen.validation_pass validate_ isLine fr vs
  let frameFn := fun (recur : List Nat → String × List (Nat × List String)) (fr : List Nat) (first : Bool) =>
    Gen.run_validation_frame "VALIDATION_ERRORS" "VALIDATION_" (fun _ => false) ([] : List SV) [] (fun _ => false) (fun _ => false) "EMPTY TARGET AREA" passG recur fr first (some vals) true
  let (tag, rows) := frameFn (fun fr => frameFn (fun _ => ("untouched", [])) fr false) geoms true
  some s!"tag={tag} geoms={showNats (rows.map (·.1))} errs={"|".intercalate (rows.map fun r => ";".intercalate (r.2.map enc))}"

def dispatch (line : String) : String :=
  let toks := (line.trimAscii.toString.splitOn " ").filter (· ≠ "")
  match toks with
  | [] => "error=empty"
  | cmd :: rest =>
    let a := parseArgs rest
    let r : Option String :=
      match cmd with
      | "vpass" => vpass a
      | _ => some s!"error=unknown-command:{cmd}"
    r.getD "error=bad-arguments"

partial def loop (hin hout : IO.FS.Stream) : IO Unit := do
  let line ← hin.getLine
  if line.isEmpty then return ()
  hout.putStrLn (dispatch line)
  hout.flush
  loop hin hout

def main : IO Unit := do loop (← IO.getStdin) (← IO.getStdout)
