import FractopoModel.Basic.Wire
import FractopoModel.Generated.DetermineIntersect
/-! Runs the REGENERATED `determine_intersect` (translator validation, stream S12-generated). -/
open Wire

def gintersect (a : Args) : Option String := do
  let cls ← a.get? "cls"
  let l1 ← (a.get? "l1") >>= parseBool?
  let l2 ← (a.get? "l2") >>= parseBool?
  let p1 ← (a.get? "p1") >>= parseBool?
  some (match Gen.determine_intersect p1 cls l1 l2 "A" "B" with
    | .ok (x, y) => s!"sets={x}{y}"
    | .error _ => "sets=error")

def dispatch (line : String) : String :=
  let toks := (line.trimAscii.toString.splitOn " ").filter (· ≠ "")
  match toks with
  | [] => "error=empty"
  | cmd :: rest =>
    let a := parseArgs rest
    let r : Option String :=
      match cmd with
      | "intersect" => gintersect a
      | _ => some s!"error=unknown-command:{cmd}"
    r.getD "error=bad-arguments"

partial def loop (hin hout : IO.FS.Stream) : IO Unit := do
  let line ← hin.getLine
  if line.isEmpty then return ()
  hout.putStrLn (dispatch line)
  hout.flush
  loop hin hout

def main : IO Unit := do loop (← IO.getStdin) (← IO.getStdout)
