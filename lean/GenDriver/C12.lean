import FractopoModel.Basic.Wire
import FractopoModel.Generated.DetermineIntersect
import FractopoModel.Generated.IntersectsLoop
/-! Runs the REGENERATED `determine_intersect` (translator validation, stream S12-generated). -/
open Wire

def gintersect (a : Args) : Option String := do
  let cls ← a.get? "cls"
  let l1 ← (a.get? "l1") >>= parseBool?
  let l2 ← (a.get? "l2") >>= parseBool?
  let p1 ← (a.get? "p1") >>= parseBool?
  some (match Gen.determine_intersect p1 cls l1 l2 "A" "B" with
    | .ok (x, y) => s!"sets={x}{y}"
    | .error _ => "sets=error")

/-- `gintloop names=a,b nodes=<t1:t2:class:res;…>` with res = `ab` | `ba` | `-` (determine_intersect raises): the regenerated node loop of
`determine_intersects`; nodes are their positions -/
def gintloop (a : Args) : Option String := do
  let names ← match ((a.get? "names").getD "").splitOn "," with | [x, y] => some (x, y) | _ => none
  let toks := (((a.get? "nodes").getD "").splitOn ";").filter (· ≠ "")
  let rows : List (Bool × Bool × String × String) ← toks.mapM fun t => match t.splitOn ":" with
    | [t1, t2, c, r] => do some (← parseBool? t1, ← parseBool? t2, c, r)
    | _ => none
  let arr := rows.toArray
  let res : Nat → Option (String × String) := fun i => match (arr.getD i (false, false, "", "-")).2.2.2 with
    | "ab" => some (names.1, names.2) | "ba" => some (names.2, names.1) | _ => none
  let out := Gen.determine_intersects_rows (fun (i : Nat) => (arr.getD i (false, false, "", "-")).1) (fun i => (arr.getD i (false, false, "", "-")).2.1)
    (fun i _ _ _ => res i) names (List.range rows.length) (rows.map fun r => r.2.2.1)
  some (match out with
    | .error e => s!"err={e}"
    | .ok rs => s!"rows={";".intercalate (rs.map fun r => s!"{r.1}:{r.2.1}:{r.2.2.1.1},{r.2.2.1.2}:{showBool r.2.2.2}")}")

def dispatch (line : String) : String :=
  let toks := (line.trimAscii.toString.splitOn " ").filter (· ≠ "")
  match toks with
  | [] => "error=empty"
  | cmd :: rest =>
    let a := parseArgs rest
    let r : Option String :=
      match cmd with
      | "intersect" => gintersect a
      | "gintloop" => gintloop a
      | _ => some s!"error=unknown-command:{cmd}"
    r.getD "error=bad-arguments"

partial def loop (hin hout : IO.FS.Stream) : IO Unit := do
  let line ← hin.getLine
  if line.isEmpty then return ()
  hout.putStrLn (dispatch line)
  hout.flush
  loop hin hout

def main : IO Unit := do loop (← IO.getStdin) (← IO.getStdout)
