import FractopoModel.Exec.Pipe
/-!
# Runs the REGENERATED `branches_and_nodes` end to end (translator validation, stream S01-generated); see `Exec/Pipe.lean`.
-/
open Wire

def dispatch (line : String) : String :=
  let toks := (line.trimAscii.toString.splitOn " ").filter (· ≠ "")
  match toks with
  | [] => "error=empty"
  | cmd :: rest =>
    let a := parseArgs rest
    let r : Option String :=
      match cmd with
      | "gpipe" => Exec.gpipe a
      | _ => some s!"error=unknown-command:{cmd}"
    r.getD "error=bad-arguments"

partial def loop (hin hout : IO.FS.Stream) : IO Unit := do
  let line ← hin.getLine
  if line.isEmpty then return ()
  hout.putStrLn (dispatch line)
  hout.flush
  loop hin hout

def main : IO Unit := do loop (← IO.getStdin) (← IO.getStdout)
