import FractopoModel.Basic.Wire
import FractopoModel.Basic.Clip
import FractopoModel.Generated.BoundaryLines
/-!
# Runs the REGENERATED loops of `determine_boundary_intersecting_lines` with exact geometry (translator validation, stream
S08-generated).  One circular / polygonal area per request; distances squared.
-/
open Wire

/-- `blines t= areas= lines=`: the two boolean arrays -/
def blines (a : Args) : Option String := do
  let t ← (a.get? "t") >>= parseRat?
  let areas ← (a.get? "areas") >>= parseArea?
  let ls ← (a.get? "lines") >>= parseLines?
  let rows := areas.filter fun r => !r.isEmpty
  let n := ls.length
  let lineAt : Nat → Polyline := fun i => ls.getD i []
  let bsegs : AreaRow → List (Pt × Pt) := fun row => row.flatMap fun pg => pg.rings.flatMap segs
  -- squared distance of a polyline to the boundary of an area row
  let ldist : Polyline → AreaRow → Rat := fun l row =>
    minList ((segs l).flatMap fun (p, q) => (bsegs row).map fun (c, d) => segSegDist2 p q c d) (t * t)
  let pdist : Pt → AreaRow → Rat := fun p row => AreaRow.boundaryDist2 row p
  let within : Pt → AreaRow → Bool := fun p row => row.any fun pg => pg.containsStrict p
  let touches : Polyline → AreaRow → Bool := fun l row =>
    decide (ldist l row = 0) || (l.any fun p => row.any fun pg => pg.containsStrict p)
  let (x, y) := Gen.boundary_intersecting_lines rows (fun _ => List.range n) lineAt ldist (fun l => [l.headD default, l.getLastD default]) pdist within touches
    (List.range n) (t * t)
  some s!"intersecting={",".intercalate (x.map showBool)} cuts={",".intercalate (y.map showBool)}"

def dispatch (line : String) : String :=
  let toks := (line.trimAscii.toString.splitOn " ").filter (· ≠ "")
  match toks with
  | [] => "error=empty"
  | cmd :: rest =>
    let a := parseArgs rest
    let r : Option String :=
      match cmd with
      | "blines" => blines a
      | _ => some s!"error=unknown-command:{cmd}"
    r.getD "error=bad-arguments"

partial def loop (hin hout : IO.FS.Stream) : IO Unit := do
  let line ← hin.getLine
  if line.isEmpty then return ()
  hout.putStrLn (dispatch line)
  hout.flush
  loop hin hout

def main : IO Unit := do loop (← IO.getStdin) (← IO.getStdout)
