import FractopoModel.Basic.Wire
import FractopoModel.Basic.Clip
import FractopoModel.Generated.BoundaryLines
import FractopoModel.Generated.LineDataCache
import FractopoModel.Generated.BoundaryWeight
/-!
# Runs the REGENERATED loops of `determine_boundary_intersecting_lines` with exact geometry (translator validation, stream
S08-generated).  One circular / polygonal area per request; distances squared.
-/
open Wire

/-- `blines t= areas= lines=`: the two boolean arrays -/
def blines (a : Args) : Option String := do
  let t ← (a.get? "t") >>= parseRat?
  let areas ← (a.get? "areas") >>= parseArea?
  let ls ← (a.get? "lines") >>= parseLines?
  let rows := areas.filter fun r => !r.isEmpty
  let n := ls.length
  let lineAt : Nat → Polyline := fun i => ls.getD i []
  let bsegs : AreaRow → List (Pt × Pt) := fun row => row.flatMap fun pg => pg.rings.flatMap segs
  -- squared distance of a polyline to the boundary of an area row
  let ldist : Polyline → AreaRow → Rat := fun l row =>
    minList ((segs l).flatMap fun (p, q) => (bsegs row).map fun (c, d) => segSegDist2 p q c d) (t * t)
  let pdist : Pt → AreaRow → Rat := fun p row => AreaRow.boundaryDist2 row p
  let within : Pt → AreaRow → Bool := fun p row => row.any fun pg => pg.containsStrict p
  let touches : Polyline → AreaRow → Bool := fun l row =>
    decide (ldist l row = 0) || (l.any fun p => row.any fun pg => pg.containsStrict p)
  let (x, y) := Gen.boundary_intersecting_lines rows (fun _ => List.range n) lineAt ldist (fun l => [l.headD default, l.getLastD default]) pdist within touches
    (List.range n) (t * t)
  some s!"intersecting={",".intercalate (x.map showBool)} cuts={",".intercalate (y.map showBool)}"

def parseInts? (s : String) : Option (List Int) := ((s.splitOn ",").filter (· ≠ "")).mapM parseInt?

/-- `glinedata order=<getter,…> lengths= counts= azimuths= detset=<az:set;…> [pre_length= pre_azimuth= pre_set= pre_w= pre_nw=]`: the REGENERATED column cache
of LineData; the getters are called in the given order on one frame, every result and the final columns are printed -/
def glinedata (a : Args) : Option String := do
  let lengths ← (a.get? "lengths") >>= parseRats?
  let counts ← (a.get? "counts") >>= parseInts?
  let azimuths ← (a.get? "azimuths") >>= parseRats?
  let table : List (Rat × String) ← ((((a.get? "detset").getD "").splitOn ";").filter (· ≠ "")).mapM fun t => match t.splitOn ":" with
    | [x, n] => do some (← parseRat? x, n)
    | _ => none
  let detset : Rat → String := fun x => match table.find? (·.1 == x) with | some p => p.2 | none => "?"
  let optR : String → Option (Option (List Rat)) := fun k => match a.get? k with | none => some none | some v => (parseRats? v).map some
  let cols0 : LineCols := {
    length := ← optR "pre_length", azimuth := ← optR "pre_azimuth", length_nw := ← optR "pre_nw",
    azimuth_set := (a.get? "pre_set").map fun v => (v.splitOn ",").filter (· ≠ ""),
    boundary_weight := ← (match a.get? "pre_w" with | none => some none | some v => (parseInts? v).map some) }
  let order := (((a.get? "order").getD "").splitOn ",").filter (· ≠ "")
  let showI : List Int → String := fun l => ",".intercalate (l.map toString)
  let step : (LineCols × List String) → String → (LineCols × List String) := fun (cols, out) g =>
    match g with
    | "az" => let (v, c) := Gen.ld_azimuth_array azimuths cols; (c, out ++ [s!"az:{showRats v}"])
    | "set" => let (v, c) := Gen.ld_azimuth_set_array detset azimuths cols; (c, out ++ [s!"set:{",".intercalate v}"])
    | "nw" => let (v, c) := Gen.ld_length_array_non_weighted lengths cols; (c, out ++ [s!"nw:{showRats v}"])
    | "w" => match Gen.ld_length_boundary_weights Gen.intersection_count_to_boundary_weight lengths.length counts cols with
        | .ok (v, c) => (c, out ++ [s!"w:{showI v}"])
        | .error e => (cols, out ++ [s!"w:err:{e}"])
    | "len" => match Gen.ld_length_array Gen.intersection_count_to_boundary_weight lengths counts cols with
        | (.ok v, c) => (c, out ++ [s!"len:{showRats v}"])
        | (.error e, c) => (c, out ++ [s!"len:err:{e}"])
    | _ => (cols, out ++ ["?"])
  let (cols, out) := order.foldl step (cols0, [])
  let present : List String := (if cols.length.isSome then ["length"] else []) ++ (if cols.azimuth.isSome then ["azimuth"] else []) ++
    (if cols.azimuth_set.isSome then ["azimuth_set"] else []) ++ (if cols.boundary_weight.isSome then ["boundary_weight"] else []) ++
    (if cols.length_nw.isSome then ["length_non-weighted"] else [])
  some s!"out={"|".intercalate out} cols={",".intercalate present}"

def dispatch (line : String) : String :=
  let toks := (line.trimAscii.toString.splitOn " ").filter (· ≠ "")
  match toks with
  | [] => "error=empty"
  | cmd :: rest =>
    let a := parseArgs rest
    let r : Option String :=
      match cmd with
      | "blines" => blines a
      | "glinedata" => glinedata a
      | _ => some s!"error=unknown-command:{cmd}"
    r.getD "error=bad-arguments"

partial def loop (hin hout : IO.FS.Stream) : IO Unit := do
  let line ← hin.getLine
  if line.isEmpty then return ()
  hout.putStrLn (dispatch line)
  hout.flush
  loop hin hout

def main : IO Unit := do loop (← IO.getStdin) (← IO.getStdout)
