import FractopoModel.Basic.Wire
import FractopoModel.Basic.Clip
import FractopoModel.Generated.UnderlapValidator
import FractopoModel.Generated.AreaValidator
import FractopoModel.Generated.ValidationUtils
import FractopoModel.Generated.ValidatorMethods
import FractopoModel.Generated.SharpCorners
/-!
# Runs the REGENERATED `UnderlappingSnapValidator.validation_method` and `TargetAreaSnapValidator.validation_method`
(translator validation, stream S10-generated).  Distances are exact and squared (thresholds and multipliers are passed squared);
the under/overlap decision, `overlaps` and the candidate test are scripted per candidate / per area, as they are on the Python
side.
-/
open Wire

/-- `underlap t= m= geom=<line> cands=<lines> ul=<n|0|1 per candidate, comma separated> ov=<0|1 per candidate> err=<initial attribute>` -/
def underlapCmd (a : Args) : Option String := do
  let t ← (a.get? "t") >>= parseRat?
  let m ← (a.get? "m") >>= parseRat?
  let geom ← (a.get? "geom") >>= parseLine?
  let cands ← (a.get? "cands") >>= parseLines?
  let ul := ((a.get? "ul").getD "").splitOn ","
  let ov ← (((a.get? "ov").getD "").splitOn ",").mapM parseBool?
  let err := dec ((a.get? "err").getD "X")
  let idx : Polyline → Nat := fun c => cands.idxOf c
  let isUl : Polyline → Polyline → Pt → Option Bool := fun _ c _ =>
    match ul.getD (idx c) "n" with | "1" => some true | "0" => some false | _ => none
  let r := Gen.underlap_validation (fun (l : Polyline) => [l.headD default, l.getLastD default]) (fun l p => (ptLineDist2 p l).getD 0) isUl
    (fun _ c => ov.getD (idx c) false) geom cands (t * t) (m * m) err
  some (match r with
    | .ok (b, e) => s!"ok={showBool b} err={enc e}"
    | .error e => s!"raise={enc e}")

/-- `areaval t= m= a= geom=<line> areas=<rows> cand=<0|1 per area row>` -/
def areavalCmd (a : Args) : Option String := do
  let t ← (a.get? "t") >>= parseRat?
  let m ← (a.get? "m") >>= parseRat?
  let ae ← (a.get? "a") >>= parseRat?
  let geom ← (a.get? "geom") >>= parseLine?
  let areas ← (a.get? "areas") >>= parseArea?
  let cand ← (((a.get? "cand").getD "").splitOn ",").mapM parseBool?
  let rows := areas.zipIdx
  let r := Gen.area_validation (fun (l : Polyline) => [l.headD default, l.getLastD default]) (fun _ _ (row : AreaRow × Nat) => cand.getD row.2 false)
    (fun p (row : AreaRow × Nat) => AreaRow.boundaryDist2 row.1 p) geom rows (t * t) (m * m) (ae * ae)
  some s!"ok={showBool r}"

/-- `gisul t= m= ep=x,y split=<pieces|…>|FAIL`: the regenerated `is_underlapping` on a scripted split result -/
def gisul (a : Args) : Option String := do
  let t ← (a.get? "t") >>= parseRat?
  let m ← (a.get? "m") >>= parseRat?
  let ep ← (a.get? "ep") >>= parsePt?
  let sp := (a.get? "split").getD "FAIL"
  let pieces : Option (List Polyline) ← if sp == "FAIL" then some none else (parseLines? sp).map some
  let r := Gen.is_underlapping (fun (_ _ : Unit) => pieces) (fun (sg : Polyline) (p : Pt) => (ptLineDist2 p sg).getD 0) () () ep (t * t) (m * m)
  some s!"r={match r with | none => "none" | some true => "true" | some false => "false"}"

/-- `gtri t= k= ip=0|1 split=<pieces|…>|FAIL`: the regenerated `split_to_determine_triangle_errors` (with the regenerated
`determine_middle_in_triangle`) on a scripted split result; two-vertex pieces, squared lengths and distances -/
def gtri (a : Args) : Option String := do
  let t ← (a.get? "t") >>= parseRat?
  let k ← (a.get? "k") >>= parseRat?
  let ip ← (a.get? "ip") >>= parseBool?
  let sp := (a.get? "split").getD "FAIL"
  let pieces : Option (List Polyline) ← if sp == "FAIL" then some none else (parseLines? sp).map some
  let r := Gen.split_to_determine_triangle_errors (fun (_ _ : Unit) => pieces) (fun _ _ => ip) (fun (x y : Polyline) => (lineLineDist2 x y).getD 0)
    (fun (x : Polyline) => (segLens2 x).sum) () () (t * t) (k * k)
  some s!"r={showBool r}"

/-- `gstackval t= m= o= geom=<line> cands=<lines> along=<0|1> tri=<0|1 per candidate>`: the regenerated
`StackedTracesValidator.validation_method`; the neighbour set is exact (distance of the candidate to the trace ≤ t·o·m), the alongside
test is scripted as one flag that applies when the neighbour set is not empty, the triangle test per candidate -/
def gstackval (a : Args) : Option String := do
  let t ← (a.get? "t") >>= parseRat?
  let m ← (a.get? "m") >>= parseRat?
  let o ← (a.get? "o") >>= parseRat?
  let geom ← (a.get? "geom") >>= parseLine?
  let cands ← if ((a.get? "cands").getD "").isEmpty then some [] else (a.get? "cands") >>= parseLines?
  let along ← (a.get? "along") >>= parseBool?
  let tri ← if ((a.get? "tri").getD "").isEmpty then some [] else (((a.get? "tri").getD "").splitOn ",").mapM parseBool?
  let r := Gen.stacked_validation (fun (_ : Polyline) => true)
    (fun tc r g => decide ((lineLineDist2 tc g).getD 0 ≤ r * r))
    (fun _ near => along && !near.isEmpty) (fun _ c => tri.getD (cands.idxOf c) false) geom cands t m o
  some s!"ok={showBool r}"

/-- `gsharp n= chordnan=0|1 nan=<0|1 per segment> avgok=<0|1 per segment> prevok=<0|1 per segment>`: the regenerated
`SharpCornerValidator.validation_method` on a trace of `n` vertices (vertex = its index); a unit vector is the pair of vertex indices,
the comparisons are scripted per segment (avg threshold 1 = against the chord, prev threshold 2 = against the previous segment) -/
def gsharp (a : Args) : Option String := do
  let n ← (a.get? "n") >>= parseNat?
  let chordNan ← (a.get? "chordnan") >>= parseBool?
  let bl := fun k => (((a.get? k).getD "").splitOn ",").filterMap parseBool?
  let nan := bl "nan"; let avgok := bl "avgok"; let prevok := bl "prevok"
  let r := Gen.sharp_corner_validation (fun (_ : Unit) => List.range n) 0 (fun (i j : Nat) => (i, j))
    (fun (v : Nat × Nat) => if v.2 == v.1 + 1 then nan.getD v.1 false else chordNan)
    (fun (_ v2 : Nat × Nat) (thr : Rat) => if thr == 1 then avgok.getD v2.1 true else prevok.getD (v2.1 + 1) true) () 1 2
  some s!"ok={showBool r}"

def dispatch (line : String) : String :=
  let toks := (line.trimAscii.toString.splitOn " ").filter (· ≠ "")
  match toks with
  | [] => "error=empty"
  | cmd :: rest =>
    let a := parseArgs rest
    let r : Option String :=
      match cmd with
      | "underlap" => underlapCmd a
      | "areaval" => areavalCmd a
      | "gisul" => gisul a
      | "gtri" => gtri a
      | "gstackval" => gstackval a
      | "gsharp" => gsharp a
      | _ => some s!"error=unknown-command:{cmd}"
    r.getD "error=bad-arguments"

partial def loop (hin hout : IO.FS.Stream) : IO Unit := do
  let line ← hin.getLine
  if line.isEmpty then return ()
  hout.putStrLn (dispatch line)
  hout.flush
  loop hin hout

def main : IO Unit := do loop (← IO.getStdin) (← IO.getStdout)
