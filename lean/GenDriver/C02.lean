import FractopoModel.Basic.Wire
import FractopoModel.Generated.NodeJunctions
import FractopoModel.Generated.IntersectionFilter
import FractopoModel.Generated.ValidatorMethods
import FractopoModel.Model.SnapLoop
/-!
# Runs the REGENERATED definitions of C02 on concrete inputs (validation of the translator itself: the generated Lean code and
the Python code it was generated from are executed on the same inputs by stream S02-generated). Built only for the C02 check;
if a generated module does not compile the stream is skipped (the translate / theorem obligations already report that).
-/
open Wire

/-- `junctions thr= d2=<(t*m)^2> nodes=<tuple|tuple|…>`: squared distances, so the threshold passed is `d2` with multiplier 1;
the spatial index answers with every position (allowed by `QueryLaw`) -/
def junctions (a : Args) : Option String := do
  let thr ← (a.get? "thr") >>= parseNat?
  let d2 ← (a.get? "d2") >>= parseRat?
  let nodes ← (a.get? "nodes") >>= parseLines?
  let n := (nodes.flatMap id).length
  let r := Gen.determine_node_junctions (fun (_ : Pt) _ => List.range n) (fun p q => Pt.dist2 p q) nodes d2 1 thr
  some s!"marked={showNats r}"

/-- `interfilter c2=<close^2> inter=<points> geom=<line> cands=<lines>` -/
def interfilter (a : Args) : Option String := do
  let c2 ← (a.get? "c2") >>= parseRat?
  let inter ← (a.get? "inter") >>= parseLine?
  let geom ← (a.get? "geom") >>= parseLine?
  let cands ← (a.get? "cands") >>= parseLines?
  let endsOf : Polyline → List Pt := fun l => [l.headD default, l.getLastD default]
  let r := Gen.intersection_points_no_vnode inter endsOf (fun p q => decide (Pt.dist2 p q ≤ c2)) cands geom
  some s!"kept={showLine r}"

/-- `gcrosscut geom=<line> cands=<lines>`: the regenerated `MultipleCrosscutValidator.validation_method` with exact geometry (traces that meet
in isolated points only): a candidate's intersection is a MultiPoint iff it has at least two points -/
def gcrosscut (a : Args) : Option String := do
  let geom ← (a.get? "geom") >>= parseLine?
  let cands ← (a.get? "cands") >>= parseLines?
  let pts : Polyline → Polyline → List Pt := fun l m => ((SnapL.interPts l m).getD []).eraseDups
  let r := Gen.crosscut_validation (fun tc g => !(pts tc g).isEmpty) (fun tc g => if (pts tc g).length ≥ 2 then some (pts tc g).length else none) geom cands
  some s!"ok={showBool r}"

def dispatch (line : String) : String :=
  let toks := (line.trimAscii.toString.splitOn " ").filter (· ≠ "")
  match toks with
  | [] => "error=empty"
  | cmd :: rest =>
    let a := parseArgs rest
    let r : Option String :=
      match cmd with
      | "junctions" => junctions a
      | "interfilter" => interfilter a
      | "gcrosscut" => gcrosscut a
      | _ => some s!"error=unknown-command:{cmd}"
    r.getD "error=bad-arguments"

partial def loop (hin hout : IO.FS.Stream) : IO Unit := do
  let line ← hin.getLine
  if line.isEmpty then return ()
  hout.putStrLn (dispatch line)
  hout.flush
  loop hin hout

def main : IO Unit := do loop (← IO.getStdin) (← IO.getStdout)
