import FractopoModel.Basic.Wire
import FractopoModel.Model.Snap
import FractopoModel.Model.SnapLoop
import FractopoModel.Generated.SnapInsert
import FractopoModel.Generated.SnapDriver
import FractopoModel.Generated.InsertPoint
import FractopoModel.Lemmas.SnapStage
import FractopoModel.Exec.Pipe
/-!
# Runs the REGENERATED second snapping stage and the regenerated repeat-until-stable driver (translator validation, stream
S06-generated).  Distances are compared squared; the vertex insertion is the exact model `Snap.insertGeo`.
-/
open Wire

/-- `snapto t= eps=<points> another=<line>` -/
def snapto (a : Args) : Option String := do
  let t ← (a.get? "t") >>= parseRat?
  let eps ← (a.get? "eps") >>= parseLine?
  let another ← (a.get? "another") >>= parseLine?
  let (l, ch) := Gen.snap_trace_to_another (fun ep l => (ptLineDist2 ep l).getD (t * t)) (fun ep l => SnapL.onLine ep l)
    (fun l ep _ => Snap.insertGeo l ep t) eps another (t * t)
  some s!"line={showLine l} changed={showBool ch}"

/-- `closeb t= areas= pt=` -/
def closeb (a : Args) : Option String := do
  let t ← (a.get? "t") >>= parseRat?
  let areas ← (a.get? "areas") >>= parseArea?
  let p ← (a.get? "pt") >>= parsePt?
  let polys : List Polygon := areas.flatMap id
  some s!"close={showBool (Gen.is_endpoint_close_to_boundary (fun (q : Pt) (pg : Polygon) => pg.boundaryDist2 q) p polys (t * t))}"

/-- `driver allowed= script=<1;1;0>`: the pass function is scripted: the k-th call reports "changed" as the k-th flag
(the state is the number of calls made) -/
def driverCmd (a : Args) : Option String := do
  let allowed ← (a.get? "allowed") >>= parseNat?
  let script ← (((a.get? "script").getD "").splitOn ";").mapM parseBool?
  let pass_ : Nat → Nat × Bool := fun k => (k + 1, script.getD k false)
  some (match Gen.snap_driver pass_ 0 allowed (allowed + 2) with
    | .ok (calls, loops) => s!"calls={calls} loops={loops}"
    | .error e => s!"err={e}")

/-- `ginsert t= line= pt=`: the regenerated `insert_point_to_linestring` with exact squared distances -/
def ginsert (a : Args) : Option String := do
  let t ← (a.get? "t") >>= parseRat?
  let l ← (a.get? "line") >>= parseLine?
  let p ← (a.get? "pt") >>= parsePt?
  let out := Gen.insert_point_to_linestring (fun c q => Pt.dist2 q c) (fun a b => a == b) (fun _ _ _ => 0) (fun a b q => ptSegDist2 q a b) l p (t * t)
  some s!"line={showLine out}"

/-- `gsnappass t= areas= traces=`: the REGENERATED `snap_traces` (with the regenerated `simple_snap`, `snap_trace_simple`,
`snap_others_to_trace`, `resolve_trace_candidates`, boundary filter, `snap_trace_to_another` inside), exact parameters, ascending
candidate order; same output format as the model driver's `snappass` -/
def gsnappass (a : Args) : Option String := do
  let t ← (a.get? "t") >>= parseRat?
  let areas ← (a.get? "areas") >>= parseArea?
  let traces ← (a.get? "traces") >>= parseLines?
  let polys : List Polygon := areas.flatMap id
  let r := Gen.snap_traces SnapStageL.boundsE (SnapStageL.indexE .asc) SnapStageL.simpleSnapG SnapL.ends (SnapStageL.bdistC t) (SnapStageL.distC t)
    (fun ep l => SnapL.onLine ep l) (fun l ep thr => Snap.insertGeo l ep thr) traces t (some polys)
  some (match r with
    | .error e => s!"err={e}"
    | .ok (tr, ch) => s!"traces={showLines tr} changed={showBool ch}")

def dispatch (line : String) : String :=
  let toks := (line.trimAscii.toString.splitOn " ").filter (· ≠ "")
  match toks with
  | [] => "error=empty"
  | cmd :: rest =>
    let a := parseArgs rest
    let r : Option String :=
      match cmd with
      | "snapto" => snapto a
      | "closeb" => closeb a
      | "driver" => driverCmd a
      | "ginsert" => ginsert a
      | "gsnappass" => gsnappass a
      | "gpipe" => Exec.gpipe a
      | _ => some s!"error=unknown-command:{cmd}"
    r.getD "error=bad-arguments"

partial def loop (hin hout : IO.FS.Stream) : IO Unit := do
  let line ← hin.getLine
  if line.isEmpty then return ()
  hout.putStrLn (dispatch line)
  hout.flush
  loop hin hout

def main : IO Unit := do loop (← IO.getStdin) (← IO.getStdout)
