import FractopoModel.Basic.Wire
import FractopoModel.Generated.GridLoops
/-! Runs the REGENERATED loops of `create_grid` (translator validation, stream S18-generated). -/
open Wire

def gengrid (a : Args) : Option String := do
  let xmin ← (a.get? "xmin") >>= parseRat?
  let ymin ← (a.get? "ymin") >>= parseRat?
  let xmax ← (a.get? "xmax") >>= parseRat?
  let ymax ← (a.get? "ymax") >>= parseRat?
  let w ← (a.get? "w") >>= parseRat?
  if w ≤ 0 then none
  let cs := Gen.create_grid_cells xmin ymin xmax ymax w
  some s!"n={cs.length} cells={";".intercalate (cs.map fun (l, r, b, t) => s!"{showRat l},{showRat b},{showRat r},{showRat t}")}"

def dispatch (line : String) : String :=
  let toks := (line.trimAscii.toString.splitOn " ").filter (· ≠ "")
  match toks with
  | [] => "error=empty"
  | cmd :: rest =>
    let a := parseArgs rest
    let r : Option String :=
      match cmd with
      | "grid" => gengrid a
      | _ => some s!"error=unknown-command:{cmd}"
    r.getD "error=bad-arguments"

partial def loop (hin hout : IO.FS.Stream) : IO Unit := do
  let line ← hin.getLine
  if line.isEmpty then return ()
  hout.putStrLn (dispatch line)
  hout.flush
  loop hin hout

def main : IO Unit := do loop (← IO.getStdin) (← IO.getStdout)
