#!/usr/bin/env python3
"""tools/seed_keep.py <mut_out dir> <seed id> <property> "<needs>" "<caught by>" : copy a confirmed seeded change into seeded/<id>/"""
import json, shutil, subprocess, sys
from pathlib import Path
src, sid, prop, needs, caught = Path(sys.argv[1]), sys.argv[2], sys.argv[3], sys.argv[4], sys.argv[5]
dst = Path(__file__).resolve().parent.parent / "seeded" / sid
dst.mkdir(parents=True, exist_ok=True)
conf = (src / "confirm.txt").read_text()
assert "apply: ok" in conf and "baseline names not passing: 0" in conf and "demo_mutant_exit=1" in conf and "demo_pristine_exit=0" in conf, conf
for f in ("patch.diff", "demo.py", "notes.md"):
    if (src / f).exists():
        shutil.copy(src / f, dst / f)
tryt = (src / "try.txt").read_text() if (src / "try.txt").exists() else ""
meta = {
    "id": sid, "breaks_property": prop, "needs_to_manifest": needs, "caught_by": caught,
    "origin": "independent sub-agent given only the property text and a scratch worktree",
    "repo_head": subprocess.run(["git", "-C", "/repo", "rev-parse", "--short", "HEAD"], capture_output=True, text=True).stdout.strip(),
    "confirmed": {"how": "tools/confirm_mutant.sh in a scratch worktree: git apply, pinned baseline suite (246 names), demo.py on the changed and the pristine tree",
                  "apply": "ok", "baseline_names_not_passing": 0, "demo_exit_changed_tree": 1, "demo_exit_pristine_tree": 0},
    "checks_run": [l for l in tryt.split("\n") if l.strip() and "conda" not in l],
}
(dst / "meta.json").write_text(json.dumps(meta, indent=1))
print("kept", dst)
