#!/usr/bin/env python3
"""Regenerate MANIFEST.json from the table below (kept in one place so it is always valid)."""
import json
from pathlib import Path

V = Path(__file__).resolve().parent.parent
TB = ("Trusted: Lean 4.33 kernel (axioms propext, Classical.choice, Quot.sound only; audited per theorem), the py2lean translator, "
      "the correspondence harness; GEOS/pandas/joblib/GDAL are parameters of the model whose laws are only sampled by the correspondence streams.")

CLAIMS = {
    "C01": dict(
        text=("Proof (Lean 4), combinatorial half: for EVERY well-formed contact structure (any number of traces/contacts) the code's degree counting "
              "(regenerated degree_to_class / determine_branch_identity on the noded pieces) yields X at crossings (multiplicity 4), Y at abutments (3), "
              "I at free tips, E at boundary ends, each branch the pair of its end kinds, #branches = sum(|events|-1), handshake; length-filter factors 2.01/1.01, "
              "candidate margin 20t and loop bound regenerated and proved. Geometric half (GEOS noding yields exactly the pieces between the exact contacts on valid maps): "
              "stated as law NodingSpec and sampled by stream S01 -- the real branches_and_nodes and Network(...) against the exact-rational contact oracle "
              "(Model/Contacts.lean) on valid maps at scales 1/64..64, offsets to 1e7, box/circle/concave/holed areas; nodes and branches compared with coordinates."),
        note=TB + " partial: the snapping pass being the identity on valid maps is not a theorem (no Lean model of simple_snap/insert_point yet); it is covered by S01 only. union_all, gpd.clip, WKT-key injectivity are L0.",
        ref="DESIGN.md section 6 C01", technique="Lean 4 theorems on contact structures + exact-rational arrangement oracle run against the implementation"),
    "C02": dict(
        text=("Exact specification + correspondence, with the index arithmetic proved. The documented defects (V NODE, MULTI JUNCTION, STACKED TRACES, MULTIPLE "
              "CROSSCUTS, CUTS ITSELF) are specified per trace in exact rational geometry (Spec/Defects.lean); stream S02 compares the real Validation verdicts with it "
              "on ALL 7140 lattice pairs (exhaustive, every run), lattice triples (4000 random x a random lattice symmetry in quick; all 280840 in thorough) and larger "
              "lattice polyline configurations: per trace 'error iff in a defect, documented string included'. Proved in Lean: the regenerated junction index shift "
              "addresses the same point after removing the trace's own block, for every list, block and outside position (C02_shift_correct; this was defect F13), "
              "stays in range, thresholds t*m and 10*t*m; a trace in no defect gets the empty tuple in the specification."),
        note=TB + " partial: there is no Lean model of the individual geometric validators (GEOS intersection/overlaps/is_simple/split); their verdicts are tied to the exact specification by (bounded-)exhaustive correspondence only. Configurations where two segments meet at an angle so shallow that they run alongside inside the stacking buffer (C10's STACKED window) are not crisp and are skipped (counted).",
        ref="DESIGN.md section 6 C02", technique="exact-rational defect specification in Lean + exhaustive lattice correspondence; Lean proof of the junction index arithmetic"),
    "C03": dict(
        text=("Proof (Lean 4) of the threshold contract between the two halves, over the regenerated window and guard expressions: for every distance d, threshold t > 0 and "
              "multiplier m >= 1 an end that the under/overlap validator accepts is either snapped (d < t, the regenerated snap guard fires) or at least t away (d = t or "
              "d >= t*m) -- nothing accepted is left closer than the threshold unconnected; likewise for the area boundary (E-node test or >= t*m*a away); loop bound; "
              "I/Y/X from 1/3/4 ends. Tie: translator + stream S03: maps of isolated near-threshold features (end near an interior incl. close to the target's tip, end near "
              "an end, end near the boundary; gaps 0..12 x snap, under/overshoot, orientations incl. axis-parallel, offsets, thresholds) filtered through the REAL Validation; "
              "every accepted map must extract without raising, with no Error branch and consistent node degrees. F9 (mutual abutments) is the pinned known finding."),
        note=TB + " partial: the implication 'accepted => consistent graph' for whole maps is decided per generated input by evaluating the property on the implementation's output (no Lean model of the full snapping loop); the theorem covers the per-feature threshold arithmetic only.",
        ref="DESIGN.md section 6 C03", technique="Lean 4 theorems over regenerated threshold expressions + generate-and-filter through the real validator"),
    "C04": dict(
        text=("Proof (Lean 4): regenerated length filters are exactly the documented minima (trace kept iff longer than 2.01 t, branch iff longer than 1.01 t, strict), a piece "
              "above the branch minimum of a trace above the trace minimum is never filtered; cropping conserves every additive measure piece by piece (C07). The geometric "
              "facts are decided exactly in the driver for the implementation's branches (stream S04): every branch vertex / midpoint within t of an input trace and inside "
              "the areas, no two branches share a collinear stretch, every sample point of every long exact clip piece within 2.02 t of a branch, and on valid maps total "
              "branch length = exact length of traces inside the area; inputs incl. duplicates, reversed duplicates, same vertices in another order, partial stacks, V-nodes, "
              "dangling under/overshoots, tiny traces x box / concave / holed / multipolygon / several-row areas x thresholds."),
        note=TB + " partial: there is no Lean model of GEOS noding (union_all); NodingLaw (interior-disjoint pieces covering the snapped traces) is checked per output by the exact oracle, not proved. Extraction may raise on invalid input (RecursionError etc.); such cases are counted and skipped, as C04 promises nothing then.",
        ref="DESIGN.md section 6 C04", technique="Lean 4 theorems over regenerated filters + exact-rational geometric checks of every output in the driver"),
    "C05": dict(
        text=("Proof (Lean 4): for ALL branch lists over any point type -- nodes duplicate-free, every end has exactly one node, every node an end, "
              "handshake sum = 2|branches|, E iff near boundary, class = fixed function of degree (regenerated degree_to_class = spec), "
              "determine_branch_identity = unordered-pair spec for all naturals, branch label = pair of end kinds under the crispness hypothesis. "
              "Tie: the two decision functions are re-translated from /repo each run and the theorems re-checked; node collection / labelling is a "
              "hand model run against the real functions on adversarial branch lists (stream S05)."),
        note=TB + " Hand-modelled, not verified: node collection order, the point query of the spatial index (assumed to return bit-identical ends), WKT-key injectivity.",
        ref="DESIGN.md section 6 C05", technique="Lean 4 theorems over regenerated decision functions + hand model with differential correspondence"),
    "C06": dict(
        text=("Proof (Lean 4): regenerated snap guard fires iff d < t and the end is not already on the trace (within = connected, beyond = not; an end >= t away is never "
              "inserted), boundary ends are excluded / classed E by the same strict test; hand model of insert_point_to_linestring (after the F6 repair): an inserted vertex "
              "sits between the two ends of the CLOSEST segment with all original vertices kept in order, a replacement only ever replaces an interior end of the closest "
              "segment that is within the threshold, never the first or last vertex. Tie: translator + S06-insert (the real insert_point_to_linestring vs the exact model on "
              "random polylines incl. hairpins, short/long segments, points near interiors / vertices / ends) + S06-perturbed (valid maps incl. mutually abutting, spiral, "
              "comb families x subsets of abutments moved along/across by [-0.9,0.9] t => topology of the exact map, node within t of the contact; undershoot [1.1,40] t "
              "=> exact arrangement of the perturbed map), both entry points, thresholds 1e-3..1e-1 relative, offsets to 1e6."),
        note=TB + " partial: simple_snap (snapping to existing vertices) and the repeat-until-stable loop are not modelled in Lean; they are covered by S06-perturbed only.",
        ref="DESIGN.md section 6 C06", technique="Lean 4 theorems over a hand model of vertex insertion and regenerated guards + function-level and end-to-end differential correspondence"),
    "C07": dict(
        text=("Proof (Lean 4) over a hand model of crop_to_target_areas + dissolve_multi_part_traces, generic in attribute type, geometry type, clip function "
              "and length filter: the output is, as a multiset of rows, exactly every long clip piece of every input row with that row's attributes "
              "(C07_crop_eq_expected) -- hence rows_from_input, all_pieces_present, k pieces -> k rows, additive measures (length) conserved, and the clip law "
              "(inside, on source) carries to every output row. Tie: stream S07 runs the real function on frames with attribute columns and arbitrary index "
              "labels x box/concave/holed/multipolygon/multi-row areas against the exact clipLine of the Lean model (coverage, attributes, total length per row, "
              "single-part output, caller frames compared with deep copies)."),
        note=TB + " gpd.clip (GEOS overlay) is the parameter `clip`; that it returns the pieces of trace-intersect-areas (ClipLaw) is only sampled by S07 against exact rational clipping. Row order of gpd.clip is unspecified and not compared. F1, F16, F20 were genuine defects here and are repaired (fix: commits).",
        ref="DESIGN.md section 6 C07", technique="Lean 4 multiset theorem over a parametric crop model + exact clipping oracle run against the implementation"),
    "C08": dict(
        text=("Proof (Lean 4): determine_topology_parameters is re-translated from /repo on every run and proved equal, entry by entry, to the published "
              "Sanderson-Nixon / Mauldon definitions (hand-written Spec.NetIn.param) for ALL rational counts, length lists, areas, pi, sqrt and both values of "
              "the circular flag, never raising; zero-denominator corollaries, Mauldon-only-circular, nan without topology, boundary weights 1/2/0, "
              "bool-array sums, branch boundary count = number of E ends. Tie: translator + stream S08a (the real functions vs the spec evaluated exactly)."),
        note=TB + " numpy float reductions compared within 1e-9 relative; np.pi / np.sqrt are parameters. End-to-end Network.parameters on valid maps is covered under C01/C14 streams when built.",
        ref="DESIGN.md section 6 C08", technique="Lean 4 theorems over the regenerated parameter function against a hand-written published-definition spec"),
    "C09": dict(
        text=("Proof (Lean 4) over a literal hand model of Validation.run_validation/_validate with ORACLE validators (any verdicts, any fix function): one result per "
              "input row in order; every error tuple duplicate-free and made only of documented strings (regenerated validator table = documented table: order, "
              "ERROR strings, LINESTRING_ONLY, MAJOR sets); with fixing disallowed no geometry changes; with fixing allowed each output geometry is the input or a "
              "chain of fix_method results. Tie: validator table regenerated each run; stream S09 runs the real run_validation on frames of every defect kind, "
              "None/empty/multi-part rows, Z values, stale error column, non-default indexes x allow_fix x validator subsets x allow_empty_area, checks rows / order / "
              "index / attribute cells / geometry / caller frames directly, and checks that the full run equals the model's composition of per-validator isolated verdicts."),
        note=TB + " Individual validators are oracles (their verdicts are the subject of C02/C10). linemerge covering the same points is checked numerically (equal set, equal length). F19, F21 (empty LineString with a validator subset) and F7 (non-default index) were genuine defects here and are repaired.",
        ref="DESIGN.md section 6 C09", technique="Lean 4 invariants by induction over validators/rows for all oracles + differential composition check"),
    "C13": dict(
        text=("Proof (Lean 4) over the same model with the process-global class attribute (UnderlappingSnapValidator.ERROR) as explicit state threaded through rows, "
              "runs and objects: the outcome of a run does not depend on the incoming value of the global (C13_global_irrelevant), hence after ANY history of other "
              "validations a frame validates to what it validates to first (C13_history_irrelevant, induction-free corollary for all histories), and re-running gives "
              "the same outcome. Tie: stream S13 -- all ordered pairs of the 8-frame pool exhaustively + random histories (new / re-run same object / re-validate "
              "earlier output carrying the error column) in one process, each step compared with the result from a fresh interpreter."),
        note=TB + " Object-level caches (_vnodes, _faulty_junctions, swapped self.traces) are not modelled as state: that they are recomputed consistently is covered by S13 only (partial). Idempotence of the fix (linemerge of a merged line) is checked by S13's re-validation steps, not proved.",
        ref="DESIGN.md section 6 C13", technique="Lean 4 state-machine theorem (global-irrelevance for all oracles and histories) + history-based differential correspondence"),
    "C10": dict(
        text=("Proof (Lean 4) over the regenerated window expressions and defaults: UNDER/OVERLAPPING SNAP is reported exactly for t < d < t*m, TRACE UNDERLAPS TARGET AREA for "
              "t <= d < t*m*a, an end already closer than t to some trace is not examined; for every t > 0 and multipliers >= 1 the same features at <= 0.9 x the lower or "
              ">= 1.2 x the upper bound are not in the windows; defaults give (t, 1.1t) and [t, 1.65t), junction distance t*m, stacking buffer 5.5t, detection length 50t, "
              "sharp-turn angles 135/100. Tie: translator + stream S10: one planted feature per map (undershoot, overshoot, end near an end, end near the boundary, "
              "neighbour alongside) at gaps 0.5/0.9 x lower, mid-window, 1.2/2 x upper, orientations incl. axis-parallel, positions incl. near the target's ends, the other "
              "end free or properly snapped, both digitising directions, offsets to UTM scale, thresholds 0.01 and 0.001; verdict vs the exact window spec evaluated on "
              "exact squared distances in the driver."),
        note=TB + " partial: the detectors' geometry (split, buffer, segmentize) is not modelled; SHARP TURNS and the triangle detector are not swept. F5 and F14 (stacking detection depended on float rounding; never for axis-parallel traces) were genuine defects here and are repaired.",
        ref="DESIGN.md section 6 C10", technique="Lean 4 theorems over regenerated window expressions + orientation/position/magnitude sweep against exact distances"),
    "C11": dict(
        text=("Proof (Lean 4, exact rationals): squared distance is invariant under translations and the 8 lattice symmetries and scales by k^2 (so d < t is unchanged when map and "
              "threshold are scaled together), orientation is translation-invariant, scales by k^2 and only changes sign under mirror symmetries, hence collinearity / "
              "on-segment / intersection tests are invariant under the whole group; node set, node classes and branch labels are invariant under permuting and reversing "
              "branches; the published parameters scale as k^dim (intensities 1/k, frequencies 1/k^2, mean lengths k, dimensionless and counts unchanged) via C08. "
              "Tie: stream S11 runs whole orbits through the implementation: valid maps under row permutation + reversal, decorations (Z, CRS, extra columns, string "
              "index), lattice symmetries, dyadic translations to 2^21, power-of-two scalings with the threshold (counts equal, parameters scaled), and planted-defect "
              "frames (incl. traces with several junction defects) whose verdicts must move with their rows. F8 (absolute tolerances) and F12 (package-named columns) are known findings."),
        note=TB + " partial: equivariance of the whole contact oracle is not proved (only its primitive predicates); the orbit correspondence carries it.",
        ref="DESIGN.md section 6 C11", technique="Lean 4 invariance lemmas for the geometric primitives + scaling law of the parameters + orbit correspondence"),
    "C12": dict(
        text=("Proof (Lean 4) over a hand model of determine_crosscut_abutting_relationships: the row of a pair of sets mentions only those two sets, so adding "
              "sets anywhere in the list (incl. empty ones) neither changes nor removes a row (C12_rows_independent, via sublist-monotonicity of combinations); "
              "every pair of non-empty sets has its row; error count is 0 for all inputs; x / y / y-reverse equal the numbers of X-nodes meeting both sets, "
              "Y-nodes where a trace of the first set ends, and the converse. Tie: determine_intersect is tied EXHAUSTIVELY (all 24 argument combinations); the loop "
              "over pairs is tied by stream S12: Network.azimuth_set_relationships on valid maps x 5 set definitions (wrap-around, empty sets first/between/last) "
              "against the model fed with the exact contacts (which pieces pass through / end at every X/Y node) from the Lean oracle."),
        note=TB + " The buffer-0.001 'meets a trace of the set' predicates are parameters (touch/endsIn); on valid maps they are decided by the exact contacts. Set membership of a piece is taken from the implementation (C15 decides it). F2 was a genuine defect here and is repaired.",
        ref="DESIGN.md section 6 C12", technique="Lean 4 theorems over a hand model (sublist monotonicity, counting) + exhaustive/differential correspondence with exact contacts"),
    "C14": dict(
        text=("Proof (Lean 4): node set, every node class and every branch label are invariant under permuting the noded pieces and reversing any of them "
              "(C14_routes), hence two routes whose noded pieces agree up to order/direction give equal tables, and re-extraction from the branches "
              "(noding idempotent up to order/direction) is a fixed point (C14_fixed_point); counts are functions of the class column. "
              "Tie: stream S14 runs all four routes (already_clipped False, crop-first + True, Network truncate True/False) on valid maps with areas cutting "
              "traces and compares EACH with the exact arrangement oracle; re-extraction from branches; GeoJSON write/read + rebuilt Network counts/parameters."),
        note=TB + " partial: that every route's noding yields the arrangement's pieces on valid maps (NodingSpec) and that noding is idempotent are laws about GEOS, sampled by S14, not proved. GDAL GeoJSON round trip is outside the model. F15/F16/F6 were genuine defects on these routes and are repaired.",
        ref="DESIGN.md section 6 C14", technique="Lean 4 permutation/reversal invariance theorems + four-route differential against the exact arrangement oracle"),
    "C15": dict(
        text=("Proof (Lean 4) over regenerated azimuth_post / is_set / determine_set / _calc_bins / _calc_locs: azimuth in [0,180) and equal to (90-d) mod 180 "
              "for every d in (-180,180], reversal invariance, set assignment = unique containing (wrap-around) range and never raises for pairwise "
              "non-overlapping ranges (all range lists), bins for every positive width: n = ceil(180/w) equal bins ending exactly at 180. "
              "The package's default ranges share their ends: proved witness C15_F4 (known finding) and C15_default_partial for all other values. "
              "Tie: translator + stream S15 (all directions incl. ulp-near axes, 7 range tuples at and around every range end, ALL sample sizes 1..5000 for the bins)."),
        note=TB + " atan2/degrees are a parameter d of the model; float rounding of 90-d is compared within 1e-9 circularly; the float np.arange edge count is only swept (1..5000), not proved.",
        ref="DESIGN.md section 6 C15", technique="Lean 4 theorems over regenerated functions + exhaustive sweep of the float-dependent bin count"),
    "C16": dict(
        text=("Proof (Lean 4, exact rationals): if some point of a geometry (inside its box A) is closer than tau to some point of a feature (inside its box B) then B meets A "
              "extended by any margin mu >= tau (bbox_of_close; points of segments stay in the box of their ends), hence filtering a windowed query by any predicate that "
              "implies 'within tau' equals filtering ALL features (C16_transparent, for every feature list, predicate, window). The margins are regenerated from the call "
              "sites and proved to dominate the distances the consumers test: validation candidates t*m*k >= t, t*m, t*m*k for all t >= 0, m,k >= 1 (this was defect F5), "
              "snapping 20t, junctions 10*t*m >= t*m, boundary 100t, proximal 5b. Tie: translator + stream S16: validation verdicts on near-threshold pairs (separations "
              "inside/outside every tested distance, axis-parallel / rotated / end-of-trace / collinear, degenerate boxes) and planted-defect frames, and nodes / branches "
              "/ crop / boundary counts / proximal flags on valid maps, each run twice in separate processes with SpatialIndex.intersection replaced by return-everything."),
        note=TB + " partial: the point-query sites (node degree, branch-label node search: margin 0 < t) are transparent only on crisp inputs (coincident ends identical), which S16 samples on valid maps; gpd.clip's internal index use is geopandas', not a fractopo candidate search.",
        ref="DESIGN.md section 6 C16", technique="Lean 4 geometric lemma + margin inequalities over regenerated window expressions; twin-run differential with a return-all index"),
    "C17": dict(
        text=("Proof (Lean 4) over a model of the joblib.Memory protocol (store keyed by (function, arguments); call = lookup, load, else compute and store; arbitrary damage "
              "or deletion of entries between calls; cache enabled or disabled): for EVERY history and every store satisfying the invariant, under the load law "
              "(damaged bytes fail to load or load to the right value) every call returns the uncached value (C17_transparent, induction over the history), enabled = "
              "disabled call by call, entries are never read under another key; regenerated list of the six decorated functions and the FRACTOPO_DISABLE_CACHE rule. "
              "Tie: stream S17 (fault enumeration): histories of up to 8 calls of 4 cached operations x 8 near-identical inputs in two subprocesses sharing a cache dir, "
              "with delete / truncate at k/8 / byte-flip faults on the files under it, each call compared (result AND caller-visible side effects: index, columns, crs) "
              "with the cache-disabled run. The load law is false for payload byte flips: known finding F10, pinned witness."),
        note=TB + " joblib's argument hashing is assumed injective (KeyInjective is built into the model's store); pickle/zlib formats are the load/dump parameters. run_grid_sampling and determine_fit are in the decorated list but not exercised by S17 (quick) -- partial.",
        ref="DESIGN.md section 6 C17", technique="Lean 4 invariant over all histories and fault sequences + enumerated fault correspondence in subprocesses"),
    "C18": dict(
        text=("Proof (Lean 4): regenerated create_grid arithmetic (rows/cols = ceilings, top-left anchoring, column-major loop nest, unit steps) and sample radius 1.5*sqrt(area); "
              "for all rational extents and widths: the cells reach the far bound with no superfluous cell, are w x w squares, rows*cols of them in column-major order, "
              "pairwise interior-disjoint, and their union contains the bounding box (C18_cover); zero extent gives zero cells (F11 witness); gathering results into slots "
              "by submission index yields cells.map f for EVERY completion order (C18_schedule, all permutations / worker counts). Tie: translator + stream S18: "
              "Network.contour_grid on valid maps x widths (dividing and not) x loky/threading backends: cells vs the model, sampled cells' P21 / connection frequency vs exact "
              "recomputation from traces and nodes clipped to the 1.5 w circle (exact rational clipping), identical tables across backends and via precursor_grid."),
        note=TB + " partial: floating-point accumulation of the cell edges (the last edge may miss the bound by ulps, F11) is only bounded by a tolerance in S18; joblib returning results in submission order is the GatherLaw parameter; per-cell topology mode (resolve_branches_nodes=True) is not exercised in quick (F17).",
        ref="DESIGN.md section 6 C18", technique="Lean 4 theorems over regenerated grid arithmetic (cover/disjoint/schedule) + differential correspondence with exact clipping"),
    "C19": dict(
        text=("Proof (Lean 4): file-effect model of tracevalidate -- after the command every path other than the output path holds what it held before (inputs byte-identical "
              "unless named as the output), the output holds a function of the two input contents only (an existing file is replaced, its old content irrelevant); the text "
              "written to the error column (Python str(tuple)) determines the tuple: parse(repr l) = l and repr injective for ALL tuples of quote-free strings (induction); "
              "regenerated option plumbing: CLI defaults, options handed to Validation/Network unchanged, --only-area-validation = exactly the area validator, the only "
              "deletion in the command is output_path guarded by exists(). Tie: translator (shape-checked extraction from cli.py) + stream S19: CliRunner on GeoJSON / "
              "GPKG / Shapefile inputs, with/without CRS, attribute columns x options x output locations (fresh, existing, output stem a prefix of the input names, in "
              "place); written rows / attributes / CRS / geometry / error text vs the library on the same files; sha256 of every other file before/after; network "
              "command's branch/node GeoPackages vs Network(...)."),
        note=TB + " partial: GDAL drivers (Shapefile field-name truncation to VALIDATION, GeoJSON coordinate precision) are the IoLaw parameter, validated by S19 only; `fractopo network` exits 1 in this environment after writing the files (powerlaw 2.0 API) -- only the written files are compared.",
        ref="DESIGN.md section 6 C19", technique="Lean 4 theorems over a file-effect model and the tuple text codec + regenerated option plumbing + CLI differential in temp dirs"),
    "C20": dict(
        text=("Proof (Lean 4): grouping is a partition for every list and every interleaving (flat(group xs) is a permutation of xs, one group per name); "
              "the regenerated Param->Aggregator table is additive exactly for Area, the four counts and Circle Count and C20_aggregate gives sum / area-weighted mean / "
              "joined-string for every column list and row list; regenerated random_radius / random_area lie in range for u in [0,1), centre buffer = R - r. "
              "Tie: translator for the table and the radius arithmetic; hand model of grouping and of the per-column aggregator dispatch run against the real "
              "group_gathered_subsamples / aggregate_chosen / NetworkRandomSampler (stream S20)."),
        note=TB + " The triangle inequality for the sample circle is a hypothesis of C20_circle_inside (checked numerically per sample with exact squared distances); polygonal circle approximation ignored.",
        ref="DESIGN.md section 6 C20", technique="Lean 4 theorems (permutation/partition, table by decide, interval arithmetic) + differential correspondence"),
}
NA_REASON = "not built yet in this round: model, theorems and correspondence stream are planned in DESIGN.md section 6 and will be claimed when they run"

props = [json.loads(l) for l in open(V / "properties.jsonl")]

# ---- second build session: additions to the claims (appended to the texts above) and corrections of notes that became false
EXTRA_TEXT = {
    "C01": " Added: the snapping stage is now an exact Lean model (Model/SnapLoop.lean, tied to the real snap_traces and to the loop inside branches_and_nodes by stream S06-snappass); "
           "C01_snap_stage_identity proves it is the identity (no repeat pass, no raise) on every map whose decidable quietMap holds, and the oracle evaluates quietMap on the clipped "
           "pieces of every valid map of S01 (all quiet). The node-table and branch-label LOOPS are regenerated as well (C05_generated_*), and so is the whole snapping pass "
           "(C06_generated_snap_traces): the stage C01_snap_stage_identity speaks about is regenerated code. C01_generated_pipeline: the regenerated orchestration of branches_and_nodes "
           "(crop before snapping unless already clipped, snapping loop, length filters, noding dispatch, tables) with the regenerated pass inside equals prepare -> SnapL.snapLoop -> Pipeline.finish. "
           "Stream S01-generated runs the regenerated branches_and_nodes end to end (compiled; every fractopo stage regenerated, exact clip / noding in place of GEOS) on valid maps and requires the exact arrangement.",
    "C04": " Added streams: mirror-image traces inside one bounding box; S04-stubs (stubs of 1.05-3 x snap at a host's tip must be branches: exact total length). "
           "C04_pass_stays_within_threshold: one snapping pass adds to a trace only ends strictly within the threshold of it as it was before the pass; C04_cumulative_drag_witness: "
           "the bound is per pass, not cumulative -- known finding F25 (stacked input, target dragged 1.63 x snap), reported as KNOWN-FINDING and recognised by its trigger region only.",
    "C02": " Added: determine_node_junctions, determine_valid_intersection_points_no_vnode and the row loop of determine_general_nodes are regenerated; C02_generated_junctions "
           "(marks = Spec.junctionMarks under QueryLaw), C02_generated_intersection_filter, C02_generated_general_nodes (one node-tuple pair per row in row order); stream S02-generated runs "
           "the compiled regenerated code against the Python functions. Crispness of lattice polylines is an exact test (angleCrisp, contactsApart).",
    "C03": " Added: the while loop of branches_and_nodes is regenerated (SnapDriver) and C03_generated_loop_bound proves it returns only after at most allowed_loops repeat passes; "
           "disagreements inside the trigger region of known finding F9 (two traces each with an end within the threshold of the other) are reported as that finding only.",
    "C08": " Added: both loops of determine_boundary_intersecting_lines are regenerated; C08_generated_boundary_lines characterises the two flag arrays for any number of areas and lines, "
           "C08_count_is_ends_on_boundary shows the count is the number of ends on the boundary on crisp input; stream S08-generated runs the compiled regenerated loops against the real function.",
    "C05": " Added: the whole node_identity, the collection loop of node_identities_from_branches and the loop of get_branch_identities are regenerated (translator loops) and "
           "C05_generated_node_table / C05_generated_branch_labels prove they compute exactly Topo.nodeTable / Topo.branchLabel for every branch list, under the stated laws of the "
           "spatial-index parameters (QueryLaw, BoxLaw) -- so the theorems above are statements about regenerated code, not only about a hand model.",
    "C06": " Added: exact Lean model of BOTH snapping stages, the candidate windows, the boundary filter and the repeat-until-stable loop (Model/SnapLoop.lean); theorems "
           "C06_quiet_pass_identity / C06_quiet_loop_identity (nothing within the threshold => nothing moves, for any number of traces and either candidate order), C06_loop_bound, "
           "C06_pass_keeps_rows, C06_moves_within_threshold; the loops of is_endpoint_close_to_boundary and snap_trace_to_another are regenerated and proved equal to the model "
           "(C06_generated_*). Stream S06-snappass compares one real snap_traces pass and the real loop (recorder around snap_traces inside branches_and_nodes) with the model "
           "coordinate for coordinate and decides C06's own words (boundary ends not snapped, far ends split nothing) on every disagreement. "
           "insert_point_to_linestring and determine_insert_approach are regenerated whole (sorted/index/pop/insert) and C06_generated_insert_point proves they equal the insertion model "
           "Snap.insertGeo for every polyline with at least two vertices; S06-generated runs the compiled regenerated insertion against the real function. "
           "simple_snap, resolve_trace_candidates, snap_trace_simple, snap_others_to_trace and snap_traces are regenerated whole as well: C06_generated_simple_snap and "
           "C06_generated_snap_traces prove the regenerated pass equals SnapL.snapPass (results, change flag, both ValueErrors, either index order), so the entire snapping stage is "
           "regenerated code; S06-snappass also runs the compiled regenerated pass on every case.",
    "C09": " Added: Validation._validate is regenerated and C09_generated_validate_step proves it equals the model step Tval.validateOne for every validator behaviour; "
           "C09_empty_area covers the documented EMPTY TARGET AREA exit (repaired defect F23); S09 includes duplicate index labels and areas void of traces.",
    "C10": " Added: the whole UnderlappingSnapValidator.validation_method (both loops, well-snapped skip, window, first hit, class attribute) is regenerated and proved equal to the "
           "hand-written decision Spec.underlapVerdict (C10_generated_underlap_eq_spec); C10_underlap_silent_iff: a trace passes exactly when every end is well snapped or has no candidate "
           "in (t, t*m). Stream S10-stacking sweeps the stacking window deterministically (alongside length x orientation x start x offsets to 1e7 x thresholds), S10-sharp the direction-change limit of SHARP TURNS. "
           "TargetAreaSnapValidator.validation_method and simple_underlapping_checks are regenerated as well (C10_generated_area_validation, C10_simple_underlapping_checks); "
           "stream S10-generated runs both compiled regenerated validators against the real methods with the geometric sub-decisions scripted on both sides. "
           "is_underlapping, determine_middle_in_triangle and split_to_determine_triangle_errors are regenerated too (C10_generated_is_underlapping, C10_generated_middle_in_triangle, "
           "C10_generated_triangle) and run against the real functions with a scripted split. segment_within_buffer with its helpers is regenerated too: C10_generated_stacking_decision is its closed form.",
    "C12": " Added: determine_intersect and the pair loop of determine_crosscut_abutting_relationships are regenerated; C12_generated_determine_intersect (= Rel.intersectOf, all cases) and "
           "C12_generated_rows (exactly one row per pair of sets that both contain traces, in combinations order, each from its own pair) hold for all inputs.",
    "C13": " Added: C13_underlap_attribute over the regenerated stateful validator (a passing call leaves the class attribute untouched; verdict and written string never depend on its old "
           "value); S13's pool has a ninth frame (multi-part lines that form node defects once merged). C13_generated_pass: the regenerated row / validator loops of "
           "run_validation equal the model pass, and C13_generated_run_validation: the regenerated frame-level run_validation (both passes, exits) equals Tval.run; stream S13-generated runs them (compiled, with the regenerated _validate inside, both passes) against the real run_validation with scripted validators.",
    "C14": " Added stream S14-slivers (corner slivers of 0.5-4 x snap: all four routes must agree). The whole orchestration of branches_and_nodes is regenerated (item BranchesAndNodes) and "
           "C14_generated_routes proves that already_clipped=True on X and False on Y give the same result or exception whenever the prepared trace lists agree: the flag only decides who crops.",
    "C16": " S16-validation now also runs user-supplied thresholds 0.1 and 0.001. C16_boundary_lines_transparent: the regenerated loops of determine_boundary_intersecting_lines give the same "
           "flags for any two candidate windows that contain every line within the threshold of a boundary (empty windows in any row position included); stream S16-multiarea runs "
           "boundary flags, cropping and extraction on 2-3 area rows (some far from every trace) with the real index and the return-everything index. "
           "determine_trace_candidates is regenerated: C16_generated_validation_candidates / C16_candidates_complete (every LineString trace the index reports for the extended window is a candidate).",
    "C17": " S17 adds the input with a CRS on the traces only and plain cold-then-warm repeats of crop / topology.",
    "C18": " S18 adds reordered / filtered precursor grids (index labels not 0..n-1). The two loops of create_grid are regenerated and C18_generated_grid proves they build exactly Grid.cells "
           "(so squareness, count, disjointness and cover are theorems about regenerated code); stream S18-generated compares the compiled regenerated loops with the real create_grid cell by cell.",
    "C20": " Added: the loops of group_gathered_subsamples and aggregate_chosen are regenerated; C20_generated_group (= Subs.group, hence the partition theorems) and C20_generated_aggregate "
           "(per-column aggregator lookup afresh for every column, Area weights, fallback when the aggregator raises) hold for all inputs.",
}
NOTE_REPL = {
    "C01": (" partial: the snapping pass being the identity on valid maps is not a theorem (no Lean model of simple_snap/insert_point yet); it is covered by S01 only.",
            " partial: `valid => quiet` (the hypothesis of C01_snap_stage_identity) is evaluated by the oracle on every generated map, not proved in general; GEOS noding (NodingSpec) is sampled by S01 only."),
    "C05": (" Hand-modelled, not verified: node collection order, the point query of the spatial index (assumed to return bit-identical ends), WKT-key injectivity.",
            " Assumed (hypotheses of the refinement theorems, sampled by S05): the point query of the spatial index returns the positions of bit-identical ends (QueryLaw), the bounding-box query returns every node within the threshold (BoxLaw), WKT keys are injective."),
}
for _k, _v in EXTRA_TEXT.items():
    CLAIMS[_k]["text"] += _v
EXTRA_TEXT4 = {
    "C02": " Fourth session: stream S02-multipart (allow_fix with multi-part lines that take part in node defects only once merged: the junction / V-node sets must come from the fixed traces); item ValidationCaches regenerates the object's node caches from their checked shape and C02_node_sets_from_fixed_traces proves that the first pass computes no node sets and every _validate call of the second pass gets the sets of the fixed frame.",
    "C03": " Fourth session: S03 gives Z values to some or all traces of 16% of the maps (the shared z-coordinate gate in front of snapping and noding); item ZCoordinates regenerates that gate and the removal: C03_generated_z_gate (true iff SOME geometry has Z).",
    "C05": " Fourth session: C05_generated_tables_from_output_branches (in the regenerated branches_and_nodes the node table and the branch labels are computed from exactly the returned branches, after the 1.01 x snap filter; item BranchesAndNodes is tied to C05) and stream S05-extraction (handshake and end-node incidence on the tables branches_and_nodes RETURNS, maps with sliver branches).",
    "C07": " Fourth session: stream S07-network runs the same exact judge on Network(truncate_traces=True) -- z-coordinate removal, defensive copies, crop with the column data, renumbering -- for frames with Z values and every index kind, twice on the same caller's frame. The whole crop_to_target_areas is regenerated (item CropPipeline): C07_generated_crop / C07_generated_crop_expected prove that it returns, up to order, exactly one row per long single-part line piece of what the clip leaves of each input row (pieces inside a GeometryCollection included) with that row's data -- Crop.expected -- so the older C07 theorems speak about regenerated code; stream S07-generated-crop runs the compiled regenerated function against the real one with gpd.clip scripted per row. C07_generated_z_removal: the regenerated remove_z_coordinates_from_geodata (label-aligned column assignment modelled in the prelude) keeps every row, label and datum for every index, duplicates included.",
    "C08": " Fourth session: stream S08-network (end to end, HISTORIES): 2-3 Network(...) calls on one caller's frame (overview without truncation / target area, four orders); per Network the boundary-intersection counts, weights 1/2/0, plain and weighted lengths, E = sum of end counts and Network.parameters = Spec.NetIn.param (Lean) on that network's own counts, lengths and area. The column cache of LineData is regenerated from its checked shape (item LineDataCache): C08_linedata_weights / C08_linedata_lengths (no cache columns in the frame: weights 1/2/0 of the boundary counts, weighted length = own length x weight), stream S08-generated-linedata runs the compiled cache against the real class; the defensive copy of Network.__post_init__ is an explicit parameter of the regenerated function and C08_network_values_from_a_copy proves that everything a Network keeps is a function of that copy.",
    "C10": " Fourth session: S10-stacking also plants traces at 0.95 x the stacking buffer (the outer edge of the window, where the candidate search must still reach).",
    "C11": " Fourth session: C11_intersection_filter_order_free (the regenerated determine_valid_intersection_points_no_vnode returns the same points for every permutation of the candidate rows and every digitising direction; items IntersectionFilter / GeneralNodes tied to C11); S11-validation-orbits has gadgets of one fracture digitised in three / four pieces (V-nodes at both ends of a trace). C11_F12_cache_named_columns_win states the known finding F12 on the regenerated LineData cache.",
    "C12": " Fourth session: S12-relations assigns the traces to the sets INDEPENDENTLY of the code (closed ranges incl. wrap-around; azimuths exactly on range ends) instead of reading the assignment from the Network.",
    "C13": " Fourth session: S13's pool has a tenth frame (multi-part lines that take part in snap / stacking / crosscut defects of OTHER rows once merged: candidate selection must follow the fixed frame) and, for every frame, the history validate -> validate the output again -> re-run the first object. Item ErrorColumn (the two stale column names dropped at the head of run_validation) is tied to C13 as well. Item ValidationCaches + C13_node_caches_follow_the_fixed_frame: the object's node caches are empty after the first pass and hold the sets of the fixed frame in the second.",
    "C14": " Fourth session: stream S14-adjacent-areas (the box target area given as 2-4 adjacent area rows sharing edges: all four routes vs the exact arrangement of the map in the union; a trace crossing an inner edge stays one piece).",
    "C15": " Fourth session: stream S15-network (HISTORIES): 2-3 Networks with different azimuth set definitions (and areas) on one caller's frame; trace_azimuth_array, trace_azimuth_set_array, set counts and per-set length arrays vs Spec.azimuth / Spec.detSet on each network's own traces. C15_linedata_sets / C15_linedata_idempotent (regenerated LineData cache) and C15_network_sets_from_a_copy (regenerated Network.__post_init__).",
    "C18": " Fourth session: stream S18-touch (integer-lattice maps, cell width 2, EVERY cell's P21 vs the exact clip of the network's traces to that cell's sample circle; one trace is planted to touch a circle's easternmost vertex in a point and run through the circle).",
    "C19": " Fourth session: item ErrorColumn regenerates ERROR_COLUMN, ERROR_COLUMN_TRUNC and the stale-column loop of run_validation; C19_error_column_shapefile_name: the truncated name is the first 10 characters of the column name for every name, and both names are dropped before a re-validation. S19-tracevalidate validates every Shapefile output (and half of the others) AGAIN with the other validator selection: no extra column, error text = library result.",
    "C20": " Fourth session: gather_subsample_descriptions is regenerated; C20_generated_gather (exactly the results that are not None and are dicts survive, in order) and stream S20-gather (failed samples anywhere in the result list: real function vs compiled regenerated function vs the statement, then grouping).",
}
for _k, _v in EXTRA_TEXT4.items():
    CLAIMS[_k]["text"] += _v
EXTRA_TEXT5 = {
    "C01": " Round 5: S01 maps carry Z values on some or all traces (one map in five); item ZCoordinates is tied to C01.",
    "C02": " Round 5: the S02 lattice streams give a third of their frames one label for all rows (and a third offset labels); item ValidationUtils (determine_trace_candidates) is tied to C02. Round 6: half of the frames carry Z values; item ZCoordinates is tied to C02.",
    "C03": " Round 5: S03 plants ends that coincide with the end of a trace they also cross elsewhere; items IntersectionFilter / GeneralNodes are tied to C03.",
    "C04": " Round 5: S04-valid-length also runs maps 1/4096 the size with threshold 1e-6 and Z values on most traces; ZCoordinates checks that remove_z_coordinates is the lossless WKB round trip.",
    "C06": " Round 5: stream S06-crop-order (valid maps whose area cuts traces, through the two routes that crop internally, vs the exact arrangement).",
    "C07": " Round 5: S07 gives the layers a CRS on both / one / neither and compares the CRS of the caller's frames.",
    "C09": " Round 5: stream S09-cli (the contract through `fractopo tracevalidate`: rows, order and attribute values -- a text column with missing values included -- are those of the input file).",
    "C10": " Round 5: item UnitVectorCompare + C10_generated_direction_compare (closed form of compare_unit_vector_orientation: a dot product close to 1 is 'same direction' whatever its exact value); S10-sharp has exactly straight interior vertices on 13 lattice directions.",
    "C11": " Round 5: C11_underlap_label_independent_of_earlier_rows (the label the stateful under/overlap validator reports never depends on what earlier rows left on the class); S11-validation-orbits has fixed frames with both snap kinds.",
    "C12": " Round 5: S12-relations analyses every frame once before (no truncation, other sets); C12_network_sets_from_a_copy (regenerated Network.__post_init__).",
    "C13": " Round 5: S13's pool has an eleventh frame (a trace lying on another with its free end in the snap error band: the STACKED label of the stateful validator). Stream S13-chosen (every pool frame x 5 chosen validator subsets and the default: validate, validate the output again, re-run; the fills of the object's node cache observed and compared with the regenerated cache model) found the genuine defect F26 (node caches from the unfixed traces), repaired in /repo; the cache theorems now hold for every validator choice. Round 6: stream S13-same-frame (one caller-owned frame validated twice by new objects, allow_fix (True, False) / (False, True) / (True, True), exhaustive over the pool, each result against a fresh identical frame, the caller's frame unchanged).",
    "C15": " Round 5: S15-network uses one-character set names in every other history (the null label '-1' is longer).",
    "C16": " Round 5: S16-multiarea adds EMPTY polygon rows to 30% of the area layers.",
    "C17": " Round 5: S17 also calls the crop with each of its two flags flipped, on the base input and on one with a multi-part trace, cold then warm in both orders.",
    "C18": " Round 5: item SampleCell regenerates populate_sample_cell with its nested helpers; C18_generated_sample_cell / C18_generated_sample_cell_resolved (what a cell reports without / with per-cell extraction); stream S18-resolve (per-cell topology mode on a trace-only Network vs the Network with topology: no exception, identical tables) exercised the known F17 (TypeError for a circle without traces), repaired in /repo. Round 6: S18-grid also uses a width just short of dividing the extent (quotient 4.00003).",
    "C19": " Round 5: S19-network also leaves branch / node outputs to their default paths, with network names containing a dot, a blank or a suffix; S19-tracevalidate inputs have a text column with missing values.",
    "C20": " Round 5: S20-circles judges radius and containment against the circle the sampler was GIVEN (all samplers of a run share one name).",
}
for _k, _v in EXTRA_TEXT5.items():
    CLAIMS[_k]["text"] += _v
EXTRA_TEXT7 = {
    "C15": " Fifth session: item AzimuthBins regenerates the whole determine_azimuth_bins (np.histogram = the prelude's exact pyHistogram); C15_generated_bin_heights_sum: for every sample of azimuths in [0,180], every positive ideal width and multiplier, one height and one bar location per bin and the heights sum to the total of the length weights (to the number of lines when no lengths are given) -- the histogram part of the statement is now a theorem about regenerated code. C15_bin_membership_is_floor_index / C15_spec_bin_index_is_histogram_bin: membership in a half-open bin of pyHistogram is the floor index of the hand-written Spec.binIndex. The prelude's pyHistogram is run against np.histogram itself (driver command hist) by S15-bins on the real float edges, values on edges and outside the range included.",
    "C17": " Round 7: S17 also samples a contour grid over a CALLER-OWNED precursor grid cold, warm and with a near-identical input in between (result, and the columns / labels of the caller's grid after the call, vs the run with caching disabled); item GridSampling is tied to C17 with the copy of the precursor grid as an explicit parameter: C17_grid_sampling_samples_a_copy (the cached body samples into the copy; the caller's grid is only read by the copy).",
    "C19": " Round 7: stream S19-rewrite (histories on ONE path in one process: write A with the package's writer, read, tracevalidate, write B to the same path, read, tracevalidate -- the reader and the command must see what the file holds NOW, judged against geopandas' own reader); item GeoReader regenerates read_geofile (and checks that it carries no decorator): C19_generated_reader (the reader returns what gpd.read_file gives for the path at the time of the call), C19_reader_sees_the_rewritten_file (written, read, rewritten, read over the model's file system).",
    "C20": " Round 7: every other source frame of S20-circles has shuffled integer labels (labels are not positions); item RandomSample regenerates random_network_sample and C20_generated_sample states what the sample's Network is built from (the whole source frame, the area of the drawn circle with the source CRS, truncation and circular area on; None exactly when the constructor raised).",
    "C14": " Round 7: item Dedupe (filter_non_unique_traces) is tied to C14.",
}
for _k, _v in EXTRA_TEXT7.items():
    CLAIMS[_k]["text"] += _v
NOTE_ADD4 = {
    "C07": " That Network crops a COPY (caller's frame untouched, z-removal keeps rows aligned under any index) is state / aliasing, not a pure function: carried by S07-network only.",
    "C08": " partial: that a Network's values are computed from ITS OWN traces and not from columns left behind by an earlier Network on the same frame (aliasing) has no counterpart in the pure model; carried by the history stream S08-network only.",
    "C15": " partial: independence of a Network's set assignment from earlier Networks on the same caller's frame (aliasing) is carried by the history stream S15-network only.",
    "C13": " Memoisation keyed by an object that outlives the data it was computed from (spatial index vs fixed frame) is outside the model: carried by the re-validation histories of S13.",
    "C19": " That the Shapefile driver keeps exactly 10 characters of a field name is observed by S19 (IoLaw), not proved.",
}
for _k, _v in NOTE_ADD4.items():
    CLAIMS[_k]["note"] += _v
for _k, (_a, _b) in NOTE_REPL.items():
    assert _a in CLAIMS[_k]["note"], _k
    CLAIMS[_k]["note"] = CLAIMS[_k]["note"].replace(_a, _b)
CLAIMS["C05"]["technique"] = "Lean 4 refinement theorems (regenerated loops = model) + theorems over the model + differential correspondence"
CLAIMS["C06"]["technique"] = "Lean 4 theorems over regenerated guards and loops + exact Lean model of the snapping stage run against the real snap_traces / loop"

checks, na = [], []
for p in props:
    pid = p["id"]
    if pid in CLAIMS:
        c = CLAIMS[pid]
        checks.append({
            "property_id": pid,
            "quick_cmd": f"./check {pid} --tier quick",
            "thorough_cmd": f"./check {pid} --tier thorough",
            "evidence_file": f"evidence/{pid}.json",
            "replay_cmd_template": f"./check {pid} --replay {{path}}",
            "engine": "lean-proof+correspondence",
            "level_claimed": {"category": "proof", "text": c["text"], "design_ref": c["ref"]},
            "level_note": c["note"],
            "technique": c["technique"],
        })
    else:
        na.append({"property_id": pid, "reason": NA_REASON})
m = {
    "version": 1,
    "setup_cmd": "./setup.sh",
    "hooks": {
        "guard": "FRACTOPO_VERIF",
        "enable": "no source hooks are needed: every observation point is reachable from the harness (public API, FRACTOPO_CACHE_PATH / FRACTOPO_DISABLE_CACHE, monkeypatching from the harness process)",
        "baseline_off_cmd": "tools/baseline.sh /repo",
        "source_commits": [],
        "add_only": True,
    },
    "engines": [{
        "name": "lean-proof+correspondence", "path": "check",
        "serves_properties": [c["property_id"] for c in checks],
        "kind_free_text": "Lean 4 model (regenerated by translate/py2lean + hand-written) with property theorems in lean/FractopoModel/Props, audited axioms; "
                          "compiled model driver (lean/Driver.lean) run against the real implementation by harness/streams/*.py",
    }],
    "checks": checks,
    "not_applicable": na,
    "notes": "VERIF_SEED seeds every random choice (default 0). Exit 2 = internal failure of the machinery (no verdict). fix: commits in /repo are listed in known_findings.json.",
}
(V / "MANIFEST.json").write_text(json.dumps(m, indent=1) + "\n")
print("claimed:", [c["property_id"] for c in checks], "not_applicable:", len(na))
