#!/bin/bash
# tools/confirm_mutant.sh <mut dir under /var/tmp/mut_out> : confirm a seeded change in a scratch worktree
# (applies, baseline suite still green, demo fails with the change and passes without); writes <dir>/confirm.txt
D="$1"; N=$(basename "$D"); WT=/tmp/confirm_$N
git -C /repo worktree remove --force "$WT" 2>/dev/null
git -C /repo worktree add --detach "$WT" HEAD >/dev/null 2>&1 || { echo "worktree failed" > "$D/confirm.txt"; exit 2; }
{
  echo "repo HEAD: $(git -C /repo rev-parse --short HEAD)"
  if git -C "$WT" apply "$D/patch.diff"; then echo "apply: ok"; else echo "apply: FAILED"; fi
  echo "--- baseline suite in the mutated worktree"
  /verif/tools/baseline.sh "$WT" 2>&1 | grep -v conda | head -5
  echo "--- demo on the mutated worktree (expect exit 1)"
  (cd /tmp && FRACTOPO_DISABLE_CACHE=1 timeout 900 /venv/bin/python "$D/demo.py" "$WT" >/dev/null 2>&1; echo "demo_mutant_exit=$?")
  echo "--- demo on pristine /repo (expect exit 0)"
  (cd /tmp && FRACTOPO_DISABLE_CACHE=1 timeout 900 /venv/bin/python "$D/demo.py" /repo >/dev/null 2>&1; echo "demo_pristine_exit=$?")
} > "$D/confirm.txt" 2>&1
git -C /repo worktree remove --force "$WT"
rm -rf "$WT"
