#!/bin/bash
# tools/try_mutant.sh <patch.diff> <Cxx> [more props...]: apply to /repo, run quick checks, revert.
P="$1"; shift
git -C /repo apply "$P" || exit 2
for c in "$@"; do
  echo "== $c"; ./check "$c" 2>&1 | grep -E "VIOLATION|KNOWN|broken|internal|crash" | head -5; echo "exit=$?"
done
git -C /repo checkout -- . 
git -C /repo status --short | head -3
