#!/bin/bash
# tools/try_mutant.sh <patch.diff> <Cxx> [more props...]: apply to /repo, run quick checks, revert.
# Serialised through a lock: only one mutant may be applied to /repo at a time.
P="$1"; shift
exec 9>/var/tmp/fv_mutant.lock; flock 9
git -C /repo apply "$P" || exit 2
for c in "$@"; do
  echo "== $c"; ./check "$c" 2>&1 | grep -E "VIOLATION|KNOWN|broken|internal|crash" | head -5
done
git -C /repo checkout -- .
# evidence and regenerated Lean written while the mutant was applied describe the mutant, not /repo: restore them
git -C /verif checkout -- evidence lean/FractopoModel/Generated 2>/dev/null
(cd /verif && python3 translate/run.py >/dev/null 2>&1)
git -C /repo status --short | head -3
