#!/bin/bash
# tools/seed_sweep.sh "<seeds>" [tier] [props...]: run every claimed check with several VERIF_SEED values on the clean tree;
# prints one line per (seed, property) that is not exit 0, and a summary. Used with `vp run` to shake out seed-dependent false alarms.
cd "$(dirname "$0")/.." || exit 2
SEEDS="${1:-1 2 3}"; TIER="${2:-quick}"; shift; shift
PROPS="$*"
[ -z "$PROPS" ] && PROPS=$(python3 -c "import json; print(' '.join(x['property_id'] for x in json.load(open('MANIFEST.json'))['checks']))")
[ -x lean/.lake/build/bin/driver ] || ./setup.sh >/dev/null 2>&1
bad=0
for s in $SEEDS; do
  for c in $PROPS; do
    out=$(VERIF_SEED=$s ./check "$c" --tier "$TIER" 2>&1); rc=$?
    if [ $rc -ne 0 ]; then bad=$((bad+1)); echo "seed=$s $c rc=$rc $(echo "$out" | grep -E 'VIOLATION|internal|broken' | head -2 | tr '\n' ' ')"; mkdir -p sweep_replays; cp work/replay/${c}_${TIER}_${s}.json sweep_replays/ 2>/dev/null; fi
  done
  echo "seed $s done ($(date +%H:%M))"
done
echo "SWEEP DONE: $bad non-zero exits"
