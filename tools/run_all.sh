#!/bin/bash
# run every claimed check (quick tier by default) and report exit codes and wall time
cd "$(dirname "$0")/.." || exit 2
TIER="${1:-quick}"
for c in $(python3 -c "import json; print(' '.join(x['property_id'] for x in json.load(open('MANIFEST.json'))['checks']))"); do
  s=$(date +%s)
  out=$(./check "$c" --tier "$TIER" 2>&1); rc=$?
  e=$(date +%s)
  echo "$c rc=$rc $((e-s))s $(echo "$out" | grep -E 'VIOLATION|internal|crash' | head -2)"
done
