#!/bin/bash
# tools/seed_eval.sh <Cxx> [props to check, default the same]: try the seeded change of /var/tmp/mut_out/<Cxx> against the
# quick checks (serialised), then confirm apply/baseline/demo in a scratch worktree. Writes try.txt and confirm.txt there.
cd "$(dirname "$0")/.." || exit 2
ID="$1"; shift
PROPS="${*:-$ID}"
D=/var/tmp/mut_out/$ID
tools/try_mutant.sh "$D/patch.diff" $PROPS > "$D/try.txt" 2>&1
[ -f "$D/confirm.txt" ] && grep -q demo_pristine_exit "$D/confirm.txt" || tools/confirm_mutant.sh "$D"
