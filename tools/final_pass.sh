#!/bin/bash
# tools/final_pass.sh [seed dirs...]: the pass the brief asks for -- every kept seeded change is applied to /repo ITSELF (git apply),
# the quick check of the property it breaks is run from /verif, and the change is undone straight afterwards (git checkout -- .).
# One at a time (lock shared with tools/try_mutant.sh). Writes seeded/FINAL_PASS.md. Evidence and generated files are restored afterwards.
cd "$(dirname "$0")/.." || exit 2
OUT=seeded/FINAL_PASS.md
DIRS="$*"; [ -z "$DIRS" ] && DIRS=$(ls -d seeded/*/)
{
  echo "# Final pass: seeded changes applied to /repo itself"
  echo
  echo "repo HEAD $(git -C /repo rev-parse --short HEAD), verif HEAD $(git rev-parse --short HEAD), $(date -u +%Y-%m-%dT%H:%MZ)"
  echo
  echo "| seeded change | property | exit | verdict line |"
  echo "|---|---|---|---|"
} > $OUT
exec 9>/var/tmp/fv_mutant.lock; flock 9
for d in $DIRS; do
  n=$(basename $d); prop=$(python3 -c "import json;print(json.load(open('$d/meta.json'))['breaks_property'])")
  [ -z "$(git -C /repo status --porcelain)" ] || { echo "/repo not clean before $n" >> $OUT; git -C /repo checkout -- .; }
  if ! git -C /repo apply "$(readlink -f $d/patch.diff)"; then echo "| $n | $prop | - | patch does not apply |" >> $OUT; continue; fi
  out=$(./check "$prop" 2>&1); rc=$?
  git -C /repo checkout -- .
  v=$(echo "$out" | grep -E "^VIOLATION" | head -1 | sed 's#/verif/##')
  echo "| $n | $prop | $rc | ${v:-none} |" >> $OUT
done
git -C /repo status --short | head -3
# evidence and regenerated Lean written while a change was applied describe the change, not /repo: restore them
git checkout -- evidence lean/FractopoModel/Generated 2>/dev/null
python3 translate/run.py >/dev/null 2>&1
echo >> $OUT; echo "caught (exit 1 with a VIOLATION line): $(grep -c '| 1 | VIOLATION' $OUT) of $(echo $DIRS | wc -w)" >> $OUT
tail -1 $OUT
