#!/venv/bin/python
"""tools/run_stream.py Cxx <stream function name> [tier] : run one correspondence stream alone (development aid)."""
import json, os, sys, time
from pathlib import Path
V = Path(__file__).resolve().parent.parent
sys.path.insert(0, str(V)); sys.path.insert(0, str(V / "translate"))
os.environ.setdefault("FRACTOPO_DISABLE_CACHE", "1")
import importlib
from harness.check import Ctx
from harness.common import jsonable
pid, fn = sys.argv[1], sys.argv[2]
tier = sys.argv[3] if len(sys.argv) > 3 else "quick"
mod = importlib.import_module(f"harness.streams.{pid.lower()}")
ctx = Ctx(pid, tier, int(os.environ.get("VERIF_SEED", "0")), True, V / "work")
t0 = time.time()
r = getattr(mod, fn)(ctx)
print(f"{r.name}: evals={r.evaluations} nontrivial={r.nontrivial} disagreements={len(r.disagreements)} skipped={r.skipped} dist={r.distribution} {time.time()-t0:.1f}s")
for d in r.disagreements[:int(os.environ.get("SHOW", "3"))]:
    print(json.dumps({"case": jsonable(d.case), "model": jsonable(d.model), "impl": jsonable(d.impl), "pv": d.property_violated, "note": d.note})[:3000])
