#!/bin/bash
# tools/trial.sh <patch.diff> <Cxx> [more props...]
# Isolated trial of a seeded change: a scratch worktree of /repo with the patch applied and a scratch copy of /verif
# (own Generated/ and .lake), checks run with VERIF_REPO pointing at the worktree. Nothing in /repo or /verif is touched,
# so several trials can run in parallel with development. Prints the verdict lines.
P="$(readlink -f "$1")"; shift
ID=$$
WT=/tmp/trial_repo_$ID; VT=/var/tmp/trial_verif_$ID
cleanup() { git -C /repo worktree remove --force "$WT" >/dev/null 2>&1; rm -rf "$WT" "$VT"; }
trap cleanup EXIT
git -C /repo worktree add --detach "$WT" HEAD >/dev/null 2>&1 || { echo "worktree failed"; exit 2; }
git -C "$WT" apply "$P" || { echo "apply failed"; exit 2; }
mkdir -p "$VT"; rsync -a --exclude work --exclude .git --exclude evidence /verif/ "$VT/"; mkdir -p "$VT/evidence"
for c in "$@"; do
  echo "== $c"
  (cd "$VT" && VERIF_REPO="$WT" ./check "$c" 2>&1 | grep -E "VIOLATION|KNOWN|broken|internal|crash|Error|error|Traceback|File " | sed "s#$VT#/verif#g" | head -30)
done
