#!/bin/bash
# Run the repository's pinned baseline suite with the verification guard OFF and
# compare the passing test names with /root/.vp/BASELINE.json (stable_pass).
# usage: tools/baseline.sh [repo_dir]
REPO_DIR="${1:-/repo}"
unset FRACTOPO_VERIF
OUT="$(mktemp -d /var/tmp/fv_baseline.XXXXXX)"
cd "$REPO_DIR" || exit 2
/venv/bin/python -m pytest -ra -q -p no:cacheprovider --timeout=900 --continue-on-collection-errors --junitxml="$OUT/junit.xml" > "$OUT/log.txt" 2>&1
/venv/bin/python - "$OUT/junit.xml" <<'PY'
import json, sys, xml.etree.ElementTree as ET
base = json.load(open('/root/.vp/BASELINE.json'))['stable_pass']
root = ET.parse(sys.argv[1]).getroot()
passed = set()
for tc in root.iter('testcase'):
    if not any(ch.tag in ('failure', 'error', 'skipped') for ch in tc):
        passed.add(f"{tc.get('classname')}::{tc.get('name')}")
missing = [n for n in base if n not in passed]
print(f"baseline names: {len(base)}  passed now: {len(passed)}  baseline names not passing: {len(missing)}")
for m in missing[:40]:
    print("  MISSING", m)
sys.exit(1 if missing else 0)
PY
rc=$?
tail -3 "$OUT/log.txt"
rm -rf "$OUT"
exit $rc
