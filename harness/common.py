"""Shared pieces of the correspondence harness: model-driver client, wire encoding,
seeded randomness, stream results."""
from __future__ import annotations

import json
import os
import random
import subprocess
import sys
import time
from dataclasses import dataclass, field
from fractions import Fraction
from pathlib import Path
from typing import Any, Callable, Dict, Iterable, List, Optional, Sequence, Tuple

VERIF = Path(__file__).resolve().parent.parent
LEAN = VERIF / "lean"
DRIVER = LEAN / ".lake" / "build" / "bin" / "driver"
REPO = Path(os.environ.get("VERIF_REPO", "/repo"))

os.environ.setdefault("FRACTOPO_DISABLE_CACHE", "1")


def import_fractopo():
    """Import fractopo from REPO (the working tree), never from elsewhere."""
    if str(REPO) not in sys.path:
        sys.path.insert(0, str(REPO))
    import warnings

    warnings.filterwarnings("ignore")
    import logging

    logging.disable(logging.CRITICAL)
    import fractopo  # noqa: F401

    assert Path(fractopo.__file__).resolve().is_relative_to(REPO.resolve()), fractopo.__file__
    return fractopo


# ----------------------------------------------------------------- wire encoding


def rat(x) -> str:
    f = Fraction(x)
    return str(f.numerator) if f.denominator == 1 else f"{f.numerator}/{f.denominator}"


def pt(p) -> str:
    return f"{rat(p[0])},{rat(p[1])}"


def line(l) -> str:
    return ";".join(pt(p) for p in l)


def lines(ls) -> str:
    return "|".join(line(l) for l in ls)


def polygon(pg) -> str:
    """pg: shapely Polygon or (ext, [holes]) of coordinate lists"""
    if hasattr(pg, "exterior"):
        rings = [list(pg.exterior.coords)] + [list(h.coords) for h in pg.interiors]
    else:
        rings = [pg[0]] + list(pg[1])
    return lines(rings)


def area_rows(geoms) -> str:
    """geoms: iterable of shapely Polygon / MultiPolygon (one per row)"""
    rows = []
    for g in geoms:
        parts = list(g.geoms) if hasattr(g, "geoms") else [g]
        rows.append("&".join(polygon(p) for p in parts))
    return "#".join(rows)


def parse_rat(s: str) -> Fraction:
    return Fraction(s)


def parse_pt(s: str) -> Tuple[Fraction, Fraction]:
    x, y = s.split(",")
    return Fraction(x), Fraction(y)


def parse_line(s: str):
    return [parse_pt(p) for p in s.split(";")] if s else []


def parse_lines(s: str):
    return [parse_line(l) for l in s.split("|")] if s else []


def parse_resp(s: str) -> Dict[str, str]:
    out = {}
    for tok in s.strip().split(" "):
        if "=" in tok:
            k, v = tok.split("=", 1)
            out[k] = v
    return out


def dec(s: str) -> str:
    return s.replace("_", " ")


def enc(s: str) -> str:
    return s.replace(" ", "_")


class DriverError(RuntimeError):
    pass


class Driver:
    """Batch client: send many request lines, get as many response lines."""

    def __init__(self, path: Path = DRIVER):
        self.path = path
        if not Path(path).exists():
            raise DriverError(f"model driver not built: {path}")

    def batch(self, reqs: Sequence[str], timeout: float = 3600) -> List[str]:
        if not reqs:
            return []
        data = "\n".join(reqs) + "\n"
        p = subprocess.run([str(self.path)], input=data, capture_output=True, text=True, timeout=timeout)
        if p.returncode != 0:
            raise DriverError(f"driver exited {p.returncode}: {p.stderr[-400:]}")
        out = p.stdout.split("\n")
        if out and out[-1] == "":
            out.pop()
        if len(out) != len(reqs):
            raise DriverError(f"driver answered {len(out)} lines for {len(reqs)} requests")
        return out

    def parallel(self, reqs: Sequence[str], jobs: int = 16) -> List[str]:
        """Split a large batch over several driver processes."""
        if len(reqs) < 64 or jobs <= 1:
            return self.batch(reqs)
        from concurrent.futures import ThreadPoolExecutor

        n = min(jobs, max(1, len(reqs) // 32))
        chunks = [reqs[i::n] for i in range(n)]
        with ThreadPoolExecutor(n) as ex:
            parts = list(ex.map(self.batch, chunks))
        out = [None] * len(reqs)
        for i, part in enumerate(parts):
            out[i::n] = part
        return out


# ----------------------------------------------------------------- results


@dataclass
class Disagreement:
    stream: str
    case: Any  # JSON-serialisable description of the input (exact, replayable)
    model: Any
    impl: Any
    property_violated: Optional[bool]  # True: impl output violates the property statement;
    # False: differs from the model but still satisfies the property; None: not decided
    note: str = ""


@dataclass
class StreamResult:
    name: str
    evaluations: int = 0
    nontrivial: int = 0  # distinct non-trivial cases
    rule: str = ""
    distribution: Dict[str, Any] = field(default_factory=dict)
    samples: List[Any] = field(default_factory=list)
    disagreements: List[Disagreement] = field(default_factory=list)
    skipped: Dict[str, int] = field(default_factory=dict)
    note: str = ""

    @property
    def ok(self) -> bool:
        return not self.disagreements


def rng_for(seed: int, stream: str) -> random.Random:
    return random.Random(f"{seed}:{stream}")


def budget(tier: str, quick: int, thorough: int) -> int:
    return thorough if tier == "thorough" else quick


def jsonable(x):
    if isinstance(x, Fraction):
        return rat(x)
    if isinstance(x, (list, tuple)):
        return [jsonable(v) for v in x]
    if isinstance(x, dict):
        return {str(k): jsonable(v) for k, v in x.items()}
    if isinstance(x, float):
        return x if x == x and abs(x) != float("inf") else repr(x)  # json floats round-trip exactly
    if isinstance(x, (str, int, bool)) or x is None:
        return x
    try:
        import numpy as np

        if isinstance(x, np.generic):
            return jsonable(x.item())
    except Exception:
        pass
    return repr(x)
