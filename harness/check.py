#!/usr/bin/env python3
"""./check Cxx --tier quick|thorough [--replay file]

TRANSLATE -> PROVE (+audit) -> CORRESPOND -> FINDINGS -> VERDICT   (DESIGN.md section 4)
exit 0: property held on everything explored; exit 1: VIOLATION line printed;
exit 2: internal failure of the machinery (no verdict).
"""
from __future__ import annotations

import argparse
import fcntl
import importlib
import json
import os
import re
import subprocess
import sys
import time
import traceback
from pathlib import Path

HERE = Path(__file__).resolve().parent
VERIF = HERE.parent
sys.path.insert(0, str(VERIF))
sys.path.insert(0, str(VERIF / "translate"))

from harness.common import LEAN, REPO, Disagreement, Driver, DriverError, StreamResult, jsonable  # noqa: E402

ALLOWED_AXIOMS = {"propext", "Classical.choice", "Quot.sound"}
FORBIDDEN = re.compile(r"\b(sorry|admit|native_decide|bv_decide|implemented_by|unsafe)\b|^\s*axiom\s|maxHeartbeats\s+0\b", re.M)

TRUSTED_BASE = [
    "Lean 4.33.0 kernel; axioms allowed: propext, Classical.choice, Quot.sound (audited with #print axioms on every property theorem)",
    "py2lean translator (translate/): Python subset semantics, decimal reading of float literals",
    "correspondence harness (harness/): generators, canonicalisation, tolerances",
    "exact rational geometry FractopoModel/Basic/Geom.lean is a definition (oracle), not proved against point-set topology",
    "GEOS/shapely, pandas/geopandas, joblib, GDAL, numpy: modelled by parameters with stated laws, validated only by the correspondence streams",
]


def sh(cmd, cwd=None, timeout=3600, env=None):
    p = subprocess.run(cmd, cwd=cwd, capture_output=True, text=True, timeout=timeout, env=env)
    return p.returncode, (p.stdout + p.stderr)


def clean(out: str) -> str:
    return "\n".join(l for l in out.split("\n") if "conda.cli.condarc" not in l)


class Lock:
    def __init__(self, path):
        self.path = path

    def __enter__(self):
        self.path.parent.mkdir(parents=True, exist_ok=True)
        self.f = open(self.path, "w")
        fcntl.flock(self.f, fcntl.LOCK_EX)

    def __exit__(self, *a):
        fcntl.flock(self.f, fcntl.LOCK_UN)
        self.f.close()


def strip_comments(src: str) -> str:
    src = re.sub(r"/-.*?-/", "", src, flags=re.S)
    src = re.sub(r"--.*", "", src)
    # string literals may legitimately contain words such as "unsafe"
    src = re.sub(r'"(?:[^"\\]|\\.)*"', '""', src)
    return src


def theorems_of(path: Path):
    """[(qualified name, first line, last line)] of the property theorems in a Props file."""
    if not path.exists():
        return []
    txt = path.read_text().split("\n")
    ns = None
    out = []
    starts = []
    for i, l in enumerate(txt, 1):
        m = re.match(r"^namespace\s+(\S+)", l)
        if m and ns is None:
            ns = m.group(1)
        m = re.match(r"^(?:private\s+)?theorem\s+(\S+)", l)
        if m:
            starts.append((m.group(1), i))
        elif re.match(r"^(def|example|lemma|instance|structure|inductive|abbrev|end|section|open|/--)", l) and starts and len(starts[-1]) == 2:
            pass
    decl_lines = [i for i, l in enumerate(txt, 1) if re.match(r"^(?:private\s+)?(theorem|def|example|lemma|instance|structure|inductive|abbrev|end |namespace|section)", l)]
    for name, s in starts:
        nxt = min([d for d in decl_lines if d > s] + [len(txt) + 1])
        q = f"{ns}.{name}" if ns else name
        out.append((q, s, nxt - 1))
    return out


def main():
    ap = argparse.ArgumentParser()
    ap.add_argument("prop")
    ap.add_argument("--tier", default=os.environ.get("VERIF_TIER", "quick"), choices=["quick", "thorough"])
    ap.add_argument("--replay", default=None)
    args = ap.parse_args()
    pid = args.prop
    seed = int(os.environ.get("VERIF_SEED", "0") or 0)
    t0 = time.time()
    tier = args.tier
    ev_path = VERIF / "evidence" / f"{pid}.json"
    ev_path.parent.mkdir(exist_ok=True)
    work = VERIF / "work"
    work.mkdir(exist_ok=True)
    (work / "replay").mkdir(exist_ok=True)

    try:
        mod = importlib.import_module(f"harness.streams.{pid.lower()}")
    except ModuleNotFoundError as e:
        print(f"check: no stream module for {pid}: {e}")
        sys.exit(2)

    if args.replay:
        sys.exit(do_replay(pid, mod, Path(args.replay), seed))

    obligations = {}  # name -> bool (discharged)
    broken_detail = {}
    info = {}

    # ------------------------------------------------------------ 1 TRANSLATE + 2 PROVE
    with Lock(LEAN / ".lake" / "verif.lock"):
        rc, out = sh([sys.executable if False else "python3", str(VERIF / "translate" / "run.py"), "--repo", str(REPO)])
        if rc != 0:
            print(clean(out))
            print("check: translator crashed")
            sys.exit(2)
        status = json.loads((LEAN / "FractopoModel" / "Generated" / "status.json").read_text())
        items = {k: v for k, v in status.items() if pid in v.get("props", [])}
        for k, v in items.items():
            obligations[f"translate:{k}"] = bool(v.get("ok"))
            if not v.get("ok"):
                broken_detail[f"translate:{k}"] = v.get("error", "")
        info["generated"] = {k: {"module": v["module"], "lean_sha256": v.get("lean_sha256"), "source_sha256": v.get("source_sha256")} for k, v in items.items()}

        props_file = LEAN / "FractopoModel" / "Props" / f"{pid}.lean"
        thms = theorems_of(props_file)
        prop_thms = [t for t in thms if re.match(rf".*\b{pid}_", t[0])]
        targets = [f"FractopoModel.Props.{pid}", "driver"]
        rc, out = sh(["lake", "build"] + targets, cwd=LEAN)
        out = clean(out)
        failed = set()
        upstream_fail = False
        if rc != 0:
            for m in re.finditer(r"error: (\S+?):(\d+):(\d+):", out):
                f, ln = m.group(1), int(m.group(2))
                if f.endswith(f"Props/{pid}.lean"):
                    for name, s, e in thms:
                        if s <= ln <= e:
                            failed.add(name)
                else:
                    upstream_fail = True
                    broken_detail.setdefault("build:" + f, "")
            if not failed and not upstream_fail:
                upstream_fail = True
            # a failing helper lemma of the Props file is still added to the environment (as an unproved declaration), so the theorems that use it
            # compile without an error of their own: everything that mentions a failed declaration -- transitively -- is not proved either
            if failed:
                ptxt = props_file.read_text().split("\n")
                body = {name: "\n".join(ptxt[s - 1:e]) for name, s, e in thms}
                grew = True
                while grew:
                    grew = False
                    for name, txt_ in body.items():
                        if name in failed:
                            continue
                        if any(re.search(r"(?<![\w.])" + re.escape(f.split(".")[-1]) + r"(?![\w'])", txt_) for f in failed):
                            failed.add(name)
                            grew = True
            broken_detail["lake"] = out[-3000:]
        # the model driver is broken only when Driver.lean itself (or something it imports: Basic / Model / Spec) failed -- a failing
        # Generated / Lemmas / Props module (e.g. Lemmas/SnapDriver.lean) does not touch it
        driver_broken = any(re.search(r"(^|/)(Driver\.lean|Basic/[^/]+\.lean|Model/[^/]+\.lean|Spec/[^/]+\.lean)$", k[len("build:"):]) for k in broken_detail if k.startswith("build:"))
        driver_ok = (LEAN / ".lake" / "build" / "bin" / "driver").exists() and not driver_broken
        # optional second driver that runs the REGENERATED definitions of this property (translator validation streams);
        # when it does not build (a generated module is broken) those streams are skipped -- the translate / theorem obligations already say so
        gen_exe = None
        if (LEAN / "GenDriver" / f"{pid}.lean").exists():
            rcg, outg = sh(["lake", "build", f"gen_{pid.lower()}"], cwd=LEAN)
            cand = LEAN / ".lake" / "build" / "bin" / f"gen_{pid.lower()}"
            if rcg == 0 and cand.exists():
                gen_exe = cand
            info["gen_driver"] = "built" if gen_exe else "not built (generated module broken): generated-code streams skipped"
        for name, s, e in prop_thms:
            obligations[f"theorem:{name}"] = not (upstream_fail or name in failed)
        # helper (non Cxx_) theorems that fail also break whatever depends on them: lean reports those downstream

        # audit
        axioms = {}
        if rc == 0 and prop_thms:
            aud = LEAN / ".lake" / "audit"
            aud.mkdir(parents=True, exist_ok=True)
            f = aud / f"Audit{pid}.lean"
            f.write_text(f"import FractopoModel.Props.{pid}\n" + "".join(f"#print axioms {n}\n" for n, _, _ in prop_thms))
            rc2, out2 = sh(["lake", "env", "lean", str(f)], cwd=LEAN)
            out2 = clean(out2)
            for m in re.finditer(r"'([^']+)' depends on axioms: \[([^\]]*)\]", out2.replace("\n", " ")):
                axioms[m.group(1)] = [a.strip() for a in m.group(2).split(",") if a.strip()]
            for m in re.finditer(r"'([^']+)' does not depend on any axioms", out2):
                axioms[m.group(1)] = []
            for n, _, _ in prop_thms:
                if n not in axioms:
                    obligations[f"audit:{n}"] = False
                    broken_detail[f"audit:{n}"] = "no #print axioms output: " + out2[-500:]
                elif not set(axioms[n]) <= ALLOWED_AXIOMS:
                    obligations[f"audit:{n}"] = False
                    broken_detail[f"audit:{n}"] = f"axioms {axioms[n]}"
        info["axioms"] = axioms
        # forbidden tokens
        bad_tokens = []
        for lf in list((LEAN / "FractopoModel").rglob("*.lean")) + [LEAN / "Driver.lean"]:
            if FORBIDDEN.search(strip_comments(lf.read_text())):
                bad_tokens.append(str(lf.relative_to(LEAN)))
        obligations["audit:no-sorry-axiom-native_decide"] = not bad_tokens
        if bad_tokens:
            broken_detail["audit:no-sorry-axiom-native_decide"] = ", ".join(bad_tokens)
        if tier == "thorough" and rc == 0:
            rc3, out3 = sh(["lake", "env", "leanchecker", f"FractopoModel.Props.{pid}"], cwd=LEAN, timeout=3000)
            obligations["leanchecker"] = rc3 == 0
            if rc3 != 0:
                broken_detail["leanchecker"] = clean(out3)[-1000:]

    # ------------------------------------------------------------ 3 CORRESPOND
    ctx = Ctx(pid, tier, seed, driver_ok, work)
    ctx.gen = Driver(gen_exe) if gen_exe else None
    results = []
    crashed = None
    if not driver_ok:
        obligations["driver-build"] = False
    for fn in mod.STREAMS:
        try:
            r = fn(ctx)
        except DriverError as e:
            crashed = f"{fn.__name__}: {e}"
            break
        except Exception:
            crashed = f"{fn.__name__}: " + traceback.format_exc()
            break
        results.append(r)
        obligations[f"stream:{r.name}"] = r.ok
    # pinned corpus (finding witnesses, minimised past failures): replayed on every run
    if not crashed and hasattr(mod, "replay"):
        cres = StreamResult("corpus", rule="pinned inputs under corpus/%s (witnesses of repaired or known findings, past failures); replayed first-class on every run" % pid)
        for c in ctx.corpus_cases():
            if c.get("stream") in (None, "finding"):
                continue
            try:
                d = mod.replay(ctx, c["stream"], c["case"] if "case" in c and isinstance(c["case"], dict) and "stream" in c["case"] else c.get("case", c))
            except Exception:
                crashed = "corpus replay: " + traceback.format_exc()
                break
            cres.evaluations += 1
            cres.nontrivial += 1
            if d is not None:
                d.stream = "corpus"
                if isinstance(d.case, dict) and c.get("finding_key"):
                    d.case["finding_key"] = c["finding_key"]
                cres.disagreements.append(d)
        if cres.evaluations:
            results.append(cres)
            obligations["stream:corpus"] = cres.ok
    if crashed:
        print("check: internal failure in correspondence stream\n" + crashed)
        write_evidence(ev_path, pid, tier, seed, obligations, results, info, t0, violations=0, note="internal failure: " + crashed[-300:])
        sys.exit(2)

    # ------------------------------------------------------------ 4 FINDINGS
    kf_path = VERIF / "known_findings.json"
    kfs = json.loads(kf_path.read_text()) if kf_path.exists() else []
    known = [k for k in kfs if k["property"] == pid and k["status"] == "known"]
    known_lines = []
    for k in known:
        still = None
        if hasattr(mod, "replay_finding"):
            try:
                still = mod.replay_finding(ctx, k)
            except Exception:
                still = None
        if still is not False:
            known_lines.append(f"KNOWN-FINDING: property={pid} {k['id']}: {k['what']}" + ("" if still else " (witness not re-checked)"))
    known_keys = {k["key"] for k in known}

    # ------------------------------------------------------------ 5 VERDICT
    violations = []
    suppressed = 0
    for r in results:
        for d in r.disagreements:
            key = getattr(d, "finding_key", None) or (d.case.get("finding_key") if isinstance(d.case, dict) else None)
            if key and key in known_keys:
                suppressed += 1
                obligations[f"stream:{r.name}"] = all(
                    (getattr(x, "finding_key", None) or (x.case.get("finding_key") if isinstance(x.case, dict) else None)) in known_keys
                    for x in r.disagreements
                )
                continue
            violations.append(d)
    broken = [k for k, v in obligations.items() if not v]
    for l in known_lines:
        print(l)
    exit_code = 0
    nviol = 0
    if broken:
        # SEARCH for a concrete failing input on the implementation
        found = [d for d in violations if d.property_violated]
        if not found and hasattr(mod, "search"):
            try:
                found = [d for d in mod.search(ctx, broken, broken_detail) if d.property_violated and not (d.case.get("finding_key") in known_keys if isinstance(d.case, dict) else False)]
            except Exception:
                print("check: search crashed\n" + traceback.format_exc())
                found = []
        rp = work / "replay" / f"{pid}_{tier}_{seed}.json"
        if found:
            d = found[0]
            rp.write_text(json.dumps({"property": pid, "stream": d.stream, "case": jsonable(d.case), "model": jsonable(d.model), "impl": jsonable(d.impl), "note": d.note, "broken_obligations": broken}, indent=1))
            print(f"broken obligations: {broken}")
            print(f"VIOLATION property={pid} replay={rp}")
            nviol = len(found)
        else:
            first = violations[0] if violations else None
            rp.write_text(json.dumps({"property": pid, "no_failing_input_found": True, "broken_obligations": broken, "detail": {k: broken_detail.get(k, "") for k in broken}, "lake": broken_detail.get("lake", ""),
                                      "disagreement": None if first is None else {"stream": first.stream, "case": jsonable(first.case), "model": jsonable(first.model), "impl": jsonable(first.impl), "note": first.note}}, indent=1))
            print(f"broken obligations: {broken}")
            print(f"VIOLATION property={pid} replay={rp} no-failing-input-found")
            nviol = 1
        exit_code = 1
    write_evidence(ev_path, pid, tier, seed, obligations, results, info, t0, violations=nviol, known=known_lines, suppressed=suppressed)
    sys.exit(exit_code)


class Ctx:
    def __init__(self, pid, tier, seed, driver_ok, work):
        self.pid, self.tier, self.seed, self.work = pid, tier, seed, work
        self.driver = Driver() if driver_ok else None
        gp = LEAN / ".lake" / "build" / "bin" / f"gen_{pid.lower()}"
        self.gen = Driver(gp) if gp.exists() else None
        self.corpus = VERIF / "corpus" / pid

    def corpus_cases(self, stream=None):
        out = []
        if self.corpus.exists():
            for f in sorted(self.corpus.glob("*.json")):
                c = json.loads(f.read_text())
                if stream is None or c.get("stream") == stream:
                    out.append(c)
        return out


def write_evidence(path, pid, tier, seed, obligations, results, info, t0, violations, known=(), suppressed=0, note=""):
    samples = []
    for r in results:
        for s in r.samples[:3]:
            samples.append({"stream": r.name, "case": jsonable(s)})
    thm = sorted(k for k in obligations if k.startswith("theorem:"))
    samples.append({"obligations": sorted(obligations)})
    cov = {
        "obligations": len(obligations),
        "discharged": sum(1 for v in obligations.values() if v),
        "checker_cmd": f"cd lean && lake build FractopoModel.Props.{pid} driver && lake env lean .lake/audit/Audit{pid}.lean  (+ lake env leanchecker in the thorough tier); correspondence: harness/streams/{pid.lower()}.py",
        "trusted_base": TRUSTED_BASE,
        "theorems": thm,
        "axioms": info.get("axioms", {}),
        "generated": info.get("generated", {}),
        "evaluations": sum(r.evaluations for r in results),
        "distinct_nontrivial": sum(r.nontrivial for r in results),
        "traces_validated_against_impl": sum(r.evaluations for r in results),
        "rule": " | ".join(f"{r.name}: {r.rule}" for r in results),
        "streams": {r.name: {"evaluations": r.evaluations, "distinct_nontrivial": r.nontrivial, "distribution": jsonable(r.distribution), "skipped": r.skipped, "disagreements": len(r.disagreements), "note": r.note} for r in results},
        "samples": samples,
        "broken": sorted(k for k, v in obligations.items() if not v),
        "known_findings_reported": list(known),
        "disagreements_in_known_finding_regions": suppressed,
    }
    if note:
        cov["note"] = note
    ev = {
        "property_id": pid,
        "tier": tier,
        "seed": seed,
        "level": "proof",
        "coverage": cov,
        "assumptions": TRUSTED_BASE,
        "wall_s": round(time.time() - t0, 2),
        "violations": violations,
    }
    path.write_text(json.dumps(ev, indent=1))


def do_replay(pid, mod, path, seed):
    rp = json.loads(path.read_text())
    ctx = Ctx(pid, "quick", seed, (LEAN / ".lake" / "build" / "bin" / "driver").exists(), VERIF / "work")
    if rp.get("no_failing_input_found"):
        print("replay file names broken obligations only:", rp.get("broken_obligations"))
        return 1
    if not hasattr(mod, "replay"):
        print("no replay function for", pid)
        return 2
    d = mod.replay(ctx, rp["stream"], rp["case"])
    if d is None:
        print(f"replay: case passes now ({rp['stream']})")
        return 0
    print(json.dumps({"model": jsonable(d.model), "impl": jsonable(d.impl), "note": d.note}, indent=1))
    print(f"VIOLATION property={pid} replay={path}")
    return 1


if __name__ == "__main__":
    main()
