"""S12 — relationship tables of Network against the Relationships model fed with the exact contacts."""
from __future__ import annotations

import itertools
from fractions import Fraction as F

from harness.common import Disagreement, StreamResult, area_rows, budget, import_fractopo, lines, parse_resp, rng_for
from harness.mapgen import Arrangement, arr_request, to_float_lines, valid_maps

SET_DEFS = [
    ((("a", "b"), ((0, 89.5), (90.5, 180)))),
    ((("1", "2", "3"), ((0, 59.5), (60.5, 119.5), (120.5, 180)))),
    ((("N", "NE", "E", "SE"), ((157.5, 22.4), (22.5, 67.4), (67.5, 112.4), (112.5, 157.4)))),
    ((("n", "empty", "e", "se"), ((157.5, 22.4), (22.5, 22.6), (22.7, 112.4), (112.5, 157.4)))),
    ((("empty0", "w", "x", "y", "empty9"), ((0.001, 0.002), (160, 30), (30.5, 100), (100.5, 159.5), (179.9985, 179.999)))),
    # range ends ON lattice directions (45 / 135 degrees, inclusive at both ends; nothing adjoins them): diagonal traces sit exactly on a range end
    ((("ns", "ew"), ((135, 45), (46, 134)))),
]


def ref_set(g, names, ranges):
    """documented set of a trace, independently of the package: azimuth of the chord (clockwise from north, halved), first range that contains it
    (both ends inclusive, wrap-around when lower > upper), else the null set; None when the azimuth is within 1e-9 of a range end without being it"""
    import math

    (x0, y0), (x1, y1) = g.coords[0][:2], g.coords[-1][:2]
    az = 90 - math.degrees(math.atan2(y1 - y0, x1 - x0))
    if az < 0:
        az += 360
    if az > 360:
        az -= 360
    if az >= 180:
        az -= 180
    for lo, hi in ranges:
        for b in (lo, hi):
            if az != b and abs(az - b) < 1e-9:
                return None
    for nm, (lo, hi) in zip(names, ranges):
        if (lo > hi and (az >= lo or az <= hi)) or lo <= az <= hi:
            return nm
    return "-1"


def s12_intersect(ctx, drv=None, name="S12-intersect"):
    """exhaustive tie of determine_intersect (finite domain)"""
    import_fractopo()
    from shapely.geometry import MultiPoint, Point
    from shapely import prepared

    from fractopo.analysis.relationships import determine_intersect

    drv = drv or ctx.driver
    res = StreamResult(name, rule=("REGENERATED determine_intersect (Lean, compiled into gen_c12): " if name != "S12-intersect" else "") + "ALL (node class in X,Y,I) x l1 x l2 x p1 = 24 combinations of determine_intersect (exhaustive)")
    combos = list(itertools.product(["X", "Y", "I"], [True, False], [True, False], [True, False]))
    resps = drv.batch([f"intersect cls={c} l1={int(a)} l2={int(b)} p1={int(p)}" for c, a, b, p in combos])
    node = Point(0, 0)
    for (c, l1, l2, p1), resp in zip(combos, resps):
        res.evaluations += 1
        res.nontrivial += 1
        tree = prepared.prep(MultiPoint([(0, 0)] if p1 else [(5, 5)]))
        try:
            add = determine_intersect(node=node, node_class=c, l1=l1, l2=l2, first_set="A", second_set="B", first_setpointtree=tree, buffer_value=0.001)
            got = "".join(add["sets"]) if not add["error"] else "error"
        except ValueError:
            got = "error"
        spec = parse_resp(resp)["sets"]
        if got != spec:
            res.disagreements.append(Disagreement(name, {"stream": "S12-intersect", "cls": c, "l1": l1, "l2": l2, "p1": p1}, spec, got, None, "determine_intersect differs from the model"))
    res.samples = [{"cls": "Y", "l1": True, "l2": True, "p1": False, "model": "BA"}]
    return res


def expected_rows(ctx, ar: Arrangement, piece_sets, names):
    nodes = "|".join(f"{c}:{','.join(map(str, thr))}:{'-' if e is None else e}" for _, c, thr, e in ar.xy)
    req = f"rel names={';'.join(names)} sets={';'.join(piece_sets)} nodes={nodes}"
    r = parse_resp(ctx.driver.batch([req])[0])
    rows = {}
    if r.get("rows"):
        for tok in r["rows"].split("|"):
            sets, x, y, yr, err = tok.split(":")
            rows[tuple(sets.split("~"))] = (int(x), int(y), int(yr), int(err))
    return rows, req


def run_map(ctx, traces, area, kind, ar, t, names, ranges, res, stream):
    import geopandas as gpd

    from fractopo import Network

    case = {"stream": stream, "t": t, "traces": lines(traces), "areas": area_rows([area]), "names": list(names), "ranges": [list(r) for r in ranges]}
    tr = gpd.GeoDataFrame(geometry=to_float_lines(traces))
    try:
        # HISTORY: the caller's frame has been analysed before, without truncation and with OTHER sets (and that analysis was read): the relationships
        # of this Network must come from its own set definition
        from shapely.geometry import box as _box

        x0, y0, x1, y1 = tr.total_bounds
        earlier = Network(trace_gdf=tr, area_gdf=gpd.GeoDataFrame(geometry=[_box(x0 - 10, y0 - 10, x1 + 10, y1 + 10)]), name="earlier", determine_branches_nodes=False,
                          snap_threshold=t, truncate_traces=False, azimuth_set_names=("p", "q"), azimuth_set_ranges=((0, 90), (90.5, 180)))
        _ = earlier.trace_azimuth_set_array, earlier.trace_length_array
        net = Network(trace_gdf=tr, area_gdf=gpd.GeoDataFrame(geometry=[area]), name="m", determine_branches_nodes=True, snap_threshold=t,
                      truncate_traces=True, azimuth_set_names=tuple(names), azimuth_set_ranges=tuple(ranges))
        sets_impl = list(net.trace_azimuth_set_array)
        rel = net.azimuth_set_relationships
    except Exception as e:
        res.disagreements.append(Disagreement(stream, case, None, f"{type(e).__name__}: {str(e)[:200]}", None, "Network raised"))
        return
    geoms = list(net.trace_gdf.geometry.values)
    # the sets themselves: the documented assignment, computed independently (a relation reported under a wrong set is a wrong row)
    refs = [ref_set(g, names, ranges) for g in geoms]
    if any(r is None for r in refs):
        res.skipped["azimuth_within_1e-9_of_a_range_end"] = res.skipped.get("azimuth_within_1e-9_of_a_range_end", 0) + 1
        return
    if [str(x) for x in sets_impl] != refs:
        bad = [(g.wkt, str(a_), b_) for g, a_, b_ in zip(geoms, sets_impl, refs) if str(a_) != b_][:3]
        res.evaluations += 1
        res.disagreements.append(Disagreement(stream, case, refs, [str(x) for x in sets_impl], True,
                                              f"a trace is assigned to another set than the one whose range contains its azimuth: {bad}"))
        return
    # set of every model piece = set of the matching cropped trace
    piece_sets = []
    tol = t / 100
    for pc in ar.pieces:
        a, b = (float(pc[0][0]), float(pc[0][1])), (float(pc[-1][0]), float(pc[-1][1]))
        hit = None
        for g, s in zip(geoms, sets_impl):
            c0, c1 = g.coords[0], g.coords[-1]
            if (abs(c0[0] - a[0]) < tol and abs(c0[1] - a[1]) < tol and abs(c1[0] - b[0]) < tol and abs(c1[1] - b[1]) < tol):
                hit = s
                break
        if hit is None:
            res.skipped["piece_not_matched"] = res.skipped.get("piece_not_matched", 0) + 1
            return
        piece_sets.append(str(hit))
    rows, req = expected_rows(ctx, ar, piece_sets, names)
    got = {tuple(r["sets"]): (int(r["x"]), int(r["y"]), int(r["y-reverse"]), int(r["error-count"])) for _, r in rel.iterrows()}
    res.evaluations += 1
    empties = [n for n in names if n not in piece_sets]
    res.distribution["maps_with_empty_set"] = res.distribution.get("maps_with_empty_set", 0) + int(bool(empties))
    res.distribution["rows"] = res.distribution.get("rows", 0) + len(rows)
    res.distribution["relations"] = res.distribution.get("relations", 0) + sum(sum(v[:3]) for v in rows.values())
    if any(sum(v[:3]) > 0 for v in rows.values()):
        res.nontrivial += 1
    if len(res.samples) < 2:
        res.samples.append({"request": req, "rows": {"~".join(k): v for k, v in rows.items()}})
    if rows != got:
        res.disagreements.append(Disagreement(stream, dict(case, piece_sets=piece_sets), {"~".join(k): v for k, v in rows.items()}, {"~".join(k): v for k, v in got.items()}, True,
                                              "relationship rows differ from the true relations between the sets"))


def s12_relations(ctx):
    import_fractopo()
    res = StreamResult("S12-relations", rule="(every map's frame is first analysed by another Network without truncation and with other sets) valid maps (Lean oracle) x 5 azimuth-set definitions (2..5 sets, wrap-around, sets left empty first / in "
                       "between / last); relations from the exact contacts; non-trivial = map x definition with at least one relation between sets")
    rng = rng_for(ctx.seed, "S12")
    t = 0.01
    maps, _ = valid_maps(ctx, rng, budget(ctx.tier, 30, 500), F(t), area_kinds=("box", "circle"), nmax=9)
    # a fixed map with traces exactly along 45 / 135 degrees (they sit ON the ends of the wrap-around range of the last definition)
    from shapely.geometry import box as _box

    diag = [[(F(0), F(0)), (F(10), F(0))], [(F(2), F(-3)), (F(8), F(3))], [(F(1), F(6)), (F(9), F(-2))], [(F(3), F(-6)), (F(3), F(6))]]
    darea = _box(-20, -20, 20, 20)
    dar = Arrangement(ctx.driver.batch([arr_request(diag, [darea], F(t))])[0])
    if dar.valid:
        maps = [(diag, darea, "box", dar)] + list(maps)
    for traces, area, kind, ar in maps:
        for names, ranges in SET_DEFS:
            run_map(ctx, traces, area, kind, ar, t, names, ranges, res, "S12-relations")
    return res


def s12_generated(ctx):
    if ctx.gen is None:
        r = StreamResult("S12-generated", note="gen_c12 not built (a generated module is broken): skipped")
        r.skipped["generated_driver_not_built"] = 1
        return r
    res = s12_intersect(ctx, ctx.gen, "S12-generated")
    # the regenerated node loop of determine_intersects vs the real function with a scripted determine_intersect (touch tests are real geometry)
    import_fractopo()
    import geopandas as gpd
    import numpy as np
    from shapely.geometry import LineString, Point

    import fractopo.analysis.relationships as relm
    from harness.common import parse_resp, rng_for

    rng = rng_for(ctx.seed, "S12loop")
    set1 = gpd.GeoSeries([LineString([(0, 0), (30, 0)])])
    set2 = gpd.GeoSeries([LineString([(0, 5), (30, 5)]), LineString([(3, -2), (3, 7)])])
    spots = {(True, False): lambda i: Point(10.0 + i, 0.0), (False, True): lambda i: Point(10.0 + i, 5.0), (True, True): lambda i: Point(3.0, 0.0),
             (False, False): lambda i: Point(100.0 + i, 100.0)}
    cases, reqs = [], []
    for _ in range(budget(ctx.tier, 200, 3000)):
        nodes = []
        for i in range(rng.randint(1, 6)):
            t = rng.choice([(True, False), (False, True), (True, True), (True, True)]) if rng.random() < 0.93 else (False, False)
            nodes.append((t, rng.choice(["X", "Y"]), rng.choice(["ab", "ba", "-"])))
        cases.append(nodes)
        reqs.append("gintloop names=a,b nodes=" + ";".join(f"{int(t[0])}:{int(t[1])}:{c}:{r}" for t, c, r in nodes))
    resps = ctx.gen.parallel(reqs)
    orig = relm.determine_intersect
    try:
        for nodes, req, resp in zip(cases, reqs, resps):
            res.evaluations += 1
            pts = [spots[t](i) for i, (t, _, _) in enumerate(nodes)]
            script = {p.wkt: r for p, (_, _, r) in zip(pts, nodes)}
            # two nodes at the same spot (3 0) share a script entry: give them the same scripted answer
            for i, (t, c, r) in enumerate(nodes):
                if t == (True, True):
                    script[pts[i].wkt] = nodes[[j for j, (t2, _, _) in enumerate(nodes) if t2 == (True, True)][0]][2]

            def scripted(node, node_class, l1, l2, first_set, second_set, first_setpointtree, buffer_value, _s=script):
                r_ = _s[node.wkt]
                if r_ == "-":
                    raise ValueError("scripted")
                return {"node": node, "nodeclass": node_class, "sets": (first_set, second_set) if r_ == "ab" else (second_set, first_set), "error": False}

            relm.determine_intersect = scripted
            eff = [(t, c, script[pts[i].wkt]) for i, (t, c, r) in enumerate(nodes)]
            try:
                df = relm.determine_intersects((set1, set2), ("a", "b"), gpd.GeoSeries(pts), np.array([c for _, c, _ in nodes]), 0.001)
                want = "rows=" + ";".join(f"{i}:{row['nodeclass']}:{row['sets'][0]},{row['sets'][1]}:{int(bool(row['error']))}" for i, (_, row) in enumerate(df.iterrows()))
            except ValueError:
                want = "err=ValueError"
            req2 = "gintloop names=a,b nodes=" + ";".join(f"{int(t[0])}:{int(t[1])}:{c}:{r}" for t, c, r in eff)
            got = ctx.gen.batch([req2])[0].strip() if eff != nodes else resp.strip()
            res.nontrivial += int("err=" in want or ":1" in want)
            if got != want:
                res.disagreements.append(Disagreement("S12-generated", {"stream": "S12-generated", "request": req2}, got, want, None,
                                                      "regenerated node loop of determine_intersects (Lean) and the Python function disagree"))
    finally:
        relm.determine_intersect = orig
    return res


STREAMS = [s12_intersect, s12_relations, s12_generated]


def replay(ctx, stream, case):
    import_fractopo()
    if stream == "S12-intersect":
        r = s12_intersect(ctx) if not (isinstance(case, dict) and case.get("generated")) else s12_generated(ctx)
        return r.disagreements[0] if r.disagreements else None
    if stream == "S12-generated":
        r = s12_generated(ctx)
        return r.disagreements[0] if r.disagreements else None
    from shapely.geometry import Polygon

    from harness.common import parse_lines

    traces = parse_lines(case["traces"])
    rings = parse_lines(case["areas"].split("#")[0].split("&")[0])
    fl = lambda l: [(float(x), float(y)) for x, y in l]  # noqa: E731
    area = Polygon(fl(rings[0]), [fl(r) for r in rings[1:]])
    ar = Arrangement(ctx.driver.batch([arr_request(traces, [area], F(case["t"]))])[0])
    if not ar.valid:
        return None
    res = StreamResult("replay")
    run_map(ctx, traces, area, "?", ar, case["t"], case["names"], [tuple(r) for r in case["ranges"]], res, stream)
    return res.disagreements[0] if res.disagreements else None
