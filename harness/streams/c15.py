"""S15 — azimuths, set assignment, rose bins against the specification in the driver."""
from __future__ import annotations

import math
from fractions import Fraction

from harness.common import Disagreement, StreamResult, budget, import_fractopo, parse_resp, rat, rng_for

TOL = 1e-9
F4_KEY = "F4:value-on-a-shared-range-end"


def circ_dist(a: float, b: float, period: float = 180.0) -> float:
    d = abs(a - b) % period
    return min(d, period - d)


def chords(rng, n):
    out = []
    axis = [(0, 1), (1, 0), (0, -1), (-1, 0), (1, 1), (-1, 1), (1, -1), (-1, -1)]
    for dx, dy in axis:
        for s in (1.0, 2.0**-20, 2.0**20, 3.0):
            out.append((dx * s, dy * s))
    # within 1 ulp of north/south/east/west
    for base in ((0.0, 1.0), (0.0, -1.0), (1.0, 0.0), (-1.0, 0.0)):
        for k in (-2, -1, 1, 2):
            eps = k * 2.0**-52
            out.append((base[0] + (eps if base[0] == 0 else 0), base[1] + (eps if base[1] == 0 else 0)))
            out.append((base[0] if base[0] else 5e-324 * k, base[1] if base[1] else 5e-324 * k))
    # near the default set boundaries 60 / 120 (dy/dx = tan 30)
    t30 = 0.5773502691896257
    for k in range(-20, 21):
        out.append((1.0, math.nextafter(t30, 2) if k > 0 else t30 + k * 2.0**-53))
    while len(out) < n:
        out.append((rng.uniform(-1, 1) * rng.choice([1, 1e-6, 1e6]), rng.uniform(-1, 1) * rng.choice([1, 1e-6, 1e6])))
    return [c for c in out if c != (0.0, 0.0)][:n]


def s15_azimuth(ctx):
    import_fractopo()
    from shapely.geometry import LineString

    from fractopo.general import determine_azimuth

    res = StreamResult("S15-azimuth", rule="chords in all directions incl. exactly axis-parallel / diagonal, within 1-2 ulp of the axes, "
                       "tiny and huge, random offsets, with an interior vertex; non-trivial = distinct direction not axis-parallel")
    rng = rng_for(ctx.seed, "S15a")
    cs = chords(rng, budget(ctx.tier, 1500, 40000))
    ds = [math.degrees(math.atan2(dy, dx)) for dx, dy in cs]
    resps = ctx.driver.parallel([f"azimuth d={rat(d)}" for d in ds])
    seen = set()
    for (dx, dy), d, resp in zip(cs, ds, resps):
        res.evaluations += 1
        spec = float(Fraction(parse_resp(resp)["az"]))
        ox, oy = rng.choice([(0.0, 0.0), (1024.0, -2048.0), (5e6, 7e6)])
        # the chord is between the END points; add an interior vertex off the chord
        line = LineString([(ox, oy), (ox + dx / 3 - dy, oy + dy / 3 + dx), (ox + dx, oy + dy)])
        ddx, ddy = line.coords[-1][0] - line.coords[0][0], line.coords[-1][1] - line.coords[0][1]
        if (ddx, ddy) != (dx, dy):  # offset rounding changed the chord: recompute the parameter
            d2 = math.degrees(math.atan2(ddy, ddx))
            spec = float(Fraction(parse_resp(ctx.driver.batch([f"azimuth d={rat(d2)}"])[0])["az"]))
        got = determine_azimuth(line, True)
        rev = determine_azimuth(LineString(list(line.coords)[::-1]), True)
        case = {"stream": "S15-azimuth", "coords": [list(c) for c in line.coords]}
        if dx != 0 and dy != 0 and (dx, dy) not in seen:
            seen.add((dx, dy))
            res.nontrivial += 1
        res.distribution["axis_parallel"] = res.distribution.get("axis_parallel", 0) + int(dx == 0 or dy == 0)
        # 180.0 itself is accepted: a chord leaning west of north by less than an ulp has the true
        # azimuth 180 - 3e-14, which rounds to 180.0 (equal to the exact value up to rounding)
        if not (0 <= got <= 180):
            res.disagreements.append(Disagreement("S15-azimuth", case, spec, got, True, "azimuth outside [0,180]"))
        elif ddx == 0 and (abs(got) > TOL or abs(rev) > TOL):
            # an exactly north-south chord (either digitising direction) has azimuth exactly 0, never 180: [0,180) is half open
            res.disagreements.append(Disagreement("S15-azimuth", case, 0.0, {"line": got, "reversed": rev}, True,
                                                  "exactly north-south chord: azimuth must be 0 for both digitising directions ([0,180) is half open)"))
        elif circ_dist(got, spec) > TOL:
            res.disagreements.append(Disagreement("S15-azimuth", case, spec, got, True, "azimuth differs from (90 - atan2) mod 180"))
        elif circ_dist(got, rev) > TOL:
            res.disagreements.append(Disagreement("S15-azimuth", case, got, rev, True, "reversed line has a different azimuth"))
    res.samples = [{"chord": cs[0], "d": ds[0], "spec": resps[0]}]
    return res


RANGE_SETS = [
    ([(0, 60), (60, 120), (120, 180)], "default (touching)"),
    ([(0, 59.9), (60, 119.9), (120, 180)], "gapped"),
    ([(160, 20), (30, 90), (100, 150)], "wrap-around"),
    ([(170, 10), (10.5, 80), (80.5, 169.5)], "wrap-around tight"),
    ([(0, 45), (45.000001, 90), (90.000001, 135), (135.000001, 180)], "four"),
    ([(20, 50)], "single"),
    ([(0, 30), (150, 180)], "two ends"),
]


def set_values(rng, ranges, n):
    vals = []
    for lo, hi in ranges:
        for v in (lo, hi):
            vals += [v, math.nextafter(v, -1), math.nextafter(v, 999)]
    vals += [0.0, 180.0, math.nextafter(180.0, 0), 90.0]
    while len(vals) < n:
        vals.append(rng.uniform(0, 180))
    return [v for v in vals if 0 <= v <= 180]


def s15_sets(ctx):
    import_fractopo()
    from fractopo.general import determine_set

    res = StreamResult("S15-sets", rule="values on / one ulp around every range end and random values x 7 range tuples (default, gapped, "
                       "wrap-around, touching); non-trivial = value within 1 ulp of a range end")
    rng = rng_for(ctx.seed, "S15s")
    reqs, meta = [], []
    for ranges, label in RANGE_SETS:
        names = [f"s{i}" for i in range(len(ranges))]
        for v in set_values(rng, ranges, budget(ctx.tier, 60, 1500)):
            for loop in (True, False):
                reqs.append(f"detset v={rat(v)} ranges={';'.join(rat(a) + ',' + rat(b) for a, b in ranges)} names={';'.join(names)} loop={int(loop)}")
                meta.append((v, ranges, names, loop, label))
    resps = ctx.driver.parallel(reqs)
    for (v, ranges, names, loop, label), resp in zip(meta, resps):
        res.evaluations += 1
        spec = parse_resp(resp)["set"]
        try:
            got = "ok:" + determine_set(v, tuple(ranges), tuple(names), loop)
        except ValueError:
            got = "overlap"
        near_end = any(abs(v - e) <= 1e-12 for r in ranges for e in r)
        res.nontrivial += int(near_end)
        res.distribution[label] = res.distribution.get(label, 0) + 1
        case = {"stream": "S15-sets", "v": v, "ranges": ranges, "names": names, "loop": loop}
        if got != spec:
            res.disagreements.append(Disagreement("S15-sets", case, spec, got, True, "set assignment differs from the unique containing range"))
        elif spec == "overlap":
            # both agree that the ranges overlap at v: the property only speaks about non-overlapping ranges,
            # except for the package's own default ranges (finding F4), which is reported separately
            res.distribution["overlap_at_value"] = res.distribution.get("overlap_at_value", 0) + 1
    res.samples = [{"request": reqs[0], "spec": resps[0]}]
    return res


def s15_bins(ctx):
    import_fractopo()
    import numpy as np

    from fractopo.analysis import azimuth as az

    res = StreamResult("S15-bins", rule="ALL sample sizes 1..5000: bin edges/locs from the real _calc_bins/_calc_locs vs n = ceil(180/w), "
                       "bw = 180/n; determine_azimuth_bins on random azimuth samples incl. exactly 0 and 180; non-trivial = distinct bin count",
                       )
    rng = rng_for(ctx.seed, "S15b")
    sizes = list(range(1, 5001))
    ws = [az._calc_ideal_bin_width(n) for n in sizes]
    resps = ctx.driver.parallel([f"bins w={rat(w)} az=" for w in ws])
    counts = set()
    for n, w, resp in zip(sizes, ws, resps):
        res.evaluations += 1
        r = parse_resp(resp)
        k, bw = int(r["n"]), float(Fraction(r["bw"]))
        edges, width = az._calc_bins(w, True)
        locs = az._calc_locs(width, True)
        counts.add(k)
        case = {"stream": "S15-bins", "n": n}
        bad = None
        if len(edges) != k + 1:
            bad = f"{len(edges) - 1} bins, expected {k}"
        elif abs(width - bw) > TOL or abs(edges[0]) > TOL or abs(edges[-1] - 180) > 1e-6 or np.max(np.abs(np.diff(edges) - bw)) > 1e-6:
            bad = "edges do not cover [0,180] with equal widths"
        elif len(locs) != k:
            bad = f"{len(locs)} bar locations for {k} bins"
        if bad:
            res.disagreements.append(Disagreement("S15-bins", case, {"bins": k, "width": bw}, {"edges": len(edges), "width": float(width), "last": float(edges[-1])}, True, bad))
    res.nontrivial = len(counts)
    res.distribution["distinct_bin_counts"] = sorted(counts)
    # full histogram on samples
    sample_sizes = rng.sample(range(1, 5001), budget(ctx.tier, 40, 600)) + [1, 2, 5000, 1001, 1157, 4097, 4492]
    reqs, data = [], []
    for n in sample_sizes:
        azs = np.array([rng.choice([0.0, 180.0, rng.uniform(0, 180), rng.uniform(0, 180)]) for _ in range(n)])
        lens = np.array([rng.randint(1, 64) / 8 for _ in range(n)])
        data.append((n, azs, lens))
        reqs.append(f"bins w={rat(az._calc_ideal_bin_width(n))} az={','.join(rat(float(a)) for a in azs)}")
    resps = ctx.driver.parallel(reqs)
    # the prelude's pyHistogram (what the regenerated determine_azimuth_bins calls for np.histogram) against numpy itself, on the REAL float edges
    # (floats are exact rationals and numpy compares them exactly, weights are multiples of 1/8: the heights must be equal, not just close)
    hreqs, hwant = [], []
    for n, azs, lens in data[:budget(ctx.tier, 25, 200)]:
        edges, _ = az._calc_bins(az._calc_ideal_bin_width(n), True)
        extra = np.concatenate([azs, np.array([float(e) for e in edges[:4]] + [-1.0, 180.5])])
        wts = np.concatenate([lens, np.array([0.5] * (len(extra) - len(lens)))])
        hreqs.append(f"hist edges={','.join(rat(float(e)) for e in edges)} vals={','.join(rat(float(a)) for a in extra)} w={','.join(rat(float(l)) for l in wts)}")
        hwant.append((n, [float(h) for h in np.histogram(extra, edges, weights=wts)[0]]))
    for (n, want), resp in zip(hwant, ctx.driver.parallel(hreqs)):
        res.evaluations += 1
        got = [float(Fraction(x)) for x in parse_resp(resp)["heights"].split(",")] if parse_resp(resp).get("heights") else []
        res.distribution["pyHistogram_vs_numpy"] = res.distribution.get("pyHistogram_vs_numpy", 0) + 1
        if got != want:
            res.disagreements.append(Disagreement("S15-bins", {"stream": "S15-bins", "n": n, "what": "prelude pyHistogram vs np.histogram"}, got, want, None,
                                                  "the prelude's pyHistogram differs from np.histogram on exact inputs (values on edges and outside the range included)"))
    for (n, azs, lens), resp in zip(data, resps):
        res.evaluations += 1
        r = parse_resp(resp)
        k = int(r["n"])
        idx = r["idx"].split(",")
        model = [0.0] * k
        for i, l in zip(idx, lens):
            model[int(i)] += float(l)
        bins = az.determine_azimuth_bins(azs, lens)
        got = [float(h) for h in bins.bin_heights]
        case = {"stream": "S15-bins", "n": n, "azimuths": [float(a) for a in azs], "lengths": [float(l) for l in lens]}
        if len(got) != k or abs(sum(got) - float(lens.sum())) > 1e-6:
            res.disagreements.append(Disagreement("S15-bins", case, model, got, True, "heights do not sum to the total weight / wrong bin count"))
        elif any(abs(a - b) > 1e-6 for a, b in zip(got, model)):
            # an azimuth within rounding of an edge may legitimately fall on either side: decide by the property (sum)
            moved = sum(abs(a - b) for a, b in zip(got, model))
            res.skipped["edge_rounding"] = res.skipped.get("edge_rounding", 0) + 1
            if moved > 2 * float(lens.max()) * 3:
                res.disagreements.append(Disagreement("S15-bins", case, model, got, None, "bin heights differ from the exact binning"))
    res.samples = [{"n": 30, "model": resps[0][:80]}]
    return res


def run_set_history(ctx, coords, steps, res, stream, case):
    """Networks built one after the other from the SAME caller's frame, each with its own set definition; each judged on its own traces"""
    import geopandas as gpd
    import numpy as np
    from shapely.geometry import LineString, box

    from fractopo import Network

    frame = gpd.GeoDataFrame({"uid": [f"u{i}" for i in range(len(coords))]}, geometry=[LineString(c) for c in coords])
    if len(coords) % 2 == 1:
        # a caller's frame whose integer labels are not the row positions (a sorted / filtered selection): nothing may be aligned by label
        import random as _random

        labels = [3 * i + 2 for i in range(len(coords))]
        _random.Random(len(coords)).shuffle(labels)
        frame.index = labels
        res.distribution["shuffled_labels"] = res.distribution.get("shuffled_labels", 0) + 1
    cols_before = list(frame.columns)
    for si, (ranges, names, area_box, truncate) in enumerate(steps):
        where = f"step {si + 1}"
        try:
            net = Network(trace_gdf=frame, area_gdf=gpd.GeoDataFrame(geometry=[box(*area_box)]), name=f"s{si}", determine_branches_nodes=False,
                          truncate_traces=truncate, circular_target_area=False, snap_threshold=0.001,
                          azimuth_set_ranges=tuple(tuple(r) for r in ranges), azimuth_set_names=tuple(names))
            geoms = list(net.trace_gdf.geometry.values)
            az = [float(v) for v in np.asarray(net.trace_azimuth_array, dtype=float)]
            ds = []
            for g in geoms:
                (x0, y0), (x1, y1) = g.coords[0][:2], g.coords[-1][:2]
                ds.append(math.degrees(math.atan2(y1 - y0, x1 - x0)))
            rs = ctx.driver.batch([f"azimuth d={rat(d)}" for d in ds])
            spec_az = [float(Fraction(parse_resp(r)["az"])) for r in rs]
            bad = [(i, a, b) for i, (a, b) in enumerate(zip(az, spec_az)) if circ_dist(a, b) > TOL]
            if len(az) != len(geoms) or bad:
                res.disagreements.append(Disagreement(stream, dict(case, failing_step=si), spec_az[:8], az[:8], True, f"{where}: trace azimuths are not the chord azimuths of the network's own traces {bad[:3]}"))
                return
            rq = [f"detset v={rat(a)} ranges={';'.join(rat(float(x)) + ',' + rat(float(y)) for x, y in ranges)} names={';'.join(names)} loop=1" for a in az]
            spec_sets = [parse_resp(r)["set"] for r in ctx.driver.batch(rq)]
            if any(x == "overlap" for x in spec_sets):
                res.skipped["value_on_shared_range_end"] = res.skipped.get("value_on_shared_range_end", 0) + 1
                return
            want = [x[3:] for x in spec_sets]
            sets = [str(v) for v in np.asarray(net.trace_azimuth_set_array)]
            if sets != want:
                k = next(i for i, (a, b) in enumerate(zip(sets + [None] * len(want), want)) if a != b)
                res.disagreements.append(Disagreement(stream, dict(case, failing_step=si), want, sets, True,
                                                      f"{where}: trace {k} with azimuth {az[k] if k < len(az) else None} is assigned to {sets[k] if k < len(sets) else None!r}; the range containing it is {want[k]!r} (ranges {ranges}, names {names})"))
                return
            counts = net.trace_azimuth_set_counts
            lens = [float(g.length) for g in geoms]
            arrays = net.trace_data.azimuth_set_length_arrays
            for nm in names:
                mine = sorted(l for l, w in zip(lens, want) if w == nm)
                got = sorted(float(v) for v in arrays[nm])
                if int(counts[nm]) != len(mine) or len(got) != len(mine) or any(abs(a - b) > 1e-9 * max(1.0, b) for a, b in zip(got, mine)):
                    res.disagreements.append(Disagreement(stream, dict(case, failing_step=si), {"count": len(mine), "lengths": mine[:8]}, {"count": int(counts[nm]), "lengths": got[:8]}, True,
                                                          f"{where}: set {nm!r}: count / length array do not partition the network's own traces"))
                    return
            if sum(int(v) for v in counts.values()) + sum(1 for w in want if w not in names) != len(geoms):
                res.disagreements.append(Disagreement(stream, dict(case, failing_step=si), len(geoms), dict(counts), True, f"{where}: set counts and the null set do not add up to the number of traces"))
                return
        except Exception as e:
            if truncate and isinstance(e, ValueError) and "Empty trace" in str(e):
                res.skipped["nothing_inside_the_area"] = res.skipped.get("nothing_inside_the_area", 0) + 1
                return
            res.disagreements.append(Disagreement(stream, dict(case, failing_step=si), None, f"{type(e).__name__}: {str(e)[:300]}", True, f"{where}: raised"))
            return
    if list(frame.columns) != cols_before:
        res.distribution["caller_frame_gained_columns"] = res.distribution.get("caller_frame_gained_columns", 0) + 1


def s15_network(ctx):
    """HISTORIES: one caller's trace frame analysed by 2-3 Networks with different azimuth set definitions (and areas); azimuths, set membership,
    set counts and per-set length arrays of every Network against the specification evaluated on that Network's own traces"""
    import_fractopo()
    res = StreamResult("S15-network", rule="frames of 3..10 chords (all directions incl. axis-parallel and diagonal, an interior vertex, half reversed; frames with an odd number of rows carry shuffled integer labels) x histories of 2-3 "
                       "Network(...) calls on the SAME caller's frame, each with another of the 7 range tuples (names differ per step) and either no truncation, truncation to "
                       "a containing box or to a box that cuts traces; per Network: trace_azimuth_array = Spec azimuth of its own chords, trace_azimuth_set_array = "
                       "Spec.detSet of those (Lean), counts and per-set length arrays partition its own traces; non-trivial = every history (the steps use different range tuples and set names)")
    rng = rng_for(ctx.seed, "S15n")
    for hi in range(budget(ctx.tier, 40, 800)):
        cs = chords(rng, 400)
        n = rng.randint(3, 10)
        coords = []
        for k in range(n):
            dx, dy = rng.choice(cs[:32]) if rng.random() < 0.3 else (rng.uniform(-1, 1), rng.uniform(-1, 1))
            s_ = rng.choice([1.0, 4.0, 16.0]) / max(abs(dx), abs(dy), 1e-300) if max(abs(dx), abs(dy)) < 1e-3 or max(abs(dx), abs(dy)) > 1e3 else rng.choice([1.0, 4.0, 16.0])
            dx, dy = dx * s_, dy * s_
            ox, oy = rng.randint(-160, 160) / 4, rng.randint(-160, 160) / 4
            c = [(ox, oy), (ox + dx / 3 - dy / 8, oy + dy / 3 + dx / 8), (ox + dx, oy + dy)]
            if c[0] == c[-1]:
                continue
            coords.append(c[::-1] if k % 2 else c)
        if len(coords) < 2:
            continue
        steps = []
        order = rng.sample(range(len(RANGE_SETS)), rng.randint(2, 3))
        for j, ri in enumerate(order):
            ranges, label = RANGE_SETS[ri]
            # set names as users choose them: one character ("1", "2", ... -- the package's own default style) in every other history, longer ones otherwise;
            # the null set's label "-1" is longer than a one-character name
            names = [f"{'abc'[j]}{i}" for i in range(len(ranges))] if hi % 2 else ["123456789ABCDEFGHIJ"[i + 4 * j] for i in range(len(ranges))]
            mode = rng.choice(["notrunc", "notrunc", "trunc_all", "trunc_cut"])
            area_box = (-30.0, -28.0, 31.0, 27.0) if mode == "trunc_cut" else (-100.0, -100.0, 100.0, 100.0)
            steps.append(([list(map(float, r)) for r in ranges], names, area_box, mode != "notrunc"))
            res.distribution[mode] = res.distribution.get(mode, 0) + 1
        res.evaluations += 1
        res.nontrivial += 1
        case = {"stream": "S15-network", "coords": coords, "steps": steps}
        run_set_history(ctx, coords, steps, res, "S15-network", case)
    res.samples = [{"histories": res.evaluations}]
    return res


STREAMS = [s15_azimuth, s15_sets, s15_bins, s15_network]


def _f4_public_api():
    """does Network(...).trace_azimuth_set_array raise for a chord at exactly 60 degrees with the default ranges?"""
    import geopandas as gpd
    from shapely.geometry import LineString, box

    from fractopo import Network
    from fractopo.general import determine_azimuth

    line = LineString([(0, 0), (1, 0.5773502691896256)])
    if determine_azimuth(line, True) != 60.0:
        return None
    net = Network(trace_gdf=gpd.GeoDataFrame(geometry=[line, LineString([(0, 1), (1, 1)])]), area_gdf=gpd.GeoDataFrame(geometry=[box(-1, -1, 2, 2)]),
                  name="f4", determine_branches_nodes=False, truncate_traces=False, snap_threshold=0.001)
    try:
        net.trace_azimuth_set_array
        return False
    except ValueError:
        return True


def replay_finding(ctx, k):
    import_fractopo()
    if k["id"] == "F4":
        return _f4_public_api()
    return None


def replay(ctx, stream, case):
    import_fractopo()
    from fractopo.general import determine_set

    if stream == "S15-sets":
        req = (f"detset v={rat(case['v'])} ranges={';'.join(rat(a) + ',' + rat(b) for a, b in case['ranges'])} "
               f"names={';'.join(case['names'])} loop={int(case['loop'])}")
        spec = parse_resp(ctx.driver.batch([req])[0])["set"]
        try:
            got = "ok:" + determine_set(case["v"], tuple(tuple(r) for r in case["ranges"]), tuple(case["names"]), case["loop"])
        except ValueError:
            got = "overlap"
        return None if got == spec else Disagreement(stream, case, spec, got, True)
    if stream == "S15-network":
        res = StreamResult("replay")
        run_set_history(ctx, [[tuple(p) for p in c] for c in case["coords"]], [(a, b, tuple(c), d) for a, b, c, d in case["steps"]], res, stream,
                        {k: v for k, v in case.items() if k != "failing_step"})
        return res.disagreements[0] if res.disagreements else None
    for fn in STREAMS:
        r = fn(ctx)
        if r.name == stream and r.disagreements:
            return r.disagreements[0]
    return None
