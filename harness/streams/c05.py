"""S05 — node/branch tables: the real node_identities_from_branches / get_branch_identities /
determine_branch_identity against the Topology model (exact geometry) in the driver."""
from __future__ import annotations

import itertools
import multiprocessing as mp
from collections import Counter
from fractions import Fraction

from harness.common import (Disagreement, StreamResult, area_rows, budget, dec, import_fractopo, lines, parse_pt,
                            parse_resp, rat, rng_for)


def _impl_topo(branches, areas, t):
    import geopandas as gpd
    from fractopo.branches_and_nodes import get_branch_identities, node_identities_from_branches

    bs = gpd.GeoSeries(branches)
    ar = gpd.GeoSeries(areas)
    nodes, ids = node_identities_from_branches(bs, ar, t)
    labels = get_branch_identities(bs, gpd.GeoSeries(nodes), ids, t) if nodes else []
    return [((Fraction(n.x), Fraction(n.y)), c) for n, c in zip(nodes, ids)], list(labels)


def _model_req(branches, areas, t):
    ends = [[b.coords[0][:2], b.coords[-1][:2]] for b in branches]
    return f"topo t={rat(t)} areas={area_rows(areas)} branches={lines(ends)}"


def _parse_model(resp):
    r = parse_resp(resp)
    if "error" in r:
        return None
    nodes = []
    if r.get("nodes"):
        for tok in r["nodes"].split(";"):
            p, c, m = tok.split(":")
            nodes.append((parse_pt(p), c, int(m)))
    labels = [dec(x) for x in r["labels"].split(";")] if r.get("labels") else []
    return nodes, labels, r.get("crisp") == "1"


def gen_case(rng, t):
    """branch list (shapely LineStrings) + areas; adversarial: repeats, reversals, closed, hubs."""
    from shapely.geometry import LineString, MultiPolygon, Polygon, box

    unit = rng.choice([1.0, 1.0, 0.125, 64.0])
    off = rng.choice([0.0, 0.0, 1024.0, 2.0**23])
    g = lambda k: off + unit * k  # noqa: E731
    # areas: adjacent boxes / box with hole / multipolygon / concave
    kind = rng.choice(["box", "two_adjacent", "two_overlap", "hole", "multi", "concave", "two_far"])
    if kind == "box":
        areas = [box(g(0), g(0), g(32), g(32))]
    elif kind == "two_adjacent":
        areas = [box(g(0), g(0), g(16), g(32)), box(g(16), g(0), g(32), g(32))]
    elif kind == "two_overlap":
        areas = [box(g(0), g(0), g(20), g(32)), box(g(12), g(0), g(32), g(32))]
    elif kind == "hole":
        areas = [Polygon([(g(0), g(0)), (g(32), g(0)), (g(32), g(32)), (g(0), g(32))], [[(g(12), g(12)), (g(20), g(12)), (g(20), g(20)), (g(12), g(20))]])]
    elif kind == "multi":
        areas = [MultiPolygon([box(g(0), g(0), g(14), g(32)), box(g(18), g(0), g(32), g(32))])]
    elif kind == "concave":
        areas = [Polygon([(g(0), g(0)), (g(32), g(0)), (g(32), g(32)), (g(16), g(8)), (g(0), g(32))])]
    else:
        areas = [box(g(0), g(0), g(12), g(12)), box(g(20), g(20), g(32), g(32))]
    # candidate points: lattice points, points exactly on boundaries, points t/2 from boundaries, 2t away
    def lattice():
        return (g(rng.randint(-2, 34)), g(rng.randint(-2, 34)))

    specials = []
    for a in areas:
        for pg in (a.geoms if hasattr(a, "geoms") else [a]):
            for ring in [pg.exterior] + list(pg.interiors):
                cs = list(ring.coords)
                for (x1, y1), (x2, y2) in zip(cs[:-1], cs[1:]):
                    k = rng.choice([0.25, 0.5, 0.75])
                    mx, my = x1 + k * (x2 - x1), y1 + k * (y2 - y1)
                    nx, ny = (y2 - y1), -(x2 - x1)
                    ln = (nx * nx + ny * ny) ** 0.5
                    nx, ny = nx / ln, ny / ln
                    d = rng.choice([0.0, 0.5 * t, -0.5 * t, 2.0 * t, -2.0 * t])
                    specials.append((mx + nx * d, my + ny * d))
    pts = [lattice() for _ in range(rng.randint(3, 10))] + rng.sample(specials, min(len(specials), rng.randint(0, 5)))
    # near-coincident twins clearly beyond the threshold
    if rng.random() < 0.4:
        p = rng.choice(pts)
        pts.append((p[0] + 2.5 * t, p[1]))
    n = rng.randint(1, 14)
    branches = []
    for _ in range(n):
        a, b = rng.choice(pts), rng.choice(pts)
        mode = rng.random()
        if a == b or mode < 0.1:
            # closed branch through two other points
            c, d = lattice(), lattice()
            if len({a, c, d}) < 3:
                continue
            branches.append(LineString([a, c, d, a]))
        elif mode < 0.3:
            mid = lattice()
            if mid in (a, b):
                continue
            branches.append(LineString([a, mid, b]))
        else:
            branches.append(LineString([a, b]))
    if branches and rng.random() < 0.3:
        br = rng.choice(branches)
        branches.append(LineString(list(br.coords)[::-1]))  # reversed duplicate
    if branches and rng.random() < 0.2:
        branches.append(rng.choice(branches))  # exact duplicate
    return branches, areas, kind


def run_cases(ctx, cases, res, stream):
    reqs = [_model_req(b, a, t) for b, a, t, _ in cases]
    resps = ctx.driver.parallel(reqs)
    seen = set()
    for (branches, areas, t, meta), req, resp in zip(cases, reqs, resps):
        res.evaluations += 1
        model = _parse_model(resp)
        case = {"stream": stream, "request": req, "meta": meta, "full": lines([list(b.coords) for b in branches])}
        try:
            inodes, ilabels = _impl_topo(branches, areas, t)
        except Exception as e:  # the implementation may not raise on any LineString input here
            res.disagreements.append(Disagreement(stream, case, resp, f"{type(e).__name__}: {e}", True, "implementation raised"))
            continue
        if model is None:
            res.disagreements.append(Disagreement(stream, case, resp, None, None, "model rejected the request"))
            continue
        mnodes, mlabels, crisp = model
        if not crisp:
            # two distinct nodes closer than the threshold: outside hypothesis `crisp` of C05_branch_label
            # (the margin-0 node search of get_branch_identities then legitimately differs from all-pairs)
            res.skipped["non_crisp"] = res.skipped.get("non_crisp", 0) + 1
            mlabels = ilabels = []
            if Counter((p, c) for p, c, _ in mnodes) == Counter(inodes):
                continue
        mn = Counter((p, c) for p, c, _ in mnodes)
        inn = Counter(inodes)
        classes = Counter(c for _, c, _ in mnodes)
        for c in classes:
            res.distribution[f"node_{c}"] = res.distribution.get(f"node_{c}", 0) + classes[c]
        for l in mlabels:
            res.distribution[f"branch_{l}"] = res.distribution.get(f"branch_{l}", 0) + 1
        res.distribution[f"areas_{meta.get('areas')}"] = res.distribution.get(f"areas_{meta.get('areas')}", 0) + 1
        degs = sorted(m for _, _, m in mnodes)
        key = (tuple(sorted(mn.items())), tuple(mlabels))
        if key not in seen and len(mnodes) >= 2 and (max(degs) >= 3 or "E" in classes):
            seen.add(key)
            res.nontrivial += 1
        if len(res.samples) < 3:
            res.samples.append({"request": req, "model": resp})
        if mn != inn or mlabels != ilabels:
            # property oracle: handshake, E iff near boundary, label = pair -- all are what the model computes
            # (theorems C05_*), so any difference is a violation of the property statement
            res.disagreements.append(Disagreement(stream, case, {"nodes": sorted((str(k), v) for k, v in mn.items()), "labels": mlabels},
                                                  {"nodes": sorted((str(k), v) for k, v in inn.items()), "labels": ilabels}, True,
                                                  "node table or branch labels differ from the model"))


def s05_tables(ctx):
    import_fractopo()
    res = StreamResult("S05-tables", rule="random/adversarial branch lists (repeats, reversals, closed, hubs, ends on / near / off "
                       "boundaries of 1-2 areas incl. adjacent, overlapping, holes, multipolygons; thresholds 1e-8 .. 0.1, distinct ends 2.5 x threshold apart); non-trivial = distinct node-table "
                       "with a node of degree >= 3 or an E-node")
    rng = rng_for(ctx.seed, "S05")
    cases = []
    for c in ctx.corpus_cases("S05-tables"):
        pass  # corpus cases are replayed through `replay`
    n = budget(ctx.tier, 250, 6000)
    for i in range(n):
        t = rng.choice([0.001, 0.01, 0.0001, 0.1, 1e-6, 1e-8])
        branches, areas, kind = gen_case(rng, t)
        if not branches:
            continue
        cases.append((branches, areas, t, {"i": i, "areas": kind, "t": t}))
    run_cases(ctx, cases, res, "S05-tables")
    return res


def _extract_handshake(arg):
    traces, area_wkt, t = arg
    import_fractopo()
    from collections import Counter

    import geopandas as gpd
    from shapely import wkt
    from shapely.geometry import LineString

    from fractopo.branches_and_nodes import branches_and_nodes

    try:
        b, n = branches_and_nodes(gpd.GeoDataFrame(geometry=[LineString(l) for l in traces]), gpd.GeoDataFrame(geometry=[wkt.loads(area_wkt)]), t, already_clipped=False)
    except Exception as e:  # noqa: BLE001
        return f"{type(e).__name__}: {str(e)[:120]}"
    ends = Counter()
    for g in b.geometry.values:
        ends[g.coords[0][:2]] += 1
        ends[g.coords[-1][:2]] += 1
    nodes = [(p.x, p.y, c) for p, c in zip(n.geometry.values, n["Class"].values)]
    problems = []
    tol = 1e-9
    used = 0
    for x, y, c in nodes:
        k = sum(v for q, v in ends.items() if abs(q[0] - x) < tol and abs(q[1] - y) < tol)
        used += k
        if k == 0:
            problems.append(f"{c}-node at ({x!r}, {y!r}) has no branch end")
        if c in ("I", "Y", "X") and k != {"I": 1, "Y": 3, "X": 4}[c] and not (c == "I" and k == 2) and not (c == "X" and k > 4):
            problems.append(f"{c}-node at ({x!r}, {y!r}) terminates {k} branch ends")
    if used != 2 * len(b):
        problems.append(f"branch ends at nodes: {used}, twice the number of branches: {2 * len(b)}")
    return problems


def s05_extraction(ctx):
    """C05's own words on whole extractions where a piece of the noded linework is shorter than the branch minimum"""
    import_fractopo()
    from shapely.geometry import box

    res = StreamResult("S05-extraction", rule="branches_and_nodes on a host trace crossed near-perpendicularly by a trace that overshoots it by 0.5 / 0.9 / 1.005 / 1.2 / 2.5 / 5 x snap "
                       "(the tip is a piece around the 1.01 x snap branch minimum), optionally a zig-zag crossing the host twice 0.6 / 1.5 x snap apart; thresholds 0.01 / 0.1: every "
                       "branch end coincides with exactly one node, every node with a branch end, ends summed over nodes = twice the branches, I / Y / X nodes terminate 1 / 3 / 4 ends "
                       "(logged exceptions of invalid input: degree 2 as I, more than 4 as X); non-trivial = tip or gap within 1.3 x snap")
    rng = rng_for(ctx.seed, "S05x")
    args, meta = [], []
    for _ in range(budget(ctx.tier, 60, 1200)):
        t = rng.choice([0.01, 0.1])
        sc = t / 0.01
        tip = rng.choice([0.5, 0.9, 1.005, 1.2, 2.5, 5.0]) * t
        slant = rng.choice([0.0, 0.02, -0.02]) * sc
        traces = [[(0.0, 0.0), (10.0 * sc, 0.0)], [(5.0 * sc, 3.0 * sc), (5.0 * sc + slant, -tip)]]
        gap = None
        if rng.random() < 0.4:
            gap = rng.choice([0.6, 1.5]) * t
            x0 = 2.0 * sc
            # a zig-zag dipping below the host between two crossings `gap` apart
            traces.append([(x0 - 1.0 * sc, 2.0 * sc), (x0 - gap / 2, -3.0 * t), (x0 + gap / 2, -3.0 * t), (x0 + 1.0 * sc, 2.0 * sc)])
        args.append((traces, box(-20 * sc, -20 * sc, 30 * sc, 20 * sc).wkt, t))
        meta.append((t, tip, gap))
    with mp.get_context("fork").Pool(16, maxtasksperchild=16) as pool:
        outs = pool.map(_extract_handshake, args, chunksize=2)
    for (traces, aw, t), (t_, tip, gap), o in zip(args, meta, outs):
        res.evaluations += 1
        res.nontrivial += int(tip <= 1.3 * t or (gap is not None and gap <= 1.3 * t))
        case = {"stream": "S05-extraction", "traces": traces, "area_wkt": aw, "t": t}
        if isinstance(o, str):
            res.skipped["extraction_raised_on_invalid_input"] = res.skipped.get("extraction_raised_on_invalid_input", 0) + 1
            continue
        if o:
            res.disagreements.append(Disagreement("S05-extraction", case, "handshake", o[:4], True, "; ".join(o)[:300]))
    res.samples = [{"traces": args[0][0], "t": args[0][2]}]
    return res


def s05_generated(ctx):
    """translator validation: the REGENERATED node-table and branch-label loops (compiled into gen_c05, exact geometry) vs the real
    functions on the same adversarial branch lists"""
    import_fractopo()
    res = StreamResult("S05-generated", rule="regenerated node_identity / node_identities_from_branches / get_branch_identities (Lean, compiled, exact rational "
                       "geometry for the parameters) vs the real functions on the S05 case generator; node order, classes and labels compared; crisp cases only; "
                       "non-trivial = node of degree >= 3 or an E-node")
    if ctx.gen is None:
        res.note = "gen_c05 not built (a generated module is broken): skipped"
        res.skipped["generated_driver_not_built"] = 1
        return res
    rng = rng_for(ctx.seed, "S05g")
    cases = []
    for i in range(budget(ctx.tier, 200, 4000)):
        t = rng.choice([0.001, 0.01, 0.0001, 0.1])
        branches, areas, kind = gen_case(rng, t)
        if branches:
            cases.append((branches, areas, t, kind))
    reqs = [_model_req(b, a, t).replace("topo ", "gentopo ", 1) for b, a, t, _ in cases]
    crisp_resps = ctx.driver.parallel([_model_req(b, a, t) for b, a, t, _ in cases])
    resps = ctx.gen.parallel(reqs)
    for (branches, areas, t, kind), req, resp, cr in zip(cases, reqs, resps, crisp_resps):
        res.evaluations += 1
        if parse_resp(cr).get("crisp") != "1":
            res.skipped["non_crisp"] = res.skipped.get("non_crisp", 0) + 1
            continue
        r = parse_resp(resp)
        gnodes = []
        if r.get("nodes"):
            for tok in r["nodes"].split(";"):
                p, c = tok.rsplit(":", 1)
                gnodes.append((parse_pt(p), c))
        glabels = [dec(x) for x in r["labels"].split(";")] if r.get("labels") else []
        try:
            inodes, ilabels = _impl_topo(branches, areas, t)
        except Exception as e:  # noqa: BLE001
            res.skipped["impl_raised"] = res.skipped.get("impl_raised", 0) + 1
            continue
        if any(c in ("Y", "X", "E") for _, c in inodes):
            res.nontrivial += 1
        if gnodes != inodes or glabels != ilabels:
            res.disagreements.append(Disagreement("S05-generated", {"stream": "S05-generated", "request": req, "areas": kind}, {"nodes": [(str(p), c) for p, c in gnodes], "labels": glabels},
                                                  {"nodes": [(str(p), c) for p, c in inodes], "labels": ilabels}, None,
                                                  "regenerated loops (Lean) and the Python functions disagree: translator / prelude semantics or a parameter law"))
    res.samples = [{"request": reqs[0][:200], "response": resps[0][:200]}] if reqs else []
    return res


def s05_branch_identity(ctx):
    """exhaustive small scope for the pure labelling function and the degree map"""
    import_fractopo()
    from fractopo.branches_and_nodes import determine_branch_identity

    res = StreamResult("S05-identity", rule="all (i, xy, e) with each count <= 6 (343 triples); non-trivial = sum is 2")
    trip = list(itertools.product(range(7), repeat=3))
    resps = ctx.driver.batch([f"branchid i={i} xy={x} e={e}" for i, x, e in trip])
    for (i, x, e), resp in zip(trip, resps):
        res.evaluations += 1
        spec = dec(parse_resp(resp)["label"])
        got = determine_branch_identity(i, x, e)
        if i + x + e == 2:
            res.nontrivial += 1
        if got != spec:
            res.disagreements.append(Disagreement("S05-identity", {"stream": "S05-identity", "i": i, "xy": x, "e": e}, spec, got, True, "label differs from the unordered pair of kinds"))
    res.samples = [{"i": 1, "xy": 1, "e": 0, "spec": "C - I"}]
    res.distribution = {"triples": len(trip)}
    return res


STREAMS = [s05_branch_identity, s05_tables, s05_generated, s05_extraction]


def replay(ctx, stream, case):
    if stream == "S05-extraction":
        o = _extract_handshake((case["traces"], case["area_wkt"], case["t"]))
        return Disagreement(stream, case, "handshake", o, True, "; ".join(o)[:300]) if (not isinstance(o, str) and o) else None
    import_fractopo()
    if stream == "S05-generated":
        r = s05_generated(ctx)
        return r.disagreements[0] if r.disagreements else None
    if stream == "S05-identity":
        from fractopo.branches_and_nodes import determine_branch_identity

        spec = dec(parse_resp(ctx.driver.batch([f"branchid i={case['i']} xy={case['xy']} e={case['e']}"])[0])["label"])
        got = determine_branch_identity(case["i"], case["xy"], case["e"])
        return None if got == spec else Disagreement(stream, case, spec, got, True)
    from shapely.geometry import LineString, Polygon

    from harness.common import parse_lines

    args = dict(tok.split("=", 1) for tok in case["request"].split(" ")[1:])
    t = float(Fraction(args["t"]))
    fl = lambda l: [(float(x), float(y)) for x, y in l]  # noqa: E731
    branches = [LineString(fl(l)) for l in parse_lines(case.get("full") or args["branches"])]
    areas = []
    for row in args["areas"].split("#"):
        from shapely.geometry import MultiPolygon

        pgs = []
        for pg in row.split("&"):
            rings = parse_lines(pg)
            pgs.append(Polygon(fl(rings[0]), [fl(r) for r in rings[1:]]))
        areas.append(pgs[0] if len(pgs) == 1 else MultiPolygon(pgs))
    res = StreamResult("replay")
    run_cases(ctx, [(branches, areas, t, case.get("meta", {}))], res, stream)
    return res.disagreements[0] if res.disagreements else None
