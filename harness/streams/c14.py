"""S14 — the four routes to the topology, the fixed point, and the GeoJSON round trip."""
from __future__ import annotations

import tempfile
from collections import Counter
from fractions import Fraction as F
from pathlib import Path

from harness.common import Disagreement, StreamResult, area_rows, budget, import_fractopo, lines, rng_for
from harness.mapgen import to_float_lines, valid_maps
from harness.streams import c01

ALL_ROUTES = ("direct", "cropfirst", "network", "network_notrunc")


def cut_share(ar):
    return sum(1 for _, c in ar.nodes if c == "E")


def s14_routes(ctx):
    import_fractopo()
    res = StreamResult("S14-routes", rule="valid maps (Lean oracle, margin 50 x snap) with areas cutting traces -- incl. abutment targets cut by the "
                       "boundary -- x the four routes (already_clipped False / crop first + already_clipped True / Network truncate True / False), each "
                       "compared with the exact arrangement; non-trivial = map with a boundary cut and a Y or X node")
    rng = rng_for(ctx.seed, "S14")
    per = budget(ctx.tier, 20, 400)
    for unit, off, t in [(F(1), F(0), 0.01), (F(1), F(0), 0.001), (F(1), F(10**7), 0.01), (F(1, 64), F(0), 0.0001)]:
        maps, rejected = valid_maps(ctx, rng, per, F(t), unit=unit, off=off, area_kinds=("box", "circle", "concave"))
        maps = [m for m in maps if cut_share(m[3]) > 0] or maps
        before = res.nontrivial
        c01.run_maps(ctx, maps, t, res, "S14-routes", routes=ALL_ROUTES, meta={"unit": str(unit), "off": str(off)})
        res.nontrivial = before + sum(1 for m in maps if cut_share(m[3]) > 0 and any(c in "XY" for _, c in m[3].nodes))
    return res


def s14_fixed_point_io(ctx):
    import_fractopo()
    import geopandas as gpd

    from fractopo import Network
    from fractopo.branches_and_nodes import branches_and_nodes
    from fractopo.general import read_geofile

    res = StreamResult("S14-fixedpoint-io", rule="valid maps: re-extraction from the produced branches (already_clipped=True) and a Network rebuilt from "
                       "branches/nodes written with write_branches_and_nodes and read back; non-trivial = map with an X or Y node")
    rng = rng_for(ctx.seed, "S14b")
    t = 0.01
    maps, _ = valid_maps(ctx, rng, budget(ctx.tier, 20, 300), F(t), area_kinds=("box", "circle"))
    tmp = Path(tempfile.mkdtemp(prefix="fv_c14_", dir="/var/tmp"))
    try:
        for i, (traces, area, kind, ar) in enumerate(maps):
            res.evaluations += 1
            case = {"stream": "S14-fixedpoint-io", "t": t, "traces": lines(traces), "areas": area_rows([area]), "area_kind": kind}
            if any(c in "XY" for _, c in ar.nodes):
                res.nontrivial += 1
            tr = gpd.GeoDataFrame(geometry=to_float_lines(traces))
            area_gdf = gpd.GeoDataFrame(geometry=[area])
            try:
                net = Network(trace_gdf=tr, area_gdf=area_gdf, name=f"n{i}", determine_branches_nodes=True, snap_threshold=t, truncate_traces=True,
                              circular_target_area=(kind == "circle"))
                b2, n2 = branches_and_nodes(gpd.GeoDataFrame(geometry=list(net.branch_gdf.geometry.values)), area_gdf, t, already_clipped=True)
                nodes2 = [((p.x, p.y), c) for p, c in zip(n2.geometry.values, n2["Class"].values)]
                br2 = [(c, g.coords[0][:2], g.coords[-1][:2]) for g, c in zip(b2.geometry.values, b2["Connection"].values)]
                un_m, un_i, ub_m, ub_i = c01.compare(ar, nodes2, br2, t)
                if un_m or un_i or ub_m or ub_i:
                    res.disagreements.append(Disagreement("S14-fixedpoint-io", dict(case, step="re-extraction"), {"nodes": dict(Counter(c for _, c in ar.nodes))},
                                                          {"nodes": dict(Counter(c for _, c in nodes2)), "branches": dict(Counter(l for l, _, _ in br2))}, True,
                                                          "re-extraction from the branches does not reproduce the topology"))
                    continue
                d = tmp / f"m{i}"
                d.mkdir()
                net.write_branches_and_nodes(d)
                rb = read_geofile(d / f"n{i}_branches.geojson")
                rn = read_geofile(d / f"n{i}_nodes.geojson")
                net2 = Network(trace_gdf=tr, area_gdf=area_gdf, name=f"n{i}", determine_branches_nodes=False, snap_threshold=t, truncate_traces=True,
                               circular_target_area=(kind == "circle"), branch_gdf=rb, node_gdf=rn)
                same = (net.node_counts == net2.node_counts and net.branch_counts == net2.branch_counts)
                p1, p2 = net.parameters, net2.parameters
                for k in p1:
                    a, b = p1[k], p2.get(k)
                    if not ((a != a and b != b) or (b is not None and abs(a - b) <= 1e-9 * max(1.0, abs(a)))):
                        same = False
                if not same:
                    res.disagreements.append(Disagreement("S14-fixedpoint-io", dict(case, step="geojson round trip"), {"counts": net.node_counts, "params": p1},
                                                          {"counts": net2.node_counts, "params": p2}, True, "Network rebuilt from written branches/nodes reports different counts or parameters"))
            except Exception as e:
                res.disagreements.append(Disagreement("S14-fixedpoint-io", case, None, f"{type(e).__name__}: {str(e)[:200]}", True, "raised"))
        res.samples = [{"maps": len(maps)}]
    finally:
        import shutil

        shutil.rmtree(tmp, ignore_errors=True)
    return res


STREAMS = [s14_routes, s14_fixed_point_io]


def replay(ctx, stream, case):
    if stream == "S14-routes":
        return c01.replay(ctx, stream, case)
    r = s14_fixed_point_io(ctx)
    return r.disagreements[0] if r.disagreements else None
