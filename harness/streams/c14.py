"""S14 — the four routes to the topology, the fixed point, and the GeoJSON round trip."""
from __future__ import annotations

import tempfile
from collections import Counter
from fractions import Fraction as F
from pathlib import Path

from harness.common import Disagreement, StreamResult, area_rows, budget, import_fractopo, lines, rng_for
from harness.mapgen import to_float_lines, valid_maps
from harness.streams import c01

ALL_ROUTES = ("direct", "cropfirst", "network", "network_notrunc")


def cut_share(ar):
    return sum(1 for _, c in ar.nodes if c == "E")


def s14_routes(ctx):
    import_fractopo()
    res = StreamResult("S14-routes", rule="valid maps (Lean oracle, margin 50 x snap) with areas cutting traces -- incl. abutment targets cut by the "
                       "boundary -- x the four routes (already_clipped False / crop first + already_clipped True / Network truncate True / False), each "
                       "compared with the exact arrangement; non-trivial = map with a boundary cut and a Y or X node")
    rng = rng_for(ctx.seed, "S14")
    per = budget(ctx.tier, 20, 400)
    for unit, off, t in [(F(1), F(0), 0.01), (F(1), F(0), 0.001), (F(1), F(10**7), 0.01), (F(1, 64), F(0), 0.0001)]:
        maps, rejected = valid_maps(ctx, rng, per, F(t), unit=unit, off=off, area_kinds=("box", "circle", "concave"))
        maps = [m for m in maps if cut_share(m[3]) > 0] or maps
        before = res.nontrivial
        c01.run_maps(ctx, maps, t, res, "S14-routes", routes=ALL_ROUTES, meta={"unit": str(unit), "off": str(off)})
        res.nontrivial = before + sum(1 for m in maps if cut_share(m[3]) > 0 and any(c in "XY" for _, c in m[3].nodes))
    return res


def split_box(rng, area, ar, t):
    """the box area as 2..4 ADJACENT rows (an outcrop mapped as neighbouring sub-areas / grid cells sharing edges); the cuts avoid every node of the
    arrangement by 60 x t, so the union is the same target area and no node sits on an inner edge. None if no such cut exists."""
    from shapely.geometry import box

    x0, y0, x1, y1 = area.bounds
    pts = [(float(p[0]), float(p[1])) for p, _ in ar.nodes]

    def cut(lo, hi, coord):
        for _ in range(40):
            c = lo + (hi - lo) * rng.randint(8, 56) / 64
            if all(abs(p[coord] - c) > 60 * t for p in pts):
                return c
        return None

    cx = cut(x0, x1, 0)
    if cx is None:
        return None
    mode = rng.choice(["two_columns", "two_columns_rev", "four_cells", "three"])
    if mode == "two_columns":
        return [box(x0, y0, cx, y1), box(cx, y0, x1, y1)]
    if mode == "two_columns_rev":
        return [box(cx, y0, x1, y1), box(x0, y0, cx, y1)]
    cy = cut(y0, y1, 1)
    if cy is None:
        return [box(x0, y0, cx, y1), box(cx, y0, x1, y1)]
    if mode == "four_cells":
        return [box(x0, y0, cx, cy), box(cx, y0, x1, cy), box(x0, cy, cx, y1), box(cx, cy, x1, y1)]
    return [box(x0, y0, cx, y1), box(cx, y0, x1, cy), box(cx, cy, x1, y1)]


def s14_adjacent(ctx):
    import_fractopo()
    res = StreamResult("S14-adjacent-areas", rule="valid maps (Lean oracle) in a box target area given as 2..4 ADJACENT area rows sharing edges (columns, reversed order, 2x2 cells, "
                       "one column + two cells; cuts keep 60 x snap away from every node) x the four routes, each compared with the exact arrangement of the "
                       "map in the union: a trace crossing an inner edge stays one piece; non-trivial = every map (the generated traces span the whole area)")
    rng = rng_for(ctx.seed, "S14adj")
    t = 0.01
    maps, _ = valid_maps(ctx, rng, budget(ctx.tier, 24, 400), F(t), area_kinds=("box",))
    out = []
    for traces, area, kind, ar in maps:
        rows = split_box(rng, area, ar, t)
        if rows is None:
            res.skipped["no_clean_cut"] = res.skipped.get("no_clean_cut", 0) + 1
            continue
        out.append((traces, rows, f"box as {len(rows)} adjacent rows", ar))
    before = res.nontrivial
    c01.run_maps(ctx, out, t, res, "S14-adjacent-areas", routes=ALL_ROUTES)
    res.nontrivial = before + len(out)
    return res


def s14_fixed_point_io(ctx):
    import_fractopo()
    import geopandas as gpd

    from fractopo import Network
    from fractopo.branches_and_nodes import branches_and_nodes
    from fractopo.general import read_geofile

    res = StreamResult("S14-fixedpoint-io", rule="valid maps: re-extraction from the produced branches (already_clipped=True) and a Network rebuilt from "
                       "branches/nodes written with write_branches_and_nodes and read back; non-trivial = map with an X or Y node")
    rng = rng_for(ctx.seed, "S14b")
    t = 0.01
    maps, _ = valid_maps(ctx, rng, budget(ctx.tier, 20, 300), F(t), area_kinds=("box", "circle"))
    tmp = Path(tempfile.mkdtemp(prefix="fv_c14_", dir="/var/tmp"))
    try:
        for i, (traces, area, kind, ar) in enumerate(maps):
            res.evaluations += 1
            case = {"stream": "S14-fixedpoint-io", "t": t, "traces": lines(traces), "areas": area_rows([area]), "area_kind": kind}
            if any(c in "XY" for _, c in ar.nodes):
                res.nontrivial += 1
            tr = gpd.GeoDataFrame(geometry=to_float_lines(traces))
            area_gdf = gpd.GeoDataFrame(geometry=[area])
            try:
                net = Network(trace_gdf=tr, area_gdf=area_gdf, name=f"n{i}", determine_branches_nodes=True, snap_threshold=t, truncate_traces=True,
                              circular_target_area=(kind == "circle"))
                b2, n2 = branches_and_nodes(gpd.GeoDataFrame(geometry=list(net.branch_gdf.geometry.values)), area_gdf, t, already_clipped=True)
                nodes2 = [((p.x, p.y), c) for p, c in zip(n2.geometry.values, n2["Class"].values)]
                br2 = [(c, g.coords[0][:2], g.coords[-1][:2]) for g, c in zip(b2.geometry.values, b2["Connection"].values)]
                un_m, un_i, ub_m, ub_i = c01.compare(ar, nodes2, br2, t)
                if un_m or un_i or ub_m or ub_i:
                    res.disagreements.append(Disagreement("S14-fixedpoint-io", dict(case, step="re-extraction"), {"nodes": dict(Counter(c for _, c in ar.nodes))},
                                                          {"nodes": dict(Counter(c for _, c in nodes2)), "branches": dict(Counter(l for l, _, _ in br2))}, True,
                                                          "re-extraction from the branches does not reproduce the topology"))
                    continue
                d = tmp / f"m{i}"
                d.mkdir()
                net.write_branches_and_nodes(d)
                rb = read_geofile(d / f"n{i}_branches.geojson")
                rn = read_geofile(d / f"n{i}_nodes.geojson")
                net2 = Network(trace_gdf=tr, area_gdf=area_gdf, name=f"n{i}", determine_branches_nodes=False, snap_threshold=t, truncate_traces=True,
                               circular_target_area=(kind == "circle"), branch_gdf=rb, node_gdf=rn)
                same = (net.node_counts == net2.node_counts and net.branch_counts == net2.branch_counts)
                p1, p2 = net.parameters, net2.parameters
                for k in p1:
                    a, b = p1[k], p2.get(k)
                    if not ((a != a and b != b) or (b is not None and abs(a - b) <= 1e-9 * max(1.0, abs(a)))):
                        same = False
                if not same:
                    res.disagreements.append(Disagreement("S14-fixedpoint-io", dict(case, step="geojson round trip"), {"counts": net.node_counts, "params": p1},
                                                          {"counts": net2.node_counts, "params": p2}, True, "Network rebuilt from written branches/nodes reports different counts or parameters"))
            except Exception as e:
                res.disagreements.append(Disagreement("S14-fixedpoint-io", case, None, f"{type(e).__name__}: {str(e)[:200]}", True, "raised"))
        res.samples = [{"maps": len(maps)}]
    finally:
        import shutil

        shutil.rmtree(tmp, ignore_errors=True)
    return res


def s14_slivers(ctx):
    """traces that clip a corner of the area so that the part inside is a sliver of 0.5 .. 4 x snap: whatever the package decides
    to do with a sliver (the documented minimum trace length is 2.01 x snap), all four routes must decide the same"""
    import_fractopo()
    import math

    from shapely.geometry import box

    res = StreamResult("S14-slivers", rule="a fixed valid base (X, Y, boundary cuts) + 1..4 traces clipping the corners of a box area with a chord of "
                       "0.5 .. 4 x snap inside (sliver shorter / longer than the minimum trace length 2.01 x snap), thresholds 0.1 / 0.01 / 0.001, offsets 0 / 1e4: "
                       "the four routes must give the same node and branch tables (classes and counts; coordinates within snap/100); "
                       "non-trivial = at least one sliver with a chord in (1.01, 2.01] x snap")
    rng = rng_for(ctx.seed, "S14s")
    for _ in range(budget(ctx.tier, 24, 500)):
        t = rng.choice([0.1, 0.01, 0.001])
        off = rng.choice([0.0, 10000.0])
        h = rng.choice([50.0, 64.0])
        area = box(off - h, off - h, off + h, off + h)
        base = [[(-70.0, 3.0), (70.0, 5.0)], [(-20.0, -70.0), (-18.0, 30.0)], [(10.0, 4.142857142857143 if False else 4.0 + 10.0 / 70.0), (14.0, 40.0)]]
        base = [[(-70.0, 3.0), (70.0, 3.0)], [(-20.0, -70.0), (-20.0, 30.0)], [(10.0, 3.0), (14.0, 40.0)]]
        traces = [[(off + x, off + y) for x, y in l] for l in base]
        chords = []
        for (sx, sy) in rng.sample([(1, 1), (1, -1), (-1, 1), (-1, -1)], rng.randint(1, 4)):
            c = rng.choice([0.5, 0.9, 1.2, 1.5, 1.8, 2.0, 2.3, 3.0, 4.0])
            s_ = c * t / math.sqrt(2.0)
            p = (off + sx * (h - s_ - 3.0), off + sy * (h + 3.0))
            q = (off + sx * (h + 3.0), off + sy * (h - s_ - 3.0))
            traces.append([p, q] if rng.random() < 0.5 else [q, p])
            chords.append(c)
        rng.shuffle(traces)
        case = {"stream": "S14-slivers", "t": t, "traces": traces, "area_wkt": area.wkt, "chords_over_t": chords}
        d = _compare_routes(case)
        res.evaluations += 1
        if any(1.01 < c <= 2.01 for c in chords):
            res.nontrivial += 1
        res.distribution[f"slivers={len(chords)}"] = res.distribution.get(f"slivers={len(chords)}", 0) + 1
        if d is not None:
            res.disagreements.append(d)
    res.samples = [{"example_chords_over_t": [0.5, 1.5, 2.3]}]
    return res


def _compare_routes(case):
    from shapely import wkt as _wkt

    area = _wkt.loads(case["area_wkt"])
    t = case["t"]
    traces = [[(F(x), F(y)) for x, y in l] for l in case["traces"]]
    tables = {}
    for route in ALL_ROUTES:
        try:
            nodes, branches = c01.impl_topology(traces, area, t, route)
        except Exception as e:  # noqa: BLE001
            tables[route] = f"{type(e).__name__}: {str(e)[:120]}"
            continue
        tables[route] = (sorted((round(p[0] / (t / 100)), round(p[1] / (t / 100)), c) for p, c in nodes),
                         sorted((lab,) + tuple(sorted([(round(a[0] / (t / 100)), round(a[1] / (t / 100))), (round(b[0] / (t / 100)), round(b[1] / (t / 100)))])) for lab, a, b in branches))
    ref = tables[ALL_ROUTES[0]]
    for route in ALL_ROUTES[1:]:
        if tables[route] != ref:
            summ = {r: (v if isinstance(v, str) else {"nodes": dict(Counter(c for _, _, c in v[0])), "branches": dict(Counter(b[0] for b in v[1]))}) for r, v in tables.items()}
            return Disagreement("S14-slivers", case, summ[ALL_ROUTES[0]], summ, True, f"route {route} gives other nodes/branches than route {ALL_ROUTES[0]} (same traces, same area, same threshold)")
    return None


STREAMS = [s14_routes, s14_adjacent, s14_fixed_point_io, s14_slivers]


def replay(ctx, stream, case):
    if stream == "S14-routes":
        return c01.replay(ctx, stream, case)
    if stream == "S14-adjacent-areas":
        import_fractopo()
        from shapely.geometry import Polygon, box
        from shapely.ops import unary_union

        from harness.common import parse_lines
        from harness.mapgen import Arrangement, arr_request

        traces = parse_lines(case["traces"])
        rows = [Polygon([(float(x), float(y)) for x, y in parse_lines(r.split("&")[0])[0]]) for r in case["areas"].split("#")]
        whole = box(*unary_union(rows).bounds)
        ar = Arrangement(ctx.driver.batch([arr_request(traces, [whole], F(case["t"]))])[0])
        if not ar.valid:
            return None
        res = StreamResult("replay")
        c01.run_maps(ctx, [(traces, rows, case.get("area_kind"), ar)], case["t"], res, stream, routes=(case["route"],) if "route" in case else ALL_ROUTES)
        return res.disagreements[0] if res.disagreements else None
    if stream == "S14-slivers":
        import_fractopo()
        return _compare_routes(case)
    r = s14_fixed_point_io(ctx)
    return r.disagreements[0] if r.disagreements else None
