"""S04 — branches partition the traces: on the traces, inside the area, no overlaps, nothing lost."""
from __future__ import annotations

import math
import multiprocessing as mp
from fractions import Fraction as F

from harness.common import Disagreement, StreamResult, area_rows, budget, import_fractopo, lines, parse_lines, parse_resp, rat, rng_for
from harness.mapgen import valid_maps
from harness.streams.c07 import gen_areas


def extract(arg):
    traces, area_wkts, t = arg[:3]
    zmask = arg[3] if len(arg) > 3 else None
    import_fractopo()
    import geopandas as gpd
    from shapely import wkt
    from shapely.geometry import LineString

    from fractopo.branches_and_nodes import branches_and_nodes

    geoms = [LineString(l) for l in traces]
    if zmask:
        # traces digitised with elevation values: the branches are those of the plan view, to the last digit
        geoms = [LineString([(x, y, 100.0 + j) for j, (x, y) in enumerate(l)]) if z else g for g, l, z in zip(geoms, traces, zmask)]
    tr = gpd.GeoDataFrame(geometry=geoms)
    ar = gpd.GeoDataFrame(geometry=[wkt.loads(w) for w in area_wkts])
    try:
        b, n = branches_and_nodes(tr, ar, t, already_clipped=False)
        return [[c[:2] for c in g.coords] for g in b.geometry.values]
    except Exception as e:
        return f"{type(e).__name__}: {str(e)[:100]}"


def gen_invalid(rng, t):
    """LineString sets with duplicates, reversed duplicates, partial stacks, V-nodes, dangling under/overshoots, tiny traces"""
    n = rng.randint(2, 7)
    tr = []
    for _ in range(n):
        k = rng.randint(2, 4)
        pts = [(rng.randint(-160, 160) / 8, rng.randint(-160, 160) / 8)]
        for _ in range(k - 1):
            pts.append((pts[-1][0] + rng.randint(-120, 120) / 8, pts[-1][1] + rng.randint(-120, 120) / 8))
        if len(set(pts)) == len(pts):
            tr.append(pts)
    if not tr:
        tr = [[(-10.0, 0.5), (10.0, 1.5)]]
    extra = []
    for l in tr:
        r = rng.random()
        if r < 0.12:
            extra.append(list(l))                      # exact duplicate
        elif r < 0.2:
            extra.append(list(l)[::-1])                # reversed duplicate
        elif r < 0.3 and len(l) >= 3:
            extra.append([l[1], l[0], l[2]] if len(l) == 3 else [l[1], l[3], l[0], l[2]])  # same vertices, different order
        elif r < 0.4:
            a, b = l[0], l[1]
            extra.append([a, ((a[0] + b[0]) / 2, (a[1] + b[1]) / 2)])  # partial stack on the first segment
        elif r < 0.5:
            extra.append([l[-1], (l[-1][0] + 3.0, l[-1][1] - 2.0)])    # V-node
        elif r < 0.65:
            a, b = l[0], l[1]
            u = rng.choice([0.3, 0.6])
            m = (a[0] + u * (b[0] - a[0]), a[1] + u * (b[1] - a[1]))
            L = math.hypot(b[0] - a[0], b[1] - a[1])
            nx, ny = -(b[1] - a[1]) / L, (b[0] - a[0]) / L
            g = rng.choice([-5, -0.5, 0.5, 5]) * t
            extra.append([(m[0] + nx * 6, m[1] + ny * 6), (m[0] + nx * g, m[1] + ny * g)])  # dangling under/overshoot
        elif r < 0.7:
            extra.append([(l[0][0] + 1.0, l[0][1] + 1.0), (l[0][0] + 1.0 + 1.5 * t, l[0][1] + 1.0)])  # tiny trace
        elif r < 0.85:
            # mirror image inside the same bounding box: same bounds, same length, same vertex count, different trace
            xs, ys = [p[0] for p in l], [p[1] for p in l]
            if rng.random() < 0.5:
                m = [(p[0], min(ys) + max(ys) - p[1]) for p in l]
            else:
                m = [(min(xs) + max(xs) - p[0], p[1]) for p in l]
            if m != list(l) and m[::-1] != list(l):
                extra.append(m)
    tr += extra
    rng.shuffle(tr)
    return tr


F25_KEY = "F25:target-dragged-by-both-ends-of-a-trace-alongside"
ONTRACE = "a branch leaves the input traces by more than the threshold"


def f25_region(ctx, c, b) -> bool:
    """trigger of known finding F25: some trace has BOTH ends within 2 x snap of one and the same other trace (it runs alongside it: an
    invalid, stacked input), and the branches stay within 2 x snap of the input traces (one drag per end)"""
    from shapely.geometry import LineString, Point

    ls = [LineString(l) for l in c["traces"]]
    t2 = 2 * c["t"]
    trig = any(i != j and Point(c["traces"][i][0]).distance(ls[j]) < t2 and Point(c["traces"][i][-1]).distance(ls[j]) < t2
               for i in range(len(ls)) for j in range(len(ls)))
    if not trig:
        return False
    m = parse_resp(ctx.driver.batch([f"cover t={rat(2 * F(c['t']))} areas={c['areas']} traces={lines(c['traces'])} branches={lines(b)}"])[0])
    return m.get("ontrace") == "1"


def judge(ctx, cases, res, stream):
    outs_args = [(c["traces"], c["area_wkts"], c["t"], c.get("z")) for c in cases]
    with mp.get_context("fork").Pool(16, maxtasksperchild=16) as pool:
        outs = pool.map(extract, outs_args, chunksize=2)
    reqs, idx = [], []
    for i, (c, b) in enumerate(zip(cases, outs)):
        res.evaluations += 1
        if isinstance(b, str):
            res.skipped["extraction_raised_on_invalid_input" if not c["valid"] else "RAISED"] = res.skipped.get("extraction_raised_on_invalid_input" if not c["valid"] else "RAISED", 0) + 1
            if c["valid"]:
                res.disagreements.append(Disagreement(stream, c, "branches", b, True, "extraction raised on a valid map"))
            continue
        reqs.append(f"cover t={rat(c['t'])} areas={c['areas']} traces={lines(c['traces'])} branches={lines(b)}")
        idx.append(i)
    resps = ctx.driver.parallel(reqs)
    for i, resp in zip(idx, resps):
        c, b = cases[i], outs[i]
        m = parse_resp(resp)
        res.nontrivial += 1
        res.distribution[c["kind"]] = res.distribution.get(c["kind"], 0) + 1
        problems = []
        if m.get("ontrace") != "1":
            problems.append(ONTRACE)
        if m.get("inarea") != "1":
            problems.append("a branch lies outside the target areas")
        if m.get("overlap") == "1":
            problems.append("two branches overlap along a positive length")
        if m.get("uncovered", "0") != "0":
            problems.append(f"{m['uncovered']} sample points of trace parts inside the areas are not covered by any branch (first {m.get('first')})")
        if c["valid"] and not problems:
            pieces = parse_lines(m.get("clip", ""))
            clip_len = sum(math.hypot(float(q[0] - p[0]), float(q[1] - p[1])) for pc in pieces for p, q in zip(pc[:-1], pc[1:]))
            br_len = sum(math.hypot(q[0] - p[0], q[1] - p[1]) for br in b for p, q in zip(br[:-1], br[1:]))
            if abs(clip_len - br_len) > 1e-7 * max(1.0, clip_len):
                problems.append(f"total branch length {br_len!r} != length of the traces inside the areas {clip_len!r}")
        if len(res.samples) < 2:
            res.samples.append({"traces": c["traces"][:3], "t": c["t"], "model": resp[:160]})
        if problems == [ONTRACE] and not c["valid"] and f25_region(ctx, c, b):
            c["finding_key"] = F25_KEY
        if problems:
            res.disagreements.append(Disagreement(stream, c, resp[:300], {"branches": len(b)}, True, "; ".join(problems)[:400]))


def s04_invalid(ctx):
    import_fractopo()
    res = StreamResult("S04-any-input", rule="arbitrary LineString sets (duplicates, reversed duplicates, same vertices in another order, partial stacks, V-nodes, dangling "
                       "under/overshoots of 0.5 / 5 x snap, tiny traces) x box / concave / holed / multipolygon / several-row areas x thresholds; exact checks in the driver; "
                       "non-trivial = extraction completed")
    rng = rng_for(ctx.seed, "S04")
    cases = []
    for _ in range(budget(ctx.tier, 160, 4000)):
        t = rng.choice([0.01, 0.001, 0.1])
        kind, areas = gen_areas(rng)
        tr = gen_invalid(rng, t)
        cases.append({"stream": "S04-any-input", "traces": tr, "area_wkts": [a.wkt for a in areas], "areas": area_rows(areas), "t": t, "kind": kind, "valid": False})
    judge(ctx, cases, res, "S04-any-input")
    return res


def s04_valid(ctx):
    import_fractopo()
    res = StreamResult("S04-valid-length", rule="valid maps (Lean oracle; also maps 1/4096 the size with threshold 1e-6 and Z values on most traces): all of the above plus total branch length = exact length of the traces inside the area; "
                       "non-trivial = every map")
    rng = rng_for(ctx.seed, "S04v")
    cases = []
    # second setting: a map a few 1e-3 across with a threshold of 1e-6 (coordinates need all their digits), Z values on two traces in three
    for unit, t, with_z, n in ((F(1), 0.01, False, budget(ctx.tier, 40, 800)), (F(1, 4096), 0.000001, True, budget(ctx.tier, 12, 200))):
        maps, _ = valid_maps(ctx, rng, n, F(t), unit=unit)
        for traces, area, kind, ar in maps:
            c = {"stream": "S04-valid-length", "traces": [[(float(x), float(y)) for x, y in l] for l in traces], "area_wkts": [area.wkt], "areas": area_rows([area]),
                 "t": t, "kind": kind, "valid": True}
            if with_z:
                c["z"] = [i % 3 != 0 for i in range(len(traces))]
                res.distribution["fine_maps_with_z_values"] = res.distribution.get("fine_maps_with_z_values", 0) + 1
            cases.append(c)
    judge(ctx, cases, res, "S04-valid-length")
    return res


def s04_stubs(ctx):
    """explicit gadgets with an exactly known total length: a trace ending exactly on (or crossing) a host close to the host's tip,
    so that the host's last branch is a stub of 1.05..3 x snap -- longer than the documented minimum branch length (1.01 x snap)"""
    import_fractopo()
    from shapely.geometry import box

    res = StreamResult("S04-stubs", rule="host + a trace abutting / crossing it at 1.05..3 x snap from the host's tip, 8 lattice symmetries + generic rotations, "
                       "thresholds 0.1/0.01/0.001: every stub longer than 1.01 x snap must be a branch: total branch length = total trace length, exact checks of the driver; "
                       "non-trivial = every gadget")
    rng = rng_for(ctx.seed, "S04s")
    cases = []
    area = box(-500, -500, 500, 500)
    for _ in range(budget(ctx.tier, 60, 1500)):
        t = rng.choice([0.1, 0.01, 0.001])
        s_ = rng.choice([1.05, 1.2, 1.5, 1.9, 2.005, 2.5, 3.0]) * t
        L = rng.choice([8.0, 16.0, 40.0])
        cross = rng.random() < 0.4
        host = [(0.0, 0.0), (L, 0.0)]
        other = [(L - s_, -7.0 if cross else 0.0), (L - s_ + rng.choice([0.0, 2.0, -3.0]), 9.0)]
        if cross:
            other = [(L - s_, -7.0), (L - s_, 9.0)]
        if rng.random() < 0.5:
            c_, s2 = rng.choice([(1, 0), (0, 1), (-1, 0), (0, -1)])
        else:
            a = rng.uniform(0, 2 * math.pi)
            c_, s2 = math.cos(a), math.sin(a)
        if not (c_ in (0, 1, -1)) and not cross:
            # generic rotation makes the abutment inexact: use a crossing instead (exact contacts are not needed for a crossing)
            other = [(L - s_, -7.0), (L - s_, 9.0)]
        mir = rng.choice([1, -1])
        ox, oy = rng.choice([0.0, 100.0, -250.5]), rng.choice([0.0, 33.25])
        def tf(p):
            x, y = p[0], p[1] * mir
            return (ox + c_ * x - s2 * y, oy + s2 * x + c_ * y)
        tr = [[tf(p) for p in host], [tf(p) for p in other]]
        rng.shuffle(tr)
        cases.append({"stream": "S04-stubs", "traces": tr, "area_wkts": [area.wkt], "areas": area_rows([area]), "t": t, "kind": f"stub_{'x' if cross else 'y'}", "valid": True,
                      "stub_over_t": s_ / t})
    judge(ctx, cases, res, "S04-stubs")
    return res


def s04_generated(ctx):
    """translator validation: the REGENERATED filter_non_unique_traces (compiled into gen_c04) vs the real function"""
    import_fractopo()
    import math as _m

    import geopandas as gpd
    from shapely import wkt as _wkt
    from shapely.geometry import LineString
    from shapely.wkt import dumps

    from fractopo.branches_and_nodes import filter_non_unique_traces

    res = StreamResult("S04-generated", rule="regenerated filter_non_unique_traces (Lean, compiled) vs the real function: 2..9 traces with exact duplicates, reversed copies, copies "
                       "shifted by 0.3 / 3 x the rounding step and same-bounds mirror images, thresholds 0.1 / 0.01 / 0.001; the keys are computed with the source's own "
                       "`dumps(geom, rounding_precision=int(-log10(snap)))`; compared: which rows survive; non-trivial = a row is dropped")
    if ctx.gen is None:
        res.note = "gen_c04 not built (a generated module is broken): skipped"
        res.skipped["generated_driver_not_built"] = 1
        return res
    rng = rng_for(ctx.seed, "S04g")
    cases, reqs = [], []
    for _ in range(budget(ctx.tier, 300, 5000)):
        t = rng.choice([0.1, 0.01, 0.001])
        step = 10.0 ** -int(-_m.log10(t))
        base = []
        for _ in range(rng.randint(1, 4)):
            k = rng.randint(2, 3)
            base.append([(rng.randint(-40, 40) / 4, rng.randint(-40, 40) / 4) for _ in range(k)])
        base = [b for b in base if len(set(b)) == len(b)]
        if not base:
            continue
        trs = list(base)
        for _ in range(rng.randint(1, 5)):
            b = rng.choice(base)
            mode = rng.choice(["dup", "rev", "near", "far", "mirror"])
            if mode == "dup":
                trs.append(list(b))
            elif mode == "rev":
                trs.append(list(reversed(b)))
            elif mode == "near":
                trs.append([(x + 0.3 * step, y) for x, y in b])
            elif mode == "far":
                trs.append([(x + 3.0 * step, y) for x, y in b])
            else:
                ys = [y for _, y in b]
                trs.append([(x, min(ys) + max(ys) - y) for x, y in b])
        rng.shuffle(trs)
        geoms = [LineString(tr) for tr in trs]
        keys = [dumps(g, rounding_precision=int(-_m.log10(t))) for g in geoms]
        cases.append((t, geoms))
        reqs.append("gdedupe keys=" + ";".join(k.replace(" ", "_") for k in keys))
    resps = ctx.gen.parallel(reqs)
    for (t, geoms), req, resp in zip(cases, reqs, resps):
        res.evaluations += 1
        out = filter_non_unique_traces(gpd.GeoSeries(geoms), t)
        want = [int(i) for i in out.index]
        r = parse_resp(resp)
        got = [int(x) for x in r.get("kept", "").split(",") if x]
        res.nontrivial += int(len(want) < len(geoms))
        if got != want:
            res.disagreements.append(Disagreement("S04-generated", {"stream": "S04-generated", "request": req[:2000], "t": t}, got, want, None,
                                                  "regenerated filter_non_unique_traces (Lean) and the Python function keep different rows"))
    res.samples = [{"request": reqs[0][:200], "response": resps[0][:100]}] if reqs else []
    return res


STREAMS = [s04_invalid, s04_valid, s04_stubs, s04_generated]


def replay_finding(ctx, k):
    import json

    from harness.common import VERIF

    case = json.loads((VERIF / k["witness"]).read_text())["case"]
    return replay(ctx, case["stream"], case) is not None


def replay(ctx, stream, case):
    if stream == "S04-generated":
        r = s04_generated(ctx)
        return r.disagreements[0] if r.disagreements else None
    res = StreamResult("replay")
    c = dict(case)
    c["traces"] = [[tuple(p) for p in l] for l in case["traces"]]
    judge(ctx, [c], res, stream)
    return res.disagreements[0] if res.disagreements else None
