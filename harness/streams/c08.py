"""S08 — parameters: the real determine_topology_parameters / weights / boundary counts against the
published definitions evaluated exactly (Spec.NetIn.param in the driver)."""
from __future__ import annotations

import itertools
import math
from fractions import Fraction

from harness.common import Disagreement, StreamResult, budget, dec, enc, import_fractopo, parse_resp, rat, rng_for

REL = 1e-9


def close(a: float, q: Fraction) -> bool:
    if a != a:
        return False
    qa = float(q)
    return abs(a - qa) <= REL * max(1.0, abs(qa), abs(a))


def gen_input(rng):
    mode = rng.random()
    def cnt():
        r = rng.random()
        if r < 0.3:
            return 0
        if r < 0.8:
            return rng.randint(1, 6)
        return rng.randint(7, 5000)
    X, Y, I, E = cnt(), cnt(), cnt(), cnt()
    if mode < 0.15:
        Y = I = 0
    elif mode < 0.25:
        X = Y = I = 0
    def lens():
        r = rng.random()
        if r < 0.15:
            return []
        n = rng.randint(1, 12)
        if r < 0.25:
            return [0.0] * n
        scale = rng.choice([1.0, 1e-3, 1e4])
        return [rng.randint(0, 4096) / 64 * scale for _ in range(n)]
    area = rng.choice([1.0, 0.015625, 37.5, 1e6, rng.randint(1, 10**6) / 128])
    return dict(X=X, Y=Y, I=I, E=E, tl=lens(), bl=lens(), area=area, circ=rng.random() < 0.5)


def request(c):
    import numpy as np

    sq = float(np.sqrt(c["area"] / np.pi))
    return (f"params X={c['X']} Y={c['Y']} I={c['I']} E={c['E']} tl={','.join(rat(v) for v in c['tl'])} "
            f"bl={','.join(rat(v) for v in c['bl'])} area={rat(c['area'])} circ={int(c['circ'])} pi={rat(float(np.pi))} sqrtv={rat(sq)}")


def impl(c):
    import numpy as np
    from fractopo.analysis.parameters import determine_topology_parameters

    return determine_topology_parameters(
        trace_length_array=np.array(c["tl"], dtype=float), area=float(c["area"]), branches_defined=True,
        correct_mauldon=c["circ"], node_counts={"X": c["X"], "Y": c["Y"], "I": c["I"], "E": c["E"]},
        branch_length_array=np.array(c["bl"], dtype=float))


def compare(c, resp, got=None):
    """returns (ok, model dict, impl dict, note)"""
    r = parse_resp(resp)
    if "params" not in r:
        return None, resp, None, "model rejected request"
    model = {}
    for tok in r["params"].split("|"):
        k, v = tok.rsplit(":", 1)
        model[dec(k)] = v
    try:
        got = impl(c) if got is None else got
    except Exception as e:
        return False, model, f"{type(e).__name__}: {e}", "implementation raised (the property demands zero instead of a division error)"
    bad = []
    for k, v in model.items():
        if k not in got:
            bad.append((k, v, "missing"))
        elif v == "nan":
            if got[k] == got[k]:
                bad.append((k, v, got[k]))
        elif not close(float(got[k]), Fraction(v)):
            bad.append((k, float(Fraction(v)), float(got[k])))
    extra = [k for k in got if k not in model]
    if extra:
        bad.append(("undocumented keys", "", extra))
    return (not bad), model, {k: (float(v) if v == v else "nan") for k, v in got.items()}, f"differing entries: {bad}"


def s08_params(ctx):
    import_fractopo()
    res = StreamResult("S08a-params", rule="random node-count vectors (zeros, small, large; all-zero and Y=I=0 corners), length arrays incl. empty / "
                       "all-zero, areas, both values of the circular flag; non-trivial = distinct input with a zero denominator count or X,Y,I all > 0")
    rng = rng_for(ctx.seed, "S08a")
    cases = [c["case"] for c in ctx.corpus_cases("S08a-params")]
    # exhaustive small corner: all count vectors in {0,1,2}^4
    for X, Y, I, E in itertools.product(range(3), repeat=4):
        cases.append(dict(X=X, Y=Y, I=I, E=E, tl=[1.0, 3.0], bl=[0.5, 1.5, 2.0], area=4.0, circ=(X + E) % 2 == 0))
    for _ in range(budget(ctx.tier, 600, 20000)):
        cases.append(gen_input(rng))
    resps = ctx.driver.parallel([request(c) for c in cases])
    seen = set()
    for c, resp in zip(cases, resps):
        res.evaluations += 1
        ok, model, got, note = compare(c, resp)
        key = (c["X"], c["Y"], c["I"], c["E"], tuple(c["tl"]), tuple(c["bl"]), c["area"], c["circ"])
        zero_den = (c["Y"] + c["I"] == 0) or (4 * c["X"] + 3 * c["Y"] + c["I"] == 0)
        if key not in seen and (zero_den or min(c["X"], c["Y"], c["I"]) > 0):
            seen.add(key)
            res.nontrivial += 1
        res.distribution["zero_denominator"] = res.distribution.get("zero_denominator", 0) + int(zero_den)
        res.distribution["empty_traces"] = res.distribution.get("empty_traces", 0) + int(not c["tl"])
        res.distribution["circular"] = res.distribution.get("circular", 0) + int(c["circ"])
        if len(res.samples) < 2:
            res.samples.append({"case": c, "model": model})
        if not ok:
            res.disagreements.append(Disagreement("S08a-params", {"stream": "S08a-params", "case": c}, model, got, True if ok is False else None, note))
    return res


def s08_weights(ctx):
    import_fractopo()
    import numpy as np
    from fractopo import general
    from fractopo.analysis.parameters import branches_intersect_boundary

    res = StreamResult("S08a-weights", rule="boundary weight for counts -3..6 (incl. numpy ints); bool_arrays_sum on all 4 pairs; "
                       "branch boundary count for all 7 labels; non-trivial = all", )
    cs = list(range(-3, 7))
    resps = ctx.driver.batch([f"bweight c={c}" for c in cs])
    for c, resp in zip(cs, resps):
        res.evaluations += 1
        res.nontrivial += 1
        spec = parse_resp(resp)["weight"]
        for arg in (c, np.int64(c)):
            try:
                got = str(general.intersection_count_to_boundary_weight(arg))
            except ValueError:
                got = "error"
            except Exception as e:
                got = type(e).__name__
            if got != spec:
                res.disagreements.append(Disagreement("S08a-weights", {"stream": "S08a-weights", "c": c}, spec, got, True, "boundary weight"))
    for a, b in itertools.product([False, True], repeat=2):
        res.evaluations += 1
        got = general.bool_arrays_sum(np.array([a]), np.array([b]))[0]
        if int(got) != int(a) + int(b):
            res.disagreements.append(Disagreement("S08a-weights", {"stream": "S08a-weights", "a": a, "b": b}, int(a) + int(b), int(got), True, "bool_arrays_sum"))
    labels = ["C - C", "C - I", "I - I", "C - E", "I - E", "E - E"]
    inter = branches_intersect_boundary(np.array(labels))
    cuts = np.array([l == general.EE_branch for l in labels])
    got = general.bool_arrays_sum(inter, cuts)
    for l, g in zip(labels, got):
        res.evaluations += 1
        res.nontrivial += 1
        spec = l.split(" - ").count("E")
        if int(g) != spec:
            res.disagreements.append(Disagreement("S08a-weights", {"stream": "S08a-weights", "label": l}, spec, int(g), True, "branch boundary count != number of E ends"))
    res.samples = [{"bweight": dict(zip(cs, [parse_resp(r)["weight"] for r in resps]))}]
    return res


def s08_generated(ctx):
    """translator validation: the REGENERATED loops of determine_boundary_intersecting_lines (compiled into gen_c08, exact geometry for the
    parameters) vs the real function, and the documented meaning of the count: number of ends on the boundary"""
    import_fractopo()
    import geopandas as gpd
    from shapely.geometry import LineString, box

    from fractopo.general import determine_boundary_intersecting_lines
    from harness.common import area_rows, lines as wlines, rat as wrat

    res = StreamResult("S08-generated", rule="regenerated determine_boundary_intersecting_lines (Lean, compiled) vs the real function: lines in / across a box area "
                       "with 0, 1 or 2 ends exactly on its boundary, lines crossing it entirely, lines outside, optionally a second disjoint area row (before or after) whose candidate "
                       "window overlaps the first; thresholds 0.01 / 0.001; also [intersecting] + [cuts through] "
                       "= number of ends on the boundary for lines that end inside or on it; non-trivial = a line with an end on the boundary")
    rng = rng_for(ctx.seed, "S08g")
    cases, reqs = [], []
    area = box(-8.0, -8.0, 8.0, 8.0)
    # a second, disjoint area to the right: its candidate window (bounds + 100 x threshold) overlaps the first area's, so
    # lines of the first area are candidates of the second as well
    area2 = box(8.5, -20.0, 20.0, 20.0)

    def inside():
        return (rng.randint(-28, 28) / 4, rng.randint(-28, 28) / 4)

    def on_boundary():
        s_ = rng.randint(-28, 28) / 4
        return rng.choice([(8.0, s_), (-8.0, s_), (s_, 8.0), (s_, -8.0)])

    def outside():
        return (-rng.randint(40, 60) / 4, rng.randint(-60, 20) / 4)

    for _ in range(budget(ctx.tier, 150, 2500)):
        t = rng.choice([0.01, 0.001])
        ls, ends_on = [], []
        for _ in range(rng.randint(1, 5)):
            kind = rng.choice(["in", "one", "two", "through", "out"])
            if kind == "in":
                a, b, k = inside(), inside(), 0
            elif kind == "one":
                a, b, k = inside(), on_boundary(), 1
            elif kind == "two":
                a, b, k = on_boundary(), on_boundary(), 2
            elif kind == "through":
                a, b, k = (-12.0, rng.randint(-20, 20) / 4), (-12.0 + 24.0, rng.randint(-20, 4) / 4), None
            else:
                a, b, k = outside(), (outside()[0], -20.0), None
            if a == b or (kind == "two" and (a[0] == b[0] and abs(a[0]) == 8.0 or a[1] == b[1] and abs(a[1]) == 8.0)):
                continue  # degenerate / lying along an edge
            if rng.random() < 0.5:
                a, b = b, a
            ls.append([a, b])
            ends_on.append(k)
        if not ls:
            continue
        areas = [area]
        if rng.random() < 0.5:
            areas = [area, area2] if rng.random() < 0.5 else [area2, area]
        cases.append((t, ls, ends_on, areas))
        reqs.append(f"blines t={wrat(t)} areas={area_rows(areas)} lines={wlines(ls)}")
    if ctx.gen is None:
        res.note = "gen_c08 not built (a generated module is broken): the regenerated code is not compared, the documented count still is"
        res.skipped["generated_driver_not_built"] = 1
        resps = [None] * len(reqs)
    else:
        resps = ctx.gen.parallel(reqs)
    for (t, ls, ends_on, areas), req, resp in zip(cases, reqs, resps):
        res.evaluations += 1
        i_, c_ = determine_boundary_intersecting_lines(gpd.GeoDataFrame(geometry=[LineString(l) for l in ls]), gpd.GeoDataFrame(geometry=areas), t)
        want = ([bool(x) for x in i_], [bool(x) for x in c_])
        res.nontrivial += int(any(k in (1, 2) for k in ends_on))
        res.distribution["areas=%d" % len(areas)] = res.distribution.get("areas=%d" % len(areas), 0) + 1
        if resp is not None:
            r = parse_resp(resp)
            got = ([x == "1" for x in r["intersecting"].split(",")], [x == "1" for x in r["cuts"].split(",")])
            if got != want:
                res.disagreements.append(Disagreement("S08-generated", {"stream": "S08-generated", "request": req}, got, want, None,
                                                      "regenerated determine_boundary_intersecting_lines (Lean) and the Python function disagree"))
                continue
        for k, a, b in zip(ends_on, want[0], want[1]):
            if k is not None and int(a) + int(b) != k:
                res.disagreements.append(Disagreement("S08-generated", {"stream": "S08-generated", "request": req}, k, int(a) + int(b), True,
                                                      "boundary-intersection count of a line is not the number of its ends on the boundary"))
                break
    res.samples = [{"request": reqs[0][:200], "response": resps[0]}]
    return res


def network_steps(rng, area, kind):
    """a history of analyses of ONE caller's trace frame: an overview of everything (no truncation) and the target area, in varying order"""
    from shapely.geometry import box

    overview = {"label": "overview", "area": box(-420.0, -400.0, 400.0, 410.0), "truncate": False, "circular": False, "topology": False}
    target = {"label": "target", "area": area, "truncate": True, "circular": kind == "circle", "topology": True}
    return rng.choice([[overview, target], [target, overview, target], [overview, overview, target], [target, target]])


def judge_network(net, step, t):
    """everything the property says about what a Network reports, evaluated on the Network's OWN traces, counts and area.
    returns (problems, facts needed for the parameter request)"""
    import numpy as np
    from shapely.geometry import Point

    problems = []
    geoms = list(net.trace_gdf.geometry.values)
    own_len = [float(g.length) for g in geoms]
    boundaries = [g.boundary for g in net.area_gdf.geometry.values]
    ends_on = []
    for g in geoms:
        k = 0
        for e in (g.coords[0], g.coords[-1]):
            k += int(any(Point(e[:2]).distance(b) < t for b in boundaries))
        ends_on.append(k if step["circular"] else 0)
    reported = [int(v) for v in np.asarray(net.trace_intersects_target_area_boundary)]
    if reported != ends_on:
        problems.append(f"boundary-intersection counts {reported} are not the numbers of ends on the boundary {ends_on}")
    rule = {0: 1, 1: 2, 2: 0}
    if step["circular"]:
        weights = [int(v) for v in np.asarray(net.trace_data.length_boundary_weights)]
        if weights != [rule[k] for k in ends_on]:
            problems.append(f"length weights {weights} are not 1/2/0 for the counts {ends_on}")
    plain = [float(v) for v in np.asarray(net.trace_length_array_non_weighted)]
    if len(plain) != len(own_len) or any(abs(a - b) > 1e-9 * max(1.0, b) for a, b in zip(plain, own_len)):
        problems.append(f"non-weighted trace lengths {plain[:6]} are not the lengths of the network's own traces {own_len[:6]}")
    weighted = [float(v) for v in np.asarray(net.trace_length_array)]
    want_w = [l * (rule[k] if step["circular"] else 1) for l, k in zip(own_len, ends_on)]
    if len(weighted) != len(want_w) or any(abs(a - b) > 1e-9 * max(1.0, b) for a, b in zip(weighted, want_w)):
        problems.append(f"weighted trace lengths {weighted[:6]} are not own length x weight {want_w[:6]}")
    facts = None
    if step["topology"]:
        nc = net.node_counts
        if step["circular"] and int(nc["E"]) != sum(ends_on):
            problems.append(f"E-node count {nc['E']} is not the sum of the trace end counts {sum(ends_on)}")
        facts = dict(X=int(nc["X"]), Y=int(nc["Y"]), I=int(nc["I"]), E=int(nc["E"]), tl=own_len,
                     bl=[float(g.length) for g in net.branch_gdf.geometry.values],
                     area=float(sum(g.area for g in net.area_gdf.geometry.values)), circ=bool(step["circular"]))
    return problems, facts


def run_history(ctx, traces, area, kind, steps, t, res, stream, case):
    """build the Networks of a history on the same caller's frame; judge each"""
    import geopandas as gpd

    from fractopo import Network
    from harness.mapgen import to_float_lines

    frame = gpd.GeoDataFrame({"uid": [f"u{i}" for i in range(len(traces))]}, geometry=to_float_lines(traces))
    for si, step in enumerate(steps):
        where = f"step {si + 1} ({step['label']})"
        try:
            net = Network(trace_gdf=frame, area_gdf=gpd.GeoDataFrame(geometry=[step["area"]]), name=f"h{si}", determine_branches_nodes=step["topology"],
                          truncate_traces=step["truncate"], circular_target_area=step["circular"], snap_threshold=t)
            problems, facts = judge_network(net, step, t)
            params = net.parameters if facts is not None else None
        except Exception as e:
            res.disagreements.append(Disagreement(stream, dict(case, failing_step=si), None, f"{type(e).__name__}: {str(e)[:300]}", True, f"{where}: raised"))
            return
        if problems:
            res.disagreements.append(Disagreement(stream, dict(case, failing_step=si), "the definitions evaluated on the network's own traces", problems, True,
                                                  f"{where}: " + "; ".join(problems)[:600]))
            return
        if facts is not None:
            ok, model, got, note = compare(facts, ctx.driver.batch([request(facts)])[0], got=params)
            if ok is None:
                res.skipped["model_rejected"] = res.skipped.get("model_rejected", 0) + 1
            elif not ok:
                res.disagreements.append(Disagreement(stream, dict(case, failing_step=si, facts=facts), model, got, True,
                                                      f"{where}: Network.parameters differ from the definitions evaluated on its own counts, lengths and area: {note}"[:900]))
                return


def s08_network(ctx):
    """end to end: HISTORIES of Networks built from one caller's trace frame (overview without truncation / the target area), every reported
    count, weight, length and parameter against the definitions evaluated on that Network's own traces, node counts and area"""
    import_fractopo()
    from harness.common import area_rows, lines as wlines
    from harness.mapgen import valid_maps

    res = StreamResult("S08-network", rule="valid maps (Lean oracle) in box and circular areas x histories of 2-3 Network(...) calls on the SAME caller's frame (overview box "
                       "without truncation / the target area with truncation, orders overview-target, target-overview-target, overview-overview-target, "
                       "target-target); per Network: boundary-intersection counts = ends on the boundary (circular) or 0, weights 1/2/0, plain and weighted "
                       "lengths = own lengths (x weight), E = sum of end counts, and Network.parameters = Spec.NetIn.param (Lean) on its own node counts, trace "
                       "and branch lengths and area; non-trivial = circular target area with a trace cut by the boundary")
    rng = rng_for(ctx.seed, "S08n")
    t = 0.01
    maps, _ = valid_maps(ctx, rng, budget(ctx.tier, 40, 500), Fraction(t), area_kinds=("box", "circle"))
    for traces, area, kind, ar in maps:
        res.evaluations += 1
        steps = network_steps(rng, area, kind)
        order = "-".join(s_["label"] for s_ in steps)
        res.distribution[order] = res.distribution.get(order, 0) + 1
        res.distribution[kind] = res.distribution.get(kind, 0) + 1
        if kind == "circle" and any(c == "E" for _, c in ar.nodes):
            res.nontrivial += 1
        case = {"stream": "S08-network", "t": t, "traces": wlines(traces), "areas": area_rows([area]), "area_kind": kind, "order": order}
        run_history(ctx, traces, area, kind, steps, t, res, "S08-network", case)
    res.samples = [{"maps": len(maps)}]
    return res


def s08_generated_linedata(ctx):
    """translator validation: the REGENERATED column cache of LineData (compiled into gen_c08) vs the real class, getters called in random order on
    frames with and without pre-existing (stale / user) columns of the cache's names"""
    import_fractopo()
    import geopandas as gpd
    import numpy as np
    from shapely.geometry import LineString

    from fractopo.analysis.line_data import LineData
    from fractopo.general import determine_set

    res = StreamResult("S08-generated-linedata", rule="regenerated LineData column cache (Lean, compiled) vs the real class: 1..6 axis-parallel lines (exact lengths and azimuths), boundary counts "
                       "in {0,1,2} (rarely 3: ValueError; or none at all: the AssertionError-after-store of length_array), each of the five cache columns pre-existing with "
                       "probability 1/4 (stale values), 3..6 getter calls in random order with repeats; compared: every returned array or exception and the set of columns "
                       "afterwards; non-trivial = some column pre-exists")
    if ctx.gen is None:
        res.note = "gen_c08 not built (a generated module is broken): skipped"
        res.skipped["generated_driver_not_built"] = 1
        return res
    rng = rng_for(ctx.seed, "S08ld")
    ranges, names = ((0.0, 50.0), (50.5, 130.0), (130.5, 180.0)), ("a", "b", "c")
    PROP = {"az": "azimuth_array", "set": "azimuth_set_array", "nw": "length_array_non_weighted", "w": "length_boundary_weights", "len": "length_array"}
    COL = {"pre_length": "length", "pre_azimuth": "azimuth", "pre_set": "azimuth_set", "pre_w": "boundary_weight", "pre_nw": "length non-weighted"}
    cases = []
    for _ in range(budget(ctx.tier, 250, 4000)):
        n = rng.randint(1, 6)
        geoms, lengths, azimuths = [], [], []
        for i in range(n):
            ln = rng.randint(1, 64) / 4
            if rng.random() < 0.5:
                geoms.append(LineString([(10.0 * i, 0.0), (10.0 * i + ln, 0.0)])); azimuths.append(90.0)
            else:
                geoms.append(LineString([(10.0 * i, 0.0), (10.0 * i, ln)])); azimuths.append(0.0)
            lengths.append(ln)
        r = rng.random()
        counts = [] if r < 0.08 else [rng.choice([0, 1, 2]) if rng.random() < 0.97 else 3 for _ in range(n)]
        pre = {}
        if rng.random() < 0.25:
            pre["pre_length"] = [rng.randint(0, 400) / 8 for _ in range(n)]
        if rng.random() < 0.25:
            pre["pre_azimuth"] = [rng.choice([10.0, 60.25, 140.5, 50.25, 179.0]) for _ in range(n)]
        if rng.random() < 0.25:
            pre["pre_set"] = [rng.choice(["a", "zz", "-1"]) for _ in range(n)]
        if rng.random() < 0.25:
            pre["pre_w"] = [rng.choice([0, 1, 2, 5]) for _ in range(n)]
        if rng.random() < 0.25:
            pre["pre_nw"] = [rng.randint(0, 400) / 8 for _ in range(n)]
        order = [rng.choice(list(PROP)) for _ in range(rng.randint(3, 6))]
        cases.append((geoms, lengths, azimuths, counts, pre, order))
    reqs = []
    for geoms, lengths, azimuths, counts, pre, order in cases:
        azs = sorted(set(azimuths) | set(pre.get("pre_azimuth", [])))
        table = ";".join(f"{rat(a)}:{determine_set(a, ranges, names, True)}" for a in azs)
        req = (f"glinedata order={','.join(order)} lengths={','.join(rat(v) for v in lengths)} counts={','.join(str(c) for c in counts)} "
               f"azimuths={','.join(rat(v) for v in azimuths)} detset={table}")
        for k, v in pre.items():
            req += f" {k}=" + ",".join((str(x) if k in ("pre_set", "pre_w") else rat(x)) for x in v)
        reqs.append(req)
    resps = ctx.gen.parallel(reqs)

    def fmt(g, v):
        if g == "set":
            return "set:" + ",".join(str(x) for x in v)
        if g == "w":
            return "w:" + ",".join(str(int(x)) for x in v)
        return f"{g}:" + ",".join(rat(float(x)) for x in np.asarray(v, dtype=float))

    for (geoms, lengths, azimuths, counts, pre, order), req, resp in zip(cases, reqs, resps):
        res.evaluations += 1
        res.nontrivial += int(bool(pre))
        data = {COL[k]: v for k, v in pre.items()}
        frame = gpd.GeoDataFrame(data, geometry=geoms)
        ld = LineData(_line_gdf=frame, using_branches=False, azimuth_set_ranges=ranges, azimuth_set_names=names, area_boundary_intersects=np.array(counts, dtype="int64"))
        out = []
        for g in order:
            try:
                out.append(fmt(g, getattr(ld, PROP[g])))
            except (ValueError, AssertionError) as e:
                out.append(f"{g}:err:{type(e).__name__}")
            res.distribution[g] = res.distribution.get(g, 0) + 1
        present = [c.replace(" ", "_") for c in ("length", "azimuth", "azimuth_set", "boundary_weight", "length non-weighted") if c in frame.columns]
        want = f"out={'|'.join(out)} cols={','.join(present)}"
        if resp.strip() != want:
            res.disagreements.append(Disagreement("S08-generated-linedata", {"stream": "S08-generated-linedata", "request": req}, resp.strip(), want, None,
                                                  "regenerated LineData column cache (Lean) and the Python class disagree"))
    res.samples = [{"request": reqs[0][:300], "response": resps[0][:300]}] if reqs else []
    return res


STREAMS = [s08_weights, s08_params, s08_generated, s08_network, s08_generated_linedata]


def replay(ctx, stream, case):
    if stream == "S08-generated":
        r = s08_generated(ctx)
        return r.disagreements[0] if r.disagreements else None
    if stream == "S08-generated-linedata":
        r = s08_generated_linedata(ctx)
        return r.disagreements[0] if r.disagreements else None
    import_fractopo()
    if stream == "S08-network":
        from shapely.geometry import Polygon

        from harness.common import parse_lines

        traces = parse_lines(case["traces"])
        rings = parse_lines(case["areas"])
        area = Polygon([(float(x), float(y)) for x, y in rings[0]], [[(float(x), float(y)) for x, y in r] for r in rings[1:]])
        labels = case["order"].split("-")
        kind = case["area_kind"]
        from shapely.geometry import box

        mk = {"overview": {"label": "overview", "area": box(-420.0, -400.0, 400.0, 410.0), "truncate": False, "circular": False, "topology": False},
              "target": {"label": "target", "area": area, "truncate": True, "circular": kind == "circle", "topology": True}}
        res = StreamResult("replay")
        run_history(ctx, traces, area, kind, [mk[l] for l in labels], case["t"], res, stream, {k: v for k, v in case.items() if k not in ("failing_step", "facts")})
        return res.disagreements[0] if res.disagreements else None
    if stream == "S08a-params":
        c = case["case"]
        ok, model, got, note = compare(c, ctx.driver.batch([request(c)])[0])
        return None if ok else Disagreement(stream, case, model, got, True, note)
    r = s08_weights(ctx)
    return r.disagreements[0] if r.disagreements else None
