"""S19 — the CLI commands in temp dirs: written files vs the library called directly; inputs and bystanders untouched."""
from __future__ import annotations

import hashlib
import shutil
import tempfile
from pathlib import Path

from harness.common import Disagreement, StreamResult, budget, dec, enc, import_fractopo, parse_resp, rng_for
from harness.valgen import gadgets, place

EXT = {"GeoJSON": ".geojson", "GPKG": ".gpkg", "ESRI Shapefile": ".shp"}


def sha_dir(d: Path, skip=()):
    out = {}
    for p in sorted(d.rglob("*")):
        if p.is_file() and p not in skip:
            out[str(p.relative_to(d))] = hashlib.sha256(p.read_bytes()).hexdigest()
    return out


LINE_GADGETS = ["valid_x", "valid_y", "vnode", "multijunction", "stacked", "underlap", "overlap", "cuts_itself", "sharp", "valid_single"]


def build_inputs(rng, d: Path, driver, with_crs, stem, empty_area=False, pool=None):
    import geopandas as gpd
    from shapely.geometry import box

    G = gadgets()
    names = rng.sample(pool or (LINE_GADGETS + ["mls_mergeable"]), rng.randint(2, 5))
    geoms = []
    for i, nm in enumerate(names):
        geoms += [place(g, 40.0 * i, 0.0) for g in G[nm]]
    n = len(geoms)
    crs = "EPSG:3067" if with_crs else None
    # attribute columns: an id, a number, and a text column with MISSING values in some rows (digitisers leave remarks empty)
    traces = gpd.GeoDataFrame({"uid": [f"u{i}" for i in range(n)], "val": [i * 0.25 for i in range(n)], "note": [None if i % 3 == 1 else f"remark {i}" for i in range(n)]},
                              geometry=geoms, crs=crs)
    area = gpd.GeoDataFrame({"name": ["a"]}, geometry=[box(5000, 5000, 5100, 5100) if empty_area else box(-30, -30, 40.0 * len(names) + 10, 30)], crs=crs)
    tp = d / f"{stem}_traces{EXT[driver]}"
    ap = d / f"{stem}_area{EXT[driver]}"
    traces.to_file(tp, driver=driver)
    area.to_file(ap, driver=driver)
    return tp, ap, names


def s19_tracevalidate(ctx):
    import_fractopo()
    import geopandas as gpd
    from typer.testing import CliRunner

    from fractopo.cli import APP
    from fractopo.general import read_geofile
    from fractopo.tval.trace_validation import Validation
    from fractopo.tval.trace_validators import TargetAreaSnapValidator

    res = StreamResult("S19-tracevalidate", rule="valid and planted-defect maps written as GeoJSON / GPKG / Shapefile, with and without CRS, with attribute columns x "
                       "allow-fix / only-area-validation / allow-empty-area / snap threshold x output locations (fresh, existing file replaced, output named like a "
                       "prefix of the inputs, in place, next to the trace input under its base name with another extension); every Shapefile output and half of the others VALIDATED AGAIN (other validator selection) into a new file; outputs compared with the library result, every other file in the directory hashed before/after; "
                       "non-trivial = run whose library result has an error")
    rng = rng_for(ctx.seed, "S19")
    runner = CliRunner()
    tmp = Path(tempfile.mkdtemp(prefix="fv_c19_", dir="/var/tmp"))
    try:
        n = budget(ctx.tier, 24, 200)
        pend = []
        for k in range(n):
            d = tmp / f"c{k}"
            d.mkdir()
            driver = rng.choice(list(EXT))
            with_crs = rng.random() < 0.6
            stem = rng.choice(["kb7", "map", "x"])
            empty_area = rng.random() < 0.2  # target area void of traces (with --no-allow-empty-area: the documented EMPTY TARGET AREA exit)
            modes = ["fresh", "existing", "prefix", "inplace", "samestem"]
            mode = rng.choice(modes)
            if k < 2 * len(modes):
                mode = modes[k % len(modes)]  # every output location at least twice per run
                if k < len(modes) and mode in ("existing", "prefix"):
                    driver = "GPKG"  # a GeoPackage that already holds a layer of ANOTHER name at the output path: it must be replaced, not added to
            if mode == "samestem" and driver == "ESRI Shapefile":
                driver = "GeoJSON" if k % 2 else "GPKG"
            tp, ap, names = build_inputs(rng, d, driver, with_crs, stem, empty_area)
            if mode == "fresh":
                op = d / "out" / f"validated{EXT[driver]}"
                op.parent.mkdir()
            elif mode == "existing":
                op = d / f"validated{EXT[driver]}"
                shutil.copy(tp, op)
            elif mode == "prefix":
                op = d / f"{stem}{EXT[driver]}"  # stem of the output is a prefix of both input names
                shutil.copy(tp, op)
            elif mode == "samestem":
                op = d / f"{tp.stem}.validated"  # same directory and same base name as the trace INPUT, another extension (the input's driver is used)
            else:
                op = tp
            opts = {"allow_fix": rng.random() < 0.5, "only_area": rng.random() < 0.25, "allow_empty": rng.random() < 0.8, "snap": rng.choice([0.01, 0.001])}
            args = ["tracevalidate", str(tp), str(ap), "--output", str(op), "--snap-threshold", str(opts["snap"]), "--no-summary",
                    "--allow-fix" if opts["allow_fix"] else "--no-allow-fix", "--allow-empty-area" if opts["allow_empty"] else "--no-allow-empty-area"]
            if opts["only_area"]:
                args.append("--only-area-validation")
            skip = {op} | ({op.with_suffix(s) for s in (".shx", ".dbf", ".prj", ".cpg")} if driver == "ESRI Shapefile" else set())
            before = sha_dir(d, skip=skip)
            # library result on the same files
            lt, la = read_geofile(tp), read_geofile(ap)
            lib = Validation(lt, la, tp.stem, opts["allow_fix"], SNAP_THRESHOLD=opts["snap"]).run_validation(
                choose_validators=(TargetAreaSnapValidator,) if opts["only_area"] else None, allow_empty_area=opts["allow_empty"])
            r = runner.invoke(APP, args)
            after = sha_dir(d, skip=skip)
            case = {"stream": "S19-tracevalidate", "driver": driver, "crs": with_crs, "gadgets": names, "mode": mode, "opts": opts, "stem": stem, "empty_area": empty_area}
            if empty_area and not opts["allow_empty"]:
                res.distribution["empty_area_exit"] = res.distribution.get("empty_area_exit", 0) + 1
            res.evaluations += 1
            res.distribution[driver] = res.distribution.get(driver, 0) + 1
            res.distribution[mode] = res.distribution.get(mode, 0) + 1
            problems = []
            if r.exit_code != 0:
                problems.append(f"exit code {r.exit_code}: {str(r.exception)[:120]}")
            if before != after:
                changed = [k_ for k_ in set(before) | set(after) if before.get(k_) != after.get(k_)]
                problems.append(f"files other than the output changed or disappeared: {changed}")
            if not problems:
                out = gpd.read_file(op)
                if len(out) != len(lib):
                    problems.append(f"{len(out)} rows written, library {len(lib)}")
                else:
                    miss = lambda v: v is None or v != v  # noqa: E731
                    notes_ok = "note" in out.columns and all((miss(a) and miss(b)) or a == b for a, b in zip(out["note"], lt["note"]))
                    if list(out["uid"]) != list(lib["uid"]) or [float(v) for v in out["val"]] != [float(v) for v in lib["val"]] or not notes_ok:
                        problems.append(f"attribute values differ from the input rows (text column with missing values: {list(out['note'])[:4] if 'note' in out.columns else 'absent'} "
                                        f"vs {list(lt['note'])[:4]})")
                    if (out.crs is None) != (lt.crs is None) or (out.crs is not None and out.crs != lt.crs):
                        problems.append(f"CRS {out.crs} vs input {lt.crs}")
                    col = "VALIDATION_ERRORS" if "VALIDATION_ERRORS" in out.columns else "VALIDATION" if "VALIDATION" in out.columns else None
                    if col is None:
                        problems.append("no error column in the written file")
                    else:
                        pend.append((case, [list(e) for e in lib["VALIDATION_ERRORS"]], list(out[col])))
                        if any(lib["VALIDATION_ERRORS"]):
                            res.nontrivial += 1
                    if not all(a.equals_exact(b, 1e-7) if a is not None and b is not None else a is b for a, b in zip(out.geometry.values, lib.geometry.values)):
                        problems.append("written geometry differs from the library result")
            if problems:
                res.disagreements.append(Disagreement("S19-tracevalidate", case, "library result; inputs untouched", problems, True, "; ".join(problems)[:400]))
                continue
            # HISTORY: the written file (it carries the error column -- truncated to 10 characters by the Shapefile driver) is validated AGAIN, with
            # the other validator selection so that the fresh errors differ from the stale ones: the second output must again be the library's answer
            # for the files it was given, with no column beyond those of its input
            if r.exit_code == 0 and op.exists() and mode != "samestem" and (driver == "ESRI Shapefile" or rng.random() < 0.5):
                op2 = d / "again" / f"revalidated{EXT[driver]}"
                op2.parent.mkdir(exist_ok=True)
                only2 = not opts["only_area"]
                args2 = ["tracevalidate", str(op), str(ap), "--output", str(op2), "--snap-threshold", str(opts["snap"]), "--no-summary",
                         "--allow-fix" if opts["allow_fix"] else "--no-allow-fix", "--allow-empty-area"] + (["--only-area-validation"] if only2 else [])
                case2 = dict(case, rerun={"only_area": only2})
                first = gpd.read_file(op)
                lt2 = read_geofile(op)
                lib2 = Validation(lt2, la, op.stem, opts["allow_fix"], SNAP_THRESHOLD=opts["snap"]).run_validation(
                    choose_validators=(TargetAreaSnapValidator,) if only2 else None, allow_empty_area=True)
                before2 = sha_dir(d, skip={p_ for p_ in d.rglob("*") if p_.parent == op2.parent})
                r2 = runner.invoke(APP, args2)
                after2 = sha_dir(d, skip={p_ for p_ in d.rglob("*") if p_.parent == op2.parent})
                res.distribution["revalidated"] = res.distribution.get("revalidated", 0) + 1
                res.distribution["revalidated " + driver] = res.distribution.get("revalidated " + driver, 0) + 1
                problems2 = []
                if r2.exit_code != 0 or not op2.exists():
                    problems2.append(f"second run: exit code {r2.exit_code}: {str(r2.exception)[:120]}")
                elif before2 != after2:
                    problems2.append("second run: files other than its output changed")
                else:
                    out2 = gpd.read_file(op2)
                    extra = [c for c in out2.columns if c not in first.columns]
                    if extra:
                        problems2.append(f"second run: columns {extra} appear that neither its input nor the library result has (columns {list(out2.columns)})")
                    col2 = "VALIDATION_ERRORS" if "VALIDATION_ERRORS" in out2.columns else "VALIDATION" if "VALIDATION" in out2.columns else None
                    if len(out2) != len(lib2) or col2 is None:
                        problems2.append(f"second run: {len(out2)} rows / error column {col2}, library {len(lib2)} rows")
                    else:
                        pend.append((case2, [list(e) for e in lib2["VALIDATION_ERRORS"]], list(out2[col2])))
                if problems2:
                    res.disagreements.append(Disagreement("S19-tracevalidate", case2, "library result for the re-validated file", problems2, True, "; ".join(problems2)[:400]))
        # error text = Python str(tuple) of the library errors, via the model
        reqs = [f"tuplerepr items={';'.join(enc(s) for s in e)}" for _, errs, _ in pend for e in errs]
        resps = ctx.driver.batch(reqs) if reqs else []
        i = 0
        for case, errs, texts in pend:
            for e, txt in zip(errs, texts):
                want = dec(parse_resp(resps[i])["text"])
                i += 1
                if txt != want:
                    res.disagreements.append(Disagreement("S19-tracevalidate", case, want, txt, True, "error text in the written file is not the library's tuple"))
                    break
        res.samples = [{"args": "tracevalidate <traces> <area> --output <out> ...", "modes": ["fresh", "existing", "prefix", "inplace", "samestem"]}]
    finally:
        shutil.rmtree(tmp, ignore_errors=True)
    return res


def s19_network(ctx):
    import_fractopo()
    import geopandas as gpd
    from typer.testing import CliRunner

    from fractopo import Network
    from fractopo.cli import APP

    res = StreamResult("S19-network", rule="valid gadget maps: `fractopo network` branch/node GeoPackages -- at explicit paths, or at their documented default paths "
                       "<general output>/<name>_branches.gpkg and _nodes.gpkg for network names with a dot, a blank or a file suffix -- vs Network(...) called directly with the "
                       "same options (truncate / snap); inputs hashed; non-trivial = all")
    rng = rng_for(ctx.seed, "S19n")
    runner = CliRunner()
    tmp = Path(tempfile.mkdtemp(prefix="fv_c19n_", dir="/var/tmp"))
    try:
        for k in range(budget(ctx.tier, 6, 30)):
            d = tmp / f"n{k}"
            d.mkdir()
            # the network command works on single-part lines (validated data): multi-part rows are rejected by the CLI and by the library alike
            tp, ap, names = build_inputs(rng, d, "GPKG", True, "net", pool=LINE_GADGETS)
            trunc = rng.random() < 0.7
            # every other run leaves the branch / node outputs to their documented defaults <general output>/<name>_branches.gpkg, <name>_nodes.gpkg;
            # network names as users give them: plain, with a dot (a version or a scale: "site1.5m"), with a blank, ending in a known suffix
            nname = ["site1.5m", "area.v2", "KB 11", "map.gpkg", "netname"][(k // 2) % 5] if k % 2 else "netname"
            defaults = bool(k % 2)
            gen_dir = d / "gen"
            bo, no = (gen_dir / f"{nname}_branches.gpkg", gen_dir / f"{nname}_nodes.gpkg") if defaults else (d / "b.gpkg", d / "n.gpkg")
            before = sha_dir(d)
            args = ["network", str(tp), str(ap), "--snap-threshold", "0.01", "--truncate-traces" if trunc else "--no-truncate-traces",
                    "--general-output", str(gen_dir), "--parameters-output", str(d / "p.csv"), "--name", nname]
            if not defaults:
                args += ["--branches-output", str(bo), "--nodes-output", str(no)]
            r = runner.invoke(APP, args)
            res.evaluations += 1
            res.nontrivial += 1
            res.distribution["default_output_paths" if defaults else "explicit_output_paths"] = res.distribution.get("default_output_paths" if defaults else "explicit_output_paths", 0) + 1
            case = {"stream": "S19-network", "gadgets": names, "truncate": trunc, "name": nname, "default_outputs": defaults}
            problems = []
            after = sha_dir(d)
            for f, h in before.items():
                if after.get(f) != h:
                    problems.append(f"input {f} changed")
            if not bo.exists() or not no.exists():
                try:
                    Network(trace_gdf=gpd.read_file(tp), area_gdf=gpd.read_file(ap), snap_threshold=0.01, determine_branches_nodes=True, name=nname,
                            circular_target_area=False, truncate_traces=trunc)
                    lib_raises = None
                except Exception as e:  # noqa: BLE001
                    lib_raises = type(e).__name__
                if lib_raises is None:
                    problems.append(f"branch/node files not written (exit {r.exit_code}: {str(r.exception)[:100]}) although the library extracts the same inputs")
                else:
                    res.skipped["library_raises_too"] = res.skipped.get("library_raises_too", 0) + 1
            else:
                net = Network(trace_gdf=gpd.read_file(tp), area_gdf=gpd.read_file(ap), snap_threshold=0.01, determine_branches_nodes=True, name=nname,
                              circular_target_area=False, truncate_traces=trunc)
                wb, wn = gpd.read_file(bo), gpd.read_file(no)
                if sorted((g.wkt, c) for g, c in zip(wb.geometry.values, wb["Connection"])) != sorted((g.wkt, c) for g, c in zip(net.branch_gdf.geometry.values, net.branch_gdf["Connection"])):
                    problems.append("written branches differ from the library extraction")
                if sorted((g.wkt, c) for g, c in zip(wn.geometry.values, wn["Class"])) != sorted((g.wkt, c) for g, c in zip(net.node_gdf.geometry.values, net.node_gdf["Class"])):
                    problems.append("written nodes differ from the library extraction")
            if problems:
                res.disagreements.append(Disagreement("S19-network", case, "library extraction", problems, True, "; ".join(problems)[:300]))
        res.samples = [{"args": "network <traces> <area> --branches-output b.gpkg --nodes-output n.gpkg"}]
    finally:
        shutil.rmtree(tmp, ignore_errors=True)
    return res




def s19_rewrite(ctx):
    """A path that is READ, REWRITTEN and read again in one process: the second read / the second tracevalidate must see what the file holds NOW
    (nothing may be remembered per path)."""
    import_fractopo()
    import geopandas as gpd
    from typer.testing import CliRunner

    from fractopo.cli import APP
    from fractopo.general import read_geofile, write_geodata

    res = StreamResult("S19-rewrite", rule="histories on ONE path: write A with the package's writer, read it with the package's reader, write B (one row fewer, other attribute values) to the same "
                       "path, read again = B (rows, geometry, attributes; judged against geopandas' own reader); then tracevalidate on that path writes one row per CURRENT row; "
                       "non-trivial = every history")
    rng = rng_for(ctx.seed, "S19rw")
    tmp = Path(tempfile.mkdtemp(prefix="s19rw_", dir="/var/tmp"))
    runner = CliRunner()
    try:
        for k in range(budget(ctx.tier, 6, 40)):
            driver = rng.choice(["GeoJSON", "GPKG"])
            d = tmp / f"h{k}"
            d.mkdir()
            tp, ap, names = build_inputs(rng, d, driver, rng.random() < 0.5, f"rw{k}", pool=LINE_GADGETS)
            case = {"stream": "S19-rewrite", "driver": driver, "gadgets": names, "case_number": k}
            res.evaluations += 1
            res.nontrivial += 1
            res.distribution[driver] = res.distribution.get(driver, 0) + 1
            try:
                a = gpd.read_file(tp)
                first = read_geofile(tp)
                r0 = runner.invoke(APP, ["tracevalidate", str(tp), str(ap), "--output", str(d / f"out0{EXT[driver]}"), "--no-summary"])
                b = a.iloc[:-1].copy()
                b["val"] = [v + 1000.0 for v in b["val"]]
                tp.unlink()
                write_geodata(b, tp, driver=driver)
                now = gpd.read_file(tp)
                again = read_geofile(tp)
                problems = []
                if len(first) != len(a):
                    problems.append(f"first read: {len(first)} rows, file has {len(a)}")
                if len(again) != len(now) or [g.wkt for g in again.geometry] != [g.wkt for g in now.geometry] or list(again["val"]) != list(now["val"]):
                    problems.append(f"read after the rewrite: {len(again)} rows, val {list(again['val'])[:3]}; the file holds {len(now)} rows, val {list(now['val'])[:3]}")
                op = d / f"out1{EXT[driver]}"
                r1 = runner.invoke(APP, ["tracevalidate", str(tp), str(ap), "--output", str(op), "--no-summary"])
                if r0.exit_code != 0 or r1.exit_code != 0 or not op.exists():
                    problems.append(f"tracevalidate exit codes {r0.exit_code} / {r1.exit_code}: {str(r1.exception)[:100]}")
                else:
                    out = gpd.read_file(op)
                    if len(out) != len(now) or list(out["val"]) != list(now["val"]):
                        problems.append(f"tracevalidate after the rewrite wrote {len(out)} rows (val {list(out['val'])[:3]}) for a file of {len(now)} rows (val {list(now['val'])[:3]})")
            except Exception as e:  # noqa: BLE001
                problems = [f"{type(e).__name__}: {str(e)[:200]}"]
            if problems:
                res.disagreements.append(Disagreement("S19-rewrite", case, "what the file holds now", problems, True, "; ".join(problems)[:400]))
        res.samples = [{"history": "write A, read, tracevalidate, write B to the same path, read, tracevalidate"}]
    finally:
        shutil.rmtree(tmp, ignore_errors=True)
    return res


STREAMS = [s19_tracevalidate, s19_network, s19_rewrite]


def replay(ctx, stream, case):
    for fn in STREAMS:
        r = fn(ctx)
        if r.name == stream and r.disagreements:
            return r.disagreements[0]
    return None
