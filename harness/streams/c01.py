"""S01 — extracted topology vs the exact planar arrangement (Contacts/Arrangement model) on valid maps."""
from __future__ import annotations

from collections import Counter
from fractions import Fraction as F

from harness.common import Disagreement, StreamResult, area_rows, budget, import_fractopo, lines, rat, rng_for
from harness.mapgen import Arrangement, arr_request, match_branches, match_points, to_float_lines, valid_maps

ROUTES = ("direct", "network")


def impl_topology(traces, area, t, route, zmask=None):
    """returns (nodes [( (x,y), class )], branches [(label, (x,y), (x,y))])"""
    import geopandas as gpd
    from shapely.geometry import LineString

    from fractopo import Network
    from fractopo.branches_and_nodes import branches_and_nodes

    geoms = to_float_lines(traces)
    if zmask:
        # traces digitised with elevation values (2D and 2.5D layers concatenated): the topology is that of the plan view
        geoms = [LineString([(x, y, 40.0 + 0.5 * j) for j, (x, y) in enumerate(g.coords)]) if z else g for g, z in zip(geoms, zmask)]
    tr = gpd.GeoDataFrame(geometry=geoms)
    ar = gpd.GeoDataFrame(geometry=list(area) if isinstance(area, (list, tuple)) else [area])
    if route == "direct":
        b, n = branches_and_nodes(tr, ar, t, already_clipped=False)
    elif route == "network":
        net = Network(trace_gdf=tr, area_gdf=ar, name="m", determine_branches_nodes=True, snap_threshold=t, truncate_traces=True,
                      circular_target_area=False)
        b, n = net.branch_gdf, net.node_gdf
    elif route == "network_notrunc":
        net = Network(trace_gdf=tr, area_gdf=ar, name="m", determine_branches_nodes=True, snap_threshold=t, truncate_traces=False,
                      circular_target_area=False)
        b, n = net.branch_gdf, net.node_gdf
    elif route == "cropfirst":
        from fractopo.general import crop_to_target_areas

        cropped = crop_to_target_areas(tr, ar, keep_column_data=True)
        b, n = branches_and_nodes(cropped, ar, t, already_clipped=True)
    else:
        raise ValueError(route)
    nodes = [((p.x, p.y), c) for p, c in zip(n.geometry.values, n["Class"].values)]
    branches = [(c, g.coords[0][:2], g.coords[-1][:2]) for g, c in zip(b.geometry.values, b["Connection"].values)]
    return nodes, branches


def compare(ar: Arrangement, nodes, branches, t):
    tol = t / 100
    un_m, un_i = match_points(ar.nodes, nodes, tol)
    ub_m, ub_i = match_branches(ar.branches, branches, tol)
    return un_m, un_i, ub_m, ub_i


def run_maps(ctx, maps, t, res, stream, routes=ROUTES, meta=None, zmasks=None):
    for mi, (traces, area, kind, ar) in enumerate(maps):
        res.evaluations += 1
        # one map in five carries Z values on some (two in three of those) or all of its traces
        zmask = zmasks[mi] if zmasks is not None else ([((i + mi) % 3 != 0) or mi % 15 == 4 for i in range(len(traces))] if mi % 5 == 4 else None)
        case = {"stream": stream, "t": t, "traces": lines(traces), "areas": area_rows(list(area) if isinstance(area, (list, tuple)) else [area]), "area_kind": kind, "meta": meta or {}, "z": zmask}
        if zmask:
            res.distribution["maps_with_z_values"] = res.distribution.get("maps_with_z_values", 0) + 1
        cls = Counter(c for _, c in ar.nodes)
        for c, v in cls.items():
            res.distribution[f"node_{c}"] = res.distribution.get(f"node_{c}", 0) + v
        for lab, _, _ in ar.branches:
            res.distribution[f"branch_{lab}"] = res.distribution.get(f"branch_{lab}", 0) + 1
        res.distribution[f"area_{kind}"] = res.distribution.get(f"area_{kind}", 0) + 1
        res.distribution["traces"] = res.distribution.get("traces", 0) + len(traces)
        if cls.get("X", 0) + cls.get("Y", 0) > 0:
            res.nontrivial += 1
        if ar.quiet:
            res.distribution["quiet(hypothesis of C01_snap_stage_identity)"] = res.distribution.get("quiet(hypothesis of C01_snap_stage_identity)", 0) + 1
        else:
            res.skipped["valid_but_not_quiet"] = res.skipped.get("valid_but_not_quiet", 0) + 1
        if not ar.wellformed:
            res.disagreements.append(Disagreement(stream, case, ar.raw[:300], None, None, "model produced a contact structure that is not WellFormed"))
            continue
        if len(res.samples) < 2:
            res.samples.append({"case": case, "arrangement": {"nodes": dict(cls), "branches": len(ar.branches)}})
        for route in routes:
            try:
                nodes, branches = impl_topology(traces, area, t, route, zmask)
            except Exception as e:
                res.disagreements.append(Disagreement(stream, dict(case, route=route), {"nodes": dict(cls)}, f"{type(e).__name__}: {str(e)[:200]}", True,
                                                      "extraction raised on a valid map"))
                continue
            un_m, un_i, ub_m, ub_i = compare(ar, nodes, branches, t)
            if un_m or un_i or ub_m or ub_i:
                res.disagreements.append(Disagreement(
                    stream, dict(case, route=route),
                    {"nodes": dict(cls), "branches": dict(Counter(l for l, _, _ in ar.branches)), "missing_nodes": [(str(p), c) for p, c in un_m][:6], "missing_branches": [str(b) for b in ub_m][:6]},
                    {"nodes": dict(Counter(c for _, c in nodes)), "branches": dict(Counter(l for l, _, _ in branches)), "extra_nodes": [str(x) for x in un_i][:6], "extra_branches": [str(b) for b in ub_i][:6]},
                    True, "nodes/branches differ from the exact planar arrangement"))


SCALES = [(F(1), F(0), 0.01), (F(1), F(0), 0.001), (F(1, 64), F(0), 0.0001), (F(64), F(1000), 0.5), (F(1), F(10**7), 0.01), (F(1, 8), F(1000), 0.001),
          (F(1, 4096), F(0), 0.000001)]  # the last: whole map within a few 1e-3 of everything, threshold far below the package default


def s01_arrangement(ctx):
    import_fractopo()
    res = StreamResult("S01-arrangement", rule="random dyadic polylines with planted abutments (one map in five with Z values on some or all traces), accepted only if the Lean oracle classifies the map as valid "
                       "(margin 50 x snap); box / circle / concave / holed areas; scales 1/4096..64, offsets 0..1e7, thresholds 1e-6..0.5; both entry points; "
                       "non-trivial = distinct valid map with at least one X or Y node")
    rng = rng_for(ctx.seed, "S01")
    per = budget(ctx.tier, 25, 600)
    for unit, off, t in SCALES:
        tt = t
        maps, rejected = valid_maps(ctx, rng, per, F(tt), unit=unit, off=off)
        res.skipped["rejected_invalid"] = res.skipped.get("rejected_invalid", 0) + sum(rejected.values())
        run_maps(ctx, maps, tt, res, "S01-arrangement", meta={"unit": str(unit), "off": str(off)})
    return res


def s01_generated(ctx):
    """translator validation, end to end: the REGENERATED branches_and_nodes (orchestration + snapping pass + node table + branch labels,
    compiled into gen_c01; exact clip / noding for GEOS) on the valid maps of S01 vs the exact arrangement the real code is compared with"""
    import_fractopo()
    from harness.mapgen import Arrangement

    res = StreamResult("S01-generated", rule="regenerated branches_and_nodes end to end (Lean, compiled: orchestration, snap_traces and everything below it, node table, branch "
                       "labels; exact clipping and noding in place of GEOS) on valid maps of the S01 generator, both already_clipped routes: node multiset (point, class) and "
                       "branch multiset (label, end points) must equal the exact planar arrangement that S01 holds the real code to; non-trivial = map with an X or Y node")
    if ctx.gen is None:
        res.note = "gen_c01 not built (a generated module is broken): skipped"
        res.skipped["generated_driver_not_built"] = 1
        return res
    rng = rng_for(ctx.seed, "S01g")
    per = budget(ctx.tier, 12, 200)
    allmaps = []
    for unit, off, t in SCALES[:3] + SCALES[-1:]:
        maps, _ = valid_maps(ctx, rng, per, F(t), unit=unit, off=off)
        allmaps += [(m, t) for m in maps]
    reqs = []
    for (traces, area, kind, ar), t in allmaps:
        reqs.append(f"gpipe t={rat(F(t))} areas={area_rows([area])} traces={lines(traces)} clipped=0")
        reqs.append(f"gpipe t={rat(F(t))} areas={area_rows([area])} traces={lines(ar.pieces)} clipped=1")
    resps = ctx.gen.parallel(reqs)

    def canon(a):
        return (Counter((p, c) for p, c in a.nodes), Counter((lab, frozenset((p, q))) for lab, p, q in a.branches))

    for i, ((traces, area, kind, ar), t) in enumerate(allmaps):
        res.evaluations += 1
        if any(c in "XY" for _, c in ar.nodes):
            res.nontrivial += 1
        want = canon(ar)
        for route, resp in (("already_clipped=False", resps[2 * i]), ("already_clipped=True on the clipped pieces", resps[2 * i + 1])):
            if resp.startswith("err=") or resp.startswith("error="):
                got = resp.strip()
            else:
                g = Arrangement("valid=1 wellformed=1 " + resp.strip())
                got = canon(g)
            if got != want:
                res.disagreements.append(Disagreement("S01-generated", {"stream": "S01-generated", "t": t, "traces": lines(traces), "areas": area_rows([area]), "route": route},
                                                      {"nodes": dict(Counter(c for _, c in ar.nodes)), "branches": len(ar.branches)}, resp[:400], None,
                                                      "the regenerated branches_and_nodes (Lean) does not produce the exact planar arrangement"))
    res.samples = [{"request": reqs[0][:300], "response": resps[0][:300]}] if reqs else []
    return res


STREAMS = [s01_arrangement, s01_generated]


def replay(ctx, stream, case):
    if stream == "S01-generated":
        r = s01_generated(ctx)
        return r.disagreements[0] if r.disagreements else None
    import_fractopo()
    from harness.common import parse_lines
    from harness.streams.c05 import replay as _  # noqa: F401
    from shapely.geometry import Polygon

    traces = parse_lines(case["traces"])
    rings = parse_lines(case["areas"].split("#")[0].split("&")[0])
    fl = lambda l: [(float(x), float(y)) for x, y in l]  # noqa: E731
    area = Polygon(fl(rings[0]), [fl(r) for r in rings[1:]])
    t = case["t"]
    ar = Arrangement(ctx.driver.batch([arr_request(traces, [area], F(t))])[0])
    if not ar.valid:
        return None
    res = StreamResult("replay")
    routes = (case["route"],) if "route" in case else ROUTES
    run_maps(ctx, [(traces, area, case.get("area_kind"), ar)], t, res, stream, routes=routes, zmasks=[case.get("z")])
    return res.disagreements[0] if res.disagreements else None
