"""S13 — histories of validation calls in one process vs the per-frame reference from a fresh process."""
from __future__ import annotations

import itertools
import multiprocessing as mp
import random

from harness.common import Disagreement, StreamResult, budget, import_fractopo
from harness.valgen import T, area_for, gadgets, place

POOL = [
    ("underlap", ["underlap"]),
    ("overlap", ["overlap"]),
    ("stacked", ["stacked"]),
    ("valid", ["valid_x", "valid_y"]),
    ("vnode", ["vnode", "valid_single"]),
    ("multipart", ["mls_mergeable", "mls_unmergeable", "valid_single"]),
    ("mixed", ["overlap", "underlap_diag", "sharp", "null_empty", "cuts_itself"]),
    ("multijunction", ["multijunction", "underlap"]),
    # multi-part lines that take part in node defects only once merged by the first pass (object caches must not go stale)
    ("multipart_nodes", ["mls_vnode", "mls_multijunction", "mls_vnode_start"]),
    # ... and in defects that single-part rows find through their trace candidates (candidate selection must follow the fixed frame)
    ("multipart_candidates", ["mls_underlap", "mls_stacked", "mls_multicross", "mls_overlap"]),
    # the third label the stateful under/overlap validator can write (STACKED), next to the two others
    ("stacked_snap", ["stacked_dangling", "overlap", "underlap"]),
]


def frame(i):
    import geopandas as gpd

    G = gadgets()
    geoms = []
    for k, name in enumerate(POOL[i][1]):
        for g in G[name]:
            geoms.append(place(g, 100.0 * k, 50.0 * i))
    return gpd.GeoDataFrame({"a": list(range(len(geoms)))}, geometry=geoms)


def canon(out):
    return [(tuple(e), None if g is None else g.wkt) for e, g in zip(out["VALIDATION_ERRORS"].values, out.geometry.values)]


def reference(i):
    """fresh process: validate frame i once with a fresh object"""
    import_fractopo()
    from fractopo.tval.trace_validation import Validation

    f = frame(i)
    return canon(Validation(f, area_for(f), "ref", True, SNAP_THRESHOLD=T).run_validation())


def run_history(hist):
    """hist: list of ops ('new', i) | ('rerun', k) | ('reval', k); returns list of (frame index, canonical result)"""
    import_fractopo()
    from fractopo.tval.trace_validation import Validation

    objs, outs, frames_of, results = [], [], [], []
    for op in hist:
        if op[0] == "new" or not objs:
            i = op[1] if op[0] == "new" else 0
            f = frame(i)
            v = Validation(f, area_for(f), "h", True, SNAP_THRESHOLD=T)
        elif op[0] == "rerun":
            k = op[1] % len(objs)
            v, i = objs[k], frames_of[k]
        else:  # re-validate the OUTPUT of an earlier step (it carries the error column) with a new object
            k = op[1] % len(objs)
            i = frames_of[k]
            f = outs[k].copy()
            v = Validation(f, area_for(f), "h", True, SNAP_THRESHOLD=T)
        try:
            out = v.run_validation()
            results.append((i, canon(out)))
        except Exception as e:
            results.append((i, f"{type(e).__name__}: {str(e)[:120]}"))
            out = None
        objs.append(v)
        outs.append(out if out is not None else frame(i))
        frames_of.append(i)
    return results


def s13_histories(ctx):
    import_fractopo()
    res = StreamResult("S13-histories", rule="pool of 11 frames containing every defect kind (incl. multi-part lines that form V-nodes / junctions, or take part in snap / stacking / crosscut defects of other rows, once merged); ALL ordered pairs of fresh validations (121, exhaustive) + every frame validated / its output re-validated / the first object re-run + random "
                       "histories of new / re-run-same-object / re-validate-earlier-output operations, all in one process; each step compared with the result "
                       "of validating that frame once in a fresh interpreter; non-trivial = history in which two different frames are validated")
    rng = random.Random(f"{ctx.seed}:S13")
    n = len(POOL)
    L = budget(ctx.tier, 4, 6)
    hists = [[("new", i), ("new", j)] for i in range(n) for j in range(n)]
    # every frame: validated, then its OUTPUT validated again, then the first object run again (idempotence, exhaustive over the pool)
    hists += [[("new", i), ("reval", 0), ("rerun", 0)] for i in range(n)]
    if ctx.tier == "thorough":
        hists += [[("new", i), ("new", j), ("new", k)] for i, j, k in itertools.product(range(n), repeat=3)]
    for _ in range(budget(ctx.tier, 120, 1500)):
        h = [("new", rng.randrange(n))]
        for _ in range(L - 1):
            r = rng.random()
            h.append(("new", rng.randrange(n)) if r < 0.5 else ("rerun", rng.randrange(8)) if r < 0.75 else ("reval", rng.randrange(8)))
        hists.append(h)
    ctxm = mp.get_context("fork")
    with ctxm.Pool(8, maxtasksperchild=1) as pool:
        refs = pool.map(reference, range(n), chunksize=1)
    with ctxm.Pool(16, maxtasksperchild=1) as pool:
        outs = pool.map(run_history, hists, chunksize=1)
    for h, out in zip(hists, outs):
        res.evaluations += 1
        if len({i for i, _ in out}) > 1:
            res.nontrivial += 1
        res.distribution["steps"] = res.distribution.get("steps", 0) + len(h)
        for step, (i, r) in enumerate(out):
            if r != refs[i]:
                res.disagreements.append(Disagreement("S13-histories", {"stream": "S13-histories", "history": [list(o) for o in h], "step": step, "frame": POOL[i][0]},
                                                      refs[i], r, True, f"step {step} ({h[step][0]}) on frame {POOL[i][0]!r} differs from validating it first in a fresh process"))
                break
    res.samples = [{"history": [list(o) for o in hists[70]], "frames": [p[0] for p in POOL]}]
    return res


def s13_generated(ctx):
    """translator validation: the REGENERATED row / validator loops of run_validation with the regenerated _validate inside (compiled into
    gen_c13, run twice like the two passes) vs the real run_validation with scripted validator classes"""
    import_fractopo()
    import geopandas as gpd
    from shapely.geometry import LineString, MultiLineString, Point, box

    from fractopo.tval.trace_validation import Validation
    from fractopo.tval.trace_validators import MAJOR_ERRORS
    from harness.common import dec, enc, parse_resp, rng_for

    res = StreamResult("S13-generated", rule="regenerated loops of run_validation + regenerated _validate (Lean, compiled; both passes) vs the real run_validation with 1..4 scripted "
                       "validator classes (LINESTRING_ONLY or not, major / minor / repeated ERROR strings, rejecting chosen geometry kinds, fix returning a new line / None / "
                       "raising NotImplementedError) on frames of 1..6 rows of lines, empty lines, multi-lines and points, allow_fix on / off; geometry and error tuple per row "
                       "compared; non-trivial = some row ends with an error or a fixed geometry")
    if ctx.gen is None:
        res.note = "gen_c13 not built (a generated module is broken): skipped"
        res.skipped["generated_driver_not_built"] = 1
        return res
    rng = rng_for(ctx.seed, "S13g")
    geoms = {0: LineString([(0, 0), (1, 1)]), 1: LineString(), 2: MultiLineString([[(0, 0), (1, 1)], [(3, 3), (4, 5)]]), 3: Point(1, 1), 9: LineString([(0, 0), (2, 2)])}

    def code(g):
        for k, v in geoms.items():
            if type(g) is type(v) and g.is_empty == v.is_empty and (g.is_empty or g.equals(v)):
                return k
        raise AssertionError(g.wkt)

    errors_pool = ["GEOM TYPE MULTILINESTRING", "CUTS ITSELF", "NULL GEOMETRY", "V NODE", "SHARP TURNS", "STACKED TRACES"]
    cases, reqs = [], []
    for _ in range(budget(ctx.tier, 250, 5000)):
        rows = [rng.choice([0, 0, 0, 1, 2, 2, 3]) for _ in range(rng.randint(1, 6))]
        allow_fix = rng.random() < 0.6
        vals = []
        for _ in range(rng.randint(1, 4)):
            fails = sorted(set(rng.sample([0, 1, 2, 3, 9], rng.randint(0, 3))))
            fx = rng.choice(["new", "none", "raise"])
            if fx == "new":
                # no fixer turns an EMPTY geometry into a line (the row is not in the spatial index: the candidate search of the real code
                # would fail on its own index): a fixing validator does not reject empty lines
                fails = [c for c in fails if c != 1]
            vals.append((rng.random() < 0.5, rng.choice(errors_pool), fails, fx))
        cases.append((rows, allow_fix, vals))
        vs = "|".join(f"{int(lo)}:{enc(e)}:{'.'.join(map(str, f)) if f else '-'}:{'9' if fx == 'new' else '-'}" for lo, e, f, fx in vals)
        reqs.append(f"vpass geoms={','.join(map(str, rows))} allowfix={int(allow_fix)} major={';'.join(enc(e) for e in MAJOR_ERRORS)} vals={vs}")
    resps = ctx.gen.parallel(reqs)
    area = gpd.GeoDataFrame(geometry=[box(-10, -10, 10, 10)])
    for (rows, allow_fix, vals), req, resp in zip(cases, reqs, resps):
        res.evaluations += 1
        classes = []
        for lo, e, f, fx in vals:
            def vm(geom, _f=f, **_):
                return code(geom) not in _f

            def fm(geom, _fx=fx, **_):
                if _fx == "raise":
                    raise NotImplementedError
                return geoms[9] if _fx == "new" else None

            classes.append(type("V", (), {"LINESTRING_ONLY": lo, "ERROR": e, "validation_method": staticmethod(vm), "fix_method": staticmethod(fm)}))
        frame = gpd.GeoDataFrame({"uid": list(range(len(rows)))}, geometry=[geoms[r] for r in rows])
        try:
            out = Validation(frame, area, "g", allow_fix).run_validation(choose_validators=tuple(classes))
            want = ([code(g) for g in out.geometry.values], [list(e) for e in out["VALIDATION_ERRORS"]])
        except Exception as ex:  # noqa: BLE001
            want = f"{type(ex).__name__}: {str(ex)[:100]}"
        r = parse_resp(resp)
        es = r.get("errs", "")
        got = ([int(x) for x in r["geoms"].split(",")], [[dec(x) for x in t.split(";") if x] for t in es.split("|")] if len(rows) > 0 else [])
        if isinstance(want, tuple) and (any(want[1]) or want[0] != rows):
            res.nontrivial += 1
        if got != want:
            res.disagreements.append(Disagreement("S13-generated", {"stream": "S13-generated", "request": req}, got, want, None,
                                                  "regenerated validation pass (Lean) and the real run_validation disagree"))
    res.samples = [{"request": reqs[0][:200], "response": resps[0][:200]}]
    return res


CHOSEN = [
    ("type+vnode", ["GeomTypeValidator", "VNodeValidator"]),
    ("null+type+nodes", ["GeomNullValidator", "GeomTypeValidator", "MultiJunctionValidator", "VNodeValidator"]),
    ("type+junction", ["GeomTypeValidator", "MultiJunctionValidator"]),
    ("nodes only", ["MultiJunctionValidator", "VNodeValidator"]),
    ("type+snap", ["GeomTypeValidator", "UnderlappingSnapValidator", "StackedTracesValidator", "MultipleCrosscutValidator"]),
]


def chosen_case(arg):
    """frame i validated with a chosen validator subset (allow_fix), then its OUTPUT validated again with the same subset, then the first object re-run:
    returns the three canonical results"""
    i, names = arg
    import_fractopo()
    from fractopo.tval import trace_validators as tv
    from fractopo.tval.trace_validation import Validation

    chosen = tuple(getattr(tv, n) for n in names) if names else None
    f = frame(i)
    # observe the object's node cache: every call of determine_general_nodes (which fills it) with the kinds of geometry in the frame it is given
    import fractopo.tval.trace_validation as tvmod

    calls = []
    real_dgn = tvmod.determine_general_nodes

    def spy(traces_):
        calls.append(sorted({g.geom_type for g in traces_.geometry.values if g is not None}))
        return real_dgn(traces_)

    tvmod.determine_general_nodes = spy
    try:
        v = Validation(f, area_for(f), "c", True, SNAP_THRESHOLD=T)
        out = v.run_validation(choose_validators=chosen)
        first_calls = list(calls)
        again = Validation(out.copy(), area_for(f), "c2", True, SNAP_THRESHOLD=T).run_validation(choose_validators=chosen)
        rerun = v.run_validation(choose_validators=chosen)
        return canon(out), canon(again), canon(rerun), first_calls
    except Exception as e:
        return f"{type(e).__name__}: {str(e)[:160]}"
    finally:
        tvmod.determine_general_nodes = real_dgn


def s13_chosen(ctx):
    """idempotence with CHOSEN validators: a subset that contains the fixing validator and a validator that needs node sets makes the first pass fill the object's caches"""
    res = StreamResult("S13-chosen", rule="every frame of the pool x 5 chosen validator subsets (the fixing GeomTypeValidator together with node / snap validators; node validators alone) and the default, "
                       "allow_fix: validate, validate the OUTPUT again with the same subset, re-run the first object -- all three must report the same errors and geometries "
                       "(exhaustive over pool x subsets, each case in a fresh process); the fills of the object's node cache are observed and compared with the regenerated cache model "
                       "(once per pass needing nodes, the second time from the fixed frame); non-trivial = the first result has an error")
    args = [(i, names) for i in range(len(POOL)) for _, names in CHOSEN + [("default", [])]]
    with mp.get_context("fork").Pool(16, maxtasksperchild=1) as pool:
        outs = pool.map(chosen_case, args, chunksize=1)
    for (i, names), o in zip(args, outs):
        res.evaluations += 1
        case = {"stream": "S13-chosen", "frame": POOL[i][0], "frame_index": i, "validators": names}
        if isinstance(o, str):
            res.disagreements.append(Disagreement("S13-chosen", case, "completes", o, True, "validation with chosen validators raised"))
            continue
        first, again, rerun, node_calls = o
        if any(e for e, _ in first):
            res.nontrivial += 1
        # the cache model (item ValidationCaches, theorems C13_node_caches_follow_the_fixed_frame / C02_node_sets_from_fixed_traces) against the real object: the node
        # tuples are determined once per pass whose validators need nodes (Gen.val_flag) -- in the first pass from the frame as given, in the second from the FIXED
        # frame, which holds no multi-part line that could be merged
        needs = {"MultiJunctionValidator", "VNodeValidator"}
        f1 = bool(names) and any(n in needs for n in names)
        f2 = any(n in needs for n in names) if names else True
        n_rows = len(first)
        want_calls = (1 if f1 and n_rows else 0) + (1 if f2 and n_rows else 0)
        fixed_kinds = sorted({g.split(" ")[0].capitalize().replace("string", "String") for _, g in first if g})
        if len(node_calls) != want_calls or (node_calls and f2 and "MultiLineString" in node_calls[-1] and "MULTILINESTRING" not in {g.split(" ")[0] for _, g in first if g}):
            res.disagreements.append(Disagreement("S13-chosen", dict(case, observed="node cache"), {"fills": want_calls, "last_fill_from": "the fixed frame"}, node_calls, None,
                                                  f"the object's node cache is not filled as the regenerated cache model says (per pass needing nodes, the second time from the fixed frame): {node_calls}"))
            continue
        if again != first:
            res.disagreements.append(Disagreement("S13-chosen", case, first, again, True,
                                                  f"validating the validated output again (validators {names}) reports other errors than the first validation of frame {POOL[i][0]!r}"))
        elif rerun != first:
            res.disagreements.append(Disagreement("S13-chosen", case, first, rerun, True, f"re-running the same object (validators {names}) reports other errors"))
    res.samples = [{"frames": [p_[0] for p_ in POOL], "subsets": [c_[0] for c_ in CHOSEN]}]
    return res


def same_frame_case(arg):
    """the caller keeps ONE frame object and validates it twice with new Validation objects (allow_fix a, then b); returns both results and whether the frame is still what it was"""
    i, a, b = arg
    import_fractopo()
    from fractopo.tval.trace_validation import Validation

    f = frame(i)
    before = (list(f.columns), [None if g is None else g.wkt for g in f.geometry.values])
    try:
        r1 = canon(Validation(f, area_for(f), "s1", a, SNAP_THRESHOLD=T).run_validation())
        r2 = canon(Validation(f, area_for(f), "s2", b, SNAP_THRESHOLD=T).run_validation())
    except Exception as e:
        return f"{type(e).__name__}: {str(e)[:160]}"
    after = (list(f.columns), [None if g is None else g.wkt for g in f.geometry.values])
    return r1, r2, before == after


def fresh_case(arg):
    i, fix = arg
    import_fractopo()
    from fractopo.tval.trace_validation import Validation

    f = frame(i)
    return canon(Validation(f, area_for(f), "ref", fix, SNAP_THRESHOLD=T).run_validation())


def s13_same_frame(ctx):
    res = StreamResult("S13-same-frame", rule="every frame of the pool as ONE caller-owned object validated twice by new Validation objects, allow_fix (True, False) / (False, True) / (True, True) "
                       "(exhaustive, each history in a fresh process): both results equal those of a fresh identical frame validated once with that setting, and the caller's frame "
                       "(columns, geometries) is what it was; non-trivial = the frame holds a multi-part line")
    n = len(POOL)
    ctxm = mp.get_context("fork")
    with ctxm.Pool(16, maxtasksperchild=1) as pool:
        refs = dict(zip([(i, fx) for i in range(n) for fx in (True, False)], pool.map(fresh_case, [(i, fx) for i in range(n) for fx in (True, False)], chunksize=1)))
    args = [(i, a, b) for i in range(n) for a, b in ((True, False), (False, True), (True, True))]
    with ctxm.Pool(16, maxtasksperchild=1) as pool:
        outs = pool.map(same_frame_case, args, chunksize=1)
    for (i, a, b), o in zip(args, outs):
        res.evaluations += 1
        case = {"stream": "S13-same-frame", "frame": POOL[i][0], "frame_index": i, "allow_fix": [a, b]}
        if any("MULTILINESTRING" in (g or "") for _, g in refs[(i, False)]):
            res.nontrivial += 1
        if isinstance(o, str):
            res.disagreements.append(Disagreement("S13-same-frame", case, "completes", o, True, "validation raised"))
            continue
        r1, r2, untouched = o
        if r1 != refs[(i, a)]:
            res.disagreements.append(Disagreement("S13-same-frame", case, refs[(i, a)], r1, True, "first validation of the frame differs from a fresh identical frame"))
        elif r2 != refs[(i, b)]:
            res.disagreements.append(Disagreement("S13-same-frame", case, refs[(i, b)], r2, True,
                                                  f"second validation of the SAME caller's frame (allow_fix={b}) differs from a fresh identical frame validated once: the first run left something in it"))
        elif not untouched:
            res.disagreements.append(Disagreement("S13-same-frame", case, "the caller's frame as it was", "changed", True, "the caller's frame (columns / geometries) was modified by validation"))
    res.samples = [{"frames": [p_[0] for p_ in POOL]}]
    return res


STREAMS = [s13_histories, s13_chosen, s13_same_frame, s13_generated]


def replay(ctx, stream, case):
    if stream == "S13-same-frame":
        r = s13_same_frame(ctx)
        hit = [d for d in r.disagreements if d.case.get("frame_index") == case.get("frame_index") and d.case.get("allow_fix") == case.get("allow_fix")]
        return hit[0] if hit else None
    if stream == "S13-chosen":
        with mp.get_context("fork").Pool(1, maxtasksperchild=1) as pool:
            o = pool.map(chosen_case, [(case["frame_index"], case["validators"])], chunksize=1)[0]
        if isinstance(o, str):
            return Disagreement(stream, case, "completes", o, True, "raised")
        first, again, rerun = o[:3]
        return None if (again == first and rerun == first) else Disagreement(stream, case, first, again if again != first else rerun, True, "re-validation with chosen validators differs")
    if stream == "S13-generated":
        r = s13_generated(ctx)
        return r.disagreements[0] if r.disagreements else None
    ctxm = mp.get_context("fork")
    h = [tuple(o) for o in case["history"]]
    with ctxm.Pool(1, maxtasksperchild=1) as pool:
        out = pool.map(run_history, [h])[0]
    with ctxm.Pool(4, maxtasksperchild=1) as pool:
        refs = pool.map(reference, range(len(POOL)), chunksize=1)
    for step, (i, r) in enumerate(out):
        if r != refs[i]:
            return Disagreement(stream, case, refs[i], r, True, f"step {step} differs from the fresh-process reference")
    return None
