"""S02 — validation verdicts on crisp configurations vs the exact defect specification (Spec/Defects.lean)."""
from __future__ import annotations

import itertools
import multiprocessing as mp
import random

from harness.common import Disagreement, StreamResult, budget, dec, import_fractopo, lines, parse_resp

PTS = [(x, y) for x in range(4) for y in range(4)]
SEGS = list(itertools.combinations(PTS, 2))
IGNORED = {"SHARP TURNS"}  # advisory, not part of C02's defect list


def worker(configs):
    import_fractopo()
    import geopandas as gpd
    from shapely.geometry import LineString, box

    from fractopo.tval.trace_validation import Validation

    area = gpd.GeoDataFrame(geometry=[box(-100, -100, 100, 100)])
    out = []
    for cfg in configs:
        # index labels as frames have them after a plain pd.concat of several files: default / offset / ALL ROWS UNDER ONE LABEL (chosen from the coordinates, so a
        # replay sees the same frame); a defect is a property of the geometries, never of the labels
        mode = int(sum(x * 7 + y * 13 for seg in cfg for x, y in seg)) % 3
        index = [list(range(len(cfg))), [10 + 3 * i for i in range(len(cfg))], [7] * len(cfg)][mode]
        # half of the frames carry Z values on every vertex (2.5-D digitising): defects are those of the plan view
        with_z = int(sum(x * 3 + y * 5 for seg in cfg for x, y in seg)) % 2 == 1
        geoms = [LineString([(x, y, 7.0 + 0.25 * j) for j, (x, y) in enumerate(s)]) if with_z else LineString(s) for s in cfg]
        tr = gpd.GeoDataFrame(geometry=geoms, index=index)
        try:
            v = Validation(tr, area, "x", True, SNAP_THRESHOLD=0.001).run_validation()
            out.append([sorted(set(e) - IGNORED) for e in v["VALIDATION_ERRORS"]])
        except Exception as e:
            out.append(f"{type(e).__name__}: {str(e)[:100]}")
    return out


def evaluate(ctx, configs, res, stream):
    reqs = [f"defects traces={lines(c)}" for c in configs]
    resps = ctx.driver.parallel(reqs)
    chunks = [configs[i::64] for i in range(64)]
    with mp.get_context("fork").Pool(16) as pool:
        parts = pool.map(worker, chunks, chunksize=1)
    got = [None] * len(configs)
    for i, part in enumerate(parts):
        got[i::64] = part
    for cfg, resp, errs in zip(configs, resps, got):
        res.evaluations += 1
        r = parse_resp(resp)
        if r.get("crisp") != "1":
            # two segments meet at a shallow angle: they run alongside each other inside the stacking buffer near the
            # contact, which is C10's STACKED window and not a crisp configuration
            res.skipped["shallow_angle_or_close_crossings_not_crisp"] = res.skipped.get("shallow_angle_or_close_crossings_not_crisp", 0) + 1
            continue
        exp = [[dec(x) for x in t.split(";") if x] for t in r["defects"].split("|")]
        if any(exp):
            res.nontrivial += 1
        for e in exp:
            for s in e:
                res.distribution[s] = res.distribution.get(s, 0) + 1
        case = {"stream": stream, "traces": [list(map(list, c)) for c in cfg]}
        if isinstance(errs, str):
            res.disagreements.append(Disagreement(stream, case, exp, errs, True, "validation raised"))
            continue
        bad = []
        for k, (e, g) in enumerate(zip(exp, errs)):
            if (not e and g) or (e and not set(e) <= set(g)):
                bad.append((k, e, g))
        if bad:
            res.disagreements.append(Disagreement(stream, case, exp, errs, True,
                                                  f"trace reported without taking part in a defect, or a documented defect string missing: {bad[:3]}"))


def s02_lattice_pairs(ctx):
    res = StreamResult("S02-lattice-pairs", rule="ALL 7140 pairs of straight traces with end points on the 4x4 integer lattice (exhaustive; index labels default / offset / all rows under ONE label, a third each; Z values on every vertex in half of the frames); verdict per trace: "
                       "error iff in a defect, documented string included; non-trivial = configuration with a defect")
    evaluate(ctx, list(itertools.combinations(SEGS, 2)), res, "S02-lattice-pairs")
    res.samples = [{"traces": [list(SEGS[0]), list(SEGS[17])]}]
    return res


def s02_lattice_triples(ctx):
    rng = random.Random(f"{ctx.seed}:S02t")
    triples = list(itertools.combinations(SEGS, 3))
    exhaustive = ctx.tier == "thorough"
    if not exhaustive:
        triples = rng.sample(triples, 4000)
    res = StreamResult("S02-lattice-triples", rule=("ALL 280840 lattice triples (exhaustive)" if exhaustive else "4000 random of the 280840 lattice triples (all of them in the thorough tier)")
                       + "; each also under a random one of the 8 lattice symmetries; non-trivial = configuration with a defect")
    sym = [lambda p: p, lambda p: (3 - p[0], p[1]), lambda p: (p[0], 3 - p[1]), lambda p: (3 - p[0], 3 - p[1]),
           lambda p: (p[1], p[0]), lambda p: (3 - p[1], p[0]), lambda p: (p[1], 3 - p[0]), lambda p: (3 - p[1], 3 - p[0])]
    cfgs = []
    for t in triples:
        cfgs.append(t)
        if not exhaustive:
            f = rng.choice(sym)
            cfgs.append(tuple((f(a), f(b)) for a, b in t))
    evaluate(ctx, cfgs, res, "S02-lattice-triples")
    res.samples = [{"traces": [list(s) for s in triples[0]]}]
    return res


def s02_polylines(ctx):
    """larger crisp configurations: lattice polylines with planted defects, isolated by construction"""
    rng = random.Random(f"{ctx.seed}:S02p")
    res = StreamResult("S02-polylines", rule="2..6 random polylines (2..4 vertices) on a 7x7 integer lattice: a lattice END is in exact contact with a trace or >= 0.1 away from it; "
                       "configurations in which two distinct crossing points come within 0.05 of each other (small triangle / junction by proximity) or segments leave a contact "
                       "at a shallow angle are skipped as not crisp (exact test in the driver); threshold 0.001; non-trivial = configuration with a defect")
    cfgs = []
    pts = [(x, y) for x in range(7) for y in range(7)]
    for _ in range(budget(ctx.tier, 1500, 40000)):
        n = rng.randint(2, 6)
        cfg = []
        for _ in range(n):
            k = rng.randint(2, 4)
            pl = rng.sample(pts, k)
            cfg.append(tuple(pl))
        cfgs.append(tuple(cfg))
    # crispness filter: exact rational test in the driver (Defects.angleCrisp, Defects.contactsApart)
    evaluate(ctx, cfgs, res, "S02-polylines")
    res.samples = [{"traces": [list(p) for p in cfgs[0]]}]
    return res


def worker_fix(configs):
    """like `worker`, with allow_fix and the first trace handed over as a mergeable MultiLineString (cut at an interior point)"""
    import_fractopo()
    import geopandas as gpd
    from shapely.geometry import LineString, MultiLineString, box

    from fractopo.tval.trace_validation import Validation

    area = gpd.GeoDataFrame(geometry=[box(-100, -100, 100, 100)])
    out = []
    for cfg, cut in configs:
        first = cfg[0]
        (x0, y0), (x1, y1) = first[0], first[1]
        mid = (x0 + (x1 - x0) * cut, y0 + (y1 - y0) * cut)
        geoms = [MultiLineString([[first[0], mid], [mid] + list(first[1:])])] + [LineString(s) for s in cfg[1:]]
        try:
            v = Validation(gpd.GeoDataFrame(geometry=geoms), area, "x", True, SNAP_THRESHOLD=0.001).run_validation()
            out.append(([sorted(set(e) - IGNORED) for e in v["VALIDATION_ERRORS"]], [g.geom_type for g in v.geometry.values]))
        except Exception as e:
            out.append(f"{type(e).__name__}: {str(e)[:100]}")
    return out


def s02_multipart(ctx):
    """a trace delivered in two mergeable parts (allow_fix) must be judged like the merged trace"""
    rng = random.Random(f"{ctx.seed}:S02m")
    res = StreamResult("S02-multipart", rule="lattice pairs / triples in which the FIRST trace is handed over as a mergeable MultiLineString (cut at 3/8 or 5/8 of its first "
                       "segment) with allow_fix=True: the verdict of every trace must contain the documented defects of the configuration with the trace merged "
                       "(V NODE, MULTI JUNCTION, ... are determined from the nodes of the FIXED traces); non-trivial = configuration with a defect")
    pairs = rng.sample(list(itertools.combinations(SEGS, 2)), budget(ctx.tier, 500, 4000))
    triples = rng.sample(list(itertools.combinations(SEGS, 3)), budget(ctx.tier, 500, 6000))
    cfgs = []
    for c in pairs + triples:
        c = list(c)
        rng.shuffle(c)
        cfgs.append((tuple(c), rng.choice([0.375, 0.625])))
    reqs = [f"defects traces={lines(c)}" for c, _ in cfgs]
    resps = ctx.driver.parallel(reqs)
    chunks = [cfgs[i::64] for i in range(64)]
    with mp.get_context("fork").Pool(16) as pool:
        parts = pool.map(worker_fix, chunks, chunksize=1)
    got = [None] * len(cfgs)
    for i, part in enumerate(parts):
        got[i::64] = part
    for (cfg, cut), resp, g in zip(cfgs, resps, got):
        res.evaluations += 1
        r = parse_resp(resp)
        if r.get("crisp") != "1":
            res.skipped["not_crisp"] = res.skipped.get("not_crisp", 0) + 1
            continue
        # the cut point must not be a contact of the configuration (it is an interior point of the first trace: 3/8 and 5/8 are not lattice contacts)
        exp = [[dec(x) for x in t.split(";") if x] for t in r["defects"].split("|")]
        if any(exp):
            res.nontrivial += 1
        case = {"stream": "S02-multipart", "traces": [list(map(list, c)) for c in cfg], "cut": cut}
        if isinstance(g, str):
            res.disagreements.append(Disagreement("S02-multipart", case, exp, g, True, "validation raised"))
            continue
        errs, types = g
        bad = [(k, e, h) for k, (e, h) in enumerate(zip(exp, errs)) if not set(e) <= set(h)]
        if types[0] != "LineString":
            bad.append((0, "merged LineString", types[0]))
        if bad:
            res.disagreements.append(Disagreement("S02-multipart", case, exp, errs, True, f"a documented defect is missing when the first trace arrives in two mergeable parts: {bad[:3]}"))
    res.samples = [{"traces": [list(s_) for s_ in cfgs[0][0]], "cut": cfgs[0][1]}]
    return res


def s02_generated(ctx):
    """translator validation: the REGENERATED Lean definitions (compiled into gen_c02) and the Python functions they were generated
    from, run on the same inputs"""
    import_fractopo()
    from fractions import Fraction as Fr

    from shapely.geometry import LineString, Point

    from fractopo.general import determine_node_junctions, determine_valid_intersection_points, determine_valid_intersection_points_no_vnode
    from harness.common import line as wline, lines as wlines, parse_line, parse_resp, rat, rng_for

    res = StreamResult("S02-generated", rule="regenerated determine_node_junctions / determine_valid_intersection_points_no_vnode (Lean, compiled) vs the real "
                       "functions: random node tuples on a lattice with coincident points, points 0.5 / 0.95 / 1.05 x the error distance apart, empty tuples, "
                       "thresholds 1 and 2; random traces sharing ends / crossing; non-trivial = something marked / dropped")
    if ctx.gen is None:
        res.note = "gen_c02 not built (a generated module is broken): skipped"
        res.skipped["generated_driver_not_built"] = 1
        return res
    rng = rng_for(ctx.seed, "S02g")
    t, m = 0.01, 1.1
    d = t * m
    cases, reqs = [], []
    for _ in range(budget(ctx.tier, 300, 5000)):
        base = [(float(rng.randint(0, 4)), float(rng.randint(0, 4))) for _ in range(rng.randint(2, 6))]
        nodes = []
        for _ in range(rng.randint(1, 6)):
            tup = []
            for _ in range(rng.choice([0, 1, 2, 2, 3])):
                bx, by = rng.choice(base)
                off = rng.choice([0.0, 0.0, 0.5 * d, 0.95 * d, 1.05 * d, 3 * d])
                if rng.random() < 0.5:
                    tup.append((bx + off, by))
                else:
                    tup.append((bx, by - off))
            nodes.append(tup)
        thr = rng.choice([1, 2])
        cases.append(("junctions", nodes, thr))
        reqs.append(f"junctions thr={thr} d2={rat(Fr(d) * Fr(d))} nodes={wlines(nodes)}")
    for _ in range(budget(ctx.tier, 200, 3000)):
        pts = [(float(rng.randint(0, 5)), float(rng.randint(0, 5))) for _ in range(4)]
        geom = [pts[0], pts[1]] if pts[0] != pts[1] else [pts[0], (pts[0][0] + 1.0, pts[0][1] + 2.0)]
        cands = []
        for _ in range(rng.randint(1, 4)):
            a = rng.choice([geom[0], geom[1], (float(rng.randint(0, 5)), float(rng.randint(0, 5)))])
            b = (float(rng.randint(0, 5)), float(rng.randint(0, 5)))
            if a != b:
                cands.append([a, b])
        if not cands:
            continue
        cases.append(("interfilter", geom, cands))
        reqs.append(None)
    # the intersection points come from the real helper (GEOS); the filter stage is what is compared
    import geopandas as gpd

    for i, c in enumerate(cases):
        if c[0] == "interfilter":
            _, geom, cands = c
            inter = determine_valid_intersection_points(gpd.GeoSeries([LineString(x) for x in cands]).intersection(LineString(geom)))
            ip = [(p.x, p.y) for p in inter]
            cases[i] = ("interfilter", geom, cands, ip)
            reqs[i] = f"interfilter c2={rat(Fr(1, 10**8))} inter={wline(ip)} geom={wline(geom)} cands={wlines(cands)}"
    resps = ctx.gen.parallel(reqs)
    for c, resp in zip(cases, resps):
        res.evaluations += 1
        r = parse_resp(resp)
        if c[0] == "junctions":
            _, nodes, thr = c
            want = sorted(determine_node_junctions([tuple(Point(p) for p in tup) for tup in nodes], t, m, thr))
            got = sorted(int(x) for x in r.get("marked", "").split(",") if x)
            res.distribution["junctions"] = res.distribution.get("junctions", 0) + 1
            res.nontrivial += int(bool(want))
            if got != want:
                res.disagreements.append(Disagreement("S02-generated", {"stream": "S02-generated", "kind": "junctions", "nodes": nodes, "thr": thr}, got, want, None,
                                                      "regenerated determine_node_junctions (Lean) and the Python function disagree: translator or prelude semantics wrong"))
        else:
            _, geom, cands, ip = c
            want = [(p.x, p.y) for p in determine_valid_intersection_points_no_vnode(gpd.GeoSeries([LineString(x) for x in cands]), LineString(geom))]
            got = [(float(x), float(y)) for x, y in parse_line(r.get("kept", ""))]
            res.distribution["interfilter"] = res.distribution.get("interfilter", 0) + 1
            res.nontrivial += int(len(want) != len(ip))
            if got != want:
                res.disagreements.append(Disagreement("S02-generated", {"stream": "S02-generated", "kind": "interfilter", "geom": geom, "cands": cands, "inter": ip}, got, want, None,
                                                      "regenerated determine_valid_intersection_points_no_vnode (Lean) and the Python function disagree"))
    res.samples = [{"request": reqs[0][:200], "response": resps[0][:100]}] if reqs else []
    # the regenerated MultipleCrosscutValidator.validation_method (exact geometry) vs the real one: zig-zag candidates crossing the trace 0..4 times
    import geopandas as _gpd
    from shapely.geometry import LineString as _LS

    from fractopo.tval.trace_validators import MultipleCrosscutValidator
    from harness.common import line as _wline, lines as _wlines

    rng2 = rng_for(ctx.seed, "S02x")
    xcases, xreqs = [], []
    for _ in range(budget(ctx.tier, 150, 2500)):
        geom = [(0.0, 0.0), (12.0, 0.0)]
        cands = []
        for _ in range(rng2.randint(1, 3)):
            k_ = rng2.randint(0, 4)  # crossings
            x0 = float(rng2.randint(1, 3))
            if k_ == 0:
                cands.append([(x0, 2.0), (x0 + 5.0, 3.0)])
            else:
                zig = [(x0 + 2.0 * i_, 1.0 if i_ % 2 == 0 else -1.0) for i_ in range(k_ + 1)]
                cands.append(zig)
        xcases.append((geom, cands))
        xreqs.append(f"gcrosscut geom={_wline(geom)} cands={_wlines(cands)}")
    xresps = ctx.gen.parallel(xreqs)
    for (geom, cands), req, resp in zip(xcases, xreqs, xresps):
        res.evaluations += 1
        want = bool(MultipleCrosscutValidator.validation_method(_LS(geom), _gpd.GeoSeries([_LS(c_) for c_ in cands])))
        got = parse_resp(resp)["ok"] == "1"
        res.nontrivial += int(not want)
        res.distribution["crosscut"] = res.distribution.get("crosscut", 0) + 1
        if got != want:
            res.disagreements.append(Disagreement("S02-generated", {"stream": "S02-generated", "request": req}, got, want, None,
                                                  "regenerated MultipleCrosscutValidator.validation_method (Lean) and the Python method disagree"))
    return res


STREAMS = [s02_lattice_pairs, s02_lattice_triples, s02_polylines, s02_generated, s02_multipart]


def replay(ctx, stream, case):
    if stream == "S02-generated":
        r = s02_generated(ctx)  # seeded: regenerates the same cases
        return r.disagreements[0] if r.disagreements else None
    if stream == "S02-multipart":
        cfg = tuple(tuple(map(tuple, t)) for t in case["traces"])
        r = parse_resp(ctx.driver.batch([f"defects traces={lines(cfg)}"])[0])
        exp = [[dec(x) for x in t.split(";") if x] for t in r["defects"].split("|")]
        g = worker_fix([(cfg, case["cut"])])[0]
        if isinstance(g, str):
            return Disagreement(stream, case, exp, g, True, "validation raised")
        bad = [(k, e, h) for k, (e, h) in enumerate(zip(exp, g[0])) if not set(e) <= set(h)]
        return Disagreement(stream, case, exp, g[0], True, f"documented defect missing: {bad[:3]}") if bad else None
    res = StreamResult("replay")
    evaluate(ctx, [tuple(tuple(map(tuple, t)) for t in case["traces"])], res, stream)
    return res.disagreements[0] if res.disagreements else None
