"""S03 — maps that the package's own Validation accepts must be extracted into a consistent planar graph."""
from __future__ import annotations

import math
import multiprocessing as mp
from collections import Counter

from harness.common import Disagreement, StreamResult, budget, import_fractopo, rng_for

ADVISORY = {"SHARP TURNS"}


def rot(p, ang, off):
    c, s = math.cos(math.radians(ang)), math.sin(math.radians(ang))
    return (p[0] * c - p[1] * s + off[0], p[0] * s + p[1] * c + off[1])


def feature(rng, t):
    """one isolated near-threshold feature in a local frame around the origin (extent < 15)"""
    kind = rng.choice(["end_interior", "end_interior", "end_end", "end_boundary", "end_end_cross"])
    g = rng.choice([0.0, 0.3, 0.9, 1.0, 1.05, 1.1, 1.3, 1.65, 2.0, 3.0, 6.0, 12.0, rng.uniform(0, 12)]) * t
    sign = rng.choice([1, 1, -1])  # undershoot / overshoot
    if kind == "end_interior" and rng.random() < 0.25:
        # the target starts with a short hook folding back over its long second segment: the vertex of the target nearest to the
        # arriving end (the hook's tip) is NOT an end of the segment the end abuts
        target = [(-4.5, 0.25), (-6.0, 0.0), (4.0, 0.0)]
        x = -4.2 + rng.choice([0.0, 0.1, 0.6])
        return [target, [(x + rng.choice([0.0, 2.0]), 5.0), (x, sign * g)]], kind, g / t * sign
    if kind == "end_interior":
        # distance of the contact from the tip of the target: incl. stubs barely longer than the branch minimum
        s = rng.choice([1.2, 1.5, 1.9, 2.5, 3.0, 30.0, 400.0]) * t
        target = [(-6.0, 0.0), (4.0, 0.0)]
        x = 4.0 - s
        return [target, [(x + rng.choice([0.0, 2.0]), 5.0), (x, sign * g)]], kind, g / t * sign
    if kind == "end_end_cross":
        # two traces whose ends (nearly) coincide AND that cross each other once elsewhere: their intersection is a MultiPoint when the ends coincide exactly
        g = rng.choice([0.0, 0.0, 0.3, 0.9, 1.3, 3.0]) * t
        return [[(-6.0, 0.0), (0.0, 0.0)], [(g, 0.0), (2.0, 2.0), (-2.0, 2.0), (-3.0, -2.0)]], "end_end", g / t
    if kind == "end_end":
        return [[(-6.0, 0.0), (0.0, 0.0)], [(g, 0.0) if sign > 0 else (g * 0.7, g * 0.7), (5.0, 3.0)]], kind, g / t
    # end near the boundary x = 15 of the local area box
    return [[(8.0, 1.0), (15.0 - sign * g, 2.0)]], kind, g / t * sign


def build_map(rng):
    t = rng.choice([0.01, 0.01, 0.001, 0.1])
    nf = rng.randint(1, 3)
    geoms, meta = [], []
    ang = rng.choice([0, 90, 180, 270, 45, 17, 123, 301])
    off = rng.choice([(0.0, 0.0), (2000.0, -300.0), (4e5, 6.6e6)])
    scale = max(1.0, t / 0.01)
    for i in range(nf):
        f, kind, rel = feature(rng, t)
        dx = 40.0 * i
        if kind == "end_boundary" and i > 0:
            continue
        for l in f:
            geoms.append([rot((x * scale + dx * scale, y * scale), ang, off) for x, y in l])
        meta.append((kind, round(rel, 3)))
    w = (40.0 * nf + 15.0) * scale
    has_b = any(k == "end_boundary" for k, _ in meta)
    area = [(-25.0 * scale, -25.0 * scale), ((15.0 * scale) if has_b else w, -25.0 * scale), ((15.0 * scale) if has_b else w, 25.0 * scale), (-25.0 * scale, 25.0 * scale)]
    area = [rot(p, ang, off) for p in area]
    # some maps carry z-coordinates on some or all of their traces (2D and 2.5D layers concatenated): the package strips them before anything else
    zr = rng.random()
    zmask = [False] * len(geoms)
    if zr < 0.12:
        zmask = [rng.random() < 0.5 for _ in geoms]
    elif zr < 0.16:
        zmask = [True] * len(geoms)
    return {"t": t, "geoms": geoms, "area": area + [area[0]], "features": meta, "angle": ang, "z": zmask}


def worker(m):
    import_fractopo()
    import geopandas as gpd
    from shapely.geometry import LineString, Polygon

    from fractopo.branches_and_nodes import branches_and_nodes
    from fractopo.tval.trace_validation import Validation

    zmask = m.get("z") or [False] * len(m["geoms"])
    tr = gpd.GeoDataFrame(geometry=[LineString([(x, y, 5.0 + i) for i, (x, y) in enumerate(g)]) if z else LineString(g) for g, z in zip(m["geoms"], zmask)])
    ar = gpd.GeoDataFrame(geometry=[Polygon(m["area"])])
    try:
        v = Validation(tr, ar, "c03", True, SNAP_THRESHOLD=m["t"]).run_validation()
    except Exception as e:
        return {"validation": f"{type(e).__name__}: {str(e)[:120]}"}
    errs = [set(e) - ADVISORY for e in v["VALIDATION_ERRORS"]]
    if any(errs):
        return {"accepted": False, "errors": sorted({x for e in errs for x in e})}
    inside = any(g.intersects(ar.geometry.values[0]) for g in tr.geometry.values)
    if not inside:
        return {"accepted": False, "errors": ["no trace inside"]}
    out = {"accepted": True}
    try:
        b, n = branches_and_nodes(tr, ar, m["t"], already_clipped=False)
    except Exception as e:
        out["raised"] = f"{type(e).__name__}: {str(e)[:160]}"
        return out
    ends = Counter()
    for g in b.geometry.values:
        ends[g.coords[0][:2]] += 1
        ends[g.coords[-1][:2]] += 1
    problems = []
    if "Error" in set(b["Connection"].values):
        problems.append("Error branch")
    want = {"I": 1, "Y": 3, "X": 4}
    for p, c in zip(n.geometry.values, n["Class"].values):
        if c in want:
            k = sum(v_ for q, v_ in ends.items() if abs(q[0] - p.x) < 1e-9 and abs(q[1] - p.y) < 1e-9)
            if k != want[c]:
                problems.append(f"{c}-node at ({p.x!r}, {p.y!r}) terminates {k} branches")
    out["problems"] = problems
    out["nodes"] = dict(Counter(n["Class"].values))
    return out


F9_KEY = "F9:mutually-abutting-ends"


def mutual_abutment(m) -> bool:
    """the trigger condition of known finding F9: two traces each have an end within the snap threshold of the OTHER trace
    (validation accepts both ends as snapped; the snapping pass then moves each onto the other). Planted features avoid it, but an
    overshoot along a slanted trace shortens the target's stub below the threshold now and then."""
    from shapely.geometry import LineString, Point

    ls = [LineString(g) for g in m["geoms"]]
    t = m["t"] * (1 + 1e-9)

    def near(i, j):
        """ends of i within the threshold of trace j, each with its nearest point on j"""
        out = []
        for e in (m["geoms"][i][0], m["geoms"][i][-1]):
            p = Point(e)
            if p.distance(ls[j]) < t:
                out.append((p, ls[j].interpolate(ls[j].project(p))))
        return out

    for i in range(len(ls)):
        for j in range(i + 1, len(ls)):
            for ei, ni in near(i, j):
                for ej, nj in near(j, i):
                    # two ends that simply face each other (each is the other's nearest point) are an ordinary end-to-end snap, not F9
                    if not (ni.distance(ej) < 1e-3 * m["t"] and nj.distance(ei) < 1e-3 * m["t"]):
                        return True
    return False


def s03_accepted(ctx):
    res = StreamResult("S03-accepted", rule="maps of 1..3 isolated near-threshold features (end near a trace interior incl. close to the target's tip, end near an end -- also of a trace it crosses elsewhere --, end "
                       "near the area boundary; gaps 0..12 x snap, under- and overshoot, 8 orientations incl. axis-parallel, offsets to UTM scale, thresholds 1e-3..1e-1), "
                       "also onto a target whose nearest vertex (the tip of a hook) is not an end of the abutted segment; z-coordinates on some / all traces of one map in six; filtered through the real Validation; every ACCEPTED map must extract without raising, with no Error branch and I/Y/X nodes terminating 1/3/4 "
                       "branches; non-trivial = accepted map with a feature gap below 2 x snap")
    rng = rng_for(ctx.seed, "S03")
    maps = [build_map(rng) for _ in range(budget(ctx.tier, 600, 15000))]
    with mp.get_context("fork").Pool(16, maxtasksperchild=32) as pool:
        outs = pool.map(worker, maps, chunksize=4)
    for m, o in zip(maps, outs):
        res.evaluations += 1
        case = {"stream": "S03-accepted", **m}
        if o.get("accepted") and (o.get("raised") or o.get("problems")) and mutual_abutment(m):
            case["finding_key"] = F9_KEY
        if "validation" in o:
            res.disagreements.append(Disagreement("S03-accepted", case, "validation completes", o["validation"], None, "validation raised (see C09)"))
            continue
        if not o["accepted"]:
            res.distribution["rejected_by_validation"] = res.distribution.get("rejected_by_validation", 0) + 1
            continue
        res.distribution["accepted"] = res.distribution.get("accepted", 0) + 1
        if any(abs(r) < 2 for _, r in m["features"]):
            res.nontrivial += 1
        if "raised" in o:
            res.disagreements.append(Disagreement("S03-accepted", case, "extraction completes", o["raised"], True, "accepted by validation but extraction raised"))
        elif o["problems"]:
            res.disagreements.append(Disagreement("S03-accepted", case, "consistent planar graph", o["problems"], True,
                                                  "accepted by validation but the extracted graph is inconsistent: " + "; ".join(o["problems"])[:300]))
    res.samples = [{k: maps[0][k] for k in ("t", "features", "angle", "geoms")}]
    return res


STREAMS = [s03_accepted]


def replay(ctx, stream, case):
    o = worker(case)
    if o.get("accepted") and (o.get("raised") or o.get("problems")):
        return Disagreement(stream, case, "consistent", o.get("raised") or o.get("problems"), True, "accepted but inconsistent")
    return None


def replay_finding(ctx, k):
    import json

    from harness.common import VERIF

    case = json.loads((VERIF / k["witness"]).read_text())["case"]
    return replay(ctx, "S03-accepted", case) is not None
