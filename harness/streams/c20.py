"""S20 — grouping, aggregation, random sample circles against the Subsampling model."""
from __future__ import annotations

from fractions import Fraction

from harness.common import Disagreement, StreamResult, budget, import_fractopo, parse_resp, rat, rng_for

ADDITIVE = ["Area", "Number of Branches", "Number of Branches (Real)", "Number of Traces", "Number of Traces (Real)", "Circle Count"]
DECLARED_MEAN = ["Fracture Intensity P21", "Connections per Branch", "Trace Mean Length", "Areal Frequency P20", "Dimensionless Intensity B22"]
UNDECLARED = ["radius", "Censoring", "Relative Censoring", "powerlaw alpha", "my column", "trace_cut_off"]


def s20_group(ctx, drv=None, name="S20-group"):
    import_fractopo()
    from fractopo.analysis.subsampling import group_gathered_subsamples

    drv = drv or ctx.driver
    res = StreamResult(name, rule=("REGENERATED loop (Lean, compiled into gen_c20) instead of the hand model: " if name != "S20-group" else "") + "description lists with 1..5 names in every kind of order: k x s interleaving as produced by "
                       "subsample_networks, sorted, random shuffles, single; names differing only in letter case or a trailing blank are different names; non-trivial = some name occurs in two non-adjacent positions")
    rng = rng_for(ctx.seed, "S20g" + name)
    cases = [["a", "b", "a", "b"], ["a"], ["a", "a"], ["x", "y", "z"] * 3, ["KB11", "kb11", "H"] * 3, ["Net 1", "net 1"] * 2, ["a ", "a"] * 2]
    for _ in range(budget(ctx.tier, 300, 8000)):
        k, s = rng.randint(1, 5), rng.randint(1, 6)
        names = [rng.choice(["n", "net", "Kallo", "b b", "ä"]) + str(i) for i in range(k)]
        if k >= 2 and rng.random() < 0.2:
            names[1] = names[0].swapcase() if names[0].swapcase() != names[0] else names[0] + " "  # names that differ in letter case / a trailing blank only
        mode = rng.random()
        lst = names * s if mode < 0.4 else sorted(names * s) if mode < 0.5 else rng.sample(names * s, k * s)
        cases.append(lst)
    resps = drv.parallel([f"group keys={';'.join(n.replace(' ', '_') for n in c)}" for c in cases])
    seen = set()
    for c, resp in zip(cases, resps):
        res.evaluations += 1
        model = {}
        for tok in parse_resp(resp)["groups"].split("|"):
            k, idx = tok.rsplit(":", 1)
            model[k.replace("_", " ")] = [int(i) for i in idx.split(",")]
        subs = [{"Name": n, "param": float(i), "i": i} for i, n in enumerate(c)]
        got = {k: [d["i"] for d in v] for k, v in group_gathered_subsamples(subs).items()}
        nonadj = any(c[i] == c[j] and j > i + 1 and any(c[m] != c[i] for m in range(i, j)) for i in range(len(c)) for j in range(i + 1, len(c)))
        if nonadj and tuple(c) not in seen:
            seen.add(tuple(c))
            res.nontrivial += 1
        res.distribution["interleaved"] = res.distribution.get("interleaved", 0) + int(nonadj)
        # property oracle: partition -- every index exactly once, under its own name
        flat = sorted(i for v in got.values() for i in v)
        partition = flat == list(range(len(c))) and all(c[i] == k for k, v in got.items() for i in v)
        if got != model or not partition:
            res.disagreements.append(Disagreement(name, {"stream": name, "names": c}, model, got, not partition, "grouping is not the partition by name"))
    res.samples = [{"names": cases[0], "model": resps[0]}]
    return res


def gen_rows(rng):
    n = rng.randint(1, 5)
    cols = ["Area"]
    pool = ADDITIVE[1:] + DECLARED_MEAN + UNDECLARED + ["Name", "note"]
    cols += rng.sample(pool, rng.randint(1, 8))
    rng.shuffle(cols)
    rows = []
    for _ in range(n):
        row = {}
        for c in cols:
            if c in ("Name", "note"):
                row[c] = rng.choice(["a", "b", "circle 1"])
            elif c == "Area":
                row[c] = rng.choice([1.0, 10.0, 30.0, 0.5, 12.25, 3.0])
            elif c in ADDITIVE or c == "trace_cut_off":
                row[c] = rng.choice([rng.randint(0, 50), float(rng.randint(0, 50)), rng.randint(0, 5)])
            else:
                row[c] = rng.randint(0, 4096) / 64
        rows.append(row)
    # occasionally a text value in an otherwise numeric column
    if rng.random() < 0.1:
        rows[0][rng.choice([c for c in cols if c != "Area"])] = "n/a"
    return cols, rows


def enc_cell(v):
    if isinstance(v, str):
        return "s:" + v.replace(" ", "_").replace(",", "_").replace(";", "_")
    return "n:" + rat(v)


def agg_compare(ctx, cols, rows, resp):
    import_fractopo()
    from fractopo.analysis.subsampling import aggregate_chosen

    model = dict(tok.split("=", 1) for tok in parse_resp(resp)["agg"].split("|"))
    got = aggregate_chosen(rows)
    bad = []
    for c in cols:
        m = model[c.replace(" ", "_")]
        g = got.get(c)
        if m == "fallback":
            ok = isinstance(g, str) and g == str([r[c] for r in rows])
        elif m == "undef":
            ok = True
        else:
            kind, q = m.split(":")
            ok = isinstance(g, (int, float)) and not isinstance(g, bool) and abs(float(g) - float(Fraction(q))) <= 1e-9 * max(1.0, abs(float(Fraction(q))))
        if not ok:
            bad.append((c, m, g))
    return bad, model, got


def s20_aggregate(ctx, drv=None, name="S20-aggregate"):
    drv = drv or ctx.driver
    res = StreamResult(name, rule=("REGENERATED loops (Lean, compiled into gen_c20) instead of the hand model: " if name != "S20-aggregate" else "") + "chosen-sample lists (1..5 rows, positive areas) with declared additive, declared mean and "
                       "UNDECLARED numeric columns and text columns in random column order; ints and floats; non-trivial = an undeclared numeric "
                       "column follows an additive one, or an integer additive column")
    rng = rng_for(ctx.seed, "S20a" + name)
    cases = [(["Area", "Number of Traces", "Name"], [{"Area": 10.0, "Number of Traces": 3, "Name": "a"}, {"Area": 30.0, "Number of Traces": 5, "Name": "a"}])]
    for _ in range(budget(ctx.tier, 400, 10000)):
        cases.append(gen_rows(rng))
    reqs = []
    for cols, rows in cases:
        reqs.append("aggregate cols=" + ";".join(c.replace(" ", "_") for c in cols) + " rows=" + ";".join(",".join(enc_cell(r[c]) for c in cols) for r in rows))
    resps = drv.parallel(reqs)
    seen = set()
    for (cols, rows), req, resp in zip(cases, reqs, resps):
        res.evaluations += 1
        bad, model, got = agg_compare(ctx, cols, rows, resp)
        follows = any(cols[i] in ADDITIVE and cols[i + 1] in UNDECLARED for i in range(len(cols) - 1))
        int_add = any(isinstance(r[c], int) for r in rows for c in cols if c in ADDITIVE)
        if (follows or int_add) and req not in seen and len(rows) > 1:
            seen.add(req)
            res.nontrivial += 1
        res.distribution["undeclared_after_additive"] = res.distribution.get("undeclared_after_additive", 0) + int(follows)
        res.distribution["int_additive"] = res.distribution.get("int_additive", 0) + int(int_add)
        if bad:
            res.disagreements.append(Disagreement(name, {"stream": name, "cols": cols, "rows": rows}, model, {k: got[k] for k in cols}, True if name == "S20-aggregate" else None,
                                                  f"aggregated value differs from sum / area-weighted mean / joined string: {bad}"))
    res.samples = [{"request": reqs[0], "model": resps[0]}]
    return res


def gather_case(kinds):
    """real gather_subsample_descriptions + group_gathered_subsamples on a result list of the given kinds; returns (kept indices, groups)"""
    from fractopo.analysis.subsampling import gather_subsample_descriptions, group_gathered_subsamples

    names = ["kb11", "geta1", "Geta1"]
    results = []
    for i, k in enumerate(kinds):
        results.append({"Name": names[i % 3], "Area": 10.0 + i, "i": i} if k == "d" else None if k == "n" else ("not a dict", i) if i % 2 else [i])
    kept = gather_subsample_descriptions(results)
    groups = {k: [d["i"] for d in v] for k, v in group_gathered_subsamples(kept).items()} if kept else {}
    return [d["i"] for d in kept], groups


def s20_gather(ctx):
    """the step between subsample_networks and the grouping, with FAILED samples (None) anywhere in the list"""
    import_fractopo()
    res = StreamResult("S20-gather", rule="result lists of 1..14 entries as subsample_networks returns them (3 networks interleaved): descriptions, None for failed samples (first, "
                       "in the middle, last, several, all), non-dict results; the real gather_subsample_descriptions vs the regenerated one (Lean, compiled) and vs the "
                       "statement: exactly the descriptions survive, in order, and after group_gathered_subsamples each is in exactly one group, under its own name; "
                       "non-trivial = a failed sample is followed by a description")
    rng = rng_for(ctx.seed, "S20ga")
    cases = [list("dnd"), list("ndd"), list("ddn"), list("dndnd"), list("nnn"), list("d"), list("n"), list("dxd"), list("dnxdnd"), list("dddddndddddd")]
    for _ in range(budget(ctx.tier, 200, 4000)):
        n = rng.randint(1, 14)
        p_none = rng.choice([0.0, 0.1, 0.3, 0.6])
        cases.append([("n" if rng.random() < p_none else "x" if rng.random() < 0.08 else "d") for _ in range(n)])
    if ctx.gen is None:
        res.note = "gen_c20 not built (a generated module is broken): the regenerated code is not compared, the statement still is"
        res.skipped["generated_driver_not_built"] = 1
        resps = [None] * len(cases)
    else:
        resps = ctx.gen.parallel(["gather kinds=" + ",".join(c) for c in cases])
    names = ["kb11", "geta1", "Geta1"]
    for c, resp in zip(cases, resps):
        res.evaluations += 1
        want = [i for i, k in enumerate(c) if k == "d"]
        if any(k == "n" and "d" in c[i + 1:] for i, k in enumerate(c)):
            res.nontrivial += 1
        res.distribution["failed_samples"] = res.distribution.get("failed_samples", 0) + c.count("n")
        case = {"stream": "S20-gather", "kinds": c}
        try:
            kept, groups = gather_case(c)
        except Exception as e:
            res.disagreements.append(Disagreement("S20-gather", case, want, f"{type(e).__name__}: {e}", True, "gathering raised"))
            continue
        if resp is not None:
            model = [int(x) for x in parse_resp(resp).get("kept", "").split(",") if x != ""]
            if model != kept:
                res.disagreements.append(Disagreement("S20-gather", case, model, kept, None, "regenerated gather_subsample_descriptions (Lean) and the Python function disagree"))
                continue
        flat = sorted(i for v in groups.values() for i in v)
        if kept != want:
            res.disagreements.append(Disagreement("S20-gather", case, want, kept, True, "successful descriptions are lost (or failed ones kept) between sampling and grouping"))
        elif flat != want or not all(names[i % 3] == k for k, v in groups.items() for i in v):
            res.disagreements.append(Disagreement("S20-gather", case, want, groups, True, "after grouping, not every successful description is in exactly one group under its own name"))
    res.samples = [{"kinds": cases[3], "response": resps[3]}]
    return res


def s20_generated_group(ctx):
    if ctx.gen is None:
        r = StreamResult("S20-generated-group", note="gen_c20 not built (a generated module is broken): skipped")
        r.skipped["generated_driver_not_built"] = 1
        return r
    return s20_group(ctx, ctx.gen, "S20-generated-group")


def s20_generated_aggregate(ctx):
    if ctx.gen is None:
        r = StreamResult("S20-generated-aggregate", note="gen_c20 not built (a generated module is broken): skipped")
        r.skipped["generated_driver_not_built"] = 1
        return r
    return s20_aggregate(ctx, ctx.gen, "S20-generated-aggregate")


def s20_circles(ctx):
    import_fractopo()
    import random

    import geopandas as gpd
    import numpy as np
    from shapely.geometry import LineString, Point

    from fractopo.analysis.random_sampling import NetworkRandomSampler, RandomChoice
    from fractopo.general import crop_to_target_areas

    res = StreamResult("S20-circles", rule="random target circles (radius 5..50, any centre; every sampler of the run has the same name; every other source frame with shuffled integer labels) x min radii x both random-choice modes x RNG seeds; radius and containment judged against the circle the sampler was given; "
                       "sample network compared with the direct crop of the source traces to the sample circle; non-trivial = distinct sample")
    rng = rng_for(ctx.seed, "S20c")
    reqs, meta = [], []
    n = budget(ctx.tier, 60, 1500)
    for i in range(n):
        R = rng.choice([5.0, 10.0, 50.0])
        cx, cy = rng.choice([(0.0, 0.0), (100.0, -40.0), (5e5, 6.7e6)])
        target = Point(cx, cy).buffer(R)
        traces = gpd.GeoDataFrame(geometry=[LineString([(cx - 2 * R, cy + k * R / 4), (cx + 2 * R, cy + k * R / 4 + rng.uniform(-1, 1))]) for k in range(-3, 4)])
        if i % 2 == 1:
            # a caller's frame whose integer labels are not the row positions (sorted / shuffled / concatenated data)
            labels = list(range(len(traces)))
            random.Random(i).shuffle(labels)
            traces.index = labels
        rmin = rng.choice([0.1, 0.5, 0.9]) * R
        mode = rng.choice([RandomChoice.radius, RandomChoice.area])
        seed = rng.randint(0, 2**31)
        random.seed(seed)
        np.random.seed(seed % 2**32)
        determine = i % 10 == 0
        try:
            sampler = NetworkRandomSampler(trace_gdf=traces, area_gdf=gpd.GeoDataFrame(geometry=[target]), min_radius=rmin, snap_threshold=0.001, random_choice=mode, name="s")
            sample = sampler.random_network_sample(determine_branches_nodes=determine)
        except Exception as e:  # noqa: BLE001
            res.evaluations += 1
            res.disagreements.append(Disagreement("S20-circles", {"stream": "S20-circles", "seed": seed, "R": R, "centre": [cx, cy], "rmin": rmin, "mode": mode.value, "case_number": i},
                                                  "a sample circle inside the target", f"{type(e).__name__}: {str(e)[:200]}", True,
                                                  "sampling raised for a minimum radius below the target radius (after earlier samplers of the same name in this process)"))
            continue
        # the target circle's radius and centre are taken from the circle the sampler was GIVEN, not read back from the sampler (all samplers of a
        # run share one name, as networks left at their default name do: nothing may be remembered per name)
        Rmax = float(np.sqrt(target.area / np.pi))
        c0 = target.centroid
        reqs.append(f"circle R={rat(Rmax)} r={rat(sample.radius)} rmin={rat(rmin)} cx={rat(c0.x)} cy={rat(c0.y)} x={rat(sample.target_centroid.x)} y={rat(sample.target_centroid.y)}")
        # sample network = source traces clipped to the sample circle
        net = sample.network_maybe
        clip_ok = None
        if net is not None:
            direct = crop_to_target_areas(traces, net.area_gdf, keep_column_data=True)
            a = sorted(g.wkt for g in net.trace_gdf.geometry.values)
            b = sorted(g.wkt for g in direct.geometry.values)
            clip_ok = a == b
        meta.append({"seed": seed, "R": R, "centre": [cx, cy], "rmin": rmin, "mode": mode.value, "radius": sample.radius, "index": [int(x) for x in traces.index],
                     "sample_centre": [sample.target_centroid.x, sample.target_centroid.y], "clip_ok": clip_ok})
    resps = ctx.driver.batch(reqs)
    for m, req, resp in zip(meta, reqs, resps):
        res.evaluations += 1
        res.nontrivial += 1
        r = parse_resp(resp)
        res.distribution[m["mode"]] = res.distribution.get(m["mode"], 0) + 1
        if r.get("inrange") != "1" or r.get("inside") != "1" or m["clip_ok"] is False:
            res.disagreements.append(Disagreement("S20-circles", dict(m, stream="S20-circles", request=req), "inrange=1 inside=1 clip=sample", resp + f" clip_ok={m['clip_ok']}", True,
                                                  "sample circle radius out of range / not inside the target circle / sample network is not the clip"))
    res.samples = [meta[0]]
    return res


STREAMS = [s20_group, s20_gather, s20_aggregate, s20_circles, s20_generated_group, s20_generated_aggregate]


def replay(ctx, stream, case):
    import_fractopo()
    if stream == "S20-generated-group":
        r = s20_generated_group(ctx)
        return r.disagreements[0] if r.disagreements else None
    if stream == "S20-generated-aggregate":
        r = s20_generated_aggregate(ctx)
        return r.disagreements[0] if r.disagreements else None
    if stream == "S20-gather":
        c = case["kinds"]
        kept, groups = gather_case(c)
        want = [i for i, k in enumerate(c) if k == "d"]
        ok = kept == want and sorted(i for v in groups.values() for i in v) == want
        return None if ok else Disagreement(stream, case, want, {"kept": kept, "groups": groups}, True, "successful descriptions are lost between sampling and grouping")
    if stream == "S20-group":
        from fractopo.analysis.subsampling import group_gathered_subsamples

        c = case["names"]
        got = {k: [d["i"] for d in v] for k, v in group_gathered_subsamples([{"Name": n, "i": i} for i, n in enumerate(c)]).items()}
        flat = sorted(i for v in got.values() for i in v)
        ok = flat == list(range(len(c))) and all(c[i] == k for k, v in got.items() for i in v)
        return None if ok else Disagreement(stream, case, "partition", got, True)
    if stream == "S20-aggregate":
        cols, rows = case["cols"], case["rows"]
        req = "aggregate cols=" + ";".join(c.replace(" ", "_") for c in cols) + " rows=" + ";".join(",".join(enc_cell(r[c]) for c in cols) for r in rows)
        bad, model, got = agg_compare(ctx, cols, rows, ctx.driver.batch([req])[0])
        return Disagreement(stream, case, model, got, True, str(bad)) if bad else None
    r = s20_circles(ctx)
    return r.disagreements[0] if r.disagreements else None
